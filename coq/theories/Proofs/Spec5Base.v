(* Proofs/Spec5Base.v — toolkit for Proofs/Spec5.v: the v5 family against the reference parser SP.

   Contents
     1. `sim m m'`: the model reader m is, through `ro` (forget the error kind) and on lists of
        bytes, the slice parser m' — closed under bind; the read primitives.
     2. variable byte integers: decode_var_int against SP.p_vbi strict / lenient.
     3. the property table of the spec against prop_of_u8 / prop_wtype / the macro argument lists.
     4. property values, one property (`item_m`), the section loop, the whole section:
          props_lenient   sections without a variable-byte-integer value: decode_props is p_props false;
          props_strict    every section: p_props true accepts exactly when decode_props_full accepts
                          AND consumed the minimal number of bytes (same value).
     5. monotonicity: what the strict grammar accepts the lenient grammar accepts, same value. *)
From MQ Require Import Proofs.Tactics Proofs.VarIntLaws Proofs.Parses Proofs.TopicNameEq
  Proofs.TopicFilterEq Proofs.V3RT Proofs.PropsRT Spec.SpecParse Model.Valid Proofs.Spec3Base Proofs.Spec5Def.
From MQ Require Proofs.Stable Proofs.Totality.
Open Scope N_scope.
Import SP.

(* ------------------------------------------------------------------------------------------ *)
(* 1. simulation on byte lists                                                                *)
(* ------------------------------------------------------------------------------------------ *)
Definition okrest {A} (o : option (A * bytes)) : Prop :=
  match o with Some (_, d') => bytes_okb d' = true | None => True end.

Definition sim {A} (m : reader A) (m' : sp A) : Prop :=
  forall t d, bytes_okb d = true -> ro (m t d) = m' d /\ okrest (m' d).

Lemma sim_bind {A B} (m : reader A) (f : A -> reader B) (m' : sp A) (f' : A -> sp B) :
  sim m m' -> (forall a, sim (f a) (f' a)) -> sim (bind m f) (sbind m' f').
Proof.
  intros H1 H2 t d Hd. destruct (H1 t d Hd) as [E1 O1]. rewrite ro_bind, E1. unfold sbind.
  destruct (m' d) as [[a d']|]; [|split; [reflexivity|exact I]].
  cbn [okrest] in O1. exact (H2 a t d' O1).
Qed.

Lemma sim_ret {A} (a : A) : sim (ret a) (sret a).
Proof. intros t d Hd. split; [reflexivity|exact Hd]. Qed.
Lemma sim_fail {A} e : sim (@fail A e) sfail.
Proof. intros t d Hd. split; [reflexivity|exact I]. Qed.
Lemma sim_none {A} (m : reader A) : (forall t d, ro (m t d) = None) -> sim m sfail.
Proof. intros H t d Hd. split; [apply H|exact I]. Qed.
Lemma sim_ext {A} (m1 m2 : reader A) (m1' m2' : sp A) :
  (forall t d, m1 t d = m2 t d) -> (forall d, m1' d = m2' d) -> sim m1 m1' -> sim m2 m2'.
Proof. intros E1 E2 H t d Hd. rewrite <- E1, <- E2. exact (H t d Hd). Qed.
Lemma sim_ext_r {A} (m : reader A) (m1' m2' : sp A) :
  (forall d, m1' d = m2' d) -> sim m m1' -> sim m m2'.
Proof. intros E. apply sim_ext; [reflexivity|exact E]. Qed.
Lemma sim_ext_l {A} (m1 m2 : reader A) (m' : sp A) :
  (forall t d, m1 t d = m2 t d) -> sim m1 m' -> sim m2 m'.
Proof. intros E. apply sim_ext; [exact E|reflexivity]. Qed.

(* unconditional ro-equalities are simulations when the slice parser returns a suffix *)
Definition suffixing {A} (m' : sp A) : Prop := forall d a d', m' d = Some (a, d') -> exists c, d = c ++ d'.
Lemma sim_of_ro {A} (m : reader A) (m' : sp A) :
  (forall t d, ro (m t d) = m' d) -> suffixing m' -> sim m m'.
Proof.
  intros H S t d Hd. split; [apply H|]. destruct (m' d) as [[a d']|] eqn:E; [|exact I].
  destruct (S _ _ _ E) as [c ->]. rewrite bytes_okb_app in Hd. apply andb_true_iff in Hd as [_ Hd]. exact Hd.
Qed.

Lemma suffixing_u8 : suffixing p_u8.
Proof. intros [|b r] a d' H; inversion H; subst. exists [a]. reflexivity. Qed.
Lemma suffixing_bind {A B} (m : sp A) (f : A -> sp B) :
  suffixing m -> (forall a, suffixing (f a)) -> suffixing (sbind m f).
Proof.
  intros Hm Hf d b d' H. unfold sbind in H. destruct (m d) as [[a d1]|] eqn:E; [|discriminate].
  destruct (Hm _ _ _ E) as [c1 ->]. destruct (Hf a _ _ _ H) as [c2 ->]. exists (c1 ++ c2). rewrite app_assoc. reflexivity.
Qed.
Lemma suffixing_ret {A} (a : A) : suffixing (sret a).
Proof. intros d x d' H. inversion H; subst. exists []. reflexivity. Qed.
Lemma suffixing_fail {A} : suffixing (@sfail A).
Proof. intros d x d' H. discriminate H. Qed.
Lemma suffixing_guard b : suffixing (sguard b).
Proof. destruct b; [apply suffixing_ret|apply suffixing_fail]. Qed.
Lemma suffixing_slice n : suffixing (p_slice n).
Proof. intros d a d' H. apply take_some in H as [-> _]. exists a. reflexivity. Qed.
Lemma suffixing_u16 : suffixing p_u16.
Proof. repeat (apply suffixing_bind; [apply suffixing_u8|intros ?]). apply suffixing_ret. Qed.
Lemma suffixing_bin : suffixing p_bin.
Proof. apply suffixing_bind; [apply suffixing_u16|intros n; apply suffixing_slice]. Qed.
Lemma suffixing_str : suffixing p_str.
Proof.
  apply suffixing_bind; [apply suffixing_bin|intros s].
  apply suffixing_bind; [apply suffixing_guard|intros _; apply suffixing_ret].
Qed.
Lemma suffixing_pid : suffixing p_pid.
Proof.
  apply suffixing_bind; [apply suffixing_u16|intros v].
  apply suffixing_bind; [apply suffixing_guard|intros _; apply suffixing_ret].
Qed.

Lemma sim_read_u8 : sim read_u8 p_u8.
Proof. apply sim_of_ro; [apply ro_read_u8|apply suffixing_u8]. Qed.
Lemma sim_read_u16 : sim read_u16 p_u16.
Proof. apply sim_of_ro; [apply ro_read_u16|apply suffixing_u16]. Qed.
Lemma sim_read_bytes : sim read_bytes p_bin.
Proof. apply sim_of_ro; [apply ro_read_bytes|apply suffixing_bin]. Qed.
Lemma sim_read_string : sim read_string p_str.
Proof. apply sim_of_ro; [apply ro_read_string|apply suffixing_str]. Qed.
Lemma sim_pid_read : sim V3.pid_read p_pid.
Proof. apply sim_of_ro; [apply ro_pid_read|apply suffixing_pid]. Qed.
Lemma sim_read_exact n : sim (read_exact n) (p_slice n).
Proof. apply sim_of_ro; [intros; apply ro_read_exact|apply suffixing_slice]. Qed.

Lemma ro_read_u32 t d : ro (read_u32 t d) = p_u32 d.
Proof.
  destruct d as [|a [|b [|c [|e r]]]]; try reflexivity.
  unfold read_u32, p_u32, p_u16, sbind, p_u8, sret, ro. f_equal. f_equal. lia.
Qed.
Lemma suffixing_u32 : suffixing p_u32.
Proof. repeat (apply suffixing_bind; [apply suffixing_u16|intros ?]). apply suffixing_ret. Qed.
Lemma sim_read_u32 : sim read_u32 p_u32.
Proof. apply sim_of_ro; [apply ro_read_u32|apply suffixing_u32]. Qed.

(* what a simulation gives for one run *)
Lemma sim_ok {A} (m : reader A) (m' : sp A) t d a d' :
  sim m m' -> bytes_okb d = true -> m t d = ROk a d' -> m' d = Some (a, d').
Proof. intros H Hd E. destruct (H t d Hd) as [<- _]. rewrite E. reflexivity. Qed.
Lemma sim_some {A} (m : reader A) (m' : sp A) t d a d' :
  sim m m' -> bytes_okb d = true -> m' d = Some (a, d') -> m t d = ROk a d'.
Proof. intros H Hd E. destruct (H t d Hd) as [E1 _]. rewrite E in E1. apply ro_some. exact E1. Qed.

Lemma bytes_okb_suffix c d : bytes_okb (c ++ d) = true -> bytes_okb d = true.
Proof. rewrite bytes_okb_app. intros H. apply andb_true_iff in H as [_ H]. exact H. Qed.
Lemma bytes_okb_prefix c d : bytes_okb (c ++ d) = true -> bytes_okb c = true.
Proof. rewrite bytes_okb_app. intros H. apply andb_true_iff in H as [H _]. exact H. Qed.

(* ------------------------------------------------------------------------------------------ *)
(* 2. variable byte integers                                                                  *)
(* ------------------------------------------------------------------------------------------ *)
Lemma okb_cons_inv b d : bytes_okb (b :: d) = true -> b < 256 /\ bytes_okb d = true.
Proof. rewrite bytes_okb_cons. intros H. apply andb_true_iff in H as [H1 H2]. apply N.ltb_lt in H1. split; assumption. Qed.

Ltac vbi_guard :=
  cbn [negb orb sguard]; unfold sbind, sret, sfail.

(* the reader against both modes of the grammar, with the number of bytes used *)
Lemma dvi_char t d : bytes_okb d = true ->
  match decode_var_int t d with
  | ROk (v, k) d' =>
      p_vbi false d = Some (v, d') /\ len d = k + len d' /\ width v <= k /\ v < VMAX /\
      bytes_okb d' = true /\
      p_vbi true d = (if k =? width v then Some (v, d') else None)
  | _ => p_vbi false d = None /\ p_vbi true d = None
  end.
Proof.
  intros Hd. unfold decode_var_int, VMAX.
  destruct d as [|b0 d]; [split; reflexivity|]. apply okb_cons_inv in Hd as [H0 Hd].
  cbn [decode_var_int_loop]. change (2 ^ (7 * 0)) with 1.
  unfold p_vbi. rewrite !sbind_u8.
  destruct (N.ltb_spec b0 128) as [L0|L0].
  { replace (0 + b0 mod 128 * 1) with b0 by lia. rewrite len_cons.
    assert (W : width b0 = 1) by (unfold width; destruct (N.ltb_spec b0 128); [reflexivity|lia]).
    rewrite W. repeat split; try reflexivity; try lia. exact Hd. }
  destruct d as [|b1 d]; [split; reflexivity|]. apply okb_cons_inv in Hd as [H1 Hd].
  change (2 ^ (7 * (0 + 1))) with 128. rewrite !sbind_u8.
  destruct (N.ltb_spec b1 128) as [L1|L1].
  { vbi_guard.
    replace (0 + b0 mod 128 * 1 + b1 mod 128 * 128) with (b0 - 128 + 128 * b1) by lia.
    rewrite !len_cons. set (v := b0 - 128 + 128 * b1).
    split; [reflexivity|]. split; [lia|].
    assert (Wv : if 0 <? b1 then width v = 2 else width v < 2).
    { unfold width, v. destruct (N.ltb_spec 0 b1); repeat dtest; lia. }
    destruct (N.ltb_spec 0 b1).
    - rewrite Wv. repeat split; try reflexivity; try lia; try (unfold v; lia); exact Hd.
    - destruct (N.eqb_spec (0 + 1 + 1) (width v)) as [E|E]; [exfalso; lia|].
      repeat split; try reflexivity; try lia; try (unfold v; lia); exact Hd. }
  destruct d as [|b2 d]; [split; reflexivity|]. apply okb_cons_inv in Hd as [H2 Hd].
  change (2 ^ (7 * (0 + 1 + 1))) with 16384. rewrite !sbind_u8.
  destruct (N.ltb_spec b2 128) as [L2|L2].
  { vbi_guard.
    replace (0 + b0 mod 128 * 1 + b1 mod 128 * 128 + b2 mod 128 * 16384)
      with (b0 - 128 + 128 * (b1 - 128) + 16384 * b2) by lia.
    rewrite !len_cons. set (v := b0 - 128 + 128 * (b1 - 128) + 16384 * b2).
    split; [reflexivity|]. split; [lia|].
    assert (Wv : if 0 <? b2 then width v = 3 else width v < 3).
    { unfold width, v. destruct (N.ltb_spec 0 b2); repeat dtest; lia. }
    destruct (N.ltb_spec 0 b2).
    - rewrite Wv. repeat split; try reflexivity; try lia; try (unfold v; lia); exact Hd.
    - destruct (N.eqb_spec (0 + 1 + 1 + 1) (width v)) as [E|E]; [exfalso; lia|].
      repeat split; try reflexivity; try lia; try (unfold v; lia); exact Hd. }
  destruct d as [|b3 d]; [split; reflexivity|]. apply okb_cons_inv in Hd as [H3 Hd].
  change (2 ^ (7 * (0 + 1 + 1 + 1))) with 2097152. rewrite !sbind_u8.
  destruct (N.ltb_spec b3 128) as [L3|L3]; [|split; reflexivity].
  vbi_guard.
  replace (0 + b0 mod 128 * 1 + b1 mod 128 * 128 + b2 mod 128 * 16384 + b3 mod 128 * 2097152)
    with (b0 - 128 + 128 * (b1 - 128) + 16384 * (b2 - 128) + 2097152 * b3) by lia.
  rewrite !len_cons. set (v := b0 - 128 + 128 * (b1 - 128) + 16384 * (b2 - 128) + 2097152 * b3).
  split; [reflexivity|]. split; [lia|].
  assert (Wv : if 0 <? b3 then width v = 4 else width v < 4).
  { unfold width, v. destruct (N.ltb_spec 0 b3); repeat dtest; lia. }
  destruct (N.ltb_spec 0 b3).
  - rewrite Wv. repeat split; try reflexivity; try lia; try (unfold v; lia); exact Hd.
  - destruct (N.eqb_spec (0 + 1 + 1 + 1 + 1) (width v)) as [E|E]; [exfalso; lia|].
    repeat split; try reflexivity; try lia; try (unfold v; lia); exact Hd.
Qed.

(* ------------------------------------------------------------------------------------------ *)
(* 3. the property table                                                                      *)
(* ------------------------------------------------------------------------------------------ *)
Ltac split_pos p n :=
  match n with
  | O => idtac
  | S ?m => destruct p as [p|p|]; [split_pos p m | split_pos p m | idtac]
  end.

Lemma prop_of_u8_prop b id : prop_of_u8 b = Some (KProp id) -> b = prop_num id.
Proof.
  destruct b as [|p]; [discriminate|]. split_pos p 6%nat; cbn; intros H; try discriminate H;
    inversion H; reflexivity.
Qed.
Lemma prop_of_u8_user b : prop_of_u8 b = Some KUser -> b = 38.
Proof.
  destruct b as [|p]; [discriminate|]. split_pos p 6%nat; cbn; intros H; try discriminate H; reflexivity.
Qed.
Lemma prop_of_u8_none b : prop_of_u8 b = None -> (b =? 38) = false.
Proof.
  destruct b as [|p]; [reflexivity|]. split_pos p 6%nat; cbn; intros H; try discriminate H; reflexivity.
Qed.

Lemma id_of_num_num id : id_of_num (prop_num id) = Some id.
Proof. unfold id_of_num. rewrite prop_of_num. reflexivity. Qed.
Lemma prop_num_user id : (prop_num id =? 38) = false.
Proof. destruct id; reflexivity. Qed.

(* the wire type of the table is the model's *)
Lemma table_lookup id : exists cs, lookup_prop (prop_num id) prop_table = Some (prop_wtype id, cs).
Proof. destruct id; eexists; reflexivity. Qed.

Definition carrier_has (carrier : N) (id : prop_id) : bool :=
  match lookup_prop (prop_num id) prop_table with
  | Some (_, cs) => Spec.mem carrier cs
  | None => false
  end.

(* a macro argument list `L` of the code lists exactly the properties the table allows for `carrier` *)
Definition tab (L : list prop_id) (carrier : N) : Prop := forall id, prop_mem id L = carrier_has carrier id.

Lemma tab_connect : tab CONNECT_PROPS 1. Proof. intros id; destruct id; reflexivity. Qed.
Lemma tab_will : tab WILL_PROPS W. Proof. intros id; destruct id; reflexivity. Qed.
Lemma tab_connack : tab CONNACK_PROPS 2. Proof. intros id; destruct id; reflexivity. Qed.
Lemma tab_publish : tab PUBLISH_PROPS 3. Proof. intros id; destruct id; reflexivity. Qed.
Lemma tab_puback : tab ACK_PROPS 4. Proof. intros id; destruct id; reflexivity. Qed.
Lemma tab_pubrec : tab ACK_PROPS 5. Proof. intros id; destruct id; reflexivity. Qed.
Lemma tab_pubrel : tab ACK_PROPS 6. Proof. intros id; destruct id; reflexivity. Qed.
Lemma tab_pubcomp : tab ACK_PROPS 7. Proof. intros id; destruct id; reflexivity. Qed.
Lemma tab_subscribe : tab SUBSCRIBE_PROPS 8. Proof. intros id; destruct id; reflexivity. Qed.
Lemma tab_suback : tab ACK_PROPS 9. Proof. intros id; destruct id; reflexivity. Qed.
Lemma tab_unsubscribe : tab UNSUBSCRIBE_PROPS 10. Proof. intros id; destruct id; reflexivity. Qed.
Lemma tab_unsuback : tab ACK_PROPS 11. Proof. intros id; destruct id; reflexivity. Qed.
Lemma tab_disconnect : tab DISCONNECT_PROPS 14. Proof. intros id; destruct id; reflexivity. Qed.
Lemma tab_auth : tab AUTH_PROPS 15. Proof. intros id; destruct id; reflexivity. Qed.

(* sections that cannot contain a variable byte integer value *)
Definition novar (L : list prop_id) : Prop := prop_mem SubscriptionIdentifier L = false.
Lemma wvar_is_subid id : prop_wtype id = WVar -> id = SubscriptionIdentifier.
Proof. destruct id; intros H; try discriminate H; reflexivity. Qed.
Lemma novar_type L id : novar L -> prop_mem id L = true -> prop_wtype id <> WVar.
Proof. intros Hn Hm E. apply wvar_is_subid in E. subst id. unfold novar in Hn. congruence. Qed.

(* ------------------------------------------------------------------------------------------ *)
(* 4. property values                                                                         *)
(* ------------------------------------------------------------------------------------------ *)
(* the shape shared by every "model run against both grammar modes" statement:
   on success the lenient parser agrees, the count c never exceeds the bytes used, and the strict
   parser agrees exactly when the count is the number of bytes used *)
Definition run_char {A B} (r : res A) (proj : A -> B) (cnt : A -> N) (exact : Prop)
    (lenient strict_ : option (B * bytes)) (d : bytes) : Prop :=
  match r with
  | ROk a d' => lenient = Some (proj a, d') /\ bytes_okb d' = true /\ cnt a + len d' <= len d /\
                (exact -> len d = cnt a + len d') /\
                strict_ = (if len d =? cnt a + len d' then Some (proj a, d') else None)
  | _ => lenient = None /\ strict_ = None
  end.

Lemma fixed_char {A} (m : reader A) (m' : sp A) (cnt : A -> N) (exact : Prop) t d :
  (forall t d, ro (m t d) = m' d) -> suffixing m' ->
  (forall d v d', m' d = Some (v, d') -> len d = cnt v + len d') ->
  bytes_okb d = true -> run_char (m t d) (fun v => v) cnt exact (m' d) (m' d) d.
Proof.
  intros Hro Hs Hl Hd. unfold run_char. pose proof (Hro t d) as E.
  destruct (m t d) as [v d'|e|s]; cbn [ro] in E; symmetry in E; [|split; exact E|split; exact E].
  pose proof (Hl _ _ _ E) as L. destruct (Hs _ _ _ E) as [c Hc]. subst d.
  rewrite L, N.eqb_refl. repeat split; try exact E; try lia. exact (bytes_okb_suffix _ _ Hd).
Qed.

Lemma suffixing_name : suffixing p_name.
Proof.
  apply suffixing_bind; [apply suffixing_str|intros s].
  apply suffixing_bind; [apply suffixing_guard|intros _; apply suffixing_ret].
Qed.

Lemma guard_some {A} (b : bool) (a : A) d x d' :
  (_ <~ sguard b ;; sret a) d = Some (x, d') -> b = true /\ x = a /\ d' = d.
Proof. destruct b; cbn; intros H; inversion H; auto. Qed.

Lemma p_u32_some d v d' : p_u32 d = Some (v, d') -> len d = 4 + len d'.
Proof.
  unfold p_u32, sbind at 1. destruct (p_u16 d) as [[a d1]|] eqn:E1; [|discriminate].
  unfold sbind at 1. destruct (p_u16 d1) as [[b d2]|] eqn:E2; [|discriminate].
  unfold sret. intros H; inversion H; subst. apply p_u16_some in E1. apply p_u16_some in E2. lia.
Qed.

Lemma value_char id t d : bytes_okb d = true ->
  run_char (decode_value id t d) (fun v => v) (value_len (prop_wtype id)) (prop_wtype id <> WVar)
           (p_value false (prop_wtype id) d) (p_value true (prop_wtype id) d) d.
Proof.
  intros Hd. unfold decode_value. destruct (prop_wtype id) eqn:Ety; cbn [p_value].
  - (* WBool *)
    apply fixed_char; [| |intros d0 v d0'|exact Hd].
    + intros t0 d0. apply ro_bind_ext; [apply ro_read_u8|]. intros v d1.
      destruct (N.ltb_spec 1 v); destruct (N.leb_spec v 1); try (exfalso; lia); reflexivity.
    + apply suffixing_bind; [apply suffixing_u8|intros b].
      apply suffixing_bind; [apply suffixing_guard|intros _; apply suffixing_ret].
    + unfold sbind at 1. destruct (p_u8 d0) as [[b d1]|] eqn:E; [|discriminate]. apply p_u8_some in E. subst d0.
      intros H. apply guard_some in H as (_ & -> & ->). rewrite len_cons. reflexivity.
  - (* WU16 *)
    apply fixed_char; [| |intros d0 v d0'|exact Hd].
    + intros t0 d0. apply ro_bind_ext; [apply ro_read_u16|]. reflexivity.
    + apply suffixing_bind; [apply suffixing_u16|intros b; apply suffixing_ret].
    + unfold sbind at 1. destruct (p_u16 d0) as [[b d1]|] eqn:E; [|discriminate]. apply p_u16_some in E.
      unfold sret. intros H; inversion H; subst. exact E.
  - (* WU32 *)
    apply fixed_char; [| |intros d0 v d0'|exact Hd].
    + intros t0 d0. apply ro_bind_ext; [apply ro_read_u32|]. reflexivity.
    + apply suffixing_bind; [apply suffixing_u32|intros b; apply suffixing_ret].
    + unfold sbind at 1. destruct (p_u32 d0) as [[b d1]|] eqn:E; [|discriminate]. apply p_u32_some in E.
      unfold sret. intros H; inversion H; subst. exact E.
  - (* WStr *)
    apply fixed_char; [| |intros d0 v d0'|exact Hd].
    + intros t0 d0. apply ro_bind_ext; [apply ro_read_string|]. reflexivity.
    + apply suffixing_bind; [apply suffixing_str|intros b; apply suffixing_ret].
    + unfold sbind at 1. destruct (p_str d0) as [[b d1]|] eqn:E; [|discriminate]. apply p_str_some in E as (_ & _ & E).
      unfold sret. intros H; inversion H; subst. cbn [value_len pv_b]. lia.
  - (* WTopic *)
    apply fixed_char; [| |intros d0 v d0'|exact Hd].
    + intros t0 d0. unfold p_name. rewrite sbind_assoc. apply ro_bind_ext; [apply ro_read_string|]. intros s d1.
      rewrite name_spec. destruct (Spec.topic_name_ok s); reflexivity.
    + apply suffixing_bind; [apply suffixing_name|intros b; apply suffixing_ret].
    + unfold p_name. rewrite sbind_assoc. unfold sbind at 1.
      destruct (p_str d0) as [[b d1]|] eqn:E; [|discriminate]. apply p_str_some in E as (_ & _ & E).
      destruct (Spec.topic_name_ok b); cbn; intros H; inversion H; subst. cbn [value_len pv_b]. lia.
  - (* WBin *)
    apply fixed_char; [| |intros d0 v d0'|exact Hd].
    + intros t0 d0. apply ro_bind_ext; [apply ro_read_bytes|]. reflexivity.
    + apply suffixing_bind; [apply suffixing_bin|intros b; apply suffixing_ret].
    + unfold sbind at 1. destruct (p_bin d0) as [[b d1]|] eqn:E; [|discriminate]. apply p_bin_some in E.
      unfold sret. intros H; inversion H; subst. cbn [value_len pv_b]. lia.
  - (* WVar *)
    pose proof (dvi_char t d Hd) as C. unfold bind at 1.
    destruct (decode_var_int t d) as [[v k] d'|e|s]; unfold run_char.
    + destruct C as (C1 & C2 & C3 & C4 & C5 & C6). unfold bind at 1.
      rewrite (var_byte_int_try_ok _ C4). cbn [lift_outcome ret]. cbn [value_len pv_n].
      rewrite (var_int_len_ok _ C4). unfold sbind. rewrite C1, C6. unfold sret.
      repeat split; try assumption; try lia.
      * intros H. exfalso. apply H. reflexivity.
      * replace (len d =? width v + len d') with (k =? width v); [destruct (k =? width v); reflexivity|].
        destruct (N.eqb_spec k (width v)); destruct (N.eqb_spec (len d) (width v + len d')); try reflexivity; exfalso; lia.
    + destruct C as [C1 C2]. unfold sbind. rewrite C1, C2. split; reflexivity.
    + destruct C as [C1 C2]. unfold sbind. rewrite C1, C2. split; reflexivity.
  - (* WQos *)
    apply fixed_char; [| |intros d0 v d0'|exact Hd].
    + intros t0 d0. apply ro_bind_ext; [apply ro_read_u8|]. intros v d1. unfold qos_of_u8.
      destruct (N.ltb_spec 1 v); destruct (N.leb_spec v 1); try (exfalso; lia); [reflexivity|].
      destruct (N.ltb_spec v 3); [reflexivity|exfalso; lia].
    + apply suffixing_bind; [apply suffixing_u8|intros b].
      apply suffixing_bind; [apply suffixing_guard|intros _; apply suffixing_ret].
    + unfold sbind at 1. destruct (p_u8 d0) as [[b d1]|] eqn:E; [|discriminate]. apply p_u8_some in E. subst d0.
      intros H. apply guard_some in H as (_ & -> & ->). rewrite len_cons. reflexivity.
Qed.

(* ------------------------------------------------------------------------------------------ *)
(* 4b. one property                                                                           *)
(* ------------------------------------------------------------------------------------------ *)
(* one iteration of decode_properties!: the new accumulator and what is added to the count *)
Definition item_m (ctx : prop_ctx) (L : list prop_id) (acc : props) : reader (props * N) :=
  b <- read_u8 ;;
  match prop_of_u8 b with
  | None => fail (InvalidPropertyId b)
  | Some KUser =>
    name <- read_string ;;
    value <- read_string ;;
    ret (pset_user acc (pr_user acc ++ [(name, value)]), 1 + 4 + len name + len value)
  | Some (KProp id) =>
    if prop_mem id L then
      match pget acc id with
      | Some _ => fail (DuplicatedProperty (prop_num id))
      | None => v <- decode_value id ;; ret (pset acc id (Some v), 1 + value_len (prop_wtype id) v)
      end
    else fail (ctx_err ctx id)
  end.

Lemma loop_unfold f ctx L plen n acc t d :
  decode_props_loop (S f) ctx L plen n acc t d =
  if plen <=? n then (if plen =? n then ret acc else fail (InvalidPropertyLength plen)) t d
  else (x <- item_m ctx L acc ;; decode_props_loop f ctx L plen (n + snd x) (fst x)) t d.
Proof.
  cbn [decode_props_loop]. destruct (plen <=? n); [reflexivity|].
  unfold item_m, bind. destruct (read_u8 t d) as [b d1|e|s]; try reflexivity.
  destruct (prop_of_u8 b) as [[|id]|]; try reflexivity.
  - destruct (read_string t d1) as [name d2|e|s]; try reflexivity.
    destruct (read_string t d2) as [value d3|e|s]; reflexivity.
  - destruct (prop_mem id L); [|reflexivity]. destruct (pget acc id); [reflexivity|].
    destruct (decode_value id t d1) as [v d2|e|s]; reflexivity.
Qed.

Lemma stable_item_m ctx L acc : Stable.stable (item_m ctx L acc).
Proof.
  unfold item_m. apply Stable.stable_bind; [apply Stable.stable_read_u8|intros b].
  destruct (prop_of_u8 b) as [[|id]|].
  - apply Stable.stable_bind; [apply Stable.stable_read_string|intros name].
    apply Stable.stable_bind; [apply Stable.stable_read_string|intros value]. apply Stable.stable_ret.
  - destruct (prop_mem id L).
    + destruct (pget acc id).
      * apply Stable.stable_fail. reflexivity.
      * apply Stable.stable_bind; [apply Stable.stable_decode_value|intros v]. apply Stable.stable_ret.
    + apply Stable.stable_fail. apply Stable.is_det_ctx_err.
  - apply Stable.stable_fail. reflexivity.
Qed.

Lemma item_char ctx L carrier acc t d : tab L carrier -> bytes_okb d = true ->
  run_char (item_m ctx L acc t d) fst snd (novar L) (p_prop false carrier acc d) (p_prop true carrier acc d) d.
Proof.
  intros Ht Hd. destruct d as [|b r]; [split; reflexivity|]. apply okb_cons_inv in Hd as [Hb Hr].
  unfold item_m. unfold bind at 1. cbn [read_u8]. unfold p_prop. rewrite !sbind_u8.
  destruct (prop_of_u8 b) as [[|id]|] eqn:Eb.
  - (* user property *)
    apply prop_of_u8_user in Eb. subst b. change (38 =? 38) with true. cbv iota.
    unfold bind at 1. pose proof (ro_read_string t r) as E1.
    destruct (read_string t r) as [name d1|e|s]; cbn [ro] in E1; symmetry in E1;
      [|unfold sbind; rewrite E1; split; reflexivity|unfold sbind; rewrite E1; split; reflexivity].
    destruct (suffixing_str _ _ _ E1) as [c1 Hc1]. pose proof (p_str_some _ _ _ E1) as (_ & _ & L1).
    assert (Hd1 : bytes_okb d1 = true) by (subst r; exact (bytes_okb_suffix _ _ Hr)).
    unfold bind at 1. pose proof (ro_read_string t d1) as E2.
    destruct (read_string t d1) as [value d2|e|s]; cbn [ro] in E2; symmetry in E2;
      [|unfold sbind; rewrite E1, E2; split; reflexivity|unfold sbind; rewrite E1, E2; split; reflexivity].
    destruct (suffixing_str _ _ _ E2) as [c2 Hc2]. pose proof (p_str_some _ _ _ E2) as (_ & _ & L2).
    assert (Hd2 : bytes_okb d2 = true) by (subst d1; exact (bytes_okb_suffix _ _ Hd1)).
    unfold ret, run_char. cbn [fst snd]. unfold sbind. rewrite E1, E2. unfold sret. rewrite len_cons.
    assert (Ll : 1 + len r = 1 + 4 + len name + len value + len d2) by lia. rewrite Ll, N.eqb_refl.
    repeat split; try assumption; try lia.
  - (* a property of the table *)
    apply prop_of_u8_prop in Eb. subst b. rewrite prop_num_user.
    destruct (table_lookup id) as [cs Hcs]. rewrite Hcs, id_of_num_num.
    rewrite (Ht id). unfold carrier_has. rewrite Hcs.
    destruct (Spec.mem carrier cs) eqn:Hm; cbn [sguard]; [|split; reflexivity].
    unfold sbind at 1 4. cbn [sret].
    destruct (pget acc id) eqn:Hg; cbn [sguard]; [split; reflexivity|].
    unfold sbind at 1 3. cbn [sret].
    pose proof (value_char id t r Hr) as C. unfold bind at 1. unfold run_char in C.
    destruct (decode_value id t r) as [v d'|e|s].
    + destruct C as (C1 & C2 & C3 & C4 & C5). unfold ret, run_char. cbn [fst snd]. unfold sbind. rewrite C1, C5.
      unfold sret. rewrite len_cons. repeat split; try assumption; try lia.
      * intros Hn. assert (Hw : prop_wtype id <> WVar).
        { apply (novar_type L); [exact Hn|]. rewrite (Ht id). unfold carrier_has. rewrite Hcs. exact Hm. }
        specialize (C4 Hw). lia.
      * replace (1 + len r =? 1 + value_len (prop_wtype id) v + len d')
          with (len r =? value_len (prop_wtype id) v + len d').
        { destruct (len r =? value_len (prop_wtype id) v + len d'); reflexivity. }
        destruct (N.eqb_spec (len r) (value_len (prop_wtype id) v + len d'));
          destruct (N.eqb_spec (1 + len r) (1 + value_len (prop_wtype id) v + len d')); try reflexivity; exfalso; lia.
    + destruct C as [C1 C2]. unfold run_char, sbind. rewrite C1, C2. split; reflexivity.
    + destruct C as [C1 C2]. unfold run_char, sbind. rewrite C1, C2. split; reflexivity.
  - (* not a property identifier *)
    rewrite (prop_of_u8_none _ Eb). unfold id_of_num. rewrite Eb.
    destruct (lookup_prop b prop_table) as [[ty cs]|]; split; reflexivity.
Qed.

Lemma item_count_pos ctx L acc t d x d' : item_m ctx L acc t d = ROk x d' -> 1 <= snd x.
Proof.
  unfold item_m. unfold bind at 1. destruct (read_u8 t d) as [b d1|e|s]; try discriminate.
  destruct (prop_of_u8 b) as [[|id]|]; try discriminate.
  - unfold bind at 1. destruct (read_string t d1) as [name d2|e|s]; try discriminate.
    unfold bind at 1. destruct (read_string t d2) as [value d3|e|s]; try discriminate.
    unfold ret. intros H; inversion H; subst. cbn [snd]. lia.
  - destruct (prop_mem id L); [|discriminate]. destruct (pget acc id); [discriminate|].
    unfold bind at 1. destruct (decode_value id t d1) as [v d2|e|s]; try discriminate.
    unfold ret. intros H; inversion H; subst. cbn [snd]. lia.
Qed.

(* ------------------------------------------------------------------------------------------ *)
(* 4c. the loop: running count against slicing                                                *)
(* ------------------------------------------------------------------------------------------ *)
Lemma props_fuel_nil s f carrier acc : props_fuel s f carrier acc [] = Some (acc, []).
Proof. destruct f; reflexivity. Qed.
Lemma props_fuel_step s f carrier acc d acc1 d1 : d <> [] -> p_prop s carrier acc d = Some (acc1, d1) ->
  props_fuel s (S f) carrier acc d = props_fuel s f carrier acc1 d1.
Proof. intros Hne H. destruct d as [|x d0]; [contradiction|]. cbn [props_fuel]. rewrite H. reflexivity. Qed.

Lemma len_pos_nonnil (c : bytes) : 1 <= len c -> c <> [].
Proof. intros H E. subst c. rewrite len_nil in H. lia. Qed.
Lemma len_length_le (a : bytes) (f : nat) : (length a <= f)%nat <-> len a <= N.of_nat f.
Proof. unfold len. lia. Qed.

Section Loop.
Variables (ctx : prop_ctx) (L : list prop_id) (carrier : N) (plen : N).
Hypothesis Ht : tab L carrier.

Lemma loop_exit n (acc : props) t d p d' : plen <= n ->
  (if plen =? n then ret acc else @fail props (InvalidPropertyLength plen)) t d = ROk p d' ->
  plen = n /\ p = acc /\ d' = d.
Proof.
  intros Hle. destruct (N.eqb_spec plen n) as [E|E]; [|discriminate].
  unfold ret. intros H; inversion H; subst. repeat split.
Qed.

(* what an accepting run of the loop consumed is a sequence of properties for the lenient
   grammar; for the strict grammar too when it is not longer than the declared length *)
Lemma loop_sound : forall f n acc t d p d', bytes_okb d = true ->
  decode_props_loop f ctx L plen n acc t d = ROk p d' ->
  exists sl, d = sl ++ d' /\ plen <= n + len sl /\ (novar L -> n + len sl = plen) /\
    (forall f', (length sl <= f')%nat -> props_fuel false f' carrier acc sl = Some (p, [])) /\
    (n + len sl = plen -> forall f', (length sl <= f')%nat -> props_fuel true f' carrier acc sl = Some (p, [])).
Proof.
  induction f as [|g IH]; intros n acc t d p d' Hd H.
  - cbn [decode_props_loop] in H. destruct (N.leb_spec plen n) as [Hle|Hgt]; [|discriminate].
    apply (loop_exit _ _ _ _ _ _ Hle) in H as (-> & -> & ->).
    exists []. rewrite len_nil. repeat split; try lia; intros; apply props_fuel_nil.
  - rewrite loop_unfold in H. destruct (N.leb_spec plen n) as [Hle|Hgt].
    { apply (loop_exit _ _ _ _ _ _ Hle) in H as (-> & -> & ->).
      exists []. rewrite len_nil. repeat split; try lia; intros; apply props_fuel_nil. }
    unfold bind in H. destruct (item_m ctx L acc t d) as [[acc1 k] d1|e|s] eqn:Ei; try discriminate.
    cbn [fst snd] in H.
    destruct (Stable.ok_extend _ (stable_item_m ctx L acc) _ _ _ _ Ei) as (c & Hc & Hok). subst d.
    pose proof (item_char ctx L carrier acc t _ Ht Hd) as C0. rewrite Ei in C0. destruct C0 as (_ & Hd1 & _).
    destruct (IH _ _ _ _ _ _ Hd1 H) as (sl1 & Hs1 & G1 & G2 & G3 & G4). subst d1.
    assert (Hcs : bytes_okb (c ++ sl1) = true) by (rewrite app_assoc in Hd; exact (bytes_okb_prefix _ _ Hd)).
    pose proof (item_char ctx L carrier acc t _ Ht Hcs) as C. rewrite (Hok t sl1) in C.
    destruct C as (C1 & _ & C3 & C4 & C5). cbn [fst snd] in *.
    pose proof (item_count_pos _ _ _ _ _ _ _ Ei) as Hk. cbn [snd] in Hk.
    rewrite len_app in C3, C4, C5.
    assert (Hne : c ++ sl1 <> []).
    { intros E. apply (f_equal len) in E. rewrite len_app, len_nil in E. lia. }
    exists (c ++ sl1). rewrite len_app. split; [rewrite app_assoc; reflexivity|].
    split; [lia|]. split; [intros Hn; specialize (G2 Hn); specialize (C4 Hn); lia|]. split.
    + intros f' Hf'. destruct f' as [|f'']; [exfalso; apply Hne; destruct (c ++ sl1); [reflexivity|cbn [length] in Hf'; lia]|].
      rewrite (props_fuel_step _ _ _ _ _ _ _ Hne C1). apply G3.
      rewrite app_length in Hf'. apply len_length_le. unfold len in *. lia.
    + intros Hex f' Hf'. destruct f' as [|f'']; [exfalso; apply Hne; destruct (c ++ sl1); [reflexivity|cbn [length] in Hf'; lia]|].
      assert (Hkc : len c = k) by lia.
      rewrite Hkc, N.eqb_refl in C5.
      rewrite (props_fuel_step _ _ _ _ _ _ _ Hne C5). apply G4; [lia|].
      rewrite app_length in Hf'. apply len_length_le. unfold len in *. lia.
Qed.

(* conversely a sequence of properties accepted by the grammar, followed by anything, is read by the
   loop when the count is exact: strict mode, or a section without variable byte integer values *)
Lemma loop_complete s : (s = true \/ novar L) -> forall f' sl acc p,
  props_fuel s f' carrier acc sl = Some (p, []) -> bytes_okb sl = true ->
  forall f n d2 t, (length sl < f)%nat -> n + len sl = plen ->
  decode_props_loop f ctx L plen n acc t (sl ++ d2) = ROk p d2.
Proof.
  intros Hs. induction f' as [|g' IH]; intros sl acc p H Hsl f n d2 t Hf Hn.
  - destruct sl as [|x sl']; [|discriminate]. cbn [props_fuel] in H. inversion H; subst.
    rewrite len_nil in *. replace (n + 0) with n by lia. apply loop_done.
  - destruct sl as [|x sl'].
    { cbn [props_fuel] in H. inversion H; subst. rewrite len_nil in *. replace (n + 0) with n by lia. apply loop_done. }
    cbn [props_fuel] in H. destruct (p_prop s carrier acc (x :: sl')) as [[acc1 sl1]|] eqn:Ep; [|discriminate].
    destruct f as [|g]; [lia|]. rewrite loop_unfold.
    destruct (N.leb_spec plen n) as [Hle|Hgt]; [rewrite len_cons in Hn; lia|].
    pose proof (item_char ctx L carrier acc t _ Ht Hsl) as C.
    destruct (item_m ctx L acc t (x :: sl')) as [[a k] d1|e|s0] eqn:Ei.
    + destruct C as (C1 & C2 & C3 & C4 & C5). cbn [fst snd] in *.
      assert (Hx : a = acc1 /\ d1 = sl1 /\ len (x :: sl') = k + len sl1).
      { destruct s.
        - rewrite C5 in Ep. destruct (N.eqb_spec (len (x :: sl')) (k + len d1)) as [E|E]; [|discriminate].
          inversion Ep; subst. repeat split. exact E.
        - rewrite C1 in Ep. inversion Ep; subst. repeat split. apply C4.
          destruct Hs as [Hs|Hs]; [discriminate Hs|exact Hs]. }
      destruct Hx as (-> & -> & Hlen).
      pose proof (item_count_pos _ _ _ _ _ _ _ Ei) as Hk. cbn [snd] in Hk.
      destruct (Stable.ok_extend _ (stable_item_m ctx L acc) _ _ _ _ Ei) as (c & Hc & Hok).
      rewrite Hc, <- app_assoc. unfold bind. rewrite (Hok t (sl1 ++ d2)). cbn [fst snd].
      apply IH; [exact H|exact C2| |lia].
      unfold len in Hlen. cbn [length] in *. lia.
    + destruct C as [C1 C2]. destruct s; congruence.
    + destruct C as [C1 C2]. destruct s; congruence.
Qed.

End Loop.

(* ------------------------------------------------------------------------------------------ *)
(* 4d. the whole property section                                                             *)
(* ------------------------------------------------------------------------------------------ *)
Definition props_tail (s : bool) (carrier : N) (n : N) : sp props :=
  slice <~ p_slice n ;;
  match exactly (fun d => props_fuel s (length d) carrier props_empty d) slice with
  | Some p => sret p
  | None => sfail
  end.
Lemma p_props_split s carrier d : p_props s carrier d = (n <~ p_vbi s ;; props_tail s carrier n) d.
Proof. reflexivity. Qed.

Lemma props_full_eq ctx L t d :
  decode_props_full ctx L t d =
  match decode_var_int t d with
  | ROk (plen, k) d1 =>
      match decode_props_loop (S (length d1)) ctx L plen 0 props_empty t d1 with
      | ROk p d' => ROk (p, plen, k) d'
      | RErr e => RErr e
      | RPanic s => RPanic s
      end
  | RErr e => RErr e
  | RPanic s => RPanic s
  end.
Proof.
  unfold decode_props_full, bind. destruct (decode_var_int t d) as [[plen k] d1|e|s]; try reflexivity.
Qed.

Section Sections.
Variables (ctx : prop_ctx) (L : list prop_id) (carrier : N).
Hypothesis Ht : tab L carrier.

Lemma props_tail_some s plen t d1 p d2 : (s = true \/ novar L) -> bytes_okb d1 = true ->
  props_tail s carrier plen d1 = Some (p, d2) ->
  decode_props_loop (S (length d1)) ctx L plen 0 props_empty t d1 = ROk p d2 /\ len d1 = plen + len d2.
Proof.
  intros Hs Hd1. unfold props_tail, sbind, p_slice.
  destruct (take d1 plen) as [[sl0 d0]|] eqn:Et; [|discriminate].
  apply take_some in Et as [-> Hl]. unfold exactly.
  destruct (props_fuel s (length sl0) carrier props_empty sl0) as [[p0 [|y r]]|] eqn:Ef; try discriminate.
  unfold sret. intros H; inversion H; subst. split.
  - apply (loop_complete ctx L carrier (len sl0) Ht s Hs _ _ _ _ Ef (bytes_okb_prefix _ _ Hd1)).
    + rewrite app_length. lia.
    + lia.
  - rewrite len_app. reflexivity.
Qed.

Lemma props_tail_of_loop s plen t d1 p d2 : bytes_okb d1 = true ->
  decode_props_loop (S (length d1)) ctx L plen 0 props_empty t d1 = ROk p d2 ->
  plen + len d2 <= len d1 /\ bytes_okb d2 = true /\ (novar L -> len d1 = plen + len d2) /\
  (len d1 = plen + len d2 -> (s = true \/ novar L) -> props_tail s carrier plen d1 = Some (p, d2)).
Proof.
  intros Hd1 El. destruct (loop_sound ctx L carrier plen Ht _ _ _ _ _ _ _ Hd1 El) as (sl & -> & G1 & G2 & G3 & G4).
  rewrite len_app. split; [lia|]. split; [exact (bytes_okb_suffix _ _ Hd1)|]. split; [intros Hn; specialize (G2 Hn); lia|].
  intros Hlen Hs. assert (Hsl : len sl = plen) by lia.
  unfold props_tail, sbind, p_slice. rewrite <- Hsl, take_app. unfold exactly.
  destruct s.
  - rewrite (G4 ltac:(lia) (length sl) (le_n _)). reflexivity.
  - rewrite (G3 (length sl) (le_n _)). reflexivity.
Qed.

(* an accepting run of decode_properties!: sizes *)
Lemma props_full_facts t d p plen k d' : bytes_okb d = true ->
  decode_props_full ctx L t d = ROk (p, plen, k) d' ->
  bytes_okb d' = true /\ width plen <= k /\ k + plen + len d' <= len d /\ plen < VMAX /\
  (novar L -> len d = k + plen + len d').
Proof.
  intros Hd H. rewrite props_full_eq in H. pose proof (dvi_char t d Hd) as C.
  destruct (decode_var_int t d) as [[pl k0] d1|e|s]; try discriminate.
  destruct C as (C1 & C2 & C3 & C4 & C5 & C6).
  destruct (decode_props_loop (S (length d1)) ctx L pl 0 props_empty t d1) as [p0 d0|e|s] eqn:El; try discriminate.
  inversion H; subst.
  destruct (props_tail_of_loop true _ _ _ _ _ C5 El) as (T1 & T2 & T3 & _).
  repeat split; try assumption; try lia. all: intros Hn; specialize (T3 Hn); lia.
Qed.

(* strict grammar: accepts exactly the accepting runs that used the minimal number of bytes *)
Lemma props_strict t d : bytes_okb d = true ->
  p_props true carrier d =
  match decode_props_full ctx L t d with
  | ROk (p, plen, k) d' => if len d =? width plen + plen + len d' then Some (p, d') else None
  | _ => None
  end.
Proof.
  intros Hd. rewrite p_props_split, props_full_eq. pose proof (dvi_char t d Hd) as C. unfold sbind at 1.
  destruct (decode_var_int t d) as [[plen k] d1|e|s]; [|destruct C as [_ ->]; reflexivity|destruct C as [_ ->]; reflexivity].
  destruct C as (C1 & C2 & C3 & C4 & C5 & C6). rewrite C6.
  destruct (decode_props_loop (S (length d1)) ctx L plen 0 props_empty t d1) as [p d'|e|s] eqn:El.
  - destruct (props_tail_of_loop true _ _ _ _ _ C5 El) as (T1 & T2 & T3 & T4).
    destruct (N.eqb_spec (len d) (width plen + plen + len d')) as [E|E].
    + assert (Hk : k = width plen) by lia. rewrite Hk, N.eqb_refl. apply T4; [lia|left; reflexivity].
    + destruct (N.eqb_spec k (width plen)) as [Ek|Ek]; [|reflexivity].
      destruct (props_tail true carrier plen d1) as [[p0 d2]|] eqn:Etl; [|reflexivity].
      exfalso. destruct (props_tail_some true _ t _ _ _ (or_introl eq_refl) C5 Etl) as [El2 Hl2].
      rewrite El in El2. inversion El2; subst. lia.
  - destruct (k =? width plen); [|reflexivity].
    destruct (props_tail true carrier plen d1) as [[p0 d2]|] eqn:Etl; [|reflexivity].
    exfalso. destruct (props_tail_some true _ t _ _ _ (or_introl eq_refl) C5 Etl) as [El2 _]. congruence.
  - destruct (k =? width plen); [|reflexivity].
    destruct (props_tail true carrier plen d1) as [[p0 d2]|] eqn:Etl; [|reflexivity].
    exfalso. destruct (props_tail_some true _ t _ _ _ (or_introl eq_refl) C5 Etl) as [El2 _]. congruence.
Qed.

(* lenient grammar, sections without a variable byte integer value: the decoder itself *)
Lemma props_full_lenient t d : novar L -> bytes_okb d = true ->
  p_props false carrier d =
  match decode_props_full ctx L t d with ROk (p, _, _) d' => Some (p, d') | _ => None end.
Proof.
  intros Hn Hd. rewrite p_props_split, props_full_eq. pose proof (dvi_char t d Hd) as C. unfold sbind at 1.
  destruct (decode_var_int t d) as [[plen k] d1|e|s]; [|destruct C as [-> _]; reflexivity|destruct C as [-> _]; reflexivity].
  destruct C as (C1 & C2 & C3 & C4 & C5 & C6). rewrite C1.
  destruct (decode_props_loop (S (length d1)) ctx L plen 0 props_empty t d1) as [p d'|e|s] eqn:El.
  - destruct (props_tail_of_loop false _ _ _ _ _ C5 El) as (T1 & T2 & T3 & T4).
    apply T4; [exact (T3 Hn)|right; exact Hn].
  - destruct (props_tail false carrier plen d1) as [[p0 d2]|] eqn:Etl; [|reflexivity].
    exfalso. destruct (props_tail_some false _ t _ _ _ (or_intror Hn) C5 Etl) as [El2 _]. congruence.
  - destruct (props_tail false carrier plen d1) as [[p0 d2]|] eqn:Etl; [|reflexivity].
    exfalso. destruct (props_tail_some false _ t _ _ _ (or_intror Hn) C5 Etl) as [El2 _]. congruence.
Qed.

Lemma props_lenient : novar L -> sim (decode_props ctx L) (p_props false carrier).
Proof.
  intros Hn t d Hd. rewrite (props_full_lenient t d Hn Hd). unfold decode_props. rewrite ro_bind.
  destruct (decode_props_full ctx L t d) as [[[p plen] k] d'|e|s] eqn:E; cbn [ro]; try (split; [reflexivity|exact I]).
  split; [reflexivity|]. cbn [okrest]. exact (proj1 (props_full_facts _ _ _ _ _ _ Hd E)).
Qed.

End Sections.

(* ------------------------------------------------------------------------------------------ *)
(* 5. monotonicity: strict acceptance implies lenient acceptance with the same value          *)
(* ------------------------------------------------------------------------------------------ *)
Definition le {A} (m1 m2 : sp A) : Prop := forall d x, m1 d = Some x -> m2 d = Some x.

Lemma le_refl {A} (m : sp A) : le m m.
Proof. intros d x H. exact H. Qed.
Lemma le_bind {A B} (m1 m2 : sp A) (f1 f2 : A -> sp B) :
  le m1 m2 -> (forall a, le (f1 a) (f2 a)) -> le (sbind m1 f1) (sbind m2 f2).
Proof.
  intros Hm Hf d x H. unfold sbind in *. destruct (m1 d) as [[a d']|] eqn:E; [|discriminate].
  rewrite (Hm _ _ E). exact (Hf a _ _ H).
Qed.
Lemma le_opt {A} (b : bool) (m1 m2 : sp A) : le m1 m2 -> le (p_opt b m1) (p_opt b m2).
Proof. intros H. destruct b; [|apply le_refl]. unfold p_opt. apply le_bind; [exact H|intros a; apply le_refl]. Qed.

Lemma le_vbi : le (p_vbi true) (p_vbi false).
Proof.
  intros d x H. unfold p_vbi in *.
  destruct d as [|b0 d]; [discriminate|]. rewrite sbind_u8 in *. destruct (b0 <? 128); [exact H|].
  destruct d as [|b1 d]; [discriminate|]. rewrite sbind_u8 in *. destruct (b1 <? 128).
  { cbn [negb orb] in *. destruct (0 <? b1); cbn in *; [exact H|discriminate]. }
  destruct d as [|b2 d]; [discriminate|]. rewrite sbind_u8 in *. destruct (b2 <? 128).
  { cbn [negb orb] in *. destruct (0 <? b2); cbn in *; [exact H|discriminate]. }
  destruct d as [|b3 d]; [discriminate|]. rewrite sbind_u8 in *. destruct (b3 <? 128); [|discriminate].
  cbn [negb orb] in *. destruct (0 <? b3); cbn in *; [exact H|discriminate].
Qed.

Lemma le_value ty : le (p_value true ty) (p_value false ty).
Proof. destruct ty; try apply le_refl. cbn [p_value]. apply le_bind; [apply le_vbi|intros v; apply le_refl]. Qed.

Lemma le_prop carrier acc : le (p_prop true carrier acc) (p_prop false carrier acc).
Proof.
  unfold p_prop. apply le_bind; [apply le_refl|intros id]. destruct (id =? 38); [apply le_refl|].
  destruct (lookup_prop id prop_table) as [[ty cs]|]; [|apply le_refl].
  destruct (id_of_num id) as [pid|]; [|apply le_refl].
  apply le_bind; [apply le_refl|intros _]. apply le_bind; [apply le_refl|intros _].
  apply le_bind; [apply le_value|intros v; apply le_refl].
Qed.

Lemma le_props_fuel carrier : forall f acc, le (props_fuel true f carrier acc) (props_fuel false f carrier acc).
Proof.
  induction f as [|g IH]; intros acc d x H.
  - destruct d; [exact H|discriminate].
  - destruct d as [|y d0]; [exact H|]. cbn [props_fuel] in *.
    destruct (p_prop true carrier acc (y :: d0)) as [[acc' d']|] eqn:E; [|discriminate].
    rewrite (le_prop _ _ _ _ E). exact (IH _ _ _ H).
Qed.

Lemma le_props carrier : le (p_props true carrier) (p_props false carrier).
Proof.
  unfold p_props. apply le_bind; [apply le_vbi|intros n]. apply le_bind; [apply le_refl|intros slice].
  unfold exactly. destruct (props_fuel true (length slice) carrier props_empty slice) as [[p [|y r]]|] eqn:E.
  - rewrite (le_props_fuel _ _ _ _ _ E). apply le_refl.
  - intros d x H. discriminate H.
  - intros d x H. discriminate H.
Qed.

Ltac le_step :=
  cbv beta;
  match goal with
  | |- le ?a ?b => constr_eq a b; apply le_refl
  | |- le (p_props true ?c) (p_props false ?c) => apply le_props
  | |- le (p_opt _ _) (p_opt _ _) => apply le_opt
  | |- le (sbind _ _) (sbind _ _) => apply le_bind; [|intros ?]
  | |- le (if ?e then _ else _) _ => destruct e
  | |- le (match ?e with _ => _ end) _ => destruct e
  end.
Ltac le_auto := repeat le_step.

Lemma le_connect : le (p5_connect true) (p5_connect false).
Proof. unfold p5_connect. le_auto. Qed.
Lemma le_connack : le (p5_connack true) (p5_connack false).
Proof. unfold p5_connack. le_auto. Qed.
Lemma le_publish flags : le (p5_publish true flags) (p5_publish false flags).
Proof. unfold p5_publish. cbv zeta. le_auto. Qed.
Lemma le_ack typ : le (p5_ack true typ) (p5_ack false typ).
Proof. unfold p5_ack. le_auto. Qed.
Lemma le_codes typ : le (p5_codes true typ) (p5_codes false typ).
Proof. unfold p5_codes. le_auto. Qed.
Lemma le_disconnect : le (p5_disconnect true) (p5_disconnect false).
Proof. unfold p5_disconnect. le_auto. Qed.
Lemma le_auth : le (p5_auth true) (p5_auth false).
Proof. unfold p5_auth. le_auto. Qed.

Lemma le_body5 typ flags : le (body5 true typ flags) (body5 false typ flags).
Proof.
  unfold body5. destruct typ as [|p]; [apply le_refl|].
  split_pos p 4%nat;
    first [ exact le_connect | exact le_connack | exact (le_publish flags) | exact le_disconnect | exact le_auth
          | (apply le_bind; [first [apply le_ack | apply le_codes]|intros ?; apply le_refl])
          | le_auto ].
Qed.

Lemma frame_mono d r : frame true d = Some r -> frame false d = Some r.
Proof.
  unfold frame. intros H.
  destruct ((cb <~ p_u8 ;; rl <~ p_vbi true ;; body <~ p_slice rl ;; sret (cb, body)) d) as [[r0 [|y l]]|] eqn:E;
    try discriminate.
  assert (E' : (cb <~ p_u8 ;; rl <~ p_vbi false ;; body <~ p_slice rl ;; sret (cb, body)) d = Some (r0, [])).
  { revert E. apply le_bind; [apply le_refl|intros cb]. apply le_bind; [apply le_vbi|intros rl]. apply le_refl. }
  rewrite E'. exact H.
Qed.

(* the strict grammar is the lenient grammar with one more requirement *)
Theorem parse5_mono d p : parse5 true d = Some p -> parse5 false d = Some p.
Proof.
  unfold parse5. destruct (frame true d) as [[cb body]|] eqn:Ef; [|discriminate].
  rewrite (frame_mono _ _ Ef). cbv zeta. destruct (cb / 16 =? 0); [discriminate|].
  destruct (match flag_nibble (cb / 16) with Some f => cb mod 16 =? f | None => cb / 16 =? 3 end); [|discriminate].
  unfold exactly. destruct (body5 true (cb / 16) (cb mod 16) body) as [[p' [|y r]]|] eqn:Eb; try discriminate.
  rewrite (le_body5 _ _ _ _ Eb). intros H; exact H.
Qed.

(* the frame with its minimal remaining length, in both modes *)
Lemma frame_wvi_s s cb body : len body < 268435456 -> frame s (frame5 cb body) = Some (cb, body).
Proof.
  intros H. destruct s; [exact (frame_wvi cb body H)|]. apply frame_mono. exact (frame_wvi cb body H).
Qed.

Print Assumptions dvi_char.
Print Assumptions value_char.
Print Assumptions item_char.
Print Assumptions loop_sound.
Print Assumptions loop_complete.
Print Assumptions props_strict.
Print Assumptions props_lenient.
Print Assumptions parse5_mono.
