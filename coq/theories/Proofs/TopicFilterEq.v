(* Proofs/TopicFilterEq.v — C16: the single-pass TopicFilter validator (with fix F3) computes the
   declarative MQTT 4.7 / 4.8.2 rule and the byte index of the share-name separator; the debug
   assertion never fires, so the debug and release profiles agree. *)
From MQ Require Import Proofs.Tactics Proofs.Utf8Facts Model.Topic Spec.SpecTopic.
Open Scope N_scope.

Ltac btest := repeat (dtest; try (exfalso; lia); try discriminate).

(* ------------------------------------------------------------------ *)
(* 1. Spec side: lists of code points                                  *)
(* ------------------------------------------------------------------ *)

Lemma rev'_rev {A} (l : list A) : rev' l = rev l.
Proof. unfold rev'. symmetry. apply rev_alt. Qed.

Lemma mem_cons c x l : Spec.mem c (x :: l) = (c =? x) || Spec.mem c l.
Proof. reflexivity. Qed.
Lemma mem_app c a b : Spec.mem c (a ++ b) = Spec.mem c a || Spec.mem c b.
Proof. unfold Spec.mem. apply existsb_app. Qed.
Lemma mem_rev c l : Spec.mem c (rev l) = Spec.mem c l.
Proof.
  induction l as [|x l IH]; [reflexivity|]. cbn [rev]. rewrite mem_app, IH, !mem_cons.
  cbn [Spec.mem existsb]. destruct (c =? x), (Spec.mem c l); reflexivity.
Qed.

Lemma leq_nil l : Spec.leq l [] = match l with [] => true | _ => false end.
Proof. destruct l; reflexivity. Qed.
Lemma leq_cons_nil x l : Spec.leq (x :: l) [] = false.
Proof. reflexivity. Qed.
Lemma leq_one_len l x : Spec.leq l [x] = true -> length l = 1%nat.
Proof.
  destruct l as [|a [|b l]]; cbn [Spec.leq]; intros H; try discriminate; [reflexivity|].
  rewrite andb_false_r in H. discriminate.
Qed.

(* a level that is followed by another one / the last level *)
Definition lev_mid (lv : list N) : bool :=
  negb (Spec.mem Spec.HASH lv) && (if Spec.mem Spec.PLUS lv then Spec.leq lv [Spec.PLUS] else true).
Definition lev_last (lv : list N) : bool :=
  (if Spec.mem Spec.HASH lv then Spec.leq lv [Spec.HASH] else true)
  && (if Spec.mem Spec.PLUS lv then Spec.leq lv [Spec.PLUS] else true).

Lemma split_sl_cons l : forall cur, exists a b, Spec.split_sl l cur = a :: b.
Proof.
  induction l as [|c r IH]; intros cur; cbn [Spec.split_sl].
  - eexists; eexists; reflexivity.
  - destruct (c =? Spec.SLASH); [eexists; eexists; reflexivity | apply IH].
Qed.

Lemma levels_cons2 x y r : Spec.levels_ok (x :: y :: r) = lev_mid x && Spec.levels_ok (y :: r).
Proof.
  cbn [Spec.levels_ok]. unfold lev_mid.
  destruct (Spec.mem Spec.HASH x); [rewrite andb_false_r; reflexivity|]. reflexivity.
Qed.
Lemma levels_one x : Spec.levels_ok [x] = lev_last x.
Proof.
  cbn [Spec.levels_ok]. unfold lev_last. rewrite !andb_true_r.
  destruct (Spec.mem Spec.HASH x); reflexivity.
Qed.

Lemma levels_nil cur : Spec.levels_ok (Spec.split_sl [] cur) = lev_last (rev cur).
Proof. cbn [Spec.split_sl]. rewrite rev'_rev. apply levels_one. Qed.
Lemma levels_sl r cur :
  Spec.levels_ok (Spec.split_sl (SL :: r) cur) = lev_mid (rev cur) && Spec.levels_ok (Spec.split_sl r []).
Proof.
  cbn [Spec.split_sl]. change (SL =? Spec.SLASH) with true. cbv iota. rewrite rev'_rev.
  destruct (split_sl_cons r []) as [a [b E]]. rewrite E. apply levels_cons2.
Qed.
Lemma levels_other c r cur : c <> SL ->
  Spec.levels_ok (Spec.split_sl (c :: r) cur) = Spec.levels_ok (Spec.split_sl r (c :: cur)).
Proof.
  intros H. cbn [Spec.split_sl]. unfold Spec.SLASH. unfold SL in H.
  destruct (N.eqb_spec c 47); [contradiction|reflexivity].
Qed.

(* a current level that already breaks a wildcard rule can not be repaired *)
Definition bad (cur : list N) : Prop :=
  (Spec.mem Spec.HASH cur = true \/ Spec.mem Spec.PLUS cur = true) /\ (2 <= length cur)%nat.

Lemma lev_last_bad cur : bad cur -> lev_last (rev cur) = false.
Proof.
  intros [[H|H] Hl]; unfold lev_last; rewrite !mem_rev, H.
  - destruct (Spec.leq (rev cur) [Spec.HASH]) eqn:E; [|reflexivity].
    apply leq_one_len in E. rewrite rev_length in E. lia.
  - destruct (Spec.leq (rev cur) [Spec.PLUS]) eqn:E; [|apply andb_false_r].
    apply leq_one_len in E. rewrite rev_length in E. lia.
Qed.
Lemma lev_mid_bad cur : bad cur -> lev_mid (rev cur) = false.
Proof.
  intros [[H|H] Hl]; unfold lev_mid; rewrite !mem_rev, H; [reflexivity|].
  destruct (Spec.leq (rev cur) [Spec.PLUS]) eqn:E; [|apply andb_false_r].
  apply leq_one_len in E. rewrite rev_length in E. lia.
Qed.

Lemma levels_bad r : forall cur, bad cur -> Spec.levels_ok (Spec.split_sl r cur) = false.
Proof.
  induction r as [|c r IH]; intros cur Hb.
  - rewrite levels_nil. apply lev_last_bad, Hb.
  - destruct (N.eq_dec c SL) as [->|Hc].
    + rewrite levels_sl, lev_mid_bad by assumption. reflexivity.
    + rewrite levels_other by assumption. apply IH.
      destruct Hb as [[H|H] Hl]; (split; [|cbn [length]; lia]); [left|right];
        rewrite mem_cons, H, orb_true_r; reflexivity.
Qed.

(* level rule and "no NUL" for the remaining input, given the current (reversed) level *)
Definition lspec (cur l : list N) : bool :=
  Spec.levels_ok (Spec.split_sl l cur) && negb (Spec.mem 0 l).

Lemma lspec_zero cur r : lspec cur (0 :: r) = false.
Proof. unfold lspec. rewrite mem_cons. change (0 =? 0) with true. apply andb_false_r. Qed.
Lemma lspec_sl cur r : lspec cur (SL :: r) = lev_mid (rev cur) && lspec [] r.
Proof. unfold lspec. rewrite levels_sl, mem_cons. change (0 =? SL) with false. rewrite andb_assoc. reflexivity. Qed.
Lemma lspec_other cur c r : c <> SL -> c <> 0 -> lspec cur (c :: r) = lspec (c :: cur) r.
Proof.
  intros H1 H0. unfold lspec. rewrite levels_other by assumption. rewrite mem_cons.
  destruct (N.eqb_spec 0 c); [exfalso; auto|]. reflexivity.
Qed.
Lemma lspec_bad cur r : bad cur -> lspec cur r = false.
Proof. intros H. unfold lspec. rewrite levels_bad by assumption. reflexivity. Qed.

(* ------------------------------------------------------------------ *)
(* 2. Model side: the loop, away from the share-name zone              *)
(* ------------------------------------------------------------------ *)

Lemma frun_app a : forall b i st,
  frun i (a ++ b) st =
  match frun i a st with None => None | Some st' => frun (i + N.of_nat (length a)) b st' end.
Proof.
  induction a as [|ch a IH]; intros b i st.
  - cbn [app frun length N.of_nat]. rewrite N.add_0_r. reflexivity.
  - cbn [app frun]. destruct (fstep i ch st) as [st1|]; [|reflexivity].
    rewrite IH. replace (i + 1 + N.of_nat (length a)) with (i + N.of_nat (length (ch :: a))) by (cbn [length]; lia).
    reflexivity.
Qed.

Definition sh_next (i c : N) (sh : bool) : bool :=
  if sh && (i <? 7) && negb (c =? nth (N.to_nat i) SHARED_PREFIX 0) then false else sh.

Definition upd (st : fstate) (ls : option N) (ha ho : bool) (k : N) (sh : bool) : fstate :=
  {| last_sep := ls; has_all := ha; has_one := ho; byte_idx := byte_idx st + k; is_sh := sh;
     gsep := gsep st; fsep := fsep st |}.

(* the step when the two separators can not change and '+' '#' are not restricted *)
Definition lstep (i c k : N) (st : fstate) : option fstate :=
  if c =? 0 then None else
  if has_all st then None else
  let sh := sh_next i c (is_sh st) in
  if c =? SL then
    if has_one st && negb (opt_eq (option_map (fun v => v + 2) (last_sep st)) i) && negb (i =? 1)
    then None
    else Some (upd st (Some i) (has_all st) false k sh)
  else if c =? HS then
    if has_one st then None
    else if opt_eq (option_map (fun v => v + 1) (last_sep st)) i || (i =? 0) then
      Some (upd st (last_sep st) true (has_one st) k sh)
    else None
  else if c =? PL then
    if has_one st then None
    else if opt_eq (option_map (fun v => v + 1) (last_sep st)) i || (i =? 0) then
      Some (upd st (last_sep st) (has_all st) true k sh)
    else None
  else if has_one st then None
  else Some (upd st (last_sep st) (has_all st) (has_one st) k sh).

(* share bookkeeping is stable: not (or no longer) a candidate, or still matching "$share/"
   on a text that is known not to start with it, or both separators already found *)
Definition Stable (i : N) (sh : bool) (g f : N) (l : list N) : Prop :=
  (sh = false /\ g = 0 /\ f = 0) \/
  (sh = true /\ i < 7 /\ g = 0 /\ f = 0 /\
   Spec.starts (skipn (N.to_nat i) Spec.share_prefix) l = false) \/
  (0 < g /\ 0 < f).

Ltac i_cases i H :=
  let Hi := fresh "Hi" in
  assert (Hi : i = 0 \/ i = 1 \/ i = 2 \/ i = 3 \/ i = 4 \/ i = 5 \/ i = 6) by lia;
  clear H; destruct Hi as [->|[->|[->|[->|[->|[->| ->]]]]]].

Ltac nth_prefix :=
  repeat match goal with
  | |- context [nth (N.to_nat ?n) SHARED_PREFIX 0] =>
    let x := eval vm_compute in (nth (N.to_nat n) SHARED_PREFIX 0) in
    change (nth (N.to_nat n) SHARED_PREFIX 0) with x
  end.

Lemma stable_nozone i sh g f l : Stable i sh g f l -> (0 <? g) && (f =? 0) = false.
Proof. intros [(_ & -> & ->)|[(_ & _ & -> & -> & _)|(Hg & Hf)]]; btest; reflexivity. Qed.

Ltac skipn_prefix_in H :=
  match type of H with
  | context [skipn (N.to_nat ?n) Spec.share_prefix] =>
    let x := eval vm_compute in (skipn (N.to_nat n) Spec.share_prefix) in
    change (skipn (N.to_nat n) Spec.share_prefix) with x in H
  end.
Ltac skipn_prefix :=
  match goal with
  | |- context [skipn (N.to_nat ?n) Spec.share_prefix] =>
    let x := eval vm_compute in (skipn (N.to_nat n) Spec.share_prefix) in
    change (skipn (N.to_nat n) Spec.share_prefix) with x
  end.

Lemma starts_cons a p c r : Spec.starts (a :: p) (c :: r) = (a =? c) && Spec.starts p r.
Proof. reflexivity. Qed.
Lemma starts_nil r : Spec.starts [] r = true.
Proof. destruct r; reflexivity. Qed.

Lemma stable_sl i sh g f r b : Stable i sh g f (SL :: r) ->
  (if sh_next i SL sh && (g =? 0) then b else g) = g /\
  (if sh_next i SL sh && negb (g =? 0) && (f =? 0) then b else f) = f.
Proof.
  intros [(-> & -> & ->)|[(-> & Hi & -> & -> & Hs)|(Hg & Hf)]].
  - unfold sh_next. cbn [andb]. split; reflexivity.
  - unfold sh_next. i_cases i Hi; skipn_prefix_in Hs; rewrite starts_cons in Hs;
      try (rewrite starts_nil in Hs; discriminate Hs);
      nth_prefix; unfold SL; btest; cbn [andb negb]; split; reflexivity.
  - destruct (sh_next i SL sh); btest; cbn [andb negb]; split; reflexivity.
Qed.

Lemma stable_next i sh g f c r : Stable i sh g f (c :: r) -> Stable (i + 1) (sh_next i c sh) g f r.
Proof.
  intros [(-> & -> & ->)|[(-> & Hi & -> & -> & Hs)|(Hg & Hf)]].
  - left. unfold sh_next. cbn [andb]. auto.
  - unfold sh_next. cbn [andb].
    i_cases i Hi; nth_prefix; skipn_prefix_in Hs; rewrite starts_cons in Hs;
      (match goal with |- context [c =? ?x] => destruct (N.eqb_spec c x) as [->|Hc] end;
       [ cbn [negb]; rewrite N.eqb_refl in Hs; cbn [andb] in Hs;
         try (rewrite starts_nil in Hs; discriminate Hs); right; left;
         repeat (split; [first [reflexivity | lia]|]); skipn_prefix; exact Hs
       | cbn [negb]; btest; left; auto ]).
  - right. right. auto.
Qed.

Lemma fstep_lstep i c k st r :
  Stable i (is_sh st) (gsep st) (fsep st) (c :: r) -> fstep i (c, k) st = lstep i c k st.
Proof.
  intros Hs. unfold fstep, lstep. fold (sh_next i c (is_sh st)).
  destruct (c =? 0); [reflexivity|]. destruct (has_all st) eqn:Ha; [reflexivity|].
  rewrite (stable_nozone _ _ _ _ _ Hs).
  destruct (N.eqb_spec c SL) as [->|Hc]; [|reflexivity].
  destruct (stable_sl _ _ _ _ _ (byte_idx st) Hs) as [Eg Ef]. rewrite Eg, Ef. reflexivity.
Qed.

(* position inside the current level, as the validator records it *)
Definition pos_start (i : N) (st : fstate) : Prop :=
  has_one st = false /\ has_all st = false /\
  match last_sep st with None => i = 0 | Some v => i = v + 1 end.
Definition pos_one (i : N) (st : fstate) : Prop :=
  has_one st = true /\ has_all st = false /\
  match last_sep st with None => i = 1 | Some v => i = v + 2 end.
Definition pos_all (st : fstate) : Prop := has_all st = true.
Definition pos_mid (i : N) (st : fstate) : Prop :=
  has_one st = false /\ has_all st = false /\
  match last_sep st with None => 0 < i | Some v => v + 1 < i end.

Definition clean (cur : list N) : bool := negb (Spec.mem Spec.HASH cur) && negb (Spec.mem Spec.PLUS cur).

(* cur is the current level so far, reversed *)
Definition LR (cur : list N) (i : N) (st : fstate) : Prop :=
  (cur = [] /\ pos_start i st) \/ (cur = [PL] /\ pos_one i st) \/ (cur = [HS] /\ pos_all st) \/
  (cur <> [] /\ clean cur = true /\ pos_mid i st).

Lemma lev_mid_clean cur : clean cur = true -> lev_mid (rev cur) = true.
Proof.
  unfold clean, lev_mid. rewrite !mem_rev. intros H. apply andb_true_iff in H as [H1 H2].
  apply negb_true_iff in H2. rewrite H1, H2. reflexivity.
Qed.
Lemma lev_last_clean cur : clean cur = true -> lev_last (rev cur) = true.
Proof.
  unfold clean, lev_last. rewrite !mem_rev. intros H. apply andb_true_iff in H as [H1 H2].
  apply negb_true_iff in H1. apply negb_true_iff in H2. rewrite H1, H2. reflexivity.
Qed.
Lemma clean_cons c cur : c <> HS -> c <> PL -> clean cur = true -> clean (c :: cur) = true.
Proof.
  unfold clean, HS, PL, Spec.HASH, Spec.PLUS. intros H1 H2 H. rewrite !mem_cons.
  destruct (N.eqb_spec 35 c); [exfalso; auto|]. destruct (N.eqb_spec 43 c); [exfalso; auto|]. exact H.
Qed.

Lemma lspec_nil_LR cur i st : LR cur i st -> lspec cur [] = true.
Proof.
  unfold lspec. rewrite levels_nil. cbn [Spec.mem existsb negb]. rewrite andb_true_r.
  intros [(-> & _)|[(-> & _)|[(-> & _)|(_ & Hc & _)]]]; try reflexivity. apply lev_last_clean, Hc.
Qed.

Lemma bad2_hs (c : N) cur : cur <> [] -> bad (HS :: cur).
Proof. intros H. split; [left; reflexivity|]. destruct cur; [contradiction|cbn [length]; lia]. Qed.
Lemma bad2_pl (c : N) cur : cur <> [] -> bad (PL :: cur).
Proof. intros H. split; [right; reflexivity|]. destruct cur; [contradiction|cbn [length]; lia]. Qed.
Lemma bad_on_hs c : bad [c; HS].
Proof. split; [left|cbn [length]; lia]. rewrite !mem_cons. change (Spec.HASH =? HS) with true. apply orb_true_r. Qed.
Lemma bad_on_pl c : bad [c; PL].
Proof. split; [right|cbn [length]; lia]. rewrite !mem_cons. change (Spec.PLUS =? PL) with true. apply orb_true_r. Qed.

Ltac fields := cbn [last_sep has_all has_one byte_idx is_sh gsep fsep upd] in *.

(* one step of the level machine against the level rule *)
Lemma lstep_core c k r cur i st : LR cur i st ->
  match lstep i c k st with
  | None => lspec cur (c :: r) = false
  | Some st1 => exists cur1, LR cur1 (i + 1) st1 /\ lspec cur (c :: r) = lspec cur1 r /\
                             st1 = upd st (last_sep st1) (has_all st1) (has_one st1) k (sh_next i c (is_sh st))
  end.
Proof.
  intros HLR. unfold lstep.
  destruct (N.eqb_spec c 0) as [->|Hc0]; [apply lspec_zero|].
  destruct st as [ls ha ho b sh g f]. fields.
  destruct HLR as [(-> & Ho & Ha & Hl)|[(-> & Ho & Ha & Hl)|[(-> & Ha)|(Hne & Hcl & Ho & Ha & Hl)]]];
    fields; subst.
  - (* at the start of a level *)
    destruct (N.eqb_spec c SL) as [->|Hsl].
    { cbn [andb]. exists []. split; [|split; [|reflexivity]].
      - left. split; [reflexivity|]. unfold pos_start. fields. auto.
      - rewrite lspec_sl. reflexivity. }
    assert (Hat : opt_eq (option_map (fun v => v + 1) ls) i || (i =? 0) = true).
    { destruct ls as [v|]; subst i; cbn [option_map opt_eq]; btest; reflexivity. }
    rewrite Hat.
    destruct (N.eqb_spec c HS) as [->|Hhs].
    { exists [HS]. split; [|split; [|reflexivity]].
      - right; right; left. split; reflexivity.
      - apply lspec_other; assumption. }
    destruct (N.eqb_spec c PL) as [->|Hpl].
    { exists [PL]. split; [|split; [|reflexivity]].
      - right; left. split; [reflexivity|]. unfold pos_one. fields.
        repeat (split; [reflexivity|]). destruct ls as [v|]; lia.
      - apply lspec_other; assumption. }
    exists [c]. split; [|split; [|reflexivity]].
    + right; right; right. split; [discriminate|]. split; [apply clean_cons; auto|].
      unfold pos_mid. fields. repeat (split; [reflexivity|]). destruct ls as [v|]; lia.
    + apply lspec_other; assumption.
  - (* after '+' *)
    destruct (N.eqb_spec c SL) as [->|Hsl].
    { assert (E : negb (opt_eq (option_map (fun v => v + 2) ls) i) && negb (i =? 1) = false).
      { destruct ls as [v|]; subst i; cbn [option_map opt_eq]; btest; reflexivity. }
      cbn [andb]. rewrite E. exists []. split; [|split; [|reflexivity]].
      - left. split; [reflexivity|]. unfold pos_start. fields. auto.
      - rewrite lspec_sl. reflexivity. }
    assert (E : lspec [PL] (c :: r) = false) by (rewrite lspec_other by assumption; apply lspec_bad, bad_on_pl).
    destruct (c =? HS); [exact E|]. destruct (c =? PL); exact E.
  - (* after '#' *)
    unfold pos_all in Ha. fields. subst ha. cbv iota. destruct (N.eqb_spec c SL) as [->|Hsl]; [rewrite lspec_sl; reflexivity|].
    assert (E : lspec [HS] (c :: r) = false) by (rewrite lspec_other by assumption; apply lspec_bad, bad_on_hs).
    exact E.
  - (* inside a level *)
    destruct (N.eqb_spec c SL) as [->|Hsl].
    { cbn [andb]. exists []. split; [|split; [|reflexivity]].
      - left. split; [reflexivity|]. unfold pos_start. fields. auto.
      - rewrite lspec_sl, lev_mid_clean by assumption. reflexivity. }
    assert (Hat : opt_eq (option_map (fun v => v + 1) ls) i || (i =? 0) = false).
    { destruct ls as [v|]; cbn [option_map opt_eq]; btest; reflexivity. }
    rewrite Hat.
    destruct (N.eqb_spec c HS) as [->|Hhs];
      [cbv iota; rewrite lspec_other by assumption; apply lspec_bad, (bad2_hs 0), Hne|].
    destruct (N.eqb_spec c PL) as [->|Hpl];
      [cbv iota; rewrite lspec_other by assumption; apply lspec_bad, (bad2_pl 0), Hne|].
    exists (c :: cur). split; [|split; [apply lspec_other; assumption|reflexivity]].
    right; right; right. split; [discriminate|]. split; [apply clean_cons; auto|].
    unfold pos_mid. fields. repeat (split; [reflexivity|]). destruct ls as [v|]; lia.
Qed.

(* the loop against the level rule, in a region where the share bookkeeping is stable *)
Lemma frun_core l : forall cur i st, LR cur i st ->
  Stable i (is_sh st) (gsep st) (fsep st) (map fst l) ->
  match frun i l st with
  | None => lspec cur (map fst l) = false
  | Some st' => lspec cur (map fst l) = true /\ gsep st' = gsep st /\ fsep st' = fsep st
  end.
Proof.
  induction l as [|[c k] l IH]; intros cur i st HLR Hst.
  - cbn [frun map]. split; [eapply lspec_nil_LR; eassumption|split; reflexivity].
  - cbn [frun map fst] in *. rewrite (fstep_lstep _ _ _ _ _ Hst).
    pose proof (lstep_core c k (map fst l) cur i st HLR) as Hstep.
    destruct (lstep i c k st) as [st1|]; [|exact Hstep].
    destruct Hstep as (cur1 & HLR1 & El & Est). rewrite El.
    assert (Esh : is_sh st1 = sh_next i c (is_sh st)) by (rewrite Est; reflexivity).
    assert (Eg : gsep st1 = gsep st) by (rewrite Est; reflexivity).
    assert (Ef : fsep st1 = fsep st) by (rewrite Est; reflexivity).
    specialize (IH cur1 (i + 1) st1 HLR1). rewrite Esh, Eg, Ef in IH.
    specialize (IH (stable_next _ _ _ _ _ _ Hst)).
    destruct (frun (i + 1) l st1) as [st'|]; [|exact IH].
    destruct IH as (H1 & H2 & H3). repeat split; assumption.
Qed.

(* ------------------------------------------------------------------ *)
(* 3. Model side: inside the share name                                *)
(* ------------------------------------------------------------------ *)

Definition okc (c : N) : bool := negb (c =? 0) && negb (c =? HS) && negb (c =? PL).

Lemma frun_name a : forall i st, Forall (fun ch : N * N => fst ch <> SL) a ->
  is_sh st = true -> 7 <= i -> 0 < gsep st -> fsep st = 0 -> has_one st = false -> has_all st = false ->
  frun i a st = if forallb okc (map fst a)
                then Some (upd st (last_sep st) false false (chars_blen a) true) else None.
Proof.
  induction a as [|[c k] a IH]; intros i st Hsl Hsh Hi Hg Hf Ho Ha.
  - cbn [frun map forallb]. destruct st as [ls ha ho b sh g f]. fields. subst.
    unfold upd. fields. change (chars_blen []) with 0. rewrite N.add_0_r. reflexivity.
  - inversion Hsl as [|ch a' Hc Hsl']; subst ch a'. cbn [fst] in Hc.
    cbn [frun map forallb fst]. unfold fstep, okc.
    destruct st as [ls ha ho b sh g f]. fields. subst.
    destruct (N.eqb_spec c 0) as [->|Hc0]; [reflexivity|].
    destruct (N.ltb_spec i 7) as [Hlt|_]; [exfalso; lia|]. cbn [andb negb].
    destruct (N.eqb_spec c SL) as [->|_]; [contradiction|].
    destruct (N.ltb_spec 0 g) as [_|Hge]; [|exfalso; lia]. change (0 =? 0) with true. cbn [andb negb].
    destruct (N.eqb_spec c HS) as [->|Hhs]; [reflexivity|].
    destruct (N.eqb_spec c PL) as [->|Hpl]; [reflexivity|]. cbn [andb].
    rewrite IH; fields; try assumption; try reflexivity; try lia.
    destruct (forallb _ _); [|reflexivity]. unfold upd. fields.
    rewrite chars_blen_cons. cbn [snd]. rewrite N.add_assoc. reflexivity.
Qed.

(* the '/' that ends the share name *)
Lemma fstep_name_end i k st :
  is_sh st = true -> 7 <= i -> 0 < gsep st -> fsep st = 0 -> has_one st = false -> has_all st = false ->
  fstep i (SL, k) st =
  Some {| last_sep := Some i; has_all := false; has_one := false; byte_idx := byte_idx st + k;
          is_sh := true; gsep := gsep st; fsep := byte_idx st |}.
Proof.
  intros Hsh Hi Hg Hf Ho Ha. unfold fstep. destruct st as [ls ha ho b sh g f]. fields. subst.
  change (SL =? 0) with false. change (SL =? SL) with true. cbv iota.
  destruct (N.ltb_spec i 7) as [Hlt|_]; [exfalso; lia|]. cbn [andb negb].
  destruct (N.eqb_spec g 0) as [E|_]; [exfalso; lia|]. change (0 =? 0) with true. cbn [andb negb].
  reflexivity.
Qed.

(* ------------------------------------------------------------------ *)
(* 4. Cutting a text at its first '/'                                  *)
(* ------------------------------------------------------------------ *)

Definition nosl (m : list N) : Prop := Forall (fun c => c <> SL) m.

Lemma split_first_sl (l : list (N * N)) :
  nosl (map fst l) \/ exists a k r, l = a ++ (SL, k) :: r /\ nosl (map fst a).
Proof.
  induction l as [|[c k] l IH].
  - left. constructor.
  - destruct (N.eq_dec c SL) as [->|Hc].
    + right. exists [], k, l. split; [reflexivity|constructor].
    + destruct IH as [IH|(a & k' & r & -> & Ha)].
      * left. constructor; assumption.
      * right. exists ((c, k) :: a), k', r. split; [reflexivity|]. constructor; assumption.
Qed.

Lemma take_name_nosl a : forall acc, nosl a -> Spec.take_name a acc = (rev acc ++ a, None).
Proof.
  induction a as [|c a IH]; intros acc H.
  - cbn [Spec.take_name]. rewrite rev'_rev, app_nil_r. reflexivity.
  - inversion H as [|c' a' Hc Ha]; subst c' a'. cbn [Spec.take_name]. unfold Spec.SLASH. unfold SL in Hc.
    destruct (N.eqb_spec c 47); [contradiction|]. rewrite IH by assumption. cbn [rev]. rewrite <- app_assoc. reflexivity.
Qed.
Lemma take_name_sl a r : forall acc, nosl a -> Spec.take_name (a ++ SL :: r) acc = (rev acc ++ a, Some r).
Proof.
  induction a as [|c a IH]; intros acc H.
  - cbn [app Spec.take_name]. change (SL =? Spec.SLASH) with true. cbv iota. rewrite rev'_rev, app_nil_r. reflexivity.
  - inversion H as [|c' a' Hc Ha]; subst c' a'. cbn [app Spec.take_name]. unfold Spec.SLASH. unfold SL in Hc.
    destruct (N.eqb_spec c 47); [contradiction|]. rewrite IH by assumption. cbn [rev]. rewrite <- app_assoc. reflexivity.
Qed.
Lemma split_sl_first a r : forall cur, nosl a ->
  Spec.split_sl (a ++ SL :: r) cur = (rev cur ++ a) :: Spec.split_sl r [].
Proof.
  induction a as [|c a IH]; intros cur H.
  - cbn [app Spec.split_sl]. change (SL =? Spec.SLASH) with true. cbv iota. rewrite rev'_rev, app_nil_r. reflexivity.
  - inversion H as [|c' a' Hc Ha]; subst c' a'. cbn [app Spec.split_sl]. unfold Spec.SLASH. unfold SL in Hc.
    destruct (N.eqb_spec c 47); [contradiction|]. rewrite IH by assumption. cbn [rev]. rewrite <- app_assoc. reflexivity.
Qed.

Lemma starts_self p x : Spec.starts p (p ++ x) = true.
Proof. induction p as [|a p IH]; [apply starts_nil|]. cbn [app]. rewrite starts_cons, N.eqb_refl, IH. reflexivity. Qed.

(* chars carry their UTF-8 length *)
Definition lenok (ch : N * N) : Prop := snd ch = Spec.char_len (fst ch).

Lemma char_len_pos c : 1 <= Spec.char_len c.
Proof. unfold Spec.char_len. repeat dtest; lia. Qed.

Lemma blen_chars l : Forall lenok l -> chars_blen l = Spec.blen (map fst l).
Proof.
  induction 1 as [|ch l Hc Hl IH]; [reflexivity|].
  rewrite chars_blen_cons. cbn [map]. unfold Spec.blen in *. cbn [fold_right]. rewrite <- IH, Hc. reflexivity.
Qed.
Lemma chars_blen_app a b : chars_blen (a ++ b) = chars_blen a + chars_blen b.
Proof.
  induction a as [|ch a IH]; [cbn [app]; change (chars_blen []) with 0; lia|].
  cbn [app]. rewrite !chars_blen_cons, IH. lia.
Qed.

Definition pre7 : list (N * N) := map (fun c => (c, Spec.char_len c)) Spec.share_prefix.

Lemma starts_pairs p : forall (l : list (N * N)), Forall lenok l -> Spec.starts p (map fst l) = true ->
  exists l', l = map (fun c => (c, Spec.char_len c)) p ++ l' /\ Forall lenok l'.
Proof.
  induction p as [|a p IH]; intros l Hl Hs.
  - exists l. split; [reflexivity|assumption].
  - destruct l as [|[c k] l]; [discriminate Hs|]. cbn [map fst] in Hs. rewrite starts_cons in Hs.
    apply andb_true_iff in Hs as [E Hs]. apply N.eqb_eq in E. subst c.
    inversion Hl as [|ch l0 Hc Hl']; subst ch l0. unfold lenok in Hc. cbn [fst snd] in Hc. subst k.
    destruct (IH l Hl' Hs) as (l' & -> & Hl''). exists l'. split; [reflexivity|assumption].
Qed.

Definition st7 : fstate :=
  {| last_sep := Some 6; has_all := false; has_one := false; byte_idx := 7; is_sh := true; gsep := 6; fsep := 0 |}.
Lemma frun_pre7 : frun 0 pre7 finit = Some st7.
Proof. vm_compute. reflexivity. Qed.

Lemma okc_forallb m : forallb okc m = negb (Spec.mem 0 m) && negb (Spec.mem Spec.HASH m) && negb (Spec.mem Spec.PLUS m).
Proof.
  induction m as [|c m IH]; [reflexivity|]. cbn [forallb]. rewrite IH, !mem_cons. unfold okc, HS, PL, Spec.HASH, Spec.PLUS.
  rewrite (N.eqb_sym c 0), (N.eqb_sym c 35), (N.eqb_sym c 43).
  destruct (0 =? c), (35 =? c), (43 =? c), (Spec.mem 0 m), (Spec.mem 35 m), (Spec.mem 43 m); reflexivity.
Qed.

(* spec side of a text that starts with "$share/" *)
Lemma share_sep_nosl m : nosl m -> Spec.share_ok_sep (Spec.share_prefix ++ m) = (false, 0).
Proof.
  intros H. unfold Spec.share_ok_sep. rewrite starts_self.
  change (skipn 7 (Spec.share_prefix ++ m)) with m. rewrite take_name_nosl by assumption. reflexivity.
Qed.
Lemma share_sep_sl na nr : nosl na ->
  Spec.share_ok_sep (Spec.share_prefix ++ na ++ SL :: nr) =
  (negb (Spec.leq na []) && negb (Spec.mem Spec.PLUS na) && negb (Spec.mem Spec.HASH na) && negb (Spec.leq nr []),
   7 + Spec.blen na).
Proof.
  intros H. unfold Spec.share_ok_sep. rewrite starts_self.
  change (skipn 7 (Spec.share_prefix ++ na ++ SL :: nr)) with (na ++ SL :: nr).
  rewrite take_name_sl by assumption. reflexivity.
Qed.
Lemma levels_shared na nr : nosl na ->
  Spec.levels_ok (Spec.split_sl (Spec.share_prefix ++ na ++ SL :: nr) []) =
  lev_mid na && Spec.levels_ok (Spec.split_sl nr []).
Proof.
  intros H. change (Spec.share_prefix ++ na ++ SL :: nr) with ([36; 115; 104; 97; 114; 101] ++ SL :: na ++ SL :: nr).
  rewrite split_sl_first by (repeat constructor; unfold SL; lia).
  rewrite split_sl_first by assumption.
  destruct (split_sl_cons nr []) as (x & y & E). rewrite E, !levels_cons2. reflexivity.
Qed.
Lemma mem0_shared m : Spec.mem 0 (Spec.share_prefix ++ m) = Spec.mem 0 m.
Proof. rewrite mem_app. reflexivity. Qed.

(* ------------------------------------------------------------------ *)
(* 5. The checks after the loop; assembly over an abstract char list    *)
(* ------------------------------------------------------------------ *)

Definition fin (prof : profile) (n : N) (o : option fstate) : outcome (bool * N) :=
  match o with
  | None => Ok (true, 0)
  | Some st =>
    if (0 <? fsep st) && (fsep st =? n - 1) then Ok (true, 0)
    else if (0 <? gsep st) && (fsep st =? 0) then Ok (true, 0)
    else if gsep st + 1 =? fsep st then Ok (true, 0)
    else match prof with
         | Debug => if (gsep st =? 0) || (gsep st =? 6) then Ok (false, fsep st)
                    else Panic SiteFilterAssert
         | Release => Ok (false, fsep st)
         end
  end.

Lemma filter_is_invalid_fin prof s :
  filter_is_invalid prof s =
  if 65535 <? len s then Ok (true, 0)
  else match s with [] => Ok (true, 0) | _ => fin prof (len s) (frun 0 (utf8_chars s) finit) end.
Proof. unfold filter_is_invalid. destruct (65535 <? len s); [reflexivity|]. destruct s; reflexivity. Qed.

(* the rule without the length bound and the non-emptiness *)
Definition aspec (m : list N) : bool :=
  negb (Spec.mem 0 m) && Spec.levels_ok (Spec.split_sl m []) && fst (Spec.share_ok_sep m).

Lemma LR_finit : LR [] 0 finit.
Proof. left. split; [reflexivity|]. unfold pos_start. cbn [has_one has_all last_sep finit]. auto. Qed.

Lemma fin_plain prof n m l : Spec.starts Spec.share_prefix m = false -> m = map fst l ->
  fin prof n (frun 0 l finit) = Ok (negb (aspec m), if aspec m then snd (Spec.share_ok_sep m) else 0).
Proof.
  intros Hs ->. pose proof (frun_core l [] 0 finit LR_finit) as H.
  assert (Hst : Stable 0 (is_sh finit) (gsep finit) (fsep finit) (map fst l)).
  { right; left. cbn [is_sh gsep fsep finit]. repeat (split; [first [reflexivity|lia]|]). exact Hs. }
  specialize (H Hst).
  assert (Ea : aspec (map fst l) = lspec [] (map fst l)).
  { unfold aspec, lspec, Spec.share_ok_sep. rewrite Hs. cbn [fst]. rewrite andb_true_r. apply andb_comm. }
  assert (Es : snd (Spec.share_ok_sep (map fst l)) = 0).
  { unfold Spec.share_ok_sep. rewrite Hs. reflexivity. }
  rewrite Ea, Es. destruct (frun 0 l finit) as [st'|].
  - destruct H as (-> & Hg & Hf). cbn [gsep fsep finit] in Hg, Hf. unfold fin. rewrite Hg, Hf.
    change (0 <? 0) with false. change (0 + 1 =? 0) with false. change (0 =? 0) with true.
    cbn [andb orb negb]. destruct prof; reflexivity.
  - rewrite H. reflexivity.
Qed.

Lemma lenok_pos ch : lenok ch -> 1 <= snd ch.
Proof. unfold lenok. intros ->. apply char_len_pos. Qed.

Lemma fin_shared prof l' : Forall lenok l' ->
  let m := map fst (pre7 ++ l') in
  fin prof (chars_blen (pre7 ++ l')) (frun 0 (pre7 ++ l') finit) =
  Ok (negb (aspec m), if aspec m then snd (Spec.share_ok_sep m) else 0).
Proof.
  intros Hl m. subst m. rewrite map_app. change (map fst pre7) with Spec.share_prefix.
  rewrite frun_app, frun_pre7. change (0 + N.of_nat (length pre7)) with 7.
  rewrite chars_blen_app. change (chars_blen pre7) with 7.
  destruct (split_first_sl l') as [Hno|(a & k & rest & -> & Hno)].
  - (* no second '/' *)
    unfold aspec. rewrite share_sep_nosl by assumption. cbn [fst snd]. rewrite andb_false_r. cbn [negb].
    rewrite frun_name; try assumption; try reflexivity; try (cbn [gsep st7]; lia).
    + destruct (forallb okc (map fst l')); [|reflexivity].
      unfold fin, upd. fields. cbn [gsep fsep st7]. change (0 <? 0) with false. change (0 <? 6) with true.
      change (0 =? 0) with true. reflexivity.
    + clear -Hno. induction l' as [|ch l IH]; [constructor|]. inversion Hno; subst. constructor; auto.
  - (* "$share/" name "/" rest *)
    apply Forall_app in Hl as [Hla Hlr]. inversion Hlr as [|ch r0 Hk Hlrest]; subst ch r0.
    unfold lenok in Hk. cbn [fst snd] in Hk. change (Spec.char_len SL) with 1 in Hk. subst k.
    rewrite map_app. cbn [map fst]. rewrite chars_blen_app, chars_blen_cons. cbn [snd].
    set (na := map fst a) in *. set (nr := map fst rest).
    unfold aspec. rewrite mem0_shared, mem_app, mem_cons, share_sep_sl, levels_shared by assumption.
    change (0 =? SL) with false. cbn [orb fst snd].
    rewrite frun_app, frun_name; try reflexivity; try (cbn [gsep st7]; lia);
      [|clear -Hno; subst na; induction a as [|ch a IH]; [constructor|]; inversion Hno; subst; constructor; auto].
    fold na. rewrite okc_forallb.
    destruct (Spec.mem 0 na) eqn:H0; [reflexivity|].
    destruct (Spec.mem Spec.HASH na) eqn:Hh; [cbn [negb andb]; rewrite !andb_false_r; reflexivity|].
    destruct (Spec.mem Spec.PLUS na) eqn:Hp; [cbn [negb andb]; rewrite !andb_false_r; reflexivity|].
    cbn [negb andb orb]. cbn [frun].
    rewrite fstep_name_end; try reflexivity; try (unfold upd; fields; cbn [gsep st7]; lia).
    unfold upd. fields. cbn [last_sep byte_idx gsep fsep st7].
    assert (Elm : lev_mid na = true) by (unfold lev_mid; rewrite Hh, Hp; reflexivity). rewrite Elm. cbn [andb].
    match goal with |- context [frun ?i rest ?st] => pose proof (frun_core rest [] i st) as H; set (sB := st) in * end.
    assert (HLR : LR [] (7 + N.of_nat (length a) + 1) sB).
    { left. split; [reflexivity|]. unfold pos_start. subst sB. fields. auto. }
    assert (Hst : Stable (7 + N.of_nat (length a) + 1) (is_sh sB) (gsep sB) (fsep sB) (map fst rest)).
    { right; right. subst sB. fields. lia. }
    specialize (H HLR Hst). fold nr in H. unfold lspec in H.
    destruct (frun (7 + N.of_nat (length a) + 1) rest sB) as [st'|].
    + destruct H as (Hsp & Hg & Hf). apply andb_true_iff in Hsp as [Hlv H0r]. apply negb_true_iff in H0r.
      rewrite Hlv, H0r. cbn [negb andb]. subst sB. fields. unfold fin. rewrite Hg, Hf.
      pose proof (blen_chars a Hla) as Eb. fold na in Eb. rewrite <- Eb. clear Eb.
      destruct rest as [|ch rest].
      * subst nr. cbn [map]. change (chars_blen []) with 0. rewrite leq_nil. cbn [negb]. rewrite andb_false_r. cbn [negb].
        btest; reflexivity.
      * inversion Hlrest as [|ch' r0 Hch _]; subst ch' r0. apply lenok_pos in Hch. rewrite chars_blen_cons.
        subst nr. cbn [map]. rewrite leq_cons_nil. cbn [negb]. rewrite andb_true_r.
        destruct a as [|ch2 a].
        { subst na. cbn [map]. change (chars_blen []) with 0. rewrite leq_nil. cbn [negb]. btest; reflexivity. }
        { inversion Hla as [|ch' r0 Hch2 _]; subst ch' r0. apply lenok_pos in Hch2. rewrite chars_blen_cons.
          subst na. cbn [map]. rewrite leq_cons_nil. cbn [negb]. btest; cbn [andb orb]; destruct prof; reflexivity. }
    + cbn [fin]. destruct (Spec.levels_ok (Spec.split_sl nr [])), (Spec.mem 0 nr); try discriminate H;
        cbn [negb andb]; rewrite ?andb_false_r; reflexivity.
Qed.

(* ------------------------------------------------------------------ *)
(* 6. C16                                                              *)
(* ------------------------------------------------------------------ *)

Lemma chars_nonnil : forall s, utf8_valid s = true -> s <> [] -> utf8_chars s <> [].
Proof.
  apply (utf8_ind (fun s => s <> [] -> utf8_chars s <> [])).
  - intros H. contradiction.
  - intros b r Hb _ _ _. rewrite chars1 by assumption. discriminate.
  - intros b0 b1 r H0 _ _ _ _. rewrite chars2 by assumption. discriminate.
  - intros b0 b1 b2 r H0 _ _ _ _ _. rewrite chars3 by assumption. discriminate.
  - intros b0 b1 b2 b3 r H0 _ _ _ _ _ _. rewrite chars4 by assumption. discriminate.
Qed.

Lemma chars_lenok s : utf8_valid s = true -> Forall lenok (utf8_chars s).
Proof. intros H. exact (chars_len_utf8 s H). Qed.

Lemma filter_is_invalid_ne prof s : s <> [] -> (65535 <? len s) = false ->
  filter_is_invalid prof s = fin prof (len s) (frun 0 (utf8_chars s) finit).
Proof. intros Hne Hl. rewrite filter_is_invalid_fin, Hl. destruct s; [contradiction|reflexivity]. Qed.

Theorem filter_spec : forall prof s, utf8_valid s = true ->
  filter_is_invalid prof s = Ok (negb (Spec.topic_filter_ok s), Spec.share_sep s).
Proof.
  intros prof s Hv. unfold Spec.share_sep, Spec.topic_filter_ok.
  destruct (N.ltb_spec 65535 (len s)) as [Hlen|Hlen].
  { rewrite filter_is_invalid_fin. destruct (N.ltb_spec 65535 (len s)); [|exfalso; lia].
    destruct (N.leb_spec (len s) 65535); [exfalso; lia|]. rewrite andb_false_r. reflexivity. }
  destruct (N.leb_spec (len s) 65535) as [_|Hgt]; [|exfalso; lia]. rewrite andb_true_r.
  assert (Hs : s = [] \/ s <> []) by (destruct s; [left; reflexivity|right; discriminate]).
  destruct Hs as [->|Hne]; [reflexivity|].
  rewrite filter_is_invalid_ne; [|assumption|destruct (N.ltb_spec 65535 (len s)); [exfalso; lia|reflexivity]].
  pose proof (chars_lenok s Hv) as Hl. pose proof (chars_nonnil s Hv Hne) as Hcn.
  rewrite <- (chars_blen_len s Hv). unfold Spec.chars.
  set (l := utf8_chars s) in *.
  assert (En : Spec.leq (map fst l) [] = false) by (destruct l; [contradiction|reflexivity]).
  rewrite En. cbn [negb andb]. fold (aspec (map fst l)).
  destruct (Spec.starts Spec.share_prefix (map fst l)) eqn:Hst.
  - destruct (starts_pairs _ _ Hl Hst) as (l' & E & Hl'). fold pre7 in E. rewrite E. apply fin_shared, Hl'.
  - apply fin_plain; [assumption|reflexivity].
Qed.

Theorem filter_try_spec prof s : utf8_valid s = true ->
  filter_try prof s = if Spec.topic_filter_ok s then Ok {| ftext := s; fsepidx := Spec.share_sep s |}
                      else Err (InvalidTopicFilter s).
Proof.
  intros Hv. unfold filter_try. rewrite (filter_spec prof s Hv).
  destruct (Spec.topic_filter_ok s); reflexivity.
Qed.

Theorem filter_profile_indep s : utf8_valid s = true ->
  filter_is_invalid Debug s = filter_is_invalid Release s.
Proof. intros Hv. rewrite !filter_spec by assumption. reflexivity. Qed.

(* the debug assertion never fires *)
Corollary filter_no_panic prof s p : utf8_valid s = true -> filter_is_invalid prof s <> Panic p.
Proof. intros Hv. rewrite filter_spec by assumption. discriminate. Qed.

Print Assumptions filter_spec.
Print Assumptions filter_try_spec.
Print Assumptions filter_profile_indep.
Print Assumptions filter_no_panic.
