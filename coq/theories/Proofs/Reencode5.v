(* Proofs/Reencode5.v — C11 for the v5 family: "Anything a decoder accepts can be re-encoded and
   decodes to itself".

   1. C11_v5_decoded_in_domain(_block,_poll) : what any front-end returns is in the encoder's domain
   2. C11_v5_redecode  : if it can be encoded at all, the re-encoding decodes to the same packet on the
                         async and blocking front-ends (poll clause: FrontRT5) — no class hypothesis
   3. C11_v5_not_longer(_block) : outside the KF2 class (frame overrun) the packet IS encodable and
                         the canonical encoding is not longer than the bytes consumed — ALL packet types
   4. C11_v5_poll_reencode : the poll front-end is never in the class
   5. C11_KF2_witness_v5_ack : a v5 member of the KF2 class (PUBACK declaring 0, consumed 131,
                         re-encodes to 132), by computation

   Key lemma (m5_body / m5_block): for every packet type, blen5 (result) <= body bytes consumed, where
   blen5 is the canonical body length as a plain number.  Sources of slack (canonical strictly shorter):
     (a) variable byte integers are re-encoded minimally: the property-section length, a
         Subscription Identifier, the remaining length (width v <= bytes read, dvi_measure);
     (b) the short forms of the ack family / DISCONNECT / AUTH (reason 0 and no properties);
     (c) properties are re-ordered, but the section length is the sum of the same items: the
         decoder's running count n of decode_props_loop counts a Subscription Identifier with its
         MINIMAL width, so props_body_len = declared length always holds on success
         (Totality.props_loop_post) while the bytes consumed by the loop are >= that count
         (m_props_loop below).

   FINDINGS: none beyond KF2.  Remarks checked on the way (not defects of the statement):
     - a PUBLISH / SUBSCRIBE / SUBACK whose property-section length or Subscription Identifier is
       spelled non-minimally makes the decoder subtract the MINIMAL section size from the remaining
       length, so the async / blocking front-ends then read past the declared frame: such inputs are
       frame overruns, i.e. they are in the excluded class by the very hypothesis
       `consumed <= k + rl` (the class is wider than the packet types listed for KF2), and the poll
       front-end refuses them.  Their canonical encoding is still not longer than what was consumed
       (m5_body holds without any class hypothesis); only encodability needs the class hypothesis.
     - UNSUBSCRIBE uses the real number of length bytes, so it has no such overrun. *)
From MQ Require Import Proofs.Tactics Proofs.VarIntLaws Proofs.Parses Proofs.Totality Model.Valid.
From MQ Require Export Proofs.ReencodeBase.
From MQ Require Import Proofs.PropsRT Proofs.V5RT.
From MQ Require Proofs.DecInv Proofs.TopicFilterEq Proofs.TopicNameEq Proofs.PollSched.
Open Scope N_scope.
Import V5.

(* ---------- weighted sums (topic lists) ---------- *)
Definition wsum {A} (w : A -> N) (l : list A) : N := fold_right (fun x a => w x + a) 0 l.
Lemma wsum_cons {A} (w : A -> N) x l : wsum w (x :: l) = w x + wsum w l.
Proof. reflexivity. Qed.
Lemma wsum_nil {A} (w : A -> N) : wsum w [] = 0.
Proof. reflexivity. Qed.
Lemma wsum_app {A} (w : A -> N) a b : wsum w (a ++ b) = wsum w a + wsum w b.
Proof.
  induction a as [|x a IH]; cbn [app]; [rewrite wsum_nil; lia|]. rewrite !wsum_cons, IH. lia.
Qed.
Lemma wsum_rev' {A} (w : A -> N) l : wsum w (rev' l) = wsum w l.
Proof.
  rewrite DecInv.rev'_rev. induction l as [|x l IH]; [reflexivity|].
  cbn [rev]. rewrite wsum_app, IH, !wsum_cons, wsum_nil. lia.
Qed.
Lemma wsum_one l : wsum (fun _ : N => 1) l = N.of_nat (length l).
Proof. induction l as [|x l IH]; [reflexivity|]. rewrite wsum_cons, IH. cbn [length]. lia. Qed.

Definition w_sub5 (x : tfilter * subopts) : N := 3 + len (ftext (fst x)).
Definition w_unsub (tf : tfilter) : N := 2 + len (ftext tf).

Lemma sub5_fold l : fold_right (fun '(tf, _) a => 3 + len (ftext tf) + a) 0 l = wsum w_sub5 l.
Proof.
  induction l as [|[tf o] l IH]; [reflexivity|].
  cbn [fold_right]. rewrite wsum_cons, IH. unfold w_sub5. cbn [fst]. lia.
Qed.
Lemma unsub5_fold (l : list tfilter) : fold_right (fun tf a => 2 + len (ftext tf) + a) 0 l = wsum w_unsub l.
Proof. reflexivity. Qed.

(* ================================================================== *)
(* the canonical body length as a number                               *)
(* ================================================================== *)
(* a property section: its body and the minimal length prefix *)
Definition pw (L : list prop_id) (ps : props) : N := props_body_len L ps + width (props_body_len L ps).

Definition wlen5 (w : will) : N := pw WILL_PROPS (w_props w) + 4 + len (w_topic w) + len (w_payload w).
Definition alen5 (a : ack) : N :=
  if props_is_default (a_props a) then (if a_code a =? 0 then 2 else 3) else 3 + pw ACK_PROPS (a_props a).

Definition blen5 (p : packet) : N :=
  match p with
  | Connect c => protocol_len (c_protocol c) + (1 + 2) + pw CONNECT_PROPS (c_props c) + (2 + len (c_client_id c))
                 + (match c_will c with Some w => wlen5 w | None => 0 end)
                 + V3.opt_lp_len (c_username c) + V3.opt_lp_len (c_password c)
  | Connack c => 2 + pw CONNACK_PROPS (ca_props c)
  | Publish x => 2 + len (p_topic x) + V3.qospid_len (p_qospid x) + pw PUBLISH_PROPS (p_props x) + len (p_payload x)
  | Puback a | Pubrec a | Pubrel a | Pubcomp a => alen5 a
  | Subscribe s => 2 + pw SUBSCRIBE_PROPS (s_props s)
                   + fold_right (fun '(tf, _) a => 3 + len (ftext tf) + a) 0 (s_topics s)
  | Suback s | Unsuback s => 2 + pw ACK_PROPS (sa_props s) + N.of_nat (length (sa_codes s))
  | Unsubscribe u => 2 + pw UNSUBSCRIBE_PROPS (u_props u)
                     + fold_right (fun tf a => 2 + len (ftext tf) + a) 0 (u_topics u)
  | Disconnect d => if props_is_default (d_props d) then (if d_code d =? 0 then 0 else 1)
                    else 1 + pw DISCONNECT_PROPS (d_props d)
  | Auth d => if (d_code d =? 0) && props_is_default (d_props d) then 0
              else 1 + pw AUTH_PROPS (d_props d)
  | Pingreq | Pingresp => 0
  end.

Lemma pw_len L ps : pw L ps < VMAX -> props_len L ps = Ok (pw L ps).
Proof. intros H. unfold pw in *. apply props_len_ok. unfold VMAX in H. lia. Qed.

Lemma pw_pos L ps : 1 <= pw L ps.
Proof. unfold pw. pose proof (width_pos (props_body_len L ps)). lia. Qed.

(* below 2^28 the encoder's body length is defined and is blen5 *)
Lemma blen5_ok p : blen5 p < VMAX -> body_len5 p = Ok (blen5 p).
Proof.
  unfold body_len5. destruct p; cbn [body_enc blen5]; intros Hb; try reflexivity.
  - unfold connect_len. rewrite pw_len by lia. cbn [obind].
    destruct (c_will c) as [w|].
    + unfold will_len. unfold wlen5 in *. rewrite pw_len by lia. cbn [obind]. f_equal; lia.
    + cbn [obind]. reflexivity.
  - unfold connack_len. rewrite pw_len by lia. reflexivity.
  - unfold publish_len. rewrite pw_len by lia. reflexivity.
  - unfold ack_len, alen5 in *. destruct (props_is_default (a_props a)); [destruct (a_code a =? 0); reflexivity|].
    rewrite pw_len by lia. reflexivity.
  - unfold ack_len, alen5 in *. destruct (props_is_default (a_props a)); [destruct (a_code a =? 0); reflexivity|].
    rewrite pw_len by lia. reflexivity.
  - unfold ack_len, alen5 in *. destruct (props_is_default (a_props a)); [destruct (a_code a =? 0); reflexivity|].
    rewrite pw_len by lia. reflexivity.
  - unfold ack_len, alen5 in *. destruct (props_is_default (a_props a)); [destruct (a_code a =? 0); reflexivity|].
    rewrite pw_len by lia. reflexivity.
  - unfold subscribe_len. rewrite pw_len by lia. reflexivity.
  - unfold suback_len. rewrite pw_len by lia. reflexivity.
  - unfold unsubscribe_len. rewrite pw_len by lia. reflexivity.
  - unfold suback_len. rewrite pw_len by lia. reflexivity.
  - unfold disconnect_len. destruct (props_is_default (d_props d)); [destruct (d_code d =? 0); reflexivity|].
    rewrite pw_len by lia. reflexivity.
  - unfold auth_len. destruct ((d_code d =? 0) && props_is_default (d_props d)); [reflexivity|].
    rewrite pw_len by lia. reflexivity.
Qed.

(* conversely: whenever the encoder's body length is defined it is blen5 *)
Ltac open_pl H :=
  match type of H with
  | context [props_len ?L ?ps] =>
    let pl := fresh "pl" in let E := fresh "Epl" in
    destruct (props_len L ps) as [pl|?|?] eqn:E; cbn [obind] in H; try discriminate H;
    apply props_len_inv in E as [_ ->]
  end.

Lemma blen5_eq p n : body_len5 p = Ok n -> n = blen5 p.
Proof.
  unfold body_len5. destruct p; cbn [body_enc blen5]; intros H.
  - unfold connect_len in H. open_pl H. destruct (c_will c) as [w|].
    + unfold will_len in H. open_pl H. inversion H. unfold wlen5, pw. lia.
    + cbn [obind] in H. inversion H. unfold pw. lia.
  - unfold connack_len in H. open_pl H. inversion H. reflexivity.
  - unfold publish_len in H. open_pl H. inversion H. reflexivity.
  - unfold ack_len, alen5 in *. destruct (props_is_default (a_props a)); [destruct (a_code a =? 0); inversion H; reflexivity|].
    open_pl H. inversion H. reflexivity.
  - unfold ack_len, alen5 in *. destruct (props_is_default (a_props a)); [destruct (a_code a =? 0); inversion H; reflexivity|].
    open_pl H. inversion H. reflexivity.
  - unfold ack_len, alen5 in *. destruct (props_is_default (a_props a)); [destruct (a_code a =? 0); inversion H; reflexivity|].
    open_pl H. inversion H. reflexivity.
  - unfold ack_len, alen5 in *. destruct (props_is_default (a_props a)); [destruct (a_code a =? 0); inversion H; reflexivity|].
    open_pl H. inversion H. reflexivity.
  - unfold subscribe_len in H. open_pl H. inversion H. reflexivity.
  - unfold suback_len in H. open_pl H. inversion H. reflexivity.
  - unfold unsubscribe_len in H. open_pl H. inversion H. reflexivity.
  - unfold suback_len in H. open_pl H. inversion H. reflexivity.
  - inversion H. reflexivity.
  - inversion H. reflexivity.
  - unfold disconnect_len in H. destruct (props_is_default (d_props d)); [destruct (d_code d =? 0); inversion H; reflexivity|].
    open_pl H. inversion H. reflexivity.
  - unfold auth_len in H. destruct ((d_code d =? 0) && props_is_default (d_props d)); [inversion H; reflexivity|].
    open_pl H. inversion H. reflexivity.
Qed.

(* ================================================================== *)
(* measured post-conditions: properties                                *)
(* ================================================================== *)
Lemma var_byte_int_try_inv v v' : var_byte_int_try v = Ok v' -> v' = v /\ v < VMAX.
Proof.
  unfold var_byte_int_try, VMAX. destruct (N.ltb_spec v 268435456) as [Hlt|Hge]; intros Hx; inversion Hx; subst. split; [reflexivity|assumption].
Qed.

(* a property value is counted (value_len: minimal) with at most the bytes it was read from *)
Lemma m_decode_value id : postm (decode_value id) (fun v n => value_len (prop_wtype id) v <= n).
Proof.
  unfold decode_value. destruct (prop_wtype id); cbn [value_len].
  - mbind (apply m_read_u8). intros v ? ->. destruct (1 <? v); [apply postm_fail|apply postm_ret; lia].
  - mbind (apply m_read_u16). intros v ? ->. apply postm_ret; lia.
  - mbind (apply m_read_u32). intros v ? ->. apply postm_ret; lia.
  - mbind (apply m_read_string). intros s ? ->. apply postm_ret. cbn [pv_b]. lia.
  - mbind (apply m_read_string). intros s ? ->.
    destruct (name_is_invalid s); [apply postm_fail|]. apply postm_ret. cbn [pv_b]. lia.
  - mbind (apply m_read_bytes). intros s ? ->. apply postm_ret. cbn [pv_b]. lia.
  - mbind (apply m_decode_var_int). intros [v k] ? (-> & Hv & Hw). cbn [fst snd] in *.
    mbind (apply postm_lift). intros v' ? [-> Hv']. apply var_byte_int_try_inv in Hv' as [-> _].
    apply postm_ret. cbn [pv_n]. rewrite (var_int_len_ok _ Hv). lia.
  - mbind (apply m_read_u8). intros v ? ->. destruct (1 <? v); [apply postm_fail|].
    destruct (qos_of_u8 v); [apply postm_ret; lia|apply postm_rpanic|apply postm_rpanic].
Qed.

(* the loop consumes at least what it counts *)
Lemma m_props_loop ctx L fuel : forall plen n acc,
  postm (decode_props_loop fuel ctx L plen n acc) (fun _ c => plen <= n + c).
Proof.
  induction fuel as [|f IH]; intros plen n acc; cbn [decode_props_loop].
  - destruct (N.leb_spec plen n); [|apply postm_rpanic].
    destruct (plen =? n); [apply postm_ret; lia|apply postm_fail].
  - destruct (N.leb_spec plen n).
    { destruct (plen =? n); [apply postm_ret; lia|apply postm_fail]. }
    mbind (apply m_read_u8). intros b ? ->.
    destruct (prop_of_u8 b) as [[|id]|]; [| |apply postm_fail].
    + mbind (apply m_read_string). intros name ? ->.
      mbind (apply m_read_string). intros value ? ->.
      mweaken (apply IH). intros p c Hc. lia.
    + destruct (prop_mem id L); [|apply postm_fail].
      destruct (pget acc id); [apply postm_fail|].
      mbind (apply m_decode_value). intros v c1 Hc1.
      mweaken (apply IH). intros p c Hc. lia.
Qed.

Lemma m_props_full ctx L : Totality.nodupb L = true ->
  postm (decode_props_full ctx L)
        (fun r c => props_body_len L (fst (fst r)) = snd (fst r) /\ snd (fst r) < VMAX /\
                    width (snd (fst r)) <= snd r /\ snd r + snd (fst r) <= c).
Proof.
  intros Hnd t d [[p plen] pb] d' H. cbn [fst snd].
  destruct (decode_props_full_post _ _ _ _ _ _ _ _ Hnd H) as [Hb Hlt].
  unfold decode_props_full in H. apply bind_inv in H as ([pl k] & d0 & Hv & H).
  cbv beta iota in H. apply bind_inv in H as (p1 & d2 & Hl & Hr). unfold ret in Hr. inversion Hr; subst.
  destruct (dvi_measure _ _ _ _ _ Hv) as (L0 & _ & Hw & _).
  destruct (m_props_loop _ _ _ _ _ _ _ _ _ _ Hl) as (c & L1 & Hc).
  exists (pb + c). repeat split; try assumption; lia.
Qed.

(* a whole property section: canonical size (body + minimal prefix) <= bytes consumed *)
Lemma m_props ctx L : Totality.nodupb L = true ->
  postm (decode_props ctx L) (fun p c => pw L p <= c /\ props_body_len L p < VMAX).
Proof.
  intros Hnd. unfold decode_props. mbind (apply (m_props_full ctx L Hnd)).
  intros [[p plen] pb] c (Hb & Hlt & Hw & Hc). cbn [fst snd] in *.
  apply postm_ret. unfold pw. rewrite Hb. split; [lia|exact Hlt].
Qed.

Lemma nd_connect : Totality.nodupb CONNECT_PROPS = true. Proof. reflexivity. Qed.
Lemma nd_will : Totality.nodupb WILL_PROPS = true. Proof. reflexivity. Qed.
Lemma nd_connack : Totality.nodupb CONNACK_PROPS = true. Proof. reflexivity. Qed.
Lemma nd_publish : Totality.nodupb PUBLISH_PROPS = true. Proof. reflexivity. Qed.
Lemma nd_ack : Totality.nodupb ACK_PROPS = true. Proof. reflexivity. Qed.
Lemma nd_subscribe : Totality.nodupb SUBSCRIBE_PROPS = true. Proof. reflexivity. Qed.
Lemma nd_unsubscribe : Totality.nodupb UNSUBSCRIBE_PROPS = true. Proof. reflexivity. Qed.
Lemma nd_disconnect : Totality.nodupb DISCONNECT_PROPS = true. Proof. reflexivity. Qed.
Lemma nd_auth : Totality.nodupb AUTH_PROPS = true. Proof. reflexivity. Qed.

(* ================================================================== *)
(* measured post-conditions: the v5 body decoders                      *)
(* ================================================================== *)
Lemma m_reason_read table pt : postm (reason_read table pt) (fun _ n => n = 1).
Proof.
  unfold reason_read. mbind (apply m_read_u8). intros b ? ->.
  destruct (mem_n b (codes_of table)); [apply postm_ret; lia|apply postm_fail].
Qed.

Lemma m5_will qos retain : postm (will_decode qos retain) (fun w n => wlen5 w <= n).
Proof.
  unfold will_decode. mbind (apply (m_props CtxWill _ nd_will)). intros props c [Hc _].
  mbind (apply m_read_string). intros topic ? ->.
  mbind (apply postm_lift). intros topic' ? [-> Ht]. apply TopicNameEq.name_try_inv in Ht as [-> _].
  mbind (apply m_read_bytes). intros payload ? ->.
  match goal with |- postm (if ?b then _ else _) _ => destruct b end; [apply postm_fail|].
  apply postm_ret. unfold wlen5. cbn [w_props w_topic w_payload]. lia.
Qed.

Lemma m5_connect_wp h proto :
  postm (connect_decode_with_protocol h proto) (fun c n => blen5 (Connect c) <= protocol_len proto + n).
Proof.
  unfold connect_decode_with_protocol. destruct proto; try apply postm_fail.
  mbind (apply m_read_u8). intros flags ? ->.
  destruct (bit flags 0); [apply postm_fail|].
  mbind (apply m_read_u16). intros ka ? ->.
  mbind (apply (m_props (CtxPacket (h_typ h)) _ nd_connect)). intros props c [Hc _].
  mbind (apply m_read_string). intros cid ? ->.
  eapply postm_bind with (Q := fun o n => match o with Some w => wlen5 w | None => 0 end <= n).
  { destruct (bit flags 2).
    - mbind (apply postm_lift). intros q ? [-> _].
      mbind (apply m5_will). intros w n Hw. apply postm_ret. lia.
    - destruct (negb ((flags / 8) mod 4 =? 0)); [apply postm_fail|]. apply postm_ret. lia. }
  cbv beta. intros will nw Hw.
  mbind (apply m_opt_string). intros un ? ->.
  mbind (apply m_opt_bytes). intros pwd ? ->.
  apply postm_ret. cbn [blen5 c_protocol c_props c_client_id c_will c_username c_password]. lia.
Qed.

Lemma m5_connect h : postm (connect_decode h) (fun c n => blen5 (Connect c) <= n).
Proof.
  unfold connect_decode. mbind (apply m_protocol_decode). intros proto ? ->.
  mweaken (apply m5_connect_wp). intros c n H. lia.
Qed.

Lemma m5_connack h : postm (connack_decode h) (fun c n => blen5 (Connack c) <= n).
Proof.
  unfold connack_decode. mbind (apply m_read_exact). intros payload ? [-> _].
  destruct payload as [|f [|c [|x r]]]; try apply postm_rpanic.
  eapply postm_bind with (Q := fun _ n => n = 0).
  { destruct (f =? 0); [apply postm_ret; reflexivity|].
    destruct (f =? 1); [apply postm_ret; reflexivity|apply postm_fail]. }
  cbv beta. intros sp ? ->.
  eapply postm_bind with (Q := fun _ n => n = 0).
  { destruct (mem_n c CONNECT_CODES); [apply postm_ret; reflexivity|apply postm_fail]. }
  cbv beta. intros code ? ->.
  mbind (apply (m_props (CtxPacket (h_typ h)) _ nd_connack)). intros props n [Hc _].
  apply postm_ret. cbn [blen5 ca_props]. lia.
Qed.

Lemma m5_publish h : postm (publish_decode h) (fun p n => blen5 (Publish p) <= n).
Proof.
  unfold publish_decode. mbind (apply m_read_string). intros topic ? ->.
  mbind (apply m_checked_sub). intros rl ? ->.
  mbind (apply m_qospid). intros [qp rl'] ? ->. cbn [fst].
  mbind (apply (m_props (CtxPacket (h_typ h)) _ nd_publish)). intros props c [Hc _].
  mbind (apply postm_lift). intros pl ? [-> _].
  mbind (apply m_checked_sub). intros rl2 ? ->.
  eapply postm_bind with (Q := fun s n => n = len s).
  { destruct (0 <? rl2).
    - mbind (apply m_read_exact). intros s ? [-> Hs].
      match goal with |- postm (if ?b then _ else _) _ => destruct b end; [apply postm_fail|].
      apply postm_ret. lia.
    - apply postm_ret. reflexivity. }
  cbv beta. intros payload ? ->.
  mbind (apply postm_lift). intros topic' ? [-> Ht]. apply TopicNameEq.name_try_inv in Ht as [-> _].
  apply postm_ret. cbn [blen5 p_topic p_qospid p_props p_payload]. lia.
Qed.

Lemma alen5_le a : alen5 a <= 3 + pw ACK_PROPS (a_props a).
Proof.
  unfold alen5. pose proof (pw_pos ACK_PROPS (a_props a)).
  destruct (props_is_default (a_props a)); [destruct (a_code a =? 0)|]; lia.
Qed.

Lemma m5_ack table h : postm (ack_decode table h) (fun a n => alen5 a <= n).
Proof.
  unfold ack_decode. mbind (apply m_pid_read). intros pid ? ->.
  destruct (h_rl h =? 2).
  { apply postm_ret. unfold alen5. cbn [a_props a_code]. rewrite props_is_default_empty, N.eqb_refl. cbn [andb]. lia. }
  destruct (h_rl h =? 3).
  { mbind (apply m_reason_read). intros code ? ->. apply postm_ret.
    unfold alen5. cbn [a_props a_code]. rewrite props_is_default_empty. destruct (code =? 0); lia. }
  mbind (apply m_reason_read). intros code ? ->.
  mbind (apply (m_props (CtxPacket (h_typ h)) _ nd_ack)). intros props c [Hc _].
  apply postm_ret.
  pose proof (alen5_le {| a_pid := pid; a_code := code; a_props := props |}) as Hle.
  cbn [a_props] in Hle. lia.
Qed.

Lemma m5_subscribe_loop prof fuel : forall rl acc,
  postm (subscribe_loop prof fuel rl acc) (fun l n => wsum w_sub5 l = wsum w_sub5 acc + n).
Proof.
  induction fuel as [|f IH]; intros rl acc; cbn [subscribe_loop];
    (destruct (rl =? 0); [apply postm_ret; rewrite wsum_rev'; lia|]).
  - apply postm_rpanic.
  - mbind (apply m_filter_read). intros tf ? ->.
    mbind (apply m_read_u8). intros ob ? ->.
    mbind (apply postm_lift). intros o ? [-> _].
    mbind (apply m_checked_sub). intros rl' ? ->.
    mweaken (apply IH). intros l n Hl. rewrite Hl, wsum_cons. unfold w_sub5 at 1. cbn [fst]. lia.
Qed.

Lemma m5_subscribe prof h : postm (subscribe_decode prof h) (fun s n => blen5 (Subscribe s) <= n).
Proof.
  unfold subscribe_decode. mbind (apply m_pid_read). intros pid ? ->.
  mbind (apply (m_props (CtxPacket (h_typ h)) _ nd_subscribe)). intros props c [Hc _].
  mbind (apply postm_lift). intros pl ? [-> _].
  mbind (apply m_checked_sub). intros rl ? ->.
  destruct (rl =? 0); [apply postm_fail|].
  apply postm_dep with (g := fun d => topics <- subscribe_loop prof (S (length d)) rl [] ;;
                                      ret {| s_pid := pid; s_props := props; s_topics := topics |}).
  intros d0. mbind (apply m5_subscribe_loop). intros topics n Hn.
  apply postm_ret. cbn [blen5 s_props s_topics]. rewrite sub5_fold, Hn, wsum_nil. lia.
Qed.

Lemma m5_codes_loop table pt fuel : forall rl acc,
  postm (codes_loop table pt fuel rl acc) (fun l n => wsum (fun _ => 1) l = wsum (fun _ => 1) acc + n).
Proof.
  induction fuel as [|f IH]; intros rl acc; cbn [codes_loop];
    (destruct (rl =? 0); [apply postm_ret; rewrite wsum_rev'; lia|]).
  - apply postm_rpanic.
  - mbind (apply m_reason_read). intros code ? ->.
    mweaken (apply IH). intros l n Hl. rewrite Hl, wsum_cons. lia.
Qed.

Lemma m5_suback table h :
  postm (suback_decode table h)
        (fun s n => 2 + pw ACK_PROPS (sa_props s) + N.of_nat (length (sa_codes s)) <= n).
Proof.
  unfold suback_decode. mbind (apply m_pid_read). intros pid ? ->.
  mbind (apply (m_props (CtxPacket (h_typ h)) _ nd_ack)). intros props c [Hc _].
  mbind (apply postm_lift). intros pl ? [-> _].
  mbind (apply m_checked_sub). intros rl ? ->.
  apply postm_dep with (g := fun d => codes <- codes_loop table (h_typ h) (S (length d)) rl [] ;;
                                      ret {| sa_pid := pid; sa_props := props; sa_codes := codes |}).
  intros d0. mbind (apply m5_codes_loop). intros codes n Hn.
  apply postm_ret. cbn [sa_props sa_codes]. rewrite <- wsum_one, Hn, wsum_nil. lia.
Qed.

Lemma m5_unsubscribe_loop prof fuel : forall rl acc,
  postm (unsubscribe_loop prof fuel rl acc) (fun l n => wsum w_unsub l = wsum w_unsub acc + n).
Proof.
  induction fuel as [|f IH]; intros rl acc; cbn [unsubscribe_loop];
    (destruct (rl =? 0); [apply postm_ret; rewrite wsum_rev'; lia|]).
  - apply postm_rpanic.
  - mbind (apply m_filter_read). intros tf ? ->.
    mbind (apply m_checked_sub). intros rl' ? ->.
    mweaken (apply IH). intros l n Hl. rewrite Hl, wsum_cons. unfold w_unsub at 1. lia.
Qed.

Lemma m5_unsubscribe prof h : postm (unsubscribe_decode prof h) (fun u n => blen5 (Unsubscribe u) <= n).
Proof.
  unfold unsubscribe_decode. mbind (apply m_pid_read). intros pid ? ->.
  mbind (apply (m_props_full (CtxPacket (h_typ h)) _ nd_unsubscribe)).
  intros [[props plen] pb] c (Hb & Hlt & Hw & Hc). cbn [fst snd] in *.
  mbind (apply m_checked_sub). intros rl ? ->.
  destruct (rl =? 0); [apply postm_fail|].
  apply postm_dep with (g := fun d => topics <- unsubscribe_loop prof (S (length d)) rl [] ;;
                                      ret {| u_pid := pid; u_props := props; u_topics := topics |}).
  intros d0. mbind (apply m5_unsubscribe_loop). intros topics n Hn.
  apply postm_ret. cbn [blen5 u_props u_topics]. rewrite unsub5_fold, Hn, wsum_nil. unfold pw. rewrite Hb. lia.
Qed.

Lemma m5_disconnect h : postm (disconnect_decode h) (fun d n => blen5 (Disconnect d) <= n).
Proof.
  unfold disconnect_decode.
  destruct (h_rl h =? 0).
  { apply postm_ret. cbn [blen5 d_props d_code]. rewrite props_is_default_empty, N.eqb_refl. cbn [andb]. lia. }
  destruct (h_rl h =? 1).
  { mbind (apply m_reason_read). intros code ? ->. apply postm_ret.
    cbn [blen5 d_props d_code]. rewrite props_is_default_empty. destruct (code =? 0); lia. }
  mbind (apply m_reason_read). intros code ? ->.
  mbind (apply (m_props (CtxPacket (h_typ h)) _ nd_disconnect)). intros props c [Hc _].
  apply postm_ret. cbn [blen5 d_props d_code].
  destruct (props_is_default props); [destruct (code =? 0)|]; lia.
Qed.

Lemma m5_auth h : postm (auth_decode h) (fun d n => blen5 (Auth d) <= n).
Proof.
  unfold auth_decode.
  destruct (h_rl h =? 0).
  { apply postm_ret. cbn [blen5 d_props d_code]. rewrite props_is_default_empty, N.eqb_refl. cbn [andb]. lia. }
  mbind (apply m_reason_read). intros code ? ->.
  mbind (apply (m_props (CtxPacket (h_typ h)) _ nd_auth)). intros props c [Hc _].
  apply postm_ret. cbn [blen5 d_props d_code].
  destruct ((code =? 0) && props_is_default props); lia.
Qed.

Ltac m5_case lem :=
  mbind (apply lem); let x := fresh "x" in let n := fresh "n" in let H := fresh "H" in
  intros x n H; apply postm_ret; cbn [blen5] in *; lia.

(* the canonical body length of the result is at most the body bytes consumed *)
Lemma m5_body prof h : postm (body_decode_async prof h) (fun p n => blen5 p <= n).
Proof.
  unfold body_decode_async. destruct (h_typ h);
    first [ apply postm_ret; cbn [blen5]; lia
          | m5_case (m5_connect h) | m5_case (m5_connack h) | m5_case (m5_publish h)
          | m5_case (m5_ack PPuback h) | m5_case (m5_ack PPubrec h)
          | m5_case (m5_ack PPubrel h) | m5_case (m5_ack PPubcomp h)
          | m5_case (m5_subscribe prof h) | m5_case (m5_suback PSuback h) | m5_case (m5_suback PUnsuback h)
          | m5_case (m5_unsubscribe prof h) | m5_case (m5_disconnect h) | m5_case (m5_auth h) ].
Qed.

Lemma m5_block prof h : postm (block_decode prof h) (fun p n => blen5 p <= n).
Proof.
  unfold block_decode. destruct (h_typ h);
    first [ apply postm_rpanic
          | m5_case (m5_connect h) | m5_case (m5_connack h) | m5_case (m5_publish h)
          | m5_case (m5_ack PPuback h) | m5_case (m5_ack PPubrec h)
          | m5_case (m5_ack PPubrel h) | m5_case (m5_ack PPubcomp h)
          | m5_case (m5_subscribe prof h) | m5_case (m5_suback PSuback h) | m5_case (m5_suback PUnsuback h)
          | m5_case (m5_unsubscribe prof h) | m5_case (m5_disconnect h) | m5_case (m5_auth h) ].
Qed.

(* ---------- the encoder on a valid packet whose canonical body fits ---------- *)
Lemma v5_reencode_fits prof p nb rl kk : I5.valid p = true ->
  blen5 p <= nb -> nb <= rl -> rl < VMAX -> width rl <= kk ->
  exists vb, encode prof p = Ok vb /\ len (as_ref vb) <= 1 + kk + nb.
Proof.
  intros Hv H1 H2 H3 H4. destruct (fit _ _ _ _ H1 H2 H3 H4) as [Hb Hl].
  pose proof (blen5_ok p Hb) as Hbl.
  destruct (v5_encode_ok prof p _ Hv Hbl Hb) as [vb E]. exists vb. split; [exact E|].
  destruct (v5_encode_shape prof p vb _ Hv E Hbl) as (chunks & _ & Hs & Hc).
  rewrite Hs, len_cons, len_app. destruct (write_len _ Hb) as [-> _].
  fold (clen chunks). rewrite Hc. lia.
Qed.

(* ================================================================== *)
(* 1. decoded packets are in the encoder's valid domain                *)
(* ================================================================== *)
Theorem C11_v5_decoded_in_domain : forall prof t d p d',
  bytes_okb d = true -> F5.dec_async prof t d = ROk p d' -> I5.valid p = true.
Proof.
  intros prof t d p d' Hd H.
  exact (DecInv.v5_decoded_valid TopicFilterEq.filter_profile_indep prof t d p d' Hd H).
Qed.

Theorem C11_v5_decoded_in_domain_block : forall prof d p,
  bytes_okb d = true -> F5.dec_block prof d = BOk p -> I5.valid p = true.
Proof.
  intros prof d p Hd H. unfold F5.dec_block, map_eof in H.
  destruct (decode_async prof TEof d) as [a d'|e|s] eqn:E.
  - inversion H; subst a. exact (C11_v5_decoded_in_domain prof TEof d p d' Hd E).
  - destruct (is_eof e); discriminate H.
  - discriminate H.
Qed.

(* what an accepting poll run looks like (PollSched.consumed_eq_total, instantiated) *)
Lemma v5_poll_ok_inv prof l t n body p :
  rr_res _ (F5.poll_drive prof l t) = Some (Ok (n, body, p)) ->
  exists (cb : N) (vbytes : bytes) (v : N) (h : header) (rest : bytes),
    bytes_of l = cb :: vbytes ++ body ++ rest /\
    PollSched.vbi_of vbytes v /\ header_new_with cb v = Ok h /\
    n = 1 + len vbytes + len body /\
    ((build_empty_packet h = Some p /\ body = []) \/
     (build_empty_packet h = None /\ h_rl h <> 0 /\ len body = h_rl h /\
      block_decode prof h TEof body = ROk p [])).
Proof.
  intros H. unfold F5.poll_drive in H.
  destruct (PollSched.consumed_eq_total _ _ _ _ prof l t n body p H)
    as (_ & _ & cb & vbytes & v & h & Hd & Hv & Hn & Ht & Hc).
  exists cb, vbytes, v, h, (bytes_of (rr_rest _ (poll_drive packet header_new_with build_empty_packet (block_decode prof) prof l t))).
  repeat split; assumption.
Qed.

Theorem C11_v5_decoded_in_domain_poll : forall prof l t n body p,
  rr_res _ (F5.poll_drive prof l t) = Some (Ok (n, body, p)) ->
  bytes_okb (bytes_of l) = true -> I5.valid p = true.
Proof.
  intros prof l t n body p H Hd.
  destruct (v5_poll_ok_inv _ _ _ _ _ _ H) as (cb & vbytes & v & h & rest & Hl & _ & _ & _ & Hc).
  destruct Hc as [[He _]|(_ & _ & _ & Hb)].
  - exact (DecInv.v5_empty_valid _ _ He).
  - rewrite Hl in Hd. apply DecInv.bytes_okb_cons in Hd as [_ Hd].
    rewrite !DecInv.bytes_okb_app in Hd. apply andb_true_iff in Hd as [_ Hd]. apply andb_true_iff in Hd as [Hd _].
    exact (DecInv.v5_block_decoded_valid TopicFilterEq.filter_profile_indep prof h TEof body p [] Hb Hd).
Qed.

(* ================================================================== *)
(* 2. the re-encoding decodes to the same packet                       *)
(* ================================================================== *)
Theorem C11_v5_redecode : forall prof p vb, I5.valid p = true -> encode prof p = Ok vb ->
  (forall t rest, F5.dec_async prof t (as_ref vb ++ rest) = ROk p rest) /\
  (forall rest, F5.dec_block prof (as_ref vb ++ rest) = BOk p).
Proof.
  intros prof p vb Hv He.
  pose proof (v5_roundtrip TopicFilterEq.filter_profile_indep prof p vb Hv He) as Hrt.
  split; [exact Hrt|]. intros rest. unfold F5.dec_block. rewrite (Hrt TEof rest). reflexivity.
Qed.

Corollary C11_v5_decode_encode_decode : forall prof t d p d' vb,
  bytes_okb d = true -> F5.dec_async prof t d = ROk p d' -> encode prof p = Ok vb ->
  forall t2 rest, F5.dec_async prof t2 (as_ref vb ++ rest) = ROk p rest.
Proof.
  intros prof t d p d' vb Hd H He.
  exact (proj1 (C11_v5_redecode prof p vb (C11_v5_decoded_in_domain _ _ _ _ _ Hd H) He)).
Qed.

(* ================================================================== *)
(* 3. encodable, and not longer, outside the KF2 class                 *)
(* ================================================================== *)
Theorem C11_v5_not_longer : forall prof t d p d' cb rl k rest0,
  bytes_okb d = true -> F5.dec_async prof t d = ROk p d' ->
  decode_raw_header t d = ROk (cb, rl) rest0 -> k = len d - len rest0 ->   (* the header used k bytes and declares rl *)
  consumed d d' <= k + rl ->                                               (* not a frame overrun (KF2 class excluded) *)
  exists vb, encode prof p = Ok vb /\ len (as_ref vb) <= consumed d d'.
Proof.
  intros prof t d p d' cb rl k rest0 Hd H Hraw Hk Hc.
  pose proof (C11_v5_decoded_in_domain _ _ _ _ _ Hd H) as Hv.
  unfold F5.dec_async, decode_async, header_decode in H.
  apply bind_inv in H as (h & d1 & Hh & Hb).
  apply bind_inv in Hh as ([cb' rl'] & d0 & Hraw' & Hl).
  rewrite Hraw in Hraw'. inversion Hraw'; subst cb' rl' d0.
  apply lift_inv in Hl as [_ ->].
  destruct (raw_header_measure _ _ _ _ _ Hraw) as (kk & L0 & Hrl & Hw).
  destruct (m5_body prof h _ _ _ _ Hb) as (nb & L1 & Hlen).
  unfold consumed in *.
  destruct (v5_reencode_fits prof p nb rl kk Hv Hlen) as (vb & E & Hle); [lia|exact Hrl|exact Hw|].
  exists vb. split; [exact E|lia].
Qed.

Theorem C11_v5_not_longer_block : forall prof d p,
  bytes_okb d = true -> F5.dec_block prof d = BOk p ->
  exists d', F5.dec_async prof TEof d = ROk p d' /\                        (* the slice left over *)
    forall cb rl k rest0,
      decode_raw_header TEof d = ROk (cb, rl) rest0 -> k = len d - len rest0 ->
      consumed d d' <= k + rl ->
      exists vb, encode prof p = Ok vb /\ len (as_ref vb) <= consumed d d'.
Proof.
  intros prof d p Hd H. unfold F5.dec_block, map_eof in H. unfold F5.dec_async.
  destruct (decode_async prof TEof d) as [a d'|e|s] eqn:E.
  - inversion H; subst a. exists d'. split; [reflexivity|].
    intros cb rl k rest0 Hraw Hk Hc.
    exact (C11_v5_not_longer prof TEof d p d' cb rl k rest0 Hd E Hraw Hk Hc).
  - destruct (is_eof e); discriminate H.
  - discriminate H.
Qed.

(* without any class hypothesis: IF the decoded packet is encodable, the encoding exceeds the
   bytes consumed by at most the growth of the remaining-length field (<= 3 bytes) *)
Theorem C11_v5_length_any : forall prof t d p d' vb,
  bytes_okb d = true -> F5.dec_async prof t d = ROk p d' -> encode prof p = Ok vb ->
  len (as_ref vb) <= consumed d d' + 3.
Proof.
  intros prof t d p d' vb Hd H E.
  pose proof (C11_v5_decoded_in_domain _ _ _ _ _ Hd H) as Hv.
  unfold F5.dec_async, decode_async, header_decode in H.
  apply bind_inv in H as (h & d1 & Hh & Hb).
  apply bind_inv in Hh as ([cb rl] & d0 & Hraw & Hl). apply lift_inv in Hl as [_ ->].
  destruct (raw_header_measure _ _ _ _ _ Hraw) as (kk & L0 & Hrl & Hw).
  destruct (m5_body prof h _ _ _ _ Hb) as (nb & L1 & Hlen).
  destruct (body_enc p) as [[chunks bl]|] eqn:Eb.
  - destruct (encode_inv _ _ _ _ _ Eb E) as (n & -> & Hn & Hs).
    assert (Hbl : body_len5 p = Ok n) by (unfold body_len5; rewrite Eb; reflexivity).
    destruct (v5_encode_shape prof p vb _ Hv E Hbl) as (chunks' & _ & Hs' & Hc).
    pose proof (blen5_eq _ _ Hbl) as Hnb.
    rewrite Hs', len_cons, len_app. destruct (write_len _ Hn) as [-> Hwn].
    fold (clen chunks'). rewrite Hc. unfold consumed. subst n. pose proof (width_pos rl). lia.
  - destruct (body_enc_none _ Eb) as [-> | ->]; cbn [encode] in E; inversion E; subst vb;
      cbn [as_ref]; rewrite !len_cons, len_nil; unfold consumed; pose proof (width_pos rl); lia.
Qed.

(* ================================================================== *)
(* 4. the poll front-end is never in the class                         *)
(* ================================================================== *)
Theorem C11_v5_poll_reencode : forall prof l t n body p,
  bytes_okb (bytes_of l) = true ->
  rr_res _ (F5.poll_drive prof l t) = Some (Ok (n, body, p)) ->
  exists vb, encode prof p = Ok vb /\ len (as_ref vb) <= n.
Proof.
  intros prof l t n body p Hd H.
  pose proof (C11_v5_decoded_in_domain_poll _ _ _ _ _ _ H Hd) as Hvalid.
  destruct (v5_poll_ok_inv _ _ _ _ _ _ H) as (cb & vbytes & v & h & rest & Hl & Hv & Hnw & Hn & Hc).
  pose proof (Hv TEof []) as Hdv. rewrite app_nil_r in Hdv.
  destruct (dvi_measure _ _ _ _ _ Hdv) as (_ & Hvb & Hw & _).
  destruct Hc as [[He ->]|(_ & _ & Hlb & Hb)].
  - assert (Hz : blen5 p <= 0).
    { unfold build_empty_packet in He.
      destruct (h_typ h); try destruct (h_rl h =? 0); inversion He; subst p; vm_compute; discriminate. }
    destruct (v5_reencode_fits prof p 0 v (len vbytes) Hvalid Hz) as (vb & E & Hle); [lia|exact Hvb|exact Hw|].
    exists vb. split; [exact E|]. rewrite len_nil in Hn. lia.
  - pose proof (PollSched.V5_new_with_rl _ _ _ Hnw) as Hrl.
    destruct (m5_block prof h _ _ _ _ Hb) as (nb & L1 & Hlen). rewrite len_nil in L1.
    destruct (v5_reencode_fits prof p nb v (len vbytes) Hvalid Hlen) as (vb & E & Hle); [lia|exact Hvb|exact Hw|].
    exists vb. split; [exact E|lia].
Qed.

(* ================================================================== *)
(* 5. a v5 member of the KF2 class: PUBACK declaring remaining length  *)
(*    0, followed by pid, reason 0 and a 125-byte property section     *)
(*    (Reason String of 122 bytes): consumed 131, re-encodes to 132    *)
(* ================================================================== *)
Definition kf2_v5_ack : bytes := [64; 0; 0; 1; 0; 125; 31; 0; 122] ++ repeat 97 122.

Example C11_KF2_witness_v5_ack :
  exists p d', F5.dec_async Release TEof kf2_v5_ack = ROk p d' /\ consumed kf2_v5_ack d' = 131 /\
               exists vb, encode Release p = Ok vb /\ len (as_ref vb) = 132.
Proof.
  destruct (F5.dec_async Release TEof kf2_v5_ack) as [p d'|e|s] eqn:E; vm_compute in E; try discriminate E.
  inversion E; subst p d'. eexists; eexists. split; [reflexivity|]. split; [vm_compute; reflexivity|].
  eexists. split; [vm_compute; reflexivity|vm_compute; reflexivity].
Qed.

Example C11_KF2_witness_v5_ack_poll :
  rr_res _ (F5.poll1 Release kf2_v5_ack TEof) = Some (Err InvalidRemainingLength).
Proof. vm_compute. reflexivity. Qed.

(* a PUBLISH with a non-minimal property-section length is a frame overrun on the async front-end
   (header 2 bytes, declared 6, body consumed 7) — in the excluded class although PUBLISH tracks its length *)
Example publish_nonminimal_props_overrun :
  let d := [48; 6; 0; 1; 97; 128; 0; 120; 121] in
  exists p, F5.dec_async Release TEof d = ROk p [] /\ consumed d [] = 9 /\
            decode_raw_header TEof d = ROk (48, 6) (skipn 2 d) /\
            (exists vb, encode Release p = Ok vb /\ len (as_ref vb) = 8) /\
            rr_res _ (F5.poll1 Release d TEof) = Some (Err InvalidRemainingLength).
Proof.
  cbv zeta. eexists. split; [vm_compute; reflexivity|]. split; [vm_compute; reflexivity|].
  split; [vm_compute; reflexivity|]. split; [|vm_compute; reflexivity].
  eexists. split; vm_compute; reflexivity.
Qed.

Print Assumptions C11_v5_decoded_in_domain.
Print Assumptions C11_v5_decoded_in_domain_block.
Print Assumptions C11_v5_decoded_in_domain_poll.
Print Assumptions C11_v5_redecode.
Print Assumptions C11_v5_decode_encode_decode.
Print Assumptions C11_v5_not_longer.
Print Assumptions C11_v5_not_longer_block.
Print Assumptions C11_v5_length_any.
Print Assumptions C11_v5_poll_reencode.
Print Assumptions C11_KF2_witness_v5_ack.
