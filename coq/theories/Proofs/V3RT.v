(* Proofs/V3RT.v — C01 for the v3 family: decoding the encoding of a valid packet returns it. *)
From MQ Require Import Proofs.Tactics Proofs.VarIntLaws Proofs.Parses Model.Valid.
Open Scope N_scope.
Import V3.

Lemma name_try_ok' s : name_is_invalid s = false -> name_try s = Ok s.
Proof. unfold name_try. intros ->. reflexivity. Qed.

Lemma name_ok_parts s : name_ok s = true -> utf8_valid s = true /\ name_is_invalid s = false.
Proof.
  unfold name_ok, text_ok. intros H. apply andb_true_iff in H as [H1 H2].
  apply andb_true_iff in H1 as [_ H1]. apply negb_true_iff in H2. auto.
Qed.

(* publish body *)
Lemma publish_rt (p : publish) (h : header) t rest :
  qospid_ok (p_qospid p) = true -> name_ok (p_topic p) = true -> short (p_topic p) = true ->
  h_rl h = publish_len p -> h_qos h = qospid_qos (p_qospid p) -> h_dup h = p_dup p -> h_retain h = p_retain p ->
  publish_decode h t (concat (publish_enc p) ++ rest) = ROk p rest.
Proof.
  intros Hq Hn Hs Hrl Hqos Hdup Hret.
  destruct (name_ok_parts _ Hn) as [Hu Hi]. unfold short in Hs. apply N.leb_le in Hs.
  unfold publish_decode, publish_enc. norm_bytes.
  erewrite bind_ok by (apply read_string_lp; assumption).
  unfold publish_len in Hrl.
  erewrite bind_ok by (apply checked_sub_ok; lia).
  destruct p as [dup retain qp topic payload]; cbn [p_qospid p_topic p_payload p_dup p_retain] in *.
  destruct qp as [|pid|pid]; cbn [qospid_qos qospid_enc qospid_len qospid_ok] in *; rewrite Hqos; ground_tests;
    norm_bytes.
  - rewrite bind_ret. cbv beta iota.
    destruct (N.ltb_spec 0 (h_rl h - (2 + len topic))) as [Hp|Hp].
    + erewrite bind_ok by (apply read_exact_app; lia).
      rewrite (name_try_ok' _ Hi). cbn [lift_outcome]. rewrite bind_ret. unfold ret. subst. reflexivity.
    + assert (payload = []) as -> by (apply len_zero_nil; lia).
      rewrite bind_ret. rewrite (name_try_ok' _ Hi). cbn [lift_outcome]. rewrite bind_ret. unfold ret. subst. reflexivity.
  - erewrite bind_ok by (erewrite bind_ok by (apply checked_sub_ok; lia); erewrite bind_ok by (apply pid_read_be16; assumption); reflexivity).
    cbv beta iota.
    destruct (N.ltb_spec 0 (h_rl h - (2 + len topic) - 2)) as [Hp|Hp].
    + erewrite bind_ok by (apply read_exact_app; lia).
      rewrite (name_try_ok' _ Hi). cbn [lift_outcome]. rewrite bind_ret. unfold ret. subst. reflexivity.
    + assert (payload = []) as -> by (apply len_zero_nil; lia).
      rewrite bind_ret. rewrite (name_try_ok' _ Hi). cbn [lift_outcome]. rewrite bind_ret. unfold ret. subst. reflexivity.
  - erewrite bind_ok by (erewrite bind_ok by (apply checked_sub_ok; lia); erewrite bind_ok by (apply pid_read_be16; assumption); reflexivity).
    cbv beta iota.
    destruct (N.ltb_spec 0 (h_rl h - (2 + len topic) - 2)) as [Hp|Hp].
    + erewrite bind_ok by (apply read_exact_app; lia).
      rewrite (name_try_ok' _ Hi). cbn [lift_outcome]. rewrite bind_ret. unfold ret. subst. reflexivity.
    + assert (payload = []) as -> by (apply len_zero_nil; lia).
      rewrite bind_ret. rewrite (name_try_ok' _ Hi). cbn [lift_outcome]. rewrite bind_ret. unfold ret. subst. reflexivity.
Qed.

(* ------------------------------------------------------------------------------------------ *)
(* general helpers                                                                            *)
(* ------------------------------------------------------------------------------------------ *)
Lemma bind_assoc {A B C} (m : reader A) (f : A -> reader B) (g : B -> reader C) t d :
  bind (bind m f) g t d = bind m (fun a => bind (f a) g) t d.
Proof. unfold bind. destruct (m t d); reflexivity. Qed.

Lemma andb_split a b : a && b = true -> a = true /\ b = true.
Proof. apply andb_true_iff. Qed.

(* split a boolean conjunction hypothesis completely *)
Ltac split_andb :=
  repeat match goal with
  | H : _ && _ = true |- _ => apply andb_split in H; destruct H
  end.

(* one monadic step whose primitive reads exactly the next encoded field *)
Ltac rd :=
  first
  [ rewrite bind_ret
  | rewrite bind_assoc
  | erewrite bind_ok by
      (first [ apply read_string_lp; assumption
             | apply read_bytes_lp; assumption
             | apply read_u16_be16; assumption
             | apply read_u8_one
             | apply read_u8_cons
             | apply pid_read_be16; assumption
             | apply checked_sub_ok; lia ]) ].

(* ------------------------------------------------------------------------------------------ *)
(* CONNECT                                                                                    *)
(* ------------------------------------------------------------------------------------------ *)
Definition is_some {A} (o : option A) : bool := match o with Some _ => true | None => false end.

Lemma connect_flags_bits c :
  opt_all (fun w => w_qos w <? 3) (c_will c) = true ->
  bit (connect_flags c) 0 = false /\
  bit (connect_flags c) 1 = c_clean c /\
  bit (connect_flags c) 2 = is_some (c_will c) /\
  bit (connect_flags c) 5 = match c_will c with Some w => w_retain w | None => false end /\
  bit (connect_flags c) 6 = is_some (c_password c) /\
  bit (connect_flags c) 7 = is_some (c_username c) /\
  (connect_flags c / 8) mod 4 = match c_will c with Some w => w_qos w | None => 0 end /\
  connect_flags c < 256.
Proof.
  intros Hq. unfold connect_flags, bit.
  change (2 ^ 0) with 1; change (2 ^ 1) with 2; change (2 ^ 2) with 4; change (2 ^ 5) with 32;
    change (2 ^ 6) with 64; change (2 ^ 7) with 128.
  destruct c as [pr clean ka cid w u pw]; cbn [c_clean c_will c_username c_password opt_all is_some] in *.
  destruct w as [[q wr wt wm]|]; cbn [opt_all w_qos w_retain] in *;
    [apply N.ltb_lt in Hq|];
    destruct clean, u, pw; try destruct wr; cbn [is_some];
    repeat split; try (apply N.eqb_eq; lia); try (apply N.eqb_neq; lia); lia.
Qed.

Lemma protocol_rt pr t rest : protocol_decode t (concat (protocol_enc pr) ++ rest) = ROk pr rest.
Proof. destruct pr; vm_compute; reflexivity. Qed.

Lemma text_ok_utf8 s : text_ok s = true -> utf8_valid s = true.
Proof. unfold text_ok. intros H. apply andb_split in H. tauto. Qed.

Lemma short_le s : short s = true -> len s <= 65535.
Proof. unfold short. apply N.leb_le. Qed.

Lemma connect_rt c t rest :
  I3.valid (Connect c) = true ->
  connect_decode t (concat (connect_enc c) ++ rest) = ROk c rest.
Proof.
  intros Hv. unfold I3.valid, I3.types_inv in Hv.
  assert (Hwq : opt_all (fun w => w_qos w <? 3) (c_will c) = true).
  { destruct (c_will c) as [w|]; [|reflexivity]. cbn [opt_all] in *. unfold I3.will_inv in Hv. split_andb. assumption. }
  destruct (connect_flags_bits c Hwq) as (B0 & B1 & B2 & B5 & B6 & B7 & BQ & _).
  destruct c as [pr clean ka cid w u pw];
    cbn [c_protocol c_clean c_keep_alive c_client_id c_will c_username c_password] in *.
  split_andb.
  assert (Hpr : (4 <? protocol_level pr) = false) by (destruct pr; [reflexivity|reflexivity|discriminate]).
  repeat match goal with H : text_ok _ = true |- _ => apply text_ok_utf8 in H end.
  repeat match goal with H : short _ = true |- _ => apply short_le in H end.
  match goal with H : u16 ka = true |- _ => unfold u16 in H; apply N.ltb_lt in H end.
  unfold connect_decode, connect_enc.
  cbn [c_protocol c_clean c_keep_alive c_client_id c_will c_username c_password].
  norm_bytes.
  erewrite bind_ok by apply protocol_rt.
  unfold connect_decode_with_protocol. rewrite Hpr.
  rd. rewrite ?B0, ?B1, ?B2, ?B5, ?B6, ?B7, ?BQ. cbv beta iota.
  rd. rd.
  destruct w as [[q wr wt wm]|]; cbn [is_some opt_all w_qos w_retain w_topic w_message will_enc] in *.
  - unfold I3.will_inv, I3.will_valid in *. cbn [w_qos w_retain w_topic w_message] in *. split_andb.
    repeat match goal with H : short _ = true |- _ => apply short_le in H end.
    match goal with H : name_ok wt = true |- _ => destruct (name_ok_parts _ H) as [Hu Hi] end.
    unfold will_enc. cbn [w_qos w_retain w_topic w_message]. norm_bytes. rd. rd. rd. rd.
    unfold qos_of_u8. rewrite Hwq. cbn [lift_outcome]. rd. rd.
    rewrite (name_try_ok' _ Hi). cbn [lift_outcome]. rd. rd.
    destruct u as [u|], pw as [pw|]; cbn [is_some opt_all opt_lp] in *; norm_bytes;
      repeat match goal with H : text_ok _ = true |- _ => apply text_ok_utf8 in H end;
      repeat match goal with H : short _ = true |- _ => apply short_le in H end;
      repeat rd; reflexivity.
  - ground_tests. cbn [negb]. rd.
    destruct u as [u|], pw as [pw|]; cbn [is_some opt_all opt_lp] in *; norm_bytes;
      repeat match goal with H : text_ok _ = true |- _ => apply text_ok_utf8 in H end;
      repeat match goal with H : short _ = true |- _ => apply short_le in H end;
      repeat rd; reflexivity.
Qed.

(* ------------------------------------------------------------------------------------------ *)
(* CONNACK and the pid-only packets                                                           *)
(* ------------------------------------------------------------------------------------------ *)
Lemma connack_rt c t rest :
  (ca_code c <? 6) = true ->
  connack_decode t ([bool_n (ca_sp c); ca_code c] ++ rest) = ROk c rest.
Proof.
  intros Hc. unfold connack_decode.
  erewrite bind_ok by (apply read_exact_app; reflexivity).
  destruct c as [sp code]; cbn [ca_sp ca_code] in *.
  unfold connect_return_code_of_u8. rewrite Hc. cbn [lift_outcome].
  destruct sp; cbn [bool_n]; ground_tests; repeat rd; reflexivity.
Qed.

(* pid_read on the two bytes `encode_with_pid` writes: Parses.pid_read_be16 *)

(* ------------------------------------------------------------------------------------------ *)
(* SUBACK                                                                                     *)
(* ------------------------------------------------------------------------------------------ *)
Lemma rev'_cons {A} (x : A) acc l : rev' (x :: acc) ++ l = rev' acc ++ x :: l.
Proof. unfold rev'. rewrite !rev_append_rev, !app_nil_r. cbn [rev]. rewrite <- app_assoc. reflexivity. Qed.

Lemma suback_loop_rt : forall codes fuel acc t rest,
  forallb (fun c => (c =? 128) || (c <? 3)) codes = true ->
  (length codes < fuel)%nat ->
  suback_loop fuel (len codes) acc t (codes ++ rest) = ROk (rev' acc ++ codes) rest.
Proof.
  induction codes as [|c codes IH]; intros fuel acc t rest Hc Hf.
  - destruct fuel as [|f]; cbn [suback_loop]; rewrite len_nil; ground_tests;
      unfold ret; rewrite app_nil_r; reflexivity.
  - destruct fuel as [|f]; [cbn [length] in Hf; lia|].
    cbn [forallb] in Hc. apply andb_split in Hc as [Hc1 Hc2].
    cbn [suback_loop]. rewrite len_cons.
    destruct (N.eqb_spec (1 + len codes) 0) as [E|E]; [lia|].
    cbn [app]. rd. unfold subscribe_return_code_of_u8. rewrite Hc1. cbn [lift_outcome]. rd.
    replace (1 + len codes - 1) with (len codes) by lia.
    rewrite IH; [|assumption|cbn [length] in Hf; lia].
    rewrite rev'_cons. reflexivity.
Qed.

Lemma suback_rt s rl t rest :
  pid_ok (sa_pid s) = true ->
  forallb (fun c => (c =? 128) || (c <? 3)) (sa_codes s) = true ->
  rl = suback_len s ->
  suback_decode rl t (concat (suback_enc s) ++ rest) = ROk s rest.
Proof.
  intros Hp Hc ->. destruct s as [pid codes]; cbn [sa_pid sa_codes] in *.
  unfold suback_decode, suback_enc, suback_len. cbn [sa_pid sa_codes].
  rewrite concat_cons, concat_singletons, <- app_assoc.
  rd. rd.
  replace (2 + N.of_nat (length codes) - 2) with (len codes) by (unfold len; lia).
  erewrite bind_ok by (apply suback_loop_rt; [assumption|rewrite app_length; lia]).
  unfold ret. reflexivity.
Qed.

(* ------------------------------------------------------------------------------------------ *)
(* topic filters, SUBSCRIBE, UNSUBSCRIBE                                                      *)
(* ------------------------------------------------------------------------------------------ *)
Definition sub_item (x : tfilter * N) : list bytes :=
  let '(tf, q) := x in [be16 (len (ftext tf) mod 65536); ftext tf; [q]].
Definition unsub_item (tf : tfilter) : list bytes := [be16 (len (ftext tf) mod 65536); ftext tf].

Lemma subscribe_enc_items s : subscribe_enc s = be16 (s_pid s) :: flat_map sub_item (s_topics s).
Proof.
reflexivity. Qed.
Lemma unsubscribe_enc_items u : unsubscribe_enc u = be16 (u_pid u) :: flat_map unsub_item (u_topics u).
Proof. reflexivity. Qed.

Lemma clen_sub_item tf q : clen (sub_item (tf, q)) = 3 + len (ftext tf).
Proof. unfold clen. cbn [sub_item concat]. rewrite !len_app, len_be16, len_cons, len_nil. lia. Qed.
Lemma clen_unsub_item tf : clen (unsub_item tf) = 2 + len (ftext tf).
Proof. unfold clen, unsub_item. cbn [concat]. rewrite !len_app, len_be16, len_nil. lia. Qed.
Lemma concat_sub_item tf q : concat (sub_item (tf, q)) = be16 (len (ftext tf) mod 65536) ++ ftext tf ++ [q].
Proof. reflexivity. Qed.
Lemma concat_unsub_item tf : concat (unsub_item tf) = be16 (len (ftext tf) mod 65536) ++ ftext tf.
Proof. unfold unsub_item. cbn [concat]. rewrite app_nil_r. reflexivity. Qed.

Lemma clen_sub_items l :
  clen (flat_map sub_item l) = fold_right (fun '(tf, _) a => 3 + len (ftext tf) + a) 0 l.
Proof.
  induction l as [|[tf q] l IH]; [reflexivity|].
  cbn [flat_map fold_right]. rewrite clen_app, IH, clen_sub_item. lia.
Qed.
Lemma clen_unsub_items l :
  clen (flat_map unsub_item l) = fold_right (fun tf a => 2 + len (ftext tf) + a) 0 l.
Proof.
  induction l as [|tf l IH]; [reflexivity|].
  cbn [flat_map fold_right]. rewrite clen_app, IH, clen_unsub_item. lia.
Qed.

(* every topic occupies at least one byte, so the data-length fuel of the decoders suffices *)
Lemma length_sub_items l : (length l <= length (concat (flat_map sub_item l)))%nat.
Proof.
  induction l as [|[tf q] l IH]; [cbn; lia|].
  cbn [flat_map length]. rewrite concat_app, app_length, concat_sub_item.
  rewrite !app_length. cbn [be16 length]. lia.
Qed.
Lemma length_unsub_items l : (length l <= length (concat (flat_map unsub_item l)))%nat.
Proof.
  induction l as [|tf l IH]; [cbn; lia|].
  cbn [flat_map length]. rewrite concat_app, app_length, concat_unsub_item.
  rewrite !app_length. cbn [be16 length]. lia.
Qed.

Lemma filter_ok_parts f : filter_ok f = true ->
  utf8_valid (ftext f) = true /\ len (ftext f) <= 65535 /\
  filter_is_invalid Release (ftext f) = Ok (false, fsepidx f).
Proof.
  unfold filter_ok. intros H. apply andb_split in H as [Ht H]. apply text_ok_utf8 in Ht.
  split; [assumption|].
  destruct (filter_is_invalid Release (ftext f)) as [[[|] sep]|e|s] eqn:E; try discriminate.
  apply N.eqb_eq in H. subst sep. split; [|reflexivity].
  unfold filter_is_invalid in E.
  destruct (N.ltb_spec 65535 (len (ftext f))) as [L|L]; [discriminate|lia].
Qed.

Section WithFilterProfile.
(* proved elsewhere (the debug_assert of TopicFilter::is_invalid never fires on UTF-8 text);
   discharged when the section is closed and the theorems are instantiated *)
Hypothesis filter_profile_indep :
  forall s, utf8_valid s = true -> filter_is_invalid Debug s = filter_is_invalid Release s.

Lemma filter_try_ok prof f : filter_ok f = true -> filter_try prof (ftext f) = Ok f.
Proof.
  intros H. destruct (filter_ok_parts f H) as (Hu & _ & Hr).
  unfold filter_try.
  replace (filter_is_invalid prof (ftext f)) with (filter_is_invalid Release (ftext f))
    by (destruct prof; [symmetry; apply filter_profile_indep; assumption|reflexivity]).
  rewrite Hr. destruct f; reflexivity.
Qed.

Lemma filter_read_rt prof f t rest : filter_ok f = true ->
  filter_read prof t (be16 (len (ftext f) mod 65536) ++ ftext f ++ rest) = ROk f rest.
Proof.
  intros H. destruct (filter_ok_parts f H) as (Hu & Hl & _).
  unfold filter_read. rd. rewrite (filter_try_ok prof f H). reflexivity.
Qed.

Lemma subscribe_loop_rt prof : forall topics fuel acc t rest,
  forallb (fun '(f, q) => filter_ok f && (q <? 3)) topics = true ->
  (length topics < fuel)%nat ->
  subscribe_loop prof fuel (clen (flat_map sub_item topics)) acc t
                 (concat (flat_map sub_item topics) ++ rest)
  = ROk (rev' acc ++ topics) rest.
Proof.
  induction topics as [|[tf q] topics IH]; intros fuel acc t rest Hc Hf.
  - destruct fuel as [|f]; cbn [subscribe_loop flat_map]; rewrite clen_nil; ground_tests;
      unfold ret; rewrite app_nil_r; reflexivity.
  - destruct fuel as [|f]; [cbn [length] in Hf; lia|].
    cbn [forallb] in Hc. apply andb_split in Hc as [Hc1 Hc2]. apply andb_split in Hc1 as [Hfo Hq].
    cbn [subscribe_loop flat_map]. rewrite clen_app, clen_sub_item, concat_app, concat_sub_item.
    destruct (N.eqb_spec (3 + len (ftext tf) + clen (flat_map sub_item topics)) 0) as [E|E]; [lia|].
    norm_bytes.
    erewrite bind_ok by (apply filter_read_rt; assumption).
    rd. unfold qos_of_u8. rewrite Hq. cbn [lift_outcome]. rd. rd.
    replace (3 + len (ftext tf) + clen (flat_map sub_item topics) - (3 + len (ftext tf)))
      with (clen (flat_map sub_item topics)) by lia.
    rewrite IH; [|assumption|cbn [length] in Hf; lia].
    rewrite rev'_cons. reflexivity.
Qed.

Lemma subscribe_rt prof s rl t rest :
  pid_ok (s_pid s) = true ->
  forallb (fun '(f, q) => filter_ok f && (q <? 3)) (s_topics s) = true ->
  s_topics s <> [] ->
  rl = subscribe_len s ->
  subscribe_decode prof rl t (concat (subscribe_enc s) ++ rest) = ROk s rest.
Proof.
  intros Hp Hc Hne ->. rewrite subscribe_enc_items.
  destruct s as [pid topics]; cbn [s_pid s_topics] in *.
  unfold subscribe_decode, subscribe_len. cbn [s_pid s_topics].
  rewrite <- clen_sub_items. rewrite concat_cons, <- app_assoc.
  rd. rd.
  replace (2 + clen (flat_map sub_item topics) - 2) with (clen (flat_map sub_item topics)) by lia.
  destruct (N.eqb_spec (clen (flat_map sub_item topics)) 0) as [E|E].
  { exfalso. destruct topics as [|[tf q] topics]; [congruence|].
    cbn [flat_map] in E. rewrite clen_app, clen_sub_item in E. lia. }
  erewrite bind_ok by (apply subscribe_loop_rt;
                       [assumption|rewrite app_length; pose proof (length_sub_items topics); lia]).
  unfold ret. reflexivity.
Qed.

Lemma unsubscribe_loop_rt prof : forall topics fuel acc t rest,
  forallb filter_ok topics = true ->
  (length topics < fuel)%nat ->
  unsubscribe_loop prof fuel (clen (flat_map unsub_item topics)) acc t
                   (concat (flat_map unsub_item topics) ++ rest)
  = ROk (rev' acc ++ topics) rest.
Proof.
  induction topics as [|tf topics IH]; intros fuel acc t rest Hc Hf.
  - destruct fuel as [|f]; cbn [unsubscribe_loop flat_map]; rewrite clen_nil; ground_tests;
      unfold ret; rewrite app_nil_r; reflexivity.
  - destruct fuel as [|f]; [cbn [length] in Hf; lia|].
    cbn [forallb] in Hc. apply andb_split in Hc as [Hfo Hc2].
    cbn [unsubscribe_loop flat_map]. rewrite clen_app, clen_unsub_item, concat_app, concat_unsub_item.
    destruct (N.eqb_spec (2 + len (ftext tf) + clen (flat_map unsub_item topics)) 0) as [E|E]; [lia|].
    norm_bytes.
    erewrite bind_ok by (apply filter_read_rt; assumption).
    rd.
    replace (2 + len (ftext tf) + clen (flat_map unsub_item topics) - (2 + len (ftext tf)))
      with (clen (flat_map unsub_item topics)) by lia.
    rewrite IH; [|assumption|cbn [length] in Hf; lia].
    rewrite rev'_cons. reflexivity.
Qed.

Lemma unsubscribe_rt prof u rl t rest :
  pid_ok (u_pid u) = true ->
  forallb filter_ok (u_topics u) = true ->
  u_topics u <> [] ->
  rl = unsubscribe_len u ->
  unsubscribe_decode prof rl t (concat (unsubscribe_enc u) ++ rest) = ROk u rest.
Proof.
  intros Hp Hc Hne ->. rewrite unsubscribe_enc_items.
  destruct u as [pid topics]; cbn [u_pid u_topics] in *.
  unfold unsubscribe_decode, unsubscribe_len. cbn [u_pid u_topics].
  rewrite <- clen_unsub_items. rewrite concat_cons, <- app_assoc.
  rd. rd.
  replace (2 + clen (flat_map unsub_item topics) - 2) with (clen (flat_map unsub_item topics)) by lia.
  destruct (N.eqb_spec (clen (flat_map unsub_item topics)) 0) as [E|E].
  { exfalso. destruct topics as [|tf topics]; [congruence|].
    cbn [flat_map] in E. rewrite clen_app, clen_unsub_item in E. lia. }
  erewrite bind_ok by (apply unsubscribe_loop_rt;
                       [assumption|rewrite app_length; pose proof (length_unsub_items topics); lia]).
  unfold ret. reflexivity.
Qed.


End WithFilterProfile.

(* the pid-only bodies (PUBACK, PUBREC, PUBREL, PUBCOMP, UNSUBACK) *)
Lemma pid_body_rt pid t rest : pid_ok pid = true -> pid_read t (concat [be16 pid] ++ rest) = ROk pid rest.
Proof. intros H. norm_bytes. apply pid_read_be16. exact H. Qed.

(* ------------------------------------------------------------------------------------------ *)
(* declared lengths equal bytes written (no hypothesis on the values is needed)               *)
(* ------------------------------------------------------------------------------------------ *)
Lemma protocol_parts_len pr : clen (protocol_enc pr) = protocol_len pr.
Proof. destruct pr; reflexivity. Qed.
Lemma will_parts_len w : clen (will_enc w) = will_len w.
Proof. unfold will_enc, will_len. rewrite !clen_cons, clen_nil, !len_be16. lia. Qed.
Lemma opt_lp_parts_len o : clen (opt_lp o) = opt_lp_len o.
Proof. destruct o as [s|]; cbn [opt_lp opt_lp_len]; rewrite ?clen_cons, ?clen_nil, ?len_be16; lia. Qed.
Lemma connect_parts_len c : clen (connect_enc c) = connect_len c.
Proof.
  unfold connect_enc, connect_len. rewrite !clen_app, protocol_parts_len, !opt_lp_parts_len.
  rewrite !clen_cons, clen_nil, !len_be16, len_cons, len_nil.
  destruct (c_will c) as [w|]; [rewrite will_parts_len|rewrite clen_nil]; lia.
Qed.
Lemma publish_parts_len p : clen (publish_enc p) = publish_len p.
Proof.
  unfold publish_enc, publish_len. rewrite !clen_app, !clen_cons, !clen_nil, len_be16.
  destruct (p_qospid p); cbn [qospid_enc qospid_len]; rewrite ?clen_cons, ?clen_nil, ?len_be16; lia.
Qed.
Lemma subscribe_parts_len s : clen (subscribe_enc s) = subscribe_len s.
Proof. rewrite subscribe_enc_items. unfold subscribe_len. rewrite clen_cons, len_be16, clen_sub_items. reflexivity. Qed.
Lemma suback_parts_len s : clen (suback_enc s) = suback_len s.
Proof.
  unfold suback_enc, suback_len. rewrite clen_cons, len_be16. unfold clen. rewrite concat_singletons. reflexivity.
Qed.
Lemma unsubscribe_parts_len u : clen (unsubscribe_enc u) = unsubscribe_len u.
Proof. rewrite unsubscribe_enc_items. unfold unsubscribe_len. rewrite clen_cons, len_be16, clen_unsub_items. reflexivity. Qed.

Theorem v3_parts_len :
  (forall pr, clen (protocol_enc pr) = protocol_len pr) /\
  (forall w, clen (will_enc w) = will_len w) /\
  (forall c, clen (connect_enc c) = connect_len c) /\
  (forall p, clen (publish_enc p) = publish_len p) /\
  (forall s, clen (subscribe_enc s) = subscribe_len s) /\
  (forall s, clen (suback_enc s) = suback_len s) /\
  (forall u, clen (unsubscribe_enc u) = unsubscribe_len u).
Proof.
  repeat split; intros.
  - apply protocol_parts_len. - apply will_parts_len. - apply connect_parts_len. - apply publish_parts_len.
  - apply subscribe_parts_len. - apply suback_parts_len. - apply unsubscribe_parts_len.
Qed.

(* ------------------------------------------------------------------------------------------ *)
(* whole packets                                                                              *)
(* ------------------------------------------------------------------------------------------ *)
(* the body length (the remaining-length field) *)
Definition body_len3 (p : packet) : N :=
  match p with
  | Connect c => connect_len c
  | Publish p => publish_len p
  | Subscribe s => subscribe_len s
  | Suback s => suback_len s
  | Unsubscribe u => unsubscribe_len u
  | Connack _ | Puback _ | Pubrec _ | Pubrel _ | Pubcomp _ | Unsuback _ => 2
  | Pingreq | Pingresp | Disconnect => 0
  end.

(* the body as a list of write chunks: the body encoder's chunk list; for the packets Packet::encode
   emits from fixed arrays, what a streaming body encoder would write *)
Definition body_chunks3 (p : packet) : list bytes :=
  match p with
  | Connect c => connect_enc c
  | Publish p => publish_enc p
  | Subscribe s => subscribe_enc s
  | Suback s => suback_enc s
  | Unsubscribe u => unsubscribe_enc u
  | Connack c => [[bool_n (ca_sp c)]; [ca_code c]]
  | Puback pid | Pubrec pid | Pubrel pid | Pubcomp pid | Unsuback pid => [be16 pid]
  | Pingreq | Pingresp | Disconnect => []
  end.

(* they are the model's body encoder wherever it has one *)
Lemma body_enc_chunks p chunks blen :
  body_enc p = Some (chunks, blen) -> chunks = body_chunks3 p /\ blen = body_len3 p.
Proof. destruct p; cbn [body_enc body_chunks3 body_len3]; intros H; inversion H; split; reflexivity. Qed.

Lemma body_chunks_len p : clen (body_chunks3 p) = body_len3 p.
Proof.
  destruct p; cbn [body_chunks3 body_len3]; try reflexivity.
  - apply connect_parts_len. - apply publish_parts_len. - apply subscribe_parts_len.
  - apply suback_parts_len. - apply unsubscribe_parts_len.
Qed.

Lemma encode_packet_ok prof cb chunks blen : clen chunks = blen -> blen < VMAX ->
  encode_packet prof cb chunks blen = Ok (cb :: write_var_int blen ++ concat chunks).
Proof.
  intros Hc Hb. unfold encode_packet. rewrite (total_len_ok _ Hb).
  destruct prof; [|reflexivity].
  destruct (write_len blen Hb) as [Hw _].
  rewrite len_cons, len_app, Hw. fold (clen chunks). rewrite Hc.
  destruct (N.eqb_spec (1 + (width blen + blen)) (blen + 1 + width blen)) as [E|E]; [reflexivity|lia].
Qed.

Lemma encode_packet_err prof cb chunks blen : VMAX <= blen ->
  encode_packet prof cb chunks blen = Err InvalidVarByteInt.
Proof. intros Hb. unfold encode_packet. destruct (too_large _ Hb) as (_ & -> & _). reflexivity. Qed.

Lemma encode_spec prof p : body_len3 p < VMAX ->
  exists vb, encode prof p = Ok vb /\
             as_ref vb = control_byte p :: write_var_int (body_len3 p) ++ concat (body_chunks3 p).
Proof.
  intros Hb. pose proof (body_chunks_len p) as Hc.
  destruct p; cbn [encode body_enc body_len3 body_chunks3] in *;
    try (rewrite (encode_packet_ok prof _ _ _ Hc Hb); eexists; split; reflexivity);
    eexists; split; reflexivity.
Qed.

Lemma encode_err prof p : VMAX <= body_len3 p ->
  encode prof p = Err InvalidVarByteInt /\ encode_len p = Err InvalidVarByteInt.
Proof.
  intros Hb.
  destruct p; cbn [encode encode_len body_enc body_len3] in *;
    try (unfold VMAX in Hb; lia);
    rewrite (encode_packet_err prof _ _ _ Hb); destruct (too_large _ Hb) as (_ & -> & _); split; reflexivity.
Qed.

Lemma encode_ok_bound prof p vb : encode prof p = Ok vb -> body_len3 p < VMAX.
Proof.
  intros H. destruct (N.lt_ge_cases (body_len3 p) VMAX) as [L|L]; [assumption|].
  destruct (encode_err prof p L) as [E _]. congruence.
Qed.

Lemma encode_ok_shape prof p vb : encode prof p = Ok vb ->
  as_ref vb = control_byte p :: write_var_int (body_len3 p) ++ concat (body_chunks3 p).
Proof.
  intros H. destruct (encode_spec prof p (encode_ok_bound _ _ _ H)) as (vb' & E & S). congruence.
Qed.

(* ---- the fixed header ---- *)
Definition ptype_of (p : packet) : ptype :=
  match p with
  | Connect _ => PConnect | Connack _ => PConnack | Publish _ => PPublish
  | Puback _ => PPuback | Pubrec _ => PPubrec | Pubrel _ => PPubrel | Pubcomp _ => PPubcomp
  | Subscribe _ => PSubscribe | Suback _ => PSuback | Unsubscribe _ => PUnsubscribe | Unsuback _ => PUnsuback
  | Pingreq => PPingreq | Pingresp => PPingresp | Disconnect => PDisconnect
  end.

Definition header_of (p : packet) : header :=
  match p with
  | Publish pb => {| h_typ := PPublish; h_dup := p_dup pb; h_qos := qospid_qos (p_qospid pb);
                     h_retain := p_retain pb; h_rl := publish_len pb |}
  | _ => mk_header (ptype_of p) (body_len3 p)
  end.

Lemma publish_header_new d r q rl :
  header_new_with (publish_control_byte d r q) rl
  = Ok {| h_typ := PPublish; h_dup := d; h_qos := qospid_qos q; h_retain := r; h_rl := rl |}.
Proof. destruct d, r, q; reflexivity. Qed.

Lemma header_new_with_ok p : header_new_with (control_byte p) (body_len3 p) = Ok (header_of p).
Proof.
  destruct p; cbn [control_byte body_len3 header_of ptype_of]; try apply publish_header_new;
    match goal with
    | |- header_new_with _ ?rl = _ =>
      first [is_ground rl; reflexivity | generalize rl; intros rl0; reflexivity]
    end.
Qed.

Lemma decode_raw_header_rt cb n t rest : n < VMAX ->
  decode_raw_header t (cb :: write_var_int n ++ rest) = ROk (cb, n) rest.
Proof.
  intros H. unfold decode_raw_header. rd.
  erewrite bind_ok by (apply decode_var_int_write; exact H). reflexivity.
Qed.

Lemma header_decode_rt p t rest : body_len3 p < VMAX ->
  header_decode t (control_byte p :: write_var_int (body_len3 p) ++ rest) = ROk (header_of p) rest.
Proof.
  intros H. unfold header_decode.
  erewrite bind_ok by (apply decode_raw_header_rt; exact H).
  cbv beta iota. rewrite header_new_with_ok. reflexivity.
Qed.

Lemma header_of_facts p :
  h_typ (header_of p) = ptype_of p /\ h_rl (header_of p) = body_len3 p /\
  match p with
  | Publish pb => h_dup (header_of p) = p_dup pb /\ h_retain (header_of p) = p_retain pb /\
                  h_qos (header_of p) = qospid_qos (p_qospid pb)
  | _ => h_dup (header_of p) = false /\ h_retain (header_of p) = false /\ h_qos (header_of p) = 0
  end.
Proof. destruct p; repeat split. Qed.

(* ---- bodies ---- *)
Section WithFilterProfileWhole.
Hypothesis filter_profile_indep :
  forall s, utf8_valid s = true -> filter_is_invalid Debug s = filter_is_invalid Release s.

Lemma body_rt prof p t rest : I3.valid p = true ->
  body_decode_async prof (header_of p) t (concat (body_chunks3 p) ++ rest) = ROk p rest.
Proof.
  intros Hv. unfold body_decode_async.
  destruct p; cbn [header_of ptype_of mk_header h_typ h_rl body_len3 body_chunks3].
  - erewrite bind_ok by (apply connect_rt; exact Hv). reflexivity.
  - unfold I3.valid, I3.types_inv in Hv; split_andb.
    erewrite bind_ok by (apply (connack_rt c); assumption). reflexivity.
  - unfold I3.valid, I3.types_inv in Hv; split_andb.
    erewrite bind_ok by (apply publish_rt; try assumption; reflexivity). reflexivity.
  - unfold I3.valid, I3.types_inv in Hv; split_andb.
    erewrite bind_ok by (apply pid_body_rt; assumption). reflexivity.
  - unfold I3.valid, I3.types_inv in Hv; split_andb.
    erewrite bind_ok by (apply pid_body_rt; assumption). reflexivity.
  - unfold I3.valid, I3.types_inv in Hv; split_andb.
    erewrite bind_ok by (apply pid_body_rt; assumption). reflexivity.
  - unfold I3.valid, I3.types_inv in Hv; split_andb.
    erewrite bind_ok by (apply pid_body_rt; assumption). reflexivity.
  - unfold I3.valid, I3.types_inv in Hv; split_andb.
    erewrite bind_ok by (apply (subscribe_rt filter_profile_indep); try assumption; try reflexivity;
                         destruct (s_topics s); [discriminate|congruence]). reflexivity.
  - unfold I3.valid, I3.types_inv in Hv; split_andb.
    erewrite bind_ok by (apply suback_rt; try assumption; reflexivity). reflexivity.
  - unfold I3.valid, I3.types_inv in Hv; split_andb.
    erewrite bind_ok by (apply (unsubscribe_rt filter_profile_indep); try assumption; try reflexivity;
                         destruct (u_topics u); [discriminate|congruence]). reflexivity.
  - unfold I3.valid, I3.types_inv in Hv; split_andb.
    erewrite bind_ok by (apply pid_body_rt; assumption). reflexivity.
  - reflexivity.
  - reflexivity.
  - reflexivity.
Qed.

(* ---- C01: encode then decode is the identity ---- *)
Theorem v3_roundtrip : forall prof p vb, I3.valid p = true -> encode prof p = Ok vb ->
  forall t rest, decode_async prof t (as_ref vb ++ rest) = ROk p rest.
Proof.
  intros prof p vb Hv He t rest.
  rewrite (encode_ok_shape _ _ _ He). rewrite <- app_comm_cons, <- app_assoc.
  unfold decode_async.
  erewrite bind_ok by (apply header_decode_rt; eapply encode_ok_bound; exact He).
  apply body_rt. exact Hv.
Qed.

End WithFilterProfileWhole.

(* ---- the encoder succeeds exactly below 2^28, and what it writes ---- *)
Theorem v3_encode_ok : forall prof p, I3.valid p = true -> body_len3 p < 268435456 ->
  exists vb, encode prof p = Ok vb.
Proof.
  intros prof p _ Hb. destruct (encode_spec prof p Hb) as (vb & E & _). exists vb. exact E.
Qed.

Theorem v3_encode_shape : forall prof p vb, I3.valid p = true -> encode prof p = Ok vb ->
  exists chunks,
    chunks = body_chunks3 p /\
    as_ref vb = control_byte p :: write_var_int (body_len3 p) ++ concat chunks /\
    len (concat chunks) = body_len3 p.
Proof.
  intros prof p vb _ He. exists (body_chunks3 p). split; [reflexivity|]. split.
  - apply (encode_ok_shape _ _ _ He).
  - apply body_chunks_len.
Qed.

Lemma encode_ok_len prof p vb : encode prof p = Ok vb ->
  len (as_ref vb) = 1 + width (body_len3 p) + body_len3 p.
Proof.
  intros He. pose proof (encode_ok_bound _ _ _ He) as Hb.
  rewrite (encode_ok_shape _ _ _ He), len_cons, len_app.
  destruct (write_len _ Hb) as [-> _]. fold (clen (body_chunks3 p)). rewrite body_chunks_len. lia.
Qed.

Theorem v3_encode_len : forall prof p vb, I3.valid p = true -> encode prof p = Ok vb ->
  encode_len p = Ok (len (as_ref vb)).
Proof.
  intros prof p vb _ He. rewrite (encode_ok_len _ _ _ He).
  pose proof (encode_ok_bound _ _ _ He) as Hb.
  destruct p; cbn [encode_len body_enc body_len3] in *;
    try (rewrite (total_len_ok _ Hb); f_equal; lia); reflexivity.
Qed.

(* the remaining-length field equals the number of bytes that follow it *)
Theorem v3_header_remaining : forall prof p vb, I3.valid p = true -> encode prof p = Ok vb ->
  exists h body,
    as_ref vb = control_byte p :: write_var_int (body_len3 p) ++ body /\
    (forall t rest, header_decode t (as_ref vb ++ rest) = ROk h (body ++ rest)) /\
    h_rl h = len body /\ h_rl h = body_len3 p /\ h_typ h = ptype_of p /\
    len (as_ref vb) = 1 + width (body_len3 p) + body_len3 p.
Proof.
  intros prof p vb _ He. pose proof (encode_ok_bound _ _ _ He) as Hb.
  exists (header_of p), (concat (body_chunks3 p)).
  destruct (header_of_facts p) as (Ht & Hr & _).
  split; [apply (encode_ok_shape _ _ _ He)|]. split; [|repeat split].
  - intros t rest. rewrite (encode_ok_shape _ _ _ He), <- app_comm_cons, <- app_assoc.
    apply header_decode_rt. exact Hb.
  - rewrite Hr. symmetry. apply body_chunks_len.
  - exact Hr.
  - exact Ht.
  - apply (encode_ok_len _ _ _ He).
Qed.

(* the debug_assert of encode_packet never fires: no hypothesis on p is needed *)
Lemma encode_profile_indep p : encode Debug p = encode Release p.
Proof.
  destruct (N.lt_ge_cases (body_len3 p) VMAX) as [L|L].
  - pose proof (body_chunks_len p) as Hc.
    destruct p; cbn [encode body_enc body_len3 body_chunks3] in *; try reflexivity;
      rewrite !(encode_packet_ok _ _ _ _ Hc L); reflexivity.
  - destruct (encode_err Debug p L) as [-> _]. destruct (encode_err Release p L) as [-> _]. reflexivity.
Qed.

Theorem v3_profile_indep : forall p, I3.valid p = true -> encode Debug p = encode Release p.
Proof. intros p _. apply encode_profile_indep. Qed.

Theorem v3_too_large : forall prof p, I3.valid p = true -> 268435456 <= body_len3 p ->
  encode prof p = Err InvalidVarByteInt /\ encode_len p = Err InvalidVarByteInt.
Proof. intros prof p _ Hb. apply encode_err. exact Hb. Qed.

(* ---- the encoder emits bytes ---- *)
Lemma bytes_okb_app a b : bytes_okb (a ++ b) = bytes_okb a && bytes_okb b.
Proof. apply forallb_app. Qed.
Lemma bytes_okb_concat cs : bytes_okb (concat cs) = forallb bytes_okb cs.
Proof.
  induction cs as [|c cs IH]; [reflexivity|]. cbn [concat forallb]. rewrite bytes_okb_app, IH. reflexivity.
Qed.
Lemma bytes_okb_be16 n : n < 65536 -> bytes_okb (be16 n) = true.
Proof.
  intros H. unfold be16, bytes_okb. cbn [forallb].
  destruct (N.ltb_spec (n / 256) 256); [|lia]. destruct (N.ltb_spec (n mod 256) 256); [|lia]. reflexivity.
Qed.
Lemma bytes_okb_one b : b < 256 -> bytes_okb [b] = true.
Proof. intros H. unfold bytes_okb. cbn [forallb]. destruct (N.ltb_spec b 256); [reflexivity|lia]. Qed.
Lemma bytes_okb_wvi n : n < VMAX -> bytes_okb (write_var_int n) = true.
Proof.
  intros H. unfold bytes_okb. apply forallb_forall. intros b Hb.
  pose proof (write_bytes_ok n H) as F. rewrite Forall_forall in F. apply N.ltb_lt. apply F. exact Hb.
Qed.
Lemma bytes_okb_lp_pre s : bytes_okb (be16 (len s mod 65536)) = true.
Proof. apply bytes_okb_be16. lia. Qed.
Lemma text_ok_bytes s : text_ok s = true -> bytes_okb s = true.
Proof. unfold text_ok. intros H. apply andb_split in H. tauto. Qed.
Lemma pid_ok_lt p : pid_ok p = true -> p < 65536.
Proof. unfold pid_ok, u16. intros H. apply andb_split in H as [_ H]. apply N.ltb_lt. exact H. Qed.

Lemma control_byte_lt p : control_byte p < 256.
Proof.
  destruct p; cbn [control_byte]; try lia.
  unfold publish_control_byte. destruct (p_dup p), (p_retain p), (p_qospid p); lia.
Qed.

Lemma opt_lp_okb o : opt_all bytes_okb o = true -> forallb bytes_okb (opt_lp o) = true.
Proof.
  destruct o as [s|]; cbn [opt_all opt_lp forallb]; [|reflexivity].
  intros ->. rewrite bytes_okb_lp_pre. reflexivity.
Qed.

Lemma sub_items_okb l :
  forallb (fun '(f, q) => filter_ok f && (q <? 3)) l = true -> forallb bytes_okb (flat_map sub_item l) = true.
Proof.
  induction l as [|[tf q] l IH]; [reflexivity|]. cbn [forallb flat_map]. intros H.
  apply andb_split in H as [H1 H2]. apply andb_split in H1 as [Hf Hq].
  rewrite forallb_app, (IH H2). cbn [sub_item forallb]. rewrite bytes_okb_lp_pre.
  unfold filter_ok in Hf. apply andb_split in Hf as [Hf _]. rewrite (text_ok_bytes _ Hf).
  rewrite bytes_okb_one by (apply N.ltb_lt in Hq; lia). reflexivity.
Qed.
Lemma unsub_items_okb l :
  forallb filter_ok l = true -> forallb bytes_okb (flat_map unsub_item l) = true.
Proof.
  induction l as [|tf l IH]; [reflexivity|]. cbn [forallb flat_map]. intros H.
  apply andb_split in H as [Hf H2].
  rewrite forallb_app, (IH H2). cbn [unsub_item forallb]. rewrite bytes_okb_lp_pre.
  unfold filter_ok in Hf. apply andb_split in Hf as [Hf _]. rewrite (text_ok_bytes _ Hf). reflexivity.
Qed.
Lemma codes_okb l :
  forallb (fun c => (c =? 128) || (c <? 3)) l = true -> forallb bytes_okb (map (fun c => [c]) l) = true.
Proof.
  induction l as [|c l IH]; [reflexivity|]. cbn [forallb map]. intros H.
  apply andb_split in H as [Hc H2]. rewrite (IH H2), bytes_okb_one; [reflexivity|].
  apply orb_true_iff in Hc as [Hc|Hc]; [apply N.eqb_eq in Hc|apply N.ltb_lt in Hc]; lia.
Qed.

Lemma body_chunks_okb p : I3.types_inv p = true -> forallb bytes_okb (body_chunks3 p) = true.
Proof.
  intros Hv. destruct p; cbn [body_chunks3]; unfold I3.types_inv in Hv; try reflexivity.
  - (* connect *)
    split_andb.
    assert (Hwq : opt_all (fun w => w_qos w <? 3) (c_will c) = true).
    { destruct (c_will c) as [w|]; [|reflexivity]. cbn [opt_all] in *. unfold I3.will_inv in *. split_andb. assumption. }
    destruct (connect_flags_bits c Hwq) as (_ & _ & _ & _ & _ & _ & _ & Hfl).
    unfold connect_enc. rewrite !forallb_app.
    replace (forallb bytes_okb (protocol_enc (c_protocol c))) with true by (destruct (c_protocol c); reflexivity).
    cbn [forallb]. rewrite (bytes_okb_one _ Hfl), bytes_okb_be16, bytes_okb_lp_pre, text_ok_bytes
      by (try assumption; match goal with H : u16 _ = true |- _ => apply N.ltb_lt in H; exact H end).
    rewrite !opt_lp_okb; try assumption.
    + destruct (c_will c) as [w|]; [|reflexivity]. cbn [opt_all] in *. unfold I3.will_inv, name_ok in *. split_andb.
      unfold will_enc. cbn [forallb]. rewrite !bytes_okb_lp_pre, text_ok_bytes by assumption.
      match goal with H : bytes_okb (w_message w) = true |- _ => rewrite H end. reflexivity.
    + destruct (c_username c) as [s|]; [|reflexivity]. cbn [opt_all] in *. apply text_ok_bytes. assumption.
  - (* connack *)
    apply N.ltb_lt in Hv. cbn [forallb]. rewrite !bytes_okb_one; [reflexivity|lia|destruct (ca_sp c); cbn [bool_n]; lia].
  - (* publish *)
    split_andb. unfold publish_enc. rewrite !forallb_app. cbn [forallb]. unfold name_ok in *. split_andb.
    rewrite bytes_okb_lp_pre, text_ok_bytes by assumption.
    match goal with H : bytes_okb (p_payload p) = true |- _ => rewrite H end.
    destruct (p_qospid p); cbn [qospid_enc qospid_ok forallb] in *; rewrite ?bytes_okb_be16 by (apply pid_ok_lt; assumption);
      reflexivity.
  - cbn [forallb]. rewrite bytes_okb_be16 by (apply pid_ok_lt; assumption). reflexivity.
  - cbn [forallb]. rewrite bytes_okb_be16 by (apply pid_ok_lt; assumption). reflexivity.
  - cbn [forallb]. rewrite bytes_okb_be16 by (apply pid_ok_lt; assumption). reflexivity.
  - cbn [forallb]. rewrite bytes_okb_be16 by (apply pid_ok_lt; assumption). reflexivity.
  - split_andb. rewrite subscribe_enc_items. cbn [forallb].
    rewrite bytes_okb_be16 by (apply pid_ok_lt; assumption). rewrite sub_items_okb by assumption. reflexivity.
  - split_andb. unfold suback_enc. cbn [forallb].
    rewrite bytes_okb_be16 by (apply pid_ok_lt; assumption). rewrite codes_okb by assumption. reflexivity.
  - split_andb. rewrite unsubscribe_enc_items. cbn [forallb].
    rewrite bytes_okb_be16 by (apply pid_ok_lt; assumption). rewrite unsub_items_okb by assumption. reflexivity.
  - cbn [forallb]. rewrite bytes_okb_be16 by (apply pid_ok_lt; assumption). reflexivity.
Qed.

Theorem v3_encode_bytes : forall prof p vb, I3.valid p = true -> encode prof p = Ok vb ->
  bytes_okb (as_ref vb) = true.
Proof.
  intros prof p vb Hv He. unfold I3.valid in Hv. apply andb_split in Hv as [Hi _].
  rewrite (encode_ok_shape _ _ _ He).
  change (bytes_okb (control_byte p :: write_var_int (body_len3 p) ++ concat (body_chunks3 p)))
    with ((control_byte p <? 256) && bytes_okb (write_var_int (body_len3 p) ++ concat (body_chunks3 p))).
  rewrite bytes_okb_app, bytes_okb_concat, (body_chunks_okb _ Hi), (bytes_okb_wvi _ (encode_ok_bound _ _ _ He)).
  pose proof (control_byte_lt p). destruct (N.ltb_spec (control_byte p) 256); [reflexivity|lia].
Qed.

(* ------------------------------------------------------------------------------------------ *)
(* non-vacuity: concrete valid packets                                                        *)
(* ------------------------------------------------------------------------------------------ *)
Definition ex_connect : packet :=
  Connect {| c_protocol := V311; c_clean := true; c_keep_alive := 300;
             c_client_id := [99; 108; 105; 101; 110; 116];                       (* "client" *)
             c_will := Some {| w_qos := 2; w_retain := true;
                               w_topic := [119; 105; 108; 108; 47; 116];         (* "will/t" *)
                               w_message := [0; 255; 7] |};
             c_username := Some [117; 115; 101; 114];                            (* "user" *)
             c_password := Some [112; 0; 255] |}.

Definition ex_subscribe : packet :=
  Subscribe {| s_pid := 4660;
               s_topics := [ ({| ftext := [97; 47; 43; 47; 35]; fsepidx := 0 |}, 1);          (* "a/+/#" *)
                             ({| ftext := [36; 115; 104; 97; 114; 101; 47; 103; 47; 116];     (* "$share/g/t" *)
                                 fsepidx := 8 |}, 2) ] |}.

Example ex_connect_valid : I3.valid ex_connect = true.
Proof. vm_compute. reflexivity. Qed.
Example ex_subscribe_valid : I3.valid ex_subscribe = true.
Proof. vm_compute. reflexivity. Qed.

Eval vm_compute in (encode Debug ex_connect).
Eval vm_compute in (match encode Debug ex_connect with
                    | Ok vb => decode_async Debug TEof (as_ref vb ++ [1; 2; 3])
                    | _ => RErr InvalidHeader end).
Eval vm_compute in (encode Debug ex_subscribe).
Eval vm_compute in (match encode Release ex_subscribe with
                    | Ok vb => decode_async Debug TEof (as_ref vb ++ [9])
                    | _ => RErr InvalidHeader end).

Example ex_connect_rt : exists vb, encode Debug ex_connect = Ok vb /\
  decode_async Debug TEof (as_ref vb ++ [1; 2; 3]) = ROk ex_connect [1; 2; 3].
Proof. eexists. split; vm_compute; reflexivity. Qed.
Example ex_subscribe_rt : exists vb, encode Release ex_subscribe = Ok vb /\
  decode_async Debug TEof (as_ref vb ++ [9]) = ROk ex_subscribe [9].
Proof. eexists. split; vm_compute; reflexivity. Qed.

Check v3_roundtrip.
Check v3_encode_bytes.
Check v3_header_remaining.
Print Assumptions v3_roundtrip.
Print Assumptions v3_encode_ok.
Print Assumptions v3_encode_shape.
Print Assumptions v3_encode_len.
Print Assumptions v3_header_remaining.
Print Assumptions v3_parts_len.
Print Assumptions v3_profile_indep.
Print Assumptions v3_too_large.
Print Assumptions v3_encode_bytes.
Print Assumptions connect_rt.
Print Assumptions publish_rt.
Print Assumptions connack_rt.
Print Assumptions suback_rt.
Print Assumptions subscribe_rt.
Print Assumptions unsubscribe_rt.
Print Assumptions body_rt.
