(* Proofs/FrontAgreeProf.v — the decoders do not depend on the build profile.

   PollSched.schedule_independent is stated for a fixed `block_decode`; F3/F5.poll_drive prof uses
   `block_decode prof`, whose only dependence on the profile is the debug assertion inside
   TopicFilter::is_invalid, which never fires on UTF-8 text (Proofs/TopicFilterEq.v).  Hence the
   async, blocking and poll decoders of the debug and release builds are the same functions, and
   the C05 schedule independence also holds across profiles. *)
From MQ Require Import Proofs.Tactics Proofs.VarIntLaws Proofs.Parses Model.Valid.
From MQ Require Import Proofs.Stable Proofs.Totality Proofs.TopicFilterEq Proofs.PollSched Proofs.FrontAgree.
Open Scope N_scope.

Lemma bind_cong2 {A B} (m m' : reader A) (k k' : A -> reader B) t d :
  m t d = m' t d -> (forall a d', m' t d = ROk a d' -> k a t d' = k' a t d') ->
  bind m k t d = bind m' k' t d.
Proof. unfold bind. intros -> H. destruct (m' t d) as [a d'| |]; try reflexivity. apply H. reflexivity. Qed.

Lemma filter_read_prof t d : V3.filter_read Debug t d = V3.filter_read Release t d.
Proof.
  unfold V3.filter_read. apply bind_cong. intros s d' Hs.
  pose proof (read_string_valid _ _ _ _ Hs) as Hv.
  rewrite (filter_try_spec Debug s Hv), (filter_try_spec Release s Hv). reflexivity.
Qed.

(* ---------------- v3 ---------------- *)
Lemma v3_subscribe_loop_prof : forall f rl acc t d,
  V3.subscribe_loop Debug f rl acc t d = V3.subscribe_loop Release f rl acc t d.
Proof.
  induction f as [|f IH]; intros rl acc t d; cbn [V3.subscribe_loop]; destruct (rl =? 0); try reflexivity.
  apply bind_cong2; [apply filter_read_prof|intros tf d1 _].
  apply bind_cong; intros qb d2 _. apply bind_cong; intros q d3 _. apply bind_cong; intros rl' d4 _.
  apply IH.
Qed.

Lemma v3_unsubscribe_loop_prof : forall f rl acc t d,
  V3.unsubscribe_loop Debug f rl acc t d = V3.unsubscribe_loop Release f rl acc t d.
Proof.
  induction f as [|f IH]; intros rl acc t d; cbn [V3.unsubscribe_loop]; destruct (rl =? 0); try reflexivity.
  apply bind_cong2; [apply filter_read_prof|intros tf d1 _].
  apply bind_cong; intros rl' d4 _. apply IH.
Qed.

Lemma v3_subscribe_decode_prof rl0 t d :
  V3.subscribe_decode Debug rl0 t d = V3.subscribe_decode Release rl0 t d.
Proof.
  unfold V3.subscribe_decode. apply bind_cong; intros pid d1 _. apply bind_cong; intros rl d2 _.
  destruct (rl =? 0); [reflexivity|]. cbv beta.
  apply bind_cong2; [apply v3_subscribe_loop_prof|reflexivity].
Qed.

Lemma v3_unsubscribe_decode_prof rl0 t d :
  V3.unsubscribe_decode Debug rl0 t d = V3.unsubscribe_decode Release rl0 t d.
Proof.
  unfold V3.unsubscribe_decode. apply bind_cong; intros pid d1 _. apply bind_cong; intros rl d2 _.
  destruct (rl =? 0); [reflexivity|]. cbv beta.
  apply bind_cong2; [apply v3_unsubscribe_loop_prof|reflexivity].
Qed.

Lemma v3_block_decode_prof h t d : V3.block_decode Debug h t d = V3.block_decode Release h t d.
Proof.
  unfold V3.block_decode. destruct (h_typ h); try reflexivity.
  - apply bind_cong2; [apply v3_subscribe_decode_prof|reflexivity].
  - apply bind_cong2; [apply v3_unsubscribe_decode_prof|reflexivity].
Qed.

Lemma v3_body_decode_async_prof h t d :
  V3.body_decode_async Debug h t d = V3.body_decode_async Release h t d.
Proof.
  unfold V3.body_decode_async. destruct (h_typ h); try reflexivity.
  - apply bind_cong2; [apply v3_subscribe_decode_prof|reflexivity].
  - apply bind_cong2; [apply v3_unsubscribe_decode_prof|reflexivity].
Qed.

(* ---------------- v5 ---------------- *)
Lemma v5_subscribe_loop_prof : forall f rl acc t d,
  V5.subscribe_loop Debug f rl acc t d = V5.subscribe_loop Release f rl acc t d.
Proof.
  induction f as [|f IH]; intros rl acc t d; cbn [V5.subscribe_loop]; destruct (rl =? 0); try reflexivity.
  apply bind_cong2; [apply filter_read_prof|intros tf d1 _].
  apply bind_cong; intros qb d2 _. apply bind_cong; intros q d3 _. apply bind_cong; intros rl' d4 _.
  apply IH.
Qed.

Lemma v5_unsubscribe_loop_prof : forall f rl acc t d,
  V5.unsubscribe_loop Debug f rl acc t d = V5.unsubscribe_loop Release f rl acc t d.
Proof.
  induction f as [|f IH]; intros rl acc t d; cbn [V5.unsubscribe_loop]; destruct (rl =? 0); try reflexivity.
  apply bind_cong2; [apply filter_read_prof|intros tf d1 _].
  apply bind_cong; intros rl' d4 _. apply IH.
Qed.

Lemma v5_subscribe_decode_prof h t d :
  V5.subscribe_decode Debug h t d = V5.subscribe_decode Release h t d.
Proof.
  unfold V5.subscribe_decode. apply bind_cong; intros pid d1 _. apply bind_cong; intros ps d2 _.
  apply bind_cong; intros pl d3 _. apply bind_cong; intros rl d4 _.
  destruct (rl =? 0); [reflexivity|]. cbv beta.
  apply bind_cong2; [apply v5_subscribe_loop_prof|reflexivity].
Qed.

Lemma v5_unsubscribe_decode_prof h t d :
  V5.unsubscribe_decode Debug h t d = V5.unsubscribe_decode Release h t d.
Proof.
  unfold V5.unsubscribe_decode. apply bind_cong; intros pid d1 _.
  apply bind_cong; intros [[ps plen] pb] d2 _. apply bind_cong; intros rl d4 _.
  destruct (rl =? 0); [reflexivity|]. cbv beta.
  apply bind_cong2; [apply v5_unsubscribe_loop_prof|reflexivity].
Qed.

Lemma v5_block_decode_prof h t d : V5.block_decode Debug h t d = V5.block_decode Release h t d.
Proof.
  unfold V5.block_decode. destruct (h_typ h); try reflexivity.
  - apply bind_cong2; [apply v5_subscribe_decode_prof|reflexivity].
  - apply bind_cong2; [apply v5_unsubscribe_decode_prof|reflexivity].
Qed.

Lemma v5_body_decode_async_prof h t d :
  V5.body_decode_async Debug h t d = V5.body_decode_async Release h t d.
Proof.
  unfold V5.body_decode_async. destruct (h_typ h); try reflexivity.
  - apply bind_cong2; [apply v5_subscribe_decode_prof|reflexivity].
  - apply bind_cong2; [apply v5_unsubscribe_decode_prof|reflexivity].
Qed.

(* ---------------- async and blocking ---------------- *)
Theorem C06_v3_async_profile_independent : forall t d, F3.dec_async Debug t d = F3.dec_async Release t d.
Proof.
  intros t d. unfold F3.dec_async, V3.decode_async. apply bind_cong. intros h d' _.
  apply v3_body_decode_async_prof.
Qed.

Theorem C06_v3_block_profile_independent : forall d, F3.dec_block Debug d = F3.dec_block Release d.
Proof. intros d. rewrite !C06_v3_block_is_async, C06_v3_async_profile_independent. reflexivity. Qed.

Theorem C06_v5_async_profile_independent : forall t d, F5.dec_async Debug t d = F5.dec_async Release t d.
Proof.
  intros t d. unfold F5.dec_async, V5.decode_async. apply bind_cong. intros h d' _.
  apply v5_body_decode_async_prof.
Qed.

Theorem C06_v5_block_profile_independent : forall d, F5.dec_block Debug d = F5.dec_block Release d.
Proof. intros d. rewrite !C06_v5_block_is_async, C06_v5_async_profile_independent. reflexivity. Qed.

(* ---------------- poll ---------------- *)
Section SemExt.
Variable P : Type.
Variable new_with : N -> N -> outcome header.
Variable build_empty : header -> option P.
Variables bd bd' : header -> reader P.
Hypothesis Hext : forall h t d, bd h t d = bd' h t d.

Lemma feed_ext s b : feed P new_with build_empty bd s b = feed P new_with build_empty bd' s b.
Proof.
  destruct s as [[cb|] vidx vint | h total idx buf]; cbn [PollSched.feed]; try reflexivity.
  unfold body_result. rewrite Hext. reflexivity.
Qed.

Lemma sem_ext t : forall d s, sem P new_with build_empty bd s d t = sem P new_with build_empty bd' s d t.
Proof.
  induction d as [|b r IH]; intros s; cbn [PollSched.sem]; [reflexivity|].
  rewrite feed_ext. destruct (feed P new_with build_empty bd' s b); [apply IH|reflexivity].
Qed.

Lemma poll_drive_ext prof prof' l l' t : bytes_of l = bytes_of l' ->
  rr_res P (poll_drive P new_with build_empty bd prof l t)
    = rr_res P (poll_drive P new_with build_empty bd' prof' l' t) /\
  bytes_of (rr_rest P (poll_drive P new_with build_empty bd prof l t))
    = bytes_of (rr_rest P (poll_drive P new_with build_empty bd' prof' l' t)).
Proof.
  intros Hb.
  destruct (poll_drive_is_sem P new_with build_empty bd prof l t) as [H1 H2].
  destruct (poll_drive_is_sem P new_with build_empty bd' prof' l' t) as [H3 H4].
  rewrite H1, H2, H3, H4, Hb, sem_ext. split; reflexivity.
Qed.
End SemExt.

(* the verdict and the unread bytes depend neither on the schedule nor on the build profile *)
Theorem C05_v3_schedule_profile_independent : forall (prof1 prof2 : profile) (l1 l2 : list atom) (t : tail),
  bytes_of l1 = bytes_of l2 ->
  rr_res _ (F3.poll_drive prof1 l1 t) = rr_res _ (F3.poll_drive prof2 l2 t) /\
  bytes_of (rr_rest _ (F3.poll_drive prof1 l1 t)) = bytes_of (rr_rest _ (F3.poll_drive prof2 l2 t)).
Proof.
  intros prof1 prof2 l1 l2 t Hb. unfold F3.poll_drive. apply poll_drive_ext; [|exact Hb].
  intros h t' d. destruct prof1, prof2; try reflexivity;
    [apply v3_block_decode_prof | symmetry; apply v3_block_decode_prof].
Qed.

Theorem C05_v5_schedule_profile_independent : forall (prof1 prof2 : profile) (l1 l2 : list atom) (t : tail),
  bytes_of l1 = bytes_of l2 ->
  rr_res _ (F5.poll_drive prof1 l1 t) = rr_res _ (F5.poll_drive prof2 l2 t) /\
  bytes_of (rr_rest _ (F5.poll_drive prof1 l1 t)) = bytes_of (rr_rest _ (F5.poll_drive prof2 l2 t)).
Proof.
  intros prof1 prof2 l1 l2 t Hb. unfold F5.poll_drive. apply poll_drive_ext; [|exact Hb].
  intros h t' d. destruct prof1, prof2; try reflexivity;
    [apply v5_block_decode_prof | symmetry; apply v5_block_decode_prof].
Qed.

Print Assumptions C06_v3_async_profile_independent.
Print Assumptions C06_v3_block_profile_independent.
Print Assumptions C06_v5_async_profile_independent.
Print Assumptions C06_v5_block_profile_independent.
Print Assumptions C05_v3_schedule_profile_independent.
Print Assumptions C05_v5_schedule_profile_independent.
