(* Proofs/DecAccessors.v — C12: every topic filter inside a DECODED packet has working
   shared-subscription accessors.

   Proofs/TopicFilterAcc.v (C17) proves the accessor facts for a filter obtained from
   `filter_try`; Proofs/DecInv.v proves that decoded packets satisfy types_inv, whose filter
   conjunct is `filter_ok` (valid UTF-8 text that the Release validator accepts with exactly the
   cached separator index).  Here the two are joined:

     filter_ok_try        filter_ok f = true -> filter_try prof (ftext f) = Ok f   (any profile)
     filter_ok_acc_ok     filter_ok f = true -> acc_ok f
     filters3 / filters5  the filters a packet carries (SUBSCRIBE, UNSUBSCRIBE)
     types_inv_filters3/5 types_inv p = true -> Forall filter_ok (filters p)
     C12_*                closed: for a packet returned by decode_async / block_decode (and by
                          the poll front-end under any schedule), every filter is acc_ok:
                          shared_group_name / shared_filter / shared_info never panic (nor fail),
                          a shared filter splits as "$share/" ++ name ++ "/" ++ rest with the
                          three accessors returning name, rest, (name, rest), and a non-shared
                          filter returns None three times.

   No hypotheses remain. *)
From MQ Require Import Proofs.Tactics Model.Valid.
From MQ Require Proofs.TopicFilterEq Proofs.TopicFilterAcc Proofs.DecInv Proofs.PollSched.
Open Scope N_scope.

(* ------------------------------------------------------------------------------------------ *)
(* 1. filter_ok gives the accessor facts                                                      *)
(* ------------------------------------------------------------------------------------------ *)

(* what "the accessors work" means for one filter value *)
Definition acc_ok (f : tfilter) : Prop :=
  (* never a panic (the slices are in range and on char boundaries) *)
  (forall s : site, shared_group_name f <> Panic s /\ shared_filter f <> Panic s /\ shared_info f <> Panic s) /\
  (* the cached separator says "shared" exactly when the text begins with "$share/" *)
  filter_is_shared f = starts_with SHARED_PREFIX (ftext f) /\
  (* shared: the text splits, and the accessors return the parts *)
  (filter_is_shared f = true ->
     exists name rest : bytes,
       ftext f = SHARED_PREFIX ++ name ++ [SL] ++ rest /\ ~ In SL name /\ name <> [] /\ rest <> [] /\
       shared_group_name f = Ok (Some name) /\ shared_filter f = Ok (Some rest) /\
       shared_info f = Ok (Some (name, rest))) /\
  (* not shared: None three times *)
  (filter_is_shared f = false ->
     shared_group_name f = Ok None /\ shared_filter f = Ok None /\ shared_info f = Ok None).

Lemma filter_ok_text (f : tfilter) : filter_ok f = true -> text_ok (ftext f) = true.
Proof. unfold filter_ok. intros H. apply andb_true_iff in H. exact (proj1 H). Qed.

Lemma filter_ok_utf8 (f : tfilter) : filter_ok f = true -> utf8_valid (ftext f) = true.
Proof.
  intros H. apply filter_ok_text in H. unfold text_ok in H. apply andb_true_iff in H. exact (proj2 H).
Qed.

Lemma filter_ok_try_release (f : tfilter) : filter_ok f = true -> filter_try Release (ftext f) = Ok f.
Proof.
  unfold filter_ok. intros H. apply andb_true_iff in H. destruct H as [_ H].
  unfold filter_try.
  destruct (filter_is_invalid Release (ftext f)) as [[[|] sep]|e|p]; try discriminate H.
  apply N.eqb_eq in H. subst sep. destruct f as [tx sp]. reflexivity.
Qed.

(* re-validating the text of a filter_ok value, in either profile, gives the value back *)
Lemma filter_ok_try (prof : profile) (f : tfilter) : filter_ok f = true -> filter_try prof (ftext f) = Ok f.
Proof.
  intros H.
  exact (TopicFilterAcc.filter_reparse Release prof (ftext f) f (filter_ok_utf8 f H) (filter_ok_try_release f H)).
Qed.

(* the four facts of accessors_split, for a filter_ok value *)
Lemma filter_ok_accessors_split (f : tfilter) : filter_ok f = true ->
  filter_is_shared f = starts_with SHARED_PREFIX (ftext f) /\
  (filter_is_shared f = true ->
     exists name rest, ftext f = SHARED_PREFIX ++ name ++ [SL] ++ rest /\ ~ In SL name /\ name <> [] /\ rest <> [] /\
       shared_group_name f = Ok (Some name) /\ shared_filter f = Ok (Some rest) /\
       shared_info f = Ok (Some (name, rest))) /\
  (filter_is_shared f = false ->
     shared_group_name f = Ok None /\ shared_filter f = Ok None /\ shared_info f = Ok None).
Proof.
  intros H.
  destruct (TopicFilterAcc.accessors_split Release (ftext f) f (filter_ok_utf8 f H) (filter_ok_try_release f H))
    as (_ & Hsh & Hyes & Hno).
  split; [exact Hsh|]. split; [exact Hyes|exact Hno].
Qed.

Theorem filter_ok_acc_ok (f : tfilter) : filter_ok f = true -> acc_ok f.
Proof.
  intros H. destruct (filter_ok_accessors_split f H) as (Hsh & Hyes & Hno).
  unfold acc_ok. split; [|split; [exact Hsh|split; [exact Hyes|exact Hno]]].
  intros s. destruct (filter_is_shared f) eqn:Eshared.
  - destruct (Hyes eq_refl) as (name & rest & _ & _ & _ & _ & Hg & Hf & Hi).
    rewrite Hg, Hf, Hi. repeat split; discriminate.
  - destruct (Hno eq_refl) as (Hg & Hf & Hi).
    rewrite Hg, Hf, Hi. repeat split; discriminate.
Qed.

(* convenient consequences of acc_ok *)
Lemma acc_ok_no_panic (f : tfilter) : acc_ok f ->
  forall s, shared_group_name f <> Panic s /\ shared_filter f <> Panic s /\ shared_info f <> Panic s.
Proof. intros H. exact (proj1 H). Qed.

Lemma acc_ok_no_err (f : tfilter) : acc_ok f ->
  forall e, shared_group_name f <> Err e /\ shared_filter f <> Err e /\ shared_info f <> Err e.
Proof.
  intros (_ & _ & Hyes & Hno) e. destruct (filter_is_shared f) eqn:Eshared.
  - destruct (Hyes eq_refl) as (name & rest & _ & _ & _ & _ & Hg & Hf & Hi).
    rewrite Hg, Hf, Hi. repeat split; discriminate.
  - destruct (Hno eq_refl) as (Hg & Hf & Hi).
    rewrite Hg, Hf, Hi. repeat split; discriminate.
Qed.

(* ------------------------------------------------------------------------------------------ *)
(* 2. the filters of a packet                                                                 *)
(* ------------------------------------------------------------------------------------------ *)
Definition filters3 (p : V3.packet) : list tfilter :=
  match p with
  | V3.Subscribe s => map fst (V3.s_topics s)
  | V3.Unsubscribe u => V3.u_topics u
  | _ => []
  end.

Definition filters5 (p : V5.packet) : list tfilter :=
  match p with
  | V5.Subscribe s => map fst (V5.s_topics s)
  | V5.Unsubscribe u => V5.u_topics u
  | _ => []
  end.

Lemma forallb_Forall_ok (l : list tfilter) : forallb filter_ok l = true -> Forall (fun f => filter_ok f = true) l.
Proof.
  induction l as [|f l IH]; intros H; [constructor|].
  cbn [forallb] in H. apply andb_true_iff in H. destruct H as [Hf Hl].
  constructor; [exact Hf|exact (IH Hl)].
Qed.

Lemma forallb_pairs_ok {B : Type} (g : B -> bool) (l : list (tfilter * B)) :
  forallb (fun '(f, q) => filter_ok f && g q) l = true -> Forall (fun f => filter_ok f = true) (map fst l).
Proof.
  induction l as [|[f q] l IH]; intros H; [constructor|].
  cbn [forallb] in H. apply andb_true_iff in H. destruct H as [Hf Hl].
  apply andb_true_iff in Hf. destruct Hf as [Hf _].
  cbn [map fst]. constructor; [exact Hf|exact (IH Hl)].
Qed.

Theorem types_inv_filters3 (p : V3.packet) :
  I3.types_inv p = true -> Forall (fun f => filter_ok f = true) (filters3 p).
Proof.
  destruct p as [c|c|pb|pid|pid|pid|pid|s|sa|u|pid| | |]; intros H; try (cbn [filters3]; constructor).
  - cbn [I3.types_inv] in H. apply andb_true_iff in H. destruct H as [_ H].
    cbn [filters3]. exact (forallb_pairs_ok (fun q => q <? 3) (V3.s_topics s) H).
  - cbn [I3.types_inv] in H. apply andb_true_iff in H. destruct H as [_ H].
    cbn [filters3]. exact (forallb_Forall_ok (V3.u_topics u) H).
Qed.

Theorem types_inv_filters5 (p : V5.packet) :
  I5.types_inv p = true -> Forall (fun f => filter_ok f = true) (filters5 p).
Proof.
  destruct p; intros H; try (cbn [filters5]; constructor).
  - cbn [I5.types_inv] in H. apply andb_true_iff in H. destruct H as [_ H].
    cbn [filters5]. exact (forallb_pairs_ok I5.subopts_inv (V5.s_topics s) H).
  - cbn [I5.types_inv] in H. apply andb_true_iff in H. destruct H as [_ H].
    cbn [filters5]. exact (forallb_Forall_ok (V5.u_topics u) H).
Qed.

Lemma Forall_ok_acc (l : list tfilter) :
  Forall (fun f => filter_ok f = true) l -> Forall (fun f => acc_ok f) l.
Proof.
  intros H. induction H as [|f l Hf _ IH]; constructor; [exact (filter_ok_acc_ok f Hf)|exact IH].
Qed.

Theorem types_inv_accessors3 (p : V3.packet) : I3.types_inv p = true -> Forall (fun f => acc_ok f) (filters3 p).
Proof. intros H. exact (Forall_ok_acc (filters3 p) (types_inv_filters3 p H)). Qed.

Theorem types_inv_accessors5 (p : V5.packet) : I5.types_inv p = true -> Forall (fun f => acc_ok f) (filters5 p).
Proof. intros H. exact (Forall_ok_acc (filters5 p) (types_inv_filters5 p H)). Qed.

(* ------------------------------------------------------------------------------------------ *)
(* 3. closed theorems: decoded packets                                                        *)
(* ------------------------------------------------------------------------------------------ *)
Theorem C12_v3_decoded_filters_accessors : forall prof t d p d',
  bytes_okb d = true -> V3.decode_async prof t d = ROk p d' ->
  Forall (fun f => acc_ok f) (filters3 p).
Proof.
  intros prof t d p d' Hd Hdec. apply types_inv_accessors3.
  exact (DecInv.v3_decoded_inv TopicFilterEq.filter_profile_indep prof t d p d' Hd Hdec).
Qed.

Theorem C12_v3_block_decoded_filters_accessors : forall prof h t d p d',
  bytes_okb d = true -> V3.block_decode prof h t d = ROk p d' ->
  Forall (fun f => acc_ok f) (filters3 p).
Proof.
  intros prof h t d p d' Hd Hdec. apply types_inv_accessors3.
  exact (DecInv.v3_block_decoded_inv TopicFilterEq.filter_profile_indep prof h t d p d' Hdec Hd).
Qed.

Theorem C12_v5_decoded_filters_accessors : forall prof t d p d',
  bytes_okb d = true -> V5.decode_async prof t d = ROk p d' ->
  Forall (fun f => acc_ok f) (filters5 p).
Proof.
  intros prof t d p d' Hd Hdec. apply types_inv_accessors5.
  exact (DecInv.v5_decoded_inv TopicFilterEq.filter_profile_indep prof t d p d' Hd Hdec).
Qed.

Theorem C12_v5_block_decoded_filters_accessors : forall prof h t d p d',
  bytes_okb d = true -> V5.block_decode prof h t d = ROk p d' ->
  Forall (fun f => acc_ok f) (filters5 p).
Proof.
  intros prof h t d p d' Hd Hdec. apply types_inv_accessors5.
  exact (DecInv.v5_block_decoded_inv TopicFilterEq.filter_profile_indep prof h t d p d' Hdec Hd).
Qed.

(* the packets that need no body (built from the header alone by the poll front-end) *)
Theorem C12_v3_empty_filters_accessors : forall h p,
  V3.build_empty_packet h = Some p -> Forall (fun f => acc_ok f) (filters3 p).
Proof. intros h p H. apply types_inv_accessors3. exact (DecInv.v3_empty_inv h p H). Qed.

Theorem C12_v5_empty_filters_accessors : forall h p,
  V5.build_empty_packet h = Some p -> Forall (fun f => acc_ok f) (filters5 p).
Proof. intros h p H. apply types_inv_accessors5. exact (DecInv.v5_empty_inv h p H). Qed.

(* ------------------------------------------------------------------------------------------ *)
(* worked examples                                                                            *)
(* ------------------------------------------------------------------------------------------ *)
(* SUBSCRIBE pid 1, "$share/g/a/+" qos 1, "x/#" qos 0 *)
Definition ex_sub3 : bytes :=
  [130; 23; 0; 1;
   0; 12; 36; 115; 104; 97; 114; 101; 47; 103; 47; 97; 47; 43; 1;
   0; 3; 120; 47; 35; 0].

Example ex_sub3_filters :
  match V3.decode_async Debug TEof ex_sub3 with
  | ROk p [] => map (fun f => (filter_is_shared f, shared_info f)) (filters3 p)
                = [(true, Ok (Some ([103], [97; 47; 43]))); (false, Ok None)]
  | _ => False
  end.
Proof. vm_compute. reflexivity. Qed.

Print Assumptions filter_ok_try.
Print Assumptions filter_ok_acc_ok.
Print Assumptions types_inv_filters3.
Print Assumptions types_inv_filters5.
Print Assumptions types_inv_accessors3.
Print Assumptions types_inv_accessors5.
Print Assumptions C12_v3_decoded_filters_accessors.
Print Assumptions C12_v3_block_decoded_filters_accessors.
Print Assumptions C12_v5_decoded_filters_accessors.
Print Assumptions C12_v5_block_decoded_filters_accessors.
Print Assumptions C12_v3_empty_filters_accessors.
Print Assumptions C12_v5_empty_filters_accessors.
