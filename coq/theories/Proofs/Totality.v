(* Proofs/Totality.v — "Decoders are total on arbitrary bytes".

   For EVERY byte list d (any list of N: no `bytes_okb d` assumption is needed anywhere), every
   tail t and both profiles, every decoder entry point returns ROk or RErr and never RPanic:
   every modelled panic site on the decode path is unreachable and every fuelled loop finishes
   within its fuel.

   The only assumption is the Section hypothesis `filter_profile_indep` (the debug_assert at the
   end of TopicFilter::is_invalid never fires on a valid UTF-8 string), proved elsewhere.

   Structure:
     1. predicates NP / nopanic / onp / consumes / consumes1 and their composition lemmas
     2. the read primitives and decode_var_int (incl. the < 2^28 bound for arbitrary N lists)
     3. outcomes that never panic (qos_of_u8, name_try, ...)
     4. property sections: the running count of decode_props_loop is props_body_len
     5. (Section) topic filters, v3 decoders, v5 decoders, front-ends, poll prerequisites
     6. the `unsafe` soundness condition: read_string only returns validated UTF-8 *)
From MQ Require Import Proofs.Tactics Proofs.VarIntLaws Proofs.Parses Model.Frontends.
Open Scope N_scope.

(* ================================================================== *)
(* 1. predicates                                                      *)
(* ================================================================== *)

Definition NP {A} (r : res A) : Prop := forall s, r <> RPanic s.
Definition nopanic {A} (m : reader A) : Prop := forall t d s, m t d <> RPanic s.
Definition onp {A} (o : outcome A) : Prop := forall s, o <> Panic s.
Definition consumes {A} (m : reader A) : Prop :=
  forall t d a d', m t d = ROk a d' -> (length d' <= length d)%nat.
Definition consumes1 {A} (m : reader A) : Prop :=
  forall t d a d', m t d = ROk a d' -> (length d' < length d)%nat.

Lemma nopanic_intro {A} (m : reader A) : (forall t d, NP (m t d)) -> nopanic m.
Proof. intros H t d s. exact (H t d s). Qed.
Lemma nopanic_NP {A} (m : reader A) t d : nopanic m -> NP (m t d).
Proof. intros H s. exact (H t d s). Qed.

Lemma NP_ok {A} (a : A) d : NP (ROk a d).
Proof. intros s H. discriminate H. Qed.
Lemma NP_err {A} e : NP (@RErr A e).
Proof. intros s H. discriminate H. Qed.
Lemma NP_ret {A} (a : A) t d : NP (ret a t d).
Proof. apply NP_ok. Qed.
Lemma NP_fail {A} e t d : NP (@fail A e t d).
Proof. apply NP_err. Qed.

Lemma NP_bind {A B} (m : reader A) (f : A -> reader B) t d :
  NP (m t d) -> (forall a d', m t d = ROk a d' -> NP (f a t d')) -> NP (bind m f t d).
Proof.
  unfold NP, bind. intros Hm Hf s. destruct (m t d) as [a d'|e|s'] eqn:E.
  - apply (Hf a d' eq_refl).
  - discriminate.
  - exfalso. exact (Hm s' eq_refl).
Qed.

Lemma bind_inv {A B} (m : reader A) (f : A -> reader B) t d b d2 :
  bind m f t d = ROk b d2 -> exists a d1, m t d = ROk a d1 /\ f a t d1 = ROk b d2.
Proof. unfold bind. destruct (m t d) as [a d1|e|s]; intros H; try discriminate H. eauto. Qed.

Lemma lift_inv {A} (o : outcome A) t d a d' : lift_outcome o t d = ROk a d' -> o = Ok a /\ d' = d.
Proof. destruct o as [x|e|s]; cbn [lift_outcome]; unfold ret, fail, rpanic; intros H; inversion H; auto. Qed.

(* nopanic, compositionally *)
Lemma nopanic_ret {A} (a : A) : nopanic (ret a).
Proof. intros t d s H. discriminate H. Qed.
Lemma nopanic_fail {A} e : nopanic (@fail A e).
Proof. intros t d s H. discriminate H. Qed.
Lemma nopanic_bind {A B} (m : reader A) (f : A -> reader B) :
  nopanic m -> (forall a, nopanic (f a)) -> nopanic (bind m f).
Proof.
  intros Hm Hf. apply nopanic_intro. intros t d. apply NP_bind; [apply nopanic_NP, Hm|].
  intros a d' _. apply nopanic_NP, Hf.
Qed.
(* the continuation may use what the first reader guarantees about its result *)
Lemma nopanic_bind_post {A B} (m : reader A) (f : A -> reader B) (Q : A -> Prop) :
  nopanic m -> (forall t d a d', m t d = ROk a d' -> Q a) -> (forall a, Q a -> nopanic (f a)) ->
  nopanic (bind m f).
Proof.
  intros Hm HQ Hf. apply nopanic_intro. intros t d. apply NP_bind; [apply nopanic_NP, Hm|].
  intros a d' E. apply nopanic_NP, Hf. exact (HQ _ _ _ _ E).
Qed.
Lemma nopanic_lift {A} (o : outcome A) : onp o -> nopanic (lift_outcome o).
Proof.
  intros H. destruct o as [a|e|s]; unfold lift_outcome;
    [apply nopanic_ret | apply nopanic_fail | exfalso; exact (H s eq_refl)].
Qed.

(* consumption, compositionally *)
Lemma consumes1_weaken {A} (m : reader A) : consumes1 m -> consumes m.
Proof. intros H t d a d' E. specialize (H t d a d' E). lia. Qed.
Lemma consumes_ret {A} (a : A) : consumes (ret a).
Proof. intros t d x d' H. unfold ret in H. inversion H; subst. lia. Qed.
Lemma consumes_fail {A} e : consumes (@fail A e).
Proof. intros t d x d' H. discriminate H. Qed.
Lemma consumes_rpanic {A} s : consumes (@rpanic A s).
Proof. intros t d x d' H. discriminate H. Qed.
Lemma consumes1_fail {A} e : consumes1 (@fail A e).
Proof. intros t d x d' H. discriminate H. Qed.
Lemma consumes_bind {A B} (m : reader A) (f : A -> reader B) :
  consumes m -> (forall a, consumes (f a)) -> consumes (bind m f).
Proof.
  intros Hm Hf t d b d2 H. apply bind_inv in H as (a & d1 & H1 & H2).
  specialize (Hm _ _ _ _ H1). specialize (Hf a _ _ _ _ H2). lia.
Qed.
Lemma consumes1_bind_l {A B} (m : reader A) (f : A -> reader B) :
  consumes1 m -> (forall a, consumes (f a)) -> consumes1 (bind m f).
Proof.
  intros Hm Hf t d b d2 H. apply bind_inv in H as (a & d1 & H1 & H2).
  specialize (Hm _ _ _ _ H1). specialize (Hf a _ _ _ _ H2). lia.
Qed.
Lemma consumes_lift {A} (o : outcome A) : consumes (lift_outcome o).
Proof. intros t d a d' H. apply lift_inv in H as [_ ->]. lia. Qed.

(* bind, when the first reader is known to consume: the shape used inside the fuelled loops *)
Lemma NP_bind_c {A B} (m : reader A) (f : A -> reader B) t d :
  nopanic m -> consumes m ->
  (forall a d', (length d' <= length d)%nat -> NP (f a t d')) -> NP (bind m f t d).
Proof.
  intros Hn Hc Hf. apply NP_bind; [apply nopanic_NP, Hn|]. intros a d' E. apply Hf. exact (Hc _ _ _ _ E).
Qed.
Lemma NP_bind_c1 {A B} (m : reader A) (f : A -> reader B) t d :
  nopanic m -> consumes1 m ->
  (forall a d', (length d' < length d)%nat -> NP (f a t d')) -> NP (bind m f t d).
Proof.
  intros Hn Hc Hf. apply NP_bind; [apply nopanic_NP, Hn|]. intros a d' E. apply Hf. exact (Hc _ _ _ _ E).
Qed.

(* a loop started with fuel S (length d) on the data d it is about to read *)
Lemma nopanic_fuelled {A B} (loop : nat -> reader A) (g : A -> reader B) :
  (forall fuel t d, (length d < fuel)%nat -> NP (loop fuel t d)) -> (forall a, nopanic (g a)) ->
  nopanic (fun t d => bind (loop (S (length d))) g t d).
Proof.
  intros Hl Hg. apply nopanic_intro. intros t d. apply NP_bind; [apply Hl; lia|].
  intros a d' _. apply nopanic_NP, Hg.
Qed.

(* ================================================================== *)
(* 2. read primitives                                                 *)
(* ================================================================== *)

Lemma nopanic_read_exact n : nopanic (read_exact n).
Proof. intros t d s. unfold read_exact. destruct (take d n) as [[a b]|]; discriminate. Qed.
Lemma nopanic_read_u8 : nopanic read_u8.
Proof. intros t d s. unfold read_u8. destruct d; discriminate. Qed.
Lemma nopanic_read_u16 : nopanic read_u16.
Proof. intros t d s. unfold read_u16. destruct d as [|a [|b r]]; discriminate. Qed.
Lemma nopanic_read_u32 : nopanic read_u32.
Proof. intros t d s. unfold read_u32. destruct d as [|a [|b [|c [|e r]]]]; discriminate. Qed.
Lemma nopanic_read_bytes : nopanic read_bytes.
Proof. unfold read_bytes. apply nopanic_bind; [apply nopanic_read_u16|intros n; apply nopanic_read_exact]. Qed.
Lemma nopanic_read_string : nopanic read_string.
Proof.
  unfold read_string. apply nopanic_bind; [apply nopanic_read_bytes|intros s0].
  destruct (utf8_valid s0); [apply nopanic_ret|apply nopanic_fail].
Qed.
Lemma nopanic_guard b e : nopanic (guard b e).
Proof. unfold guard. destruct b; [apply nopanic_ret|apply nopanic_fail]. Qed.
Lemma nopanic_checked_sub a b : nopanic (checked_sub a b).
Proof. unfold checked_sub. destruct (b <=? a); [apply nopanic_ret|apply nopanic_fail]. Qed.

Lemma consumes_read_exact n : consumes (read_exact n).
Proof.
  intros t d a d' H. unfold read_exact in H. destruct (take d n) as [[x y]|] eqn:E; [|discriminate H].
  inversion H; subst. apply take_some in E as [-> _]. rewrite app_length. lia.
Qed.
Lemma consumes1_read_u8 : consumes1 read_u8.
Proof. intros t d a d' H. unfold read_u8 in H. destruct d as [|b r]; inversion H; subst. cbn [length]. lia. Qed.
Lemma consumes1_read_u16 : consumes1 read_u16.
Proof.
  intros t d a d' H. unfold read_u16 in H. destruct d as [|x [|y r]]; inversion H; subst. cbn [length]. lia.
Qed.
Lemma consumes1_read_u32 : consumes1 read_u32.
Proof.
  intros t d a d' H. unfold read_u32 in H. destruct d as [|x [|y [|z [|w r]]]]; inversion H; subst.
  cbn [length]. lia.
Qed.
Lemma consumes1_read_bytes : consumes1 read_bytes.
Proof. unfold read_bytes. apply consumes1_bind_l; [apply consumes1_read_u16|intros n; apply consumes_read_exact]. Qed.
Lemma consumes1_read_string : consumes1 read_string.
Proof.
  unfold read_string. apply consumes1_bind_l; [apply consumes1_read_bytes|intros s0].
  destruct (utf8_valid s0); [apply consumes_ret|apply consumes_fail].
Qed.
Lemma consumes_checked_sub a b : consumes (checked_sub a b).
Proof. unfold checked_sub. destruct (b <=? a); [apply consumes_ret|apply consumes_fail]. Qed.

(* read_exact 2 returns exactly two bytes *)
Lemma read_exact_2 t d p d' : read_exact 2 t d = ROk p d' -> exists f c, p = [f; c].
Proof.
  intros H. unfold read_exact in H. destruct (take d 2) as [[x y]|] eqn:E; [|discriminate H].
  inversion H; subst. apply take_some in E as [_ Hl]. unfold len in Hl.
  destruct p as [|f [|c [|z p]]]; cbn [length] in Hl; try lia. eauto.
Qed.

(* ---- the `unsafe` soundness condition: from_utf8_unchecked only sees validated bytes ---- *)
Theorem read_string_valid t d s r : read_string t d = ROk s r -> utf8_valid s = true.
Proof.
  intros H. unfold read_string in H. apply bind_inv in H as (s0 & d1 & _ & H).
  destruct (utf8_valid s0) eqn:E; [|discriminate H]. unfold ret in H. inversion H; subst. exact E.
Qed.

(* ---- decode_var_int ---- *)
Lemma nopanic_var_int_loop fuel : forall i acc, nopanic (decode_var_int_loop fuel i acc).
Proof.
  induction fuel as [|f IH]; intros i acc t d s; destruct d as [|b r]; cbn [decode_var_int_loop];
    try discriminate; destruct (b <? 128); try discriminate. apply IH.
Qed.
Lemma nopanic_decode_var_int : nopanic decode_var_int.
Proof. apply nopanic_var_int_loop. Qed.

Lemma consumes1_var_int_loop fuel : forall i acc, consumes1 (decode_var_int_loop fuel i acc).
Proof.
  induction fuel as [|f IH]; intros i acc t d a d' H; destruct d as [|b r]; cbn [decode_var_int_loop] in H;
    try discriminate H; destruct (b <? 128); try discriminate H.
  - inversion H; subst. cbn [length]. lia.
  - inversion H; subst. cbn [length]. lia.
  - apply IH in H. cbn [length]. lia.
Qed.
Lemma consumes1_decode_var_int : consumes1 decode_var_int.
Proof. apply consumes1_var_int_loop. Qed.

(* whatever the reader accepts is below 2^28 — for arbitrary lists of N, not only bytes:
   each group contributes (b mod 128) * 2^(7i) *)
Lemma decode_var_int_bound t d v k r : decode_var_int t d = ROk (v, k) r -> v < VMAX.
Proof.
  unfold decode_var_int, VMAX. intros H.
  destruct d as [|b0 d]; cbn [decode_var_int_loop] in H; [discriminate H|].
  change (2 ^ (7 * 0)) with 1 in H.
  destruct (N.ltb_spec b0 128).
  { inversion H; subst. lia. }
  destruct d as [|b1 d]; [discriminate H|].
  change (2 ^ (7 * (0 + 1))) with 128 in H.
  destruct (N.ltb_spec b1 128).
  { inversion H; subst. lia. }
  destruct d as [|b2 d]; [discriminate H|].
  change (2 ^ (7 * (0 + 1 + 1))) with 16384 in H.
  destruct (N.ltb_spec b2 128).
  { inversion H; subst. lia. }
  destruct d as [|b3 d]; [discriminate H|].
  change (2 ^ (7 * (0 + 1 + 1 + 1))) with 2097152 in H.
  destruct (N.ltb_spec b3 128); [|discriminate H].
  inversion H; subst. lia.
Qed.

(* ================================================================== *)
(* 3. outcomes that never panic                                       *)
(* ================================================================== *)

Ltac onp_cases :=
  repeat match goal with
         | |- context [if ?c then _ else _] => destruct c
         end; discriminate.

Lemma onp_qos_of_u8 b : onp (qos_of_u8 b).
Proof. intros s. unfold qos_of_u8. onp_cases. Qed.
Lemma onp_name_try s0 : onp (name_try s0).
Proof. intros s. unfold name_try. onp_cases. Qed.
Lemma onp_pid_try v : onp (pid_try v).
Proof. intros s. unfold pid_try. onp_cases. Qed.
Lemma onp_protocol_new name level : onp (protocol_new name level).
Proof. intros s. unfold protocol_new. onp_cases. Qed.
Lemma onp_var_byte_int_try v : onp (var_byte_int_try v).
Proof. intros s. unfold var_byte_int_try. onp_cases. Qed.
Lemma onp_connect_return_code b : onp (V3.connect_return_code_of_u8 b).
Proof. intros s. unfold V3.connect_return_code_of_u8. onp_cases. Qed.
Lemma onp_subscribe_return_code b : onp (V3.subscribe_return_code_of_u8 b).
Proof. intros s. unfold V3.subscribe_return_code_of_u8. onp_cases. Qed.
Lemma onp_subopts_of_u8 b : onp (V5.subopts_of_u8 b).
Proof. intros s. unfold V5.subopts_of_u8. onp_cases. Qed.

(* TopicFilter::is_invalid without the debug assertion has no panic site *)
Lemma onp_filter_release s0 : onp (filter_is_invalid Release s0).
Proof.
  intros s. unfold filter_is_invalid.
  destruct (65535 <? len s0); [discriminate|]. destruct s0 as [|b r]; [discriminate|].
  destruct (frun 0 (utf8_chars (b :: r)) finit) as [st|]; [|discriminate]. onp_cases.
Qed.

(* ================================================================== *)
(* 4. property sections                                               *)
(* ================================================================== *)

(* ---- get / set on the universal record ---- *)
Lemma prop_id_eqb_eq a b : prop_id_eqb a b = true -> a = b.
Proof. destruct a, b; vm_compute; intros H; try reflexivity; discriminate H. Qed.
Lemma prop_id_eqb_refl a : prop_id_eqb a a = true.
Proof. unfold prop_id_eqb. apply N.eqb_refl. Qed.

Lemma pget_pset p id v x : pget (pset p id v) x = if prop_id_eqb id x then v else pget p x.
Proof. destruct p, id, x; reflexivity. Qed.
Lemma pr_user_pset p id v : pr_user (pset p id v) = pr_user p.
Proof. destruct p, id; reflexivity. Qed.
Lemma pget_pset_user p u x : pget (pset_user p u) x = pget p x.
Proof. destruct p, x; reflexivity. Qed.
Lemma pr_user_pset_user p u : pr_user (pset_user p u) = u.
Proof. destruct p; reflexivity. Qed.

(* ---- props_body_len as user part + sum of the per-id contributions ---- *)
Definition contrib (p : props) (id : prop_id) : N :=
  match pget p id with Some v => 1 + value_len (prop_wtype id) v | None => 0 end.
Fixpoint sumc (p : props) (l : list prop_id) : N :=
  match l with [] => 0 | x :: r => contrib p x + sumc p r end.
Definition user_total (u : list (bytes * bytes)) : N :=
  N.of_nat (length u) + fold_right (fun u a => user_len u + a) 0 u.

Lemma fold_left_contrib p l : forall a,
  fold_left (fun a id => match pget p id with Some v => a + (1 + value_len (prop_wtype id) v) | None => a end) l a
  = a + sumc p l.
Proof.
  induction l as [|x l IH]; intros a; cbn [fold_left sumc].
  - lia.
  - rewrite IH. unfold contrib. destruct (pget p x); lia.
Qed.
Lemma props_body_len_eq L p : props_body_len L p = user_total (pr_user p) + sumc p L.
Proof. unfold props_body_len, user_total. apply fold_left_contrib. Qed.

Lemma user_total_snoc u x : user_total (u ++ [x]) = user_total u + (1 + user_len x).
Proof.
  unfold user_total. induction u as [|y u IH]; cbn [app length fold_right].
  - lia.
  - cbn [app length fold_right] in IH. lia.
Qed.

Fixpoint nodupb (l : list prop_id) : bool :=
  match l with [] => true | x :: r => negb (prop_mem x r) && nodupb r end.

Lemma sumc_pset_user p u L : sumc (pset_user p u) L = sumc p L.
Proof.
  induction L as [|x L IH]; cbn [sumc]; [reflexivity|]. rewrite IH. unfold contrib.
  rewrite pget_pset_user. reflexivity.
Qed.
Lemma sumc_pset_notin p id v L : prop_mem id L = false -> sumc (pset p id v) L = sumc p L.
Proof.
  unfold prop_mem. induction L as [|x L IH]; cbn [sumc existsb]; intros H; [reflexivity|].
  apply orb_false_iff in H as [Hx HL]. rewrite (IH HL). unfold contrib. rewrite pget_pset, Hx. reflexivity.
Qed.
Lemma sumc_pset_in p id v L : nodupb L = true -> prop_mem id L = true -> pget p id = None ->
  sumc (pset p id (Some v)) L = sumc p L + (1 + value_len (prop_wtype id) v).
Proof.
  intros Hnd Hm Hg. induction L as [|x L IH]; [discriminate Hm|].
  cbn [nodupb] in Hnd. apply andb_true_iff in Hnd as [Hx Hnd]. apply negb_true_iff in Hx.
  unfold prop_mem in Hm. cbn [existsb] in Hm. cbn [sumc].
  destruct (prop_id_eqb id x) eqn:E.
  - apply prop_id_eqb_eq in E. subst x. rewrite sumc_pset_notin by exact Hx.
    unfold contrib. rewrite pget_pset, prop_id_eqb_refl, Hg. lia.
  - cbn [orb] in Hm. rewrite (IH Hnd Hm). unfold contrib. rewrite pget_pset, E. lia.
Qed.

Lemma body_len_pset L p id v : nodupb L = true -> prop_mem id L = true -> pget p id = None ->
  props_body_len L (pset p id (Some v)) = props_body_len L p + (1 + value_len (prop_wtype id) v).
Proof.
  intros Hnd Hm Hg. rewrite !props_body_len_eq, pr_user_pset, (sumc_pset_in _ _ _ _ Hnd Hm Hg). lia.
Qed.
Lemma body_len_user L p name value :
  props_body_len L (pset_user p (pr_user p ++ [(name, value)]))
  = props_body_len L p + (1 + 4 + len name + len value).
Proof.
  rewrite !props_body_len_eq, pr_user_pset_user, sumc_pset_user, user_total_snoc.
  unfold user_len. cbn [fst snd]. lia.
Qed.
Lemma body_len_empty L : props_body_len L props_empty = 0.
Proof.
  rewrite props_body_len_eq. replace (sumc props_empty L) with 0; [reflexivity|].
  induction L as [|x L IH]; cbn [sumc]; [reflexivity|]. rewrite <- IH. destruct x; reflexivity.
Qed.

(* ---- values ---- *)
Lemma nopanic_decode_value id : nopanic (decode_value id).
Proof.
  unfold decode_value. destruct (prop_wtype id).
  - apply nopanic_bind; [apply nopanic_read_u8|intros v]. destruct (1 <? v); [apply nopanic_fail|apply nopanic_ret].
  - apply nopanic_bind; [apply nopanic_read_u16|intros v; apply nopanic_ret].
  - apply nopanic_bind; [apply nopanic_read_u32|intros v; apply nopanic_ret].
  - apply nopanic_bind; [apply nopanic_read_string|intros v; apply nopanic_ret].
  - apply nopanic_bind; [apply nopanic_read_string|intros v].
    destruct (name_is_invalid v); [apply nopanic_fail|apply nopanic_ret].
  - apply nopanic_bind; [apply nopanic_read_bytes|intros v; apply nopanic_ret].
  - apply nopanic_bind; [apply nopanic_decode_var_int|intros [v k]].
    apply nopanic_bind; [apply nopanic_lift, onp_var_byte_int_try|intros v'; apply nopanic_ret].
  - (* SiteQos01Expect: v <= 1 makes QoS::from_u8 succeed *)
    apply nopanic_bind; [apply nopanic_read_u8|intros v].
    destruct (N.ltb_spec 1 v) as [Hv|Hv]; [apply nopanic_fail|].
    unfold qos_of_u8. destruct (N.ltb_spec v 3) as [Hq|Hq]; [apply nopanic_ret|lia].
Qed.

Lemma consumes_decode_value id : consumes (decode_value id).
Proof.
  unfold decode_value. destruct (prop_wtype id).
  - apply consumes_bind; [apply consumes1_weaken, consumes1_read_u8|intros v].
    destruct (1 <? v); [apply consumes_fail|apply consumes_ret].
  - apply consumes_bind; [apply consumes1_weaken, consumes1_read_u16|intros v; apply consumes_ret].
  - apply consumes_bind; [apply consumes1_weaken, consumes1_read_u32|intros v; apply consumes_ret].
  - apply consumes_bind; [apply consumes1_weaken, consumes1_read_string|intros v; apply consumes_ret].
  - apply consumes_bind; [apply consumes1_weaken, consumes1_read_string|intros v].
    destruct (name_is_invalid v); [apply consumes_fail|apply consumes_ret].
  - apply consumes_bind; [apply consumes1_weaken, consumes1_read_bytes|intros v; apply consumes_ret].
  - apply consumes_bind; [apply consumes1_weaken, consumes1_decode_var_int|intros [v k]].
    apply consumes_bind; [apply consumes_lift|intros v'; apply consumes_ret].
  - apply consumes_bind; [apply consumes1_weaken, consumes1_read_u8|intros v].
    destruct (1 <? v); [apply consumes_fail|].
    destruct (qos_of_u8 v); [apply consumes_ret|apply consumes_rpanic|apply consumes_rpanic].
Qed.

(* ---- decode_properties!: SiteFuel is unreachable ---- *)
Lemma props_loop_np ctx L : forall fuel plen n acc t d, (length d < fuel)%nat ->
  NP (decode_props_loop fuel ctx L plen n acc t d).
Proof.
  induction fuel as [|f IH]; intros plen n acc t d Hd; cbn [decode_props_loop].
  - lia.
  - destruct (plen <=? n).
    { destruct (plen =? n); [apply NP_ret|apply NP_fail]. }
    apply NP_bind_c1; [apply nopanic_read_u8|apply consumes1_read_u8|intros b d1 H1].
    destruct (prop_of_u8 b) as [[|id]|]; [| |apply NP_fail].
    + apply NP_bind_c; [apply nopanic_read_string|apply consumes1_weaken, consumes1_read_string|intros name d2 H2].
      apply NP_bind_c; [apply nopanic_read_string|apply consumes1_weaken, consumes1_read_string|intros value d3 H3].
      apply IH. lia.
    + destruct (prop_mem id L); [|apply NP_fail].
      destruct (pget acc id); [apply NP_fail|].
      apply NP_bind_c; [apply nopanic_decode_value|apply consumes_decode_value|intros v d2 H2].
      apply IH. lia.
Qed.

(* ---- the running count is props_body_len of the accumulator; on exit it equals plen ---- *)
Lemma props_loop_post ctx L : nodupb L = true -> forall fuel plen n acc t d p d',
  n = props_body_len L acc ->
  decode_props_loop fuel ctx L plen n acc t d = ROk p d' -> props_body_len L p = plen.
Proof.
  intros Hnd. induction fuel as [|f IH]; intros plen n acc t d p d' Hn H; cbn [decode_props_loop] in H.
  - destruct (N.leb_spec plen n) as [Hle|Hle]; [|discriminate H].
    destruct (N.eqb_spec plen n) as [He|He]; [|discriminate H].
    unfold ret in H. inversion H; subst. reflexivity.
  - destruct (N.leb_spec plen n) as [Hle|Hle].
    { destruct (N.eqb_spec plen n) as [He|He]; [|discriminate H].
      unfold ret in H. inversion H; subst. reflexivity. }
    apply bind_inv in H as (b & d1 & _ & H).
    destruct (prop_of_u8 b) as [[|id]|]; [| |discriminate H].
    + apply bind_inv in H as (name & d2 & _ & H). apply bind_inv in H as (value & d3 & _ & H).
      eapply IH; [|exact H]. rewrite body_len_user. lia.
    + destruct (prop_mem id L) eqn:Hm; [|discriminate H].
      destruct (pget acc id) eqn:Hg; [discriminate H|].
      apply bind_inv in H as (v & d2 & _ & H).
      eapply IH; [|exact H]. rewrite (body_len_pset _ _ _ _ Hnd Hm Hg). lia.
Qed.

Lemma nopanic_decode_props_full ctx L : nopanic (decode_props_full ctx L).
Proof.
  unfold decode_props_full. apply nopanic_bind; [apply nopanic_decode_var_int|intros [plen pb]].
  apply (nopanic_fuelled (fun fuel => decode_props_loop fuel ctx L plen 0 props_empty)).
  - intros fuel t d Hd. apply props_loop_np. exact Hd.
  - intros p. apply nopanic_ret.
Qed.
Lemma nopanic_decode_props ctx L : nopanic (decode_props ctx L).
Proof.
  unfold decode_props. apply nopanic_bind; [apply nopanic_decode_props_full|intros [[p plen] pb]].
  apply nopanic_ret.
Qed.

Lemma decode_props_full_post ctx L t d p plen pb d' : nodupb L = true ->
  decode_props_full ctx L t d = ROk (p, plen, pb) d' -> props_body_len L p = plen /\ plen < VMAX.
Proof.
  intros Hnd H. unfold decode_props_full in H. apply bind_inv in H as ([pl k] & d0 & Hv & H).
  cbv beta iota in H. apply bind_inv in H as (p1 & d2 & Hl & Hr). unfold ret in Hr. inversion Hr; subst.
  split.
  - eapply props_loop_post; [exact Hnd| |exact Hl]. rewrite body_len_empty. reflexivity.
  - eapply decode_var_int_bound. exact Hv.
Qed.
(* what makes `encode_properties_len!(..).expect(..)` on the decode path safe *)
Lemma decode_props_post ctx L t d p d' : nodupb L = true ->
  decode_props ctx L t d = ROk p d' -> props_body_len L p < VMAX.
Proof.
  intros Hnd H. unfold decode_props in H. apply bind_inv in H as ([[p0 plen] pb] & d1 & H1 & H2).
  cbv beta iota in H2. unfold ret in H2. inversion H2; subst.
  apply (decode_props_full_post _ _ _ _ _ _ _ _ Hnd) in H1 as [-> Hb]. exact Hb.
Qed.
Lemma onp_props_len L p : props_body_len L p < VMAX -> onp (props_len L p).
Proof.
  intros H s. unfold props_len, props_len_of_body. rewrite (var_int_len_ok _ H). discriminate.
Qed.
Lemma nopanic_bind_props {B} ctx L (f : props -> reader B) : nodupb L = true ->
  (forall p, props_body_len L p < VMAX -> nopanic (f p)) -> nopanic (bind (decode_props ctx L) f).
Proof.
  intros Hnd Hf. apply (nopanic_bind_post _ _ (fun p => props_body_len L p < VMAX)).
  - apply nopanic_decode_props.
  - intros t d p d' E. exact (decode_props_post _ _ _ _ _ _ Hnd E).
  - exact Hf.
Qed.

(* ================================================================== *)
(* 5. the decoders                                                    *)
(* ================================================================== *)

(* Header::new_with: the match on hd / 16 (hd is any N) *)
Ltac split_num :=
  repeat match goal with
         | |- context [match ?p with _ => _ end] => is_var p; destruct p
         end.

Lemma v3_header_new_with_nopanic hd rl : onp (V3.header_new_with hd rl).
Proof.
  intros s. unfold V3.header_new_with. pose proof (onp_qos_of_u8 ((hd / 2) mod 4)) as Hq.
  destruct (qos_of_u8 ((hd / 2) mod 4)) as [q|e|s'] eqn:Eq; [| |exfalso; exact (Hq s' eq_refl)];
    destruct (hd / 16) as [|p]; try discriminate; split_num; try discriminate; onp_cases.
Qed.
Lemma v5_header_new_with_nopanic hd rl : onp (V5.header_new_with hd rl).
Proof.
  intros s. unfold V5.header_new_with. pose proof (onp_qos_of_u8 ((hd / 2) mod 4)) as Hq.
  destruct (qos_of_u8 ((hd / 2) mod 4)) as [q|e|s'] eqn:Eq; [| |exfalso; exact (Hq s' eq_refl)];
    destruct (hd / 16) as [|p]; try discriminate; split_num; try discriminate; onp_cases.
Qed.

(* the header types Header::new_with can produce, with the invariant rl = 0 of the empty packets *)
Ltac split_ifs :=
  repeat match goal with
         | |- context [if ?c then _ else _] => destruct c
         end.

Lemma v3_header_new_with_typ hd rl h : V3.header_new_with hd rl = Ok h -> h_typ h <> PAuth.
Proof.
  unfold V3.header_new_with.
  destruct (qos_of_u8 ((hd / 2) mod 4)) as [q|e|s'];
    destruct (hd / 16) as [|p]; split_num; split_ifs; intros H E; try discriminate H;
    inversion H; subst; discriminate E.
Qed.

Create HintDb np discriminated.
#[export] Hint Resolve nopanic_ret nopanic_fail nopanic_read_exact nopanic_read_u8 nopanic_read_u16
  nopanic_read_u32 nopanic_read_bytes nopanic_read_string nopanic_guard nopanic_checked_sub
  nopanic_decode_var_int nopanic_decode_value nopanic_decode_props_full nopanic_decode_props
  onp_qos_of_u8 onp_name_try onp_pid_try onp_protocol_new onp_var_byte_int_try
  onp_connect_return_code onp_subscribe_return_code onp_subopts_of_u8 onp_props_len : np.

(* syntax-directed decomposition of a decoder body *)
Ltac np_step :=
  match goal with
  | |- nopanic (ret _) => apply nopanic_ret
  | |- nopanic (fail _) => apply nopanic_fail
  | |- nopanic (bind (decode_props _ _) _) =>
    apply nopanic_bind_props; [vm_compute; reflexivity | intros ? ?; cbv beta]
  | |- nopanic (bind _ _) => apply nopanic_bind; [|intros ?; cbv beta]
  | |- nopanic (lift_outcome _) => apply nopanic_lift
  | |- nopanic (if ?c then _ else _) => destruct c
  | |- nopanic (match ?x with _ => _ end) => destruct x
  | |- nopanic _ => solve [auto with np]
  | |- onp _ => solve [auto with np]
  end.
Ltac np := repeat np_step.

Section Decoders.

(* proved elsewhere: on a well-formed string the debug assertion at the end of
   TopicFilter::is_invalid (shared_group_sep is 0 or 6) holds, i.e. both profiles agree *)
Hypothesis filter_profile_indep :
  forall s, utf8_valid s = true -> filter_is_invalid Debug s = filter_is_invalid Release s.

(* ---- topic filters: SiteFilterAssert ---- *)
Lemma onp_filter_try prof s0 : utf8_valid s0 = true -> onp (filter_try prof s0).
Proof.
  intros Hv s. unfold filter_try.
  replace (filter_is_invalid prof s0) with (filter_is_invalid Release s0)
    by (destruct prof; [symmetry; apply filter_profile_indep; exact Hv|reflexivity]).
  destruct (filter_is_invalid Release s0) as [[[|] sep]|e|s1] eqn:E; try discriminate.
  exfalso. exact (onp_filter_release s0 s1 E).
Qed.

Lemma nopanic_filter_read prof : nopanic (V3.filter_read prof).
Proof.
  unfold V3.filter_read. apply (nopanic_bind_post _ _ (fun s0 => utf8_valid s0 = true)).
  - apply nopanic_read_string.
  - intros t d s0 d' E. exact (read_string_valid _ _ _ _ E).
  - intros s0 Hv. apply nopanic_lift, onp_filter_try, Hv.
Qed.
Lemma consumes1_filter_read prof : consumes1 (V3.filter_read prof).
Proof.
  unfold V3.filter_read. apply consumes1_bind_l; [apply consumes1_read_string|intros s0; apply consumes_lift].
Qed.

(* ---------------------------------------------------------------- *)
(* v3                                                               *)
(* ---------------------------------------------------------------- *)

Lemma nopanic_decode_raw_header : nopanic decode_raw_header.
Proof. unfold decode_raw_header. np. Qed.

Theorem v3_header_total : nopanic V3.header_decode.
Proof.
  unfold V3.header_decode. apply nopanic_bind; [apply nopanic_decode_raw_header|intros [typ rl]].
  apply nopanic_lift, v3_header_new_with_nopanic.
Qed.

Lemma v3_header_decode_typ t d h d' : V3.header_decode t d = ROk h d' -> h_typ h <> PAuth.
Proof.
  unfold V3.header_decode. intros H. apply bind_inv in H as ([typ rl] & d1 & _ & H).
  apply lift_inv in H as [H _]. exact (v3_header_new_with_typ _ _ _ H).
Qed.

Lemma nopanic_pid_read : nopanic V3.pid_read.
Proof. unfold V3.pid_read. np. Qed.
Lemma nopanic_protocol_decode : nopanic protocol_decode.
Proof. unfold protocol_decode. np. Qed.
#[local] Hint Resolve nopanic_pid_read nopanic_protocol_decode nopanic_filter_read : np.

Theorem v3_connect_with_protocol_total : forall proto, nopanic (V3.connect_decode_with_protocol proto).
Proof. intros proto. unfold V3.connect_decode_with_protocol. np. Qed.
#[local] Hint Resolve v3_connect_with_protocol_total : np.

Lemma nopanic_v3_connect_decode : nopanic V3.connect_decode.
Proof. unfold V3.connect_decode. np. Qed.

(* SiteSlice: read_exact 2 returns exactly two bytes *)
Lemma nopanic_v3_connack_decode : nopanic V3.connack_decode.
Proof.
  unfold V3.connack_decode.
  apply (nopanic_bind_post _ _ (fun p : bytes => exists f c, p = [f; c])).
  - apply nopanic_read_exact.
  - intros t d p d' E. exact (read_exact_2 _ _ _ _ E).
  - intros p (f & c & ->). np.
Qed.

Lemma nopanic_v3_publish_decode h : nopanic (V3.publish_decode h).
Proof. unfold V3.publish_decode. np. Qed.

(* SiteFuel: every iteration consumes at least one byte *)
Lemma v3_subscribe_loop_np prof : forall fuel rl acc t d, (length d < fuel)%nat ->
  NP (V3.subscribe_loop prof fuel rl acc t d).
Proof.
  induction fuel as [|f IH]; intros rl acc t d Hd; cbn [V3.subscribe_loop].
  - lia.
  - destruct (rl =? 0); [apply NP_ret|].
    apply NP_bind_c1; [apply nopanic_filter_read|apply consumes1_filter_read|intros tf d1 H1].
    apply NP_bind_c; [apply nopanic_read_u8|apply consumes1_weaken, consumes1_read_u8|intros qb d2 H2].
    apply NP_bind_c; [apply nopanic_lift, onp_qos_of_u8|apply consumes_lift|intros q d3 H3].
    apply NP_bind_c; [apply nopanic_checked_sub|apply consumes_checked_sub|intros rl' d4 H4].
    apply IH. lia.
Qed.
Lemma v3_suback_loop_np : forall fuel rl acc t d, (length d < fuel)%nat ->
  NP (V3.suback_loop fuel rl acc t d).
Proof.
  induction fuel as [|f IH]; intros rl acc t d Hd; cbn [V3.suback_loop].
  - lia.
  - destruct (rl =? 0); [apply NP_ret|].
    apply NP_bind_c1; [apply nopanic_read_u8|apply consumes1_read_u8|intros v d1 H1].
    apply NP_bind_c; [apply nopanic_lift, onp_subscribe_return_code|apply consumes_lift|intros c d2 H2].
    apply IH. lia.
Qed.
Lemma v3_unsubscribe_loop_np prof : forall fuel rl acc t d, (length d < fuel)%nat ->
  NP (V3.unsubscribe_loop prof fuel rl acc t d).
Proof.
  induction fuel as [|f IH]; intros rl acc t d Hd; cbn [V3.unsubscribe_loop].
  - lia.
  - destruct (rl =? 0); [apply NP_ret|].
    apply NP_bind_c1; [apply nopanic_filter_read|apply consumes1_filter_read|intros tf d1 H1].
    apply NP_bind_c; [apply nopanic_checked_sub|apply consumes_checked_sub|intros rl' d2 H2].
    apply IH. lia.
Qed.

Lemma nopanic_v3_subscribe_decode prof rl0 : nopanic (V3.subscribe_decode prof rl0).
Proof.
  unfold V3.subscribe_decode.
  apply nopanic_bind; [apply nopanic_pid_read|intros pid].
  apply nopanic_bind; [apply nopanic_checked_sub|intros rl].
  destruct (rl =? 0); [apply nopanic_fail|].
  apply (nopanic_fuelled (fun fuel => V3.subscribe_loop prof fuel rl [])).
  - intros fuel t d Hd. apply v3_subscribe_loop_np. exact Hd.
  - intros topics. apply nopanic_ret.
Qed.
Lemma nopanic_v3_suback_decode rl0 : nopanic (V3.suback_decode rl0).
Proof.
  unfold V3.suback_decode.
  apply nopanic_bind; [apply nopanic_pid_read|intros pid].
  apply nopanic_bind; [apply nopanic_checked_sub|intros rl].
  apply (nopanic_fuelled (fun fuel => V3.suback_loop fuel rl [])).
  - intros fuel t d Hd. apply v3_suback_loop_np. exact Hd.
  - intros codes. apply nopanic_ret.
Qed.
Lemma nopanic_v3_unsubscribe_decode prof rl0 : nopanic (V3.unsubscribe_decode prof rl0).
Proof.
  unfold V3.unsubscribe_decode.
  apply nopanic_bind; [apply nopanic_pid_read|intros pid].
  apply nopanic_bind; [apply nopanic_checked_sub|intros rl].
  destruct (rl =? 0); [apply nopanic_fail|].
  apply (nopanic_fuelled (fun fuel => V3.unsubscribe_loop prof fuel rl [])).
  - intros fuel t d Hd. apply v3_unsubscribe_loop_np. exact Hd.
  - intros topics. apply nopanic_ret.
Qed.
#[local] Hint Resolve nopanic_v3_connect_decode nopanic_v3_connack_decode nopanic_v3_publish_decode
  nopanic_v3_subscribe_decode nopanic_v3_suback_decode nopanic_v3_unsubscribe_decode : np.

(* SiteUnreachable in Packet::decode_async: v3 headers never have type Auth *)
Lemma nopanic_v3_body_decode_async prof h : h_typ h <> PAuth -> nopanic (V3.body_decode_async prof h).
Proof. intros Ht. unfold V3.body_decode_async. destruct (h_typ h); try (np; fail). exfalso. apply Ht. reflexivity. Qed.

Theorem v3_decode_total : forall prof, nopanic (V3.decode_async prof).
Proof.
  intros prof. unfold V3.decode_async. apply (nopanic_bind_post _ _ (fun h => h_typ h <> PAuth)).
  - apply v3_header_total.
  - intros t d h d' E. exact (v3_header_decode_typ _ _ _ _ E).
  - intros h Ht. apply nopanic_v3_body_decode_async, Ht.
Qed.

(* the poll front-end calls block_decode only when build_empty_packet gave None, on a header made by
   Header::new_with: the unreachable!() arm is unreachable *)
Theorem v3_block_decode_total : forall prof cb rl h,
  V3.header_new_with cb rl = Ok h -> V3.build_empty_packet h = None -> nopanic (V3.block_decode prof h).
Proof.
  intros prof cb rl h Hh He. apply v3_header_new_with_typ in Hh.
  unfold V3.build_empty_packet in He. unfold V3.block_decode.
  destruct (h_typ h); try discriminate He; try (np; fail). exfalso. apply Hh. reflexivity.
Qed.

(* ---------------------------------------------------------------- *)
(* v5                                                               *)
(* ---------------------------------------------------------------- *)

Theorem v5_header_total : nopanic V5.header_decode.
Proof.
  unfold V5.header_decode. apply nopanic_bind; [apply nopanic_decode_raw_header|intros [typ rl]].
  apply nopanic_lift, v5_header_new_with_nopanic.
Qed.

Lemma nopanic_reason_read table pt : nopanic (V5.reason_read table pt).
Proof. unfold V5.reason_read. np. Qed.
Lemma consumes1_reason_read table pt : consumes1 (V5.reason_read table pt).
Proof.
  unfold V5.reason_read. apply consumes1_bind_l; [apply consumes1_read_u8|intros b].
  destruct (V5.mem_n b (V5.codes_of table)); [apply consumes_ret|apply consumes_fail].
Qed.
#[local] Hint Resolve nopanic_reason_read : np.

Lemma nopanic_will_decode qos retain : nopanic (V5.will_decode qos retain).
Proof. unfold V5.will_decode. np. Qed.
#[local] Hint Resolve nopanic_will_decode : np.

Theorem v5_connect_with_protocol_total : forall h proto, nopanic (V5.connect_decode_with_protocol h proto).
Proof. intros h proto. unfold V5.connect_decode_with_protocol. destruct proto; np. Qed.
#[local] Hint Resolve v5_connect_with_protocol_total : np.

Lemma nopanic_v5_connect_decode h : nopanic (V5.connect_decode h).
Proof. unfold V5.connect_decode. np. Qed.

Lemma nopanic_v5_connack_decode h : nopanic (V5.connack_decode h).
Proof.
  unfold V5.connack_decode.
  apply (nopanic_bind_post _ _ (fun p : bytes => exists f c, p = [f; c])).
  - apply nopanic_read_exact.
  - intros t d p d' E. exact (read_exact_2 _ _ _ _ E).
  - intros p (f & c & ->). np.
Qed.

(* SitePropsLenExpect: the property section just decoded has a body below 2^28 *)
Lemma nopanic_v5_publish_decode h : nopanic (V5.publish_decode h).
Proof. unfold V5.publish_decode. np. Qed.

Lemma nopanic_ack_decode table h : nopanic (V5.ack_decode table h).
Proof. unfold V5.ack_decode. np. Qed.
Lemma nopanic_disconnect_decode h : nopanic (V5.disconnect_decode h).
Proof. unfold V5.disconnect_decode. np. Qed.
Lemma nopanic_auth_decode h : nopanic (V5.auth_decode h).
Proof. unfold V5.auth_decode. np. Qed.

Lemma v5_subscribe_loop_np prof : forall fuel rl acc t d, (length d < fuel)%nat ->
  NP (V5.subscribe_loop prof fuel rl acc t d).
Proof.
  induction fuel as [|f IH]; intros rl acc t d Hd; cbn [V5.subscribe_loop].
  - lia.
  - destruct (rl =? 0); [apply NP_ret|].
    apply NP_bind_c1; [apply nopanic_filter_read|apply consumes1_filter_read|intros tf d1 H1].
    apply NP_bind_c; [apply nopanic_read_u8|apply consumes1_weaken, consumes1_read_u8|intros ob d2 H2].
    apply NP_bind_c; [apply nopanic_lift, onp_subopts_of_u8|apply consumes_lift|intros o d3 H3].
    apply NP_bind_c; [apply nopanic_checked_sub|apply consumes_checked_sub|intros rl' d4 H4].
    apply IH. lia.
Qed.
Lemma v5_codes_loop_np table pt : forall fuel rl acc t d, (length d < fuel)%nat ->
  NP (V5.codes_loop table pt fuel rl acc t d).
Proof.
  induction fuel as [|f IH]; intros rl acc t d Hd; cbn [V5.codes_loop].
  - lia.
  - destruct (rl =? 0); [apply NP_ret|].
    apply NP_bind_c1; [apply nopanic_reason_read|apply consumes1_reason_read|intros c d1 H1].
    apply IH. lia.
Qed.
Lemma v5_unsubscribe_loop_np prof : forall fuel rl acc t d, (length d < fuel)%nat ->
  NP (V5.unsubscribe_loop prof fuel rl acc t d).
Proof.
  induction fuel as [|f IH]; intros rl acc t d Hd; cbn [V5.unsubscribe_loop].
  - lia.
  - destruct (rl =? 0); [apply NP_ret|].
    apply NP_bind_c1; [apply nopanic_filter_read|apply consumes1_filter_read|intros tf d1 H1].
    apply NP_bind_c; [apply nopanic_checked_sub|apply consumes_checked_sub|intros rl' d2 H2].
    apply IH. lia.
Qed.

Lemma nopanic_v5_subscribe_decode prof h : nopanic (V5.subscribe_decode prof h).
Proof.
  unfold V5.subscribe_decode.
  apply nopanic_bind; [apply nopanic_pid_read|intros pid].
  apply nopanic_bind_props; [reflexivity|intros props Hp].
  apply nopanic_bind; [apply nopanic_lift, onp_props_len, Hp|intros pl].
  apply nopanic_bind; [apply nopanic_checked_sub|intros rl].
  destruct (rl =? 0); [apply nopanic_fail|].
  apply (nopanic_fuelled (fun fuel => V5.subscribe_loop prof fuel rl [])).
  - intros fuel t d Hd. apply v5_subscribe_loop_np. exact Hd.
  - intros topics. apply nopanic_ret.
Qed.
Lemma nopanic_v5_suback_decode table h : nopanic (V5.suback_decode table h).
Proof.
  unfold V5.suback_decode.
  apply nopanic_bind; [apply nopanic_pid_read|intros pid].
  apply nopanic_bind_props; [reflexivity|intros props Hp].
  apply nopanic_bind; [apply nopanic_lift, onp_props_len, Hp|intros pl].
  apply nopanic_bind; [apply nopanic_checked_sub|intros rl].
  apply (nopanic_fuelled (fun fuel => V5.codes_loop table (h_typ h) fuel rl [])).
  - intros fuel t d Hd. apply v5_codes_loop_np. exact Hd.
  - intros codes. apply nopanic_ret.
Qed.
Lemma nopanic_v5_unsubscribe_decode prof h : nopanic (V5.unsubscribe_decode prof h).
Proof.
  unfold V5.unsubscribe_decode.
  apply nopanic_bind; [apply nopanic_pid_read|intros pid].
  apply nopanic_bind; [apply nopanic_decode_props_full|intros [[props plen] pb]].
  apply nopanic_bind; [apply nopanic_checked_sub|intros rl].
  destruct (rl =? 0); [apply nopanic_fail|].
  apply (nopanic_fuelled (fun fuel => V5.unsubscribe_loop prof fuel rl [])).
  - intros fuel t d Hd. apply v5_unsubscribe_loop_np. exact Hd.
  - intros topics. apply nopanic_ret.
Qed.
#[local] Hint Resolve nopanic_v5_connect_decode nopanic_v5_connack_decode nopanic_v5_publish_decode
  nopanic_ack_decode nopanic_disconnect_decode nopanic_auth_decode nopanic_v5_subscribe_decode
  nopanic_v5_suback_decode nopanic_v5_unsubscribe_decode : np.

Lemma nopanic_v5_body_decode_async prof h : nopanic (V5.body_decode_async prof h).
Proof. unfold V5.body_decode_async. destruct (h_typ h); np. Qed.

Theorem v5_decode_total : forall prof, nopanic (V5.decode_async prof).
Proof.
  intros prof. unfold V5.decode_async. apply nopanic_bind; [apply v5_header_total|intros h].
  apply nopanic_v5_body_decode_async.
Qed.

(* for v5 the hypothesis on the header's origin is not needed: build_empty_packet = None alone
   excludes Pingreq / Pingresp; the statement keeps it for symmetry with v3 *)
Theorem v5_block_decode_total : forall prof cb rl h,
  V5.header_new_with cb rl = Ok h -> V5.build_empty_packet h = None -> nopanic (V5.block_decode prof h).
Proof.
  intros prof cb rl h _ He. unfold V5.build_empty_packet in He. unfold V5.block_decode.
  destruct (h_typ h); try discriminate He; np.
Qed.

(* ---------------------------------------------------------------- *)
(* blocking front-end and poll prerequisites                        *)
(* ---------------------------------------------------------------- *)

Lemma map_eof_nopanic {A} (r : res A) : NP r -> forall s, map_eof r <> BPanic s.
Proof.
  intros H s. unfold map_eof. destruct r as [a d'|e|s']; [discriminate| |exfalso; exact (H s' eq_refl)].
  destruct (is_eof e); discriminate.
Qed.

Theorem v3_block_total : forall prof d s, F3.dec_block prof d <> BPanic s.
Proof. intros prof d. unfold F3.dec_block. apply map_eof_nopanic, nopanic_NP, v3_decode_total. Qed.
Theorem v5_block_total : forall prof d s, F5.dec_block prof d <> BPanic s.
Proof. intros prof d. unfold F5.dec_block. apply map_eof_nopanic, nopanic_NP, v5_decode_total. Qed.

Theorem v3_header_dec_total : forall d s, F3.header_dec d <> RPanic s.
Proof. intros d s. apply v3_header_total. Qed.
Theorem v5_header_dec_total : forall d s, F5.header_dec d <> RPanic s.
Proof. intros d s. apply v5_header_total. Qed.

(* body_result of the poll state machine, under the conditions in which pstep reaches it *)
Lemma body_result_nopanic {P} (bd : header -> reader P) h total buf :
  nopanic (bd h) -> forall s, body_result P bd h total buf <> Panic s.
Proof.
  intros H s. unfold body_result. pose proof (H TEof buf) as Hn.
  destruct (bd h TEof buf) as [p [|x r]|e|s']; try discriminate.
  - destruct (is_eof e); discriminate.
  - exfalso. exact (Hn s' eq_refl).
Qed.

Theorem v3_body_result_total : forall prof cb rl h total buf s,
  V3.header_new_with cb rl = Ok h -> V3.build_empty_packet h = None ->
  body_result V3.packet (V3.block_decode prof) h total buf <> Panic s.
Proof.
  intros prof cb rl h total buf s Hh He. apply body_result_nopanic.
  exact (v3_block_decode_total prof cb rl h Hh He).
Qed.
Theorem v5_body_result_total : forall prof cb rl h total buf s,
  V5.header_new_with cb rl = Ok h -> V5.build_empty_packet h = None ->
  body_result V5.packet (V5.block_decode prof) h total buf <> Panic s.
Proof.
  intros prof cb rl h total buf s Hh He. apply body_result_nopanic.
  exact (v5_block_decode_total prof cb rl h Hh He).
Qed.

(* header_done of the poll state machine never yields a panic result *)
Theorem v3_header_done_total : forall cb vidx vint r s,
  header_done V3.packet V3.header_new_with V3.build_empty_packet cb vidx vint = inl r -> r <> Panic s.
Proof.
  intros cb vidx vint r s. unfold header_done. pose proof (v3_header_new_with_nopanic cb vint) as Hn.
  destruct (V3.header_new_with cb vint) as [h|e|s']; [| |exfalso; exact (Hn s' eq_refl)].
  - destruct (V3.build_empty_packet h); [|destruct (h_rl h =? 0)]; intros H; inversion H; subst; discriminate.
  - intros H; inversion H; subst; discriminate.
Qed.
Theorem v5_header_done_total : forall cb vidx vint r s,
  header_done V5.packet V5.header_new_with V5.build_empty_packet cb vidx vint = inl r -> r <> Panic s.
Proof.
  intros cb vidx vint r s. unfold header_done. pose proof (v5_header_new_with_nopanic cb vint) as Hn.
  destruct (V5.header_new_with cb vint) as [h|e|s']; [| |exfalso; exact (Hn s' eq_refl)].
  - destruct (V5.build_empty_packet h); [|destruct (h_rl h =? 0)]; intros H; inversion H; subst; discriminate.
  - intros H; inversion H; subst; discriminate.
Qed.

End Decoders.

(* ================================================================== *)
(* assumptions                                                        *)
(* ================================================================== *)
Print Assumptions v3_decode_total.
Print Assumptions v5_decode_total.
Print Assumptions v3_header_total.
Print Assumptions v5_header_total.
Print Assumptions v3_block_total.
Print Assumptions v5_block_total.
Print Assumptions v3_header_dec_total.
Print Assumptions v5_header_dec_total.
Print Assumptions v3_connect_with_protocol_total.
Print Assumptions v5_connect_with_protocol_total.
Print Assumptions v3_block_decode_total.
Print Assumptions v5_block_decode_total.
Print Assumptions v3_body_result_total.
Print Assumptions v5_body_result_total.
Print Assumptions v3_header_new_with_nopanic.
Print Assumptions v5_header_new_with_nopanic.
Print Assumptions v3_header_done_total.
Print Assumptions v5_header_done_total.
Print Assumptions read_string_valid.
Print Assumptions decode_props_post.
