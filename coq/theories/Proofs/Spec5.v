(* Proofs/Spec5.v — C04 and C10 for the v5 family against the independent reference parser SP.

   Main results (all closed under the global context):

     v5_exact          strict5 prof cb (len body) body = SP.parse5 (recheck5 cb) (frame5 cb body)
                       where recheck5 cb = true for PUBLISH, SUBSCRIBE, SUBACK, UNSUBACK (their decoders
                       recompute lengths from the decoded values and thereby refuse every non-minimal
                       variable byte integer) and false for every other packet type (non-minimal
                       property lengths are accepted: the library's deliberate leniency).
     parse5_mono       (Spec5Base) the strict grammar is contained in the lenient one.
     v5_grammar_sound      (i)   accepted by the code  => accepted by the lenient grammar, same packet
     v5_grammar_complete   (ii)  accepted by the strict grammar => accepted by the code, same packet
     v5_accept_iff_grammar (iii) on frames where the two grammar modes agree (no non-minimal integer
                                 that matters) the code and the strict grammar agree          [C04]
     v5_conformant     the encoder's output for a valid packet is parsed back by the strict grammar [C10]

   FINDING: none.  No frame exists on which the code accepts and the lenient grammar does not, or with a
   different packet: (i) is proved without any extra hypothesis.

   OBSERVATION (inside the class C04 excludes, not a violation).  decode_properties! adds the MINIMAL
   width of a subscription identifier to its running count, so on the SUBSCRIBE frame
        82 0A 00 01 03 0B 81 00 00 01 61 00      (identifier 1 spelled 81 00, property length 3)
   the loop does not stop at the end of the section and reads the topic filter's length byte as a
   property identifier (InvalidPropertyId 0).  The frame is rejected; the lenient grammar accepts it,
   the strict one does not (Spec5Tests t140/t141).  v5_exact shows that reading on can never end in an
   acceptance: PUBLISH and SUBSCRIBE (the only carriers of that property) recompute their lengths.

   Build order: Spec5Def, Spec5Tests, Spec5Base, Spec5 (after Spec3Base, V5RT, TopicFilterEq, Stable,
   Totality). *)
From MQ Require Import Proofs.Tactics Proofs.VarIntLaws Proofs.Parses Proofs.TopicNameEq
  Proofs.TopicFilterEq Proofs.V3RT Proofs.PropsRT Proofs.V5Len Proofs.V5RT Spec.SpecParse Model.Valid
  Proofs.Spec3Base Proofs.Spec5Def Proofs.Spec5Base.
From MQ Require Proofs.Stable Proofs.Totality.
Open Scope N_scope.
Import V5.
Import SP.

(* ------------------------------------------------------------------------------------------ *)
(* helpers                                                                                    *)
(* ------------------------------------------------------------------------------------------ *)
Lemma sim_finish {A B} (m : reader A) (m' : sp A) (K : A -> B) :
  sim m m' -> sim (x <- m ;; ret (K x)) (x <~ m' ;; sret (K x)).
Proof. intros H. apply sim_bind; [exact H|intros a; apply sim_ret]. Qed.

Lemma sim_assoc {A B C} (m : reader A) (f : A -> reader B) (g : B -> reader C) m' :
  sim (a <- m ;; b <- f a ;; g b) m' -> sim (b <- (a <- m ;; f a) ;; g b) m'.
Proof. apply sim_ext_l. intros t d. symmetry. apply bind_assoc. Qed.

Lemma sim_sassoc {A B C} (m : reader C) (m' : sp A) (f : A -> sp B) (g : B -> sp C) :
  sim m (a <~ m' ;; b <~ f a ;; g b) -> sim m (b <~ (a <~ m' ;; f a) ;; g b).
Proof. apply sim_ext_r. intros d. symmetry. apply sbind_assoc. Qed.

(* a guard of the grammar whose counterpart in the code comes later (or in another form) *)
Lemma sim_sguard {A} (b : bool) (m : reader A) (f' : unit -> sp A) :
  (b = true -> sim m (f' tt)) -> (b = false -> forall t d, ro (m t d) = None) -> sim m (sbind (sguard b) f').
Proof.
  destruct b; intros H1 H2.
  - apply (sim_ext_r _ (f' tt)); [reflexivity|]. apply H1. reflexivity.
  - apply (sim_ext_r _ sfail); [reflexivity|]. apply sim_none. apply H2. reflexivity.
Qed.

Lemma mem_n_mem v l : mem_n v l = Spec.mem v l.
Proof. reflexivity. Qed.

Lemma sim_reason (table pt : ptype) (typ : N) : codes_of table = reason_codes typ ->
  sim (reason_read table pt) (p_reason typ).
Proof.
  intros Hc. unfold reason_read, p_reason. apply sim_bind; [apply sim_read_u8|intros b].
  rewrite Hc, mem_n_mem. destruct (Spec.mem b (reason_codes typ)); [apply sim_ret|apply sim_fail].
Qed.

Lemma fin_sim {A} (m : reader A) (m' : sp A) t d : sim m m' -> bytes_okb d = true -> fin (ro (m t d)) = fin (m' d).
Proof. intros H Hd. destruct (H t d Hd) as [-> _]. reflexivity. Qed.

(* ------------------------------------------------------------------------------------------ *)
(* CONNACK                                                                                    *)
(* ------------------------------------------------------------------------------------------ *)
Lemma connack_sim h : sim (c <- connack_decode h ;; ret (Connack c)) (p5_connack false).
Proof.
  intros t d Hd. unfold connack_decode. rewrite bind_assoc, ro_bind, ro_read_exact. unfold p_slice.
  destruct d as [|f [|c r]]; try (split; [reflexivity|exact I]).
  { change (take [f] 2) with (@None (bytes * bytes)). unfold p5_connack, p_bool01.
    rewrite sbind_assoc, sbind_u8. split; [|destruct (f =? 0); [exact I|destruct (f =? 1); exact I]].
    destruct (f =? 0); [reflexivity|]. destruct (f =? 1); reflexivity. }
  rewrite (take_app [f; c] r : take (f :: c :: r) 2 = Some ([f; c], r)). cbv beta iota.
  apply okb_cons_inv in Hd as [_ Hd]. apply okb_cons_inv in Hd as [_ Hd].
  assert (G : forall sp0 : bool,
    ro ((c0 <- (code <- (if mem_n c CONNECT_CODES then ret c else fail (InvalidReasonCode (h_typ h) c)) ;;
               props <- decode_props (CtxPacket (h_typ h)) CONNACK_PROPS ;;
               ret {| ca_sp := sp0; ca_code := code; ca_props := props |}) ;; ret (Connack c0)) t r)
    = (code <~ p_reason 2 ;; pr <~ p_props false 2 ;;
       sret (Connack {| ca_sp := sp0; ca_code := code; ca_props := pr |})) (c :: r)
    /\ okrest ((code <~ p_reason 2 ;; pr <~ p_props false 2 ;;
       sret (Connack {| ca_sp := sp0; ca_code := code; ca_props := pr |})) (c :: r))).
  { intros sp0. unfold p_reason. rewrite !sbind_assoc, !sbind_u8. rewrite mem_n_mem.
    change (reason_codes 2) with CONNECT_CODES.
    destruct (Spec.mem c CONNECT_CODES); [|split; [reflexivity|exact I]].
    cbn [sguard]. rewrite bind_assoc, bind_ret.
    assert (S1 : sim (c0 <- (props <- decode_props (CtxPacket (h_typ h)) CONNACK_PROPS ;;
                             ret {| ca_sp := sp0; ca_code := c; ca_props := props |}) ;; ret (Connack c0))
                     (pr <~ p_props false 2 ;; sret (Connack {| ca_sp := sp0; ca_code := c; ca_props := pr |}))).
    { apply sim_assoc. apply sim_bind; [apply props_lenient; [exact tab_connack|reflexivity]|intros pr].
      apply (sim_ext_l (ret (Connack {| ca_sp := sp0; ca_code := c; ca_props := pr |}))); [reflexivity|apply sim_ret]. }
    exact (S1 t r Hd). }
  unfold p5_connack, p_bool01. rewrite sbind_assoc, sbind_u8.
  destruct (N.eqb_spec f 0) as [F0|F0].
  - rewrite bind_assoc, bind_ret. exact (G false).
  - destruct (N.eqb_spec f 1) as [F1|F1]; [|split; [reflexivity|exact I]].
    rewrite bind_assoc, bind_ret. exact (G true).
Qed.

(* ------------------------------------------------------------------------------------------ *)
(* PUBACK / PUBREC / PUBREL / PUBCOMP, DISCONNECT, AUTH: the short forms                      *)
(* ------------------------------------------------------------------------------------------ *)
Lemma ro_bind_sim {A B} (m : reader A) (m' : sp A) (f : A -> reader B) t d :
  sim m m' -> bytes_okb d = true ->
  ro (bind m f t d) = match m' d with Some (a, d') => ro (f a t d') | None => None end.
Proof. intros H Hd. rewrite ro_bind. destruct (H t d Hd) as [-> _]. reflexivity. Qed.

Lemma sbind_at_end_nil {B} (f : bool -> sp B) : sbind at_end f [] = f true [].
Proof. reflexivity. Qed.
Lemma sbind_at_end_cons {B} (f : bool -> sp B) x r : sbind at_end f (x :: r) = f false (x :: r).
Proof. reflexivity. Qed.

Lemma p_reason_some typ d c d' : p_reason typ d = Some (c, d') -> d = c :: d'.
Proof.
  unfold p_reason, sbind at 1. destruct (p_u8 d) as [[b d1]|] eqn:E; [|discriminate]. apply p_u8_some in E. subst d.
  intros H. apply guard_some in H as (_ & -> & ->). reflexivity.
Qed.

Lemma ack_eq table typ h (K : ack -> packet) t d :
  tab ACK_PROPS typ -> codes_of table = reason_codes typ -> bytes_okb d = true -> h_rl h = len d ->
  ro ((a <- ack_decode table h ;; ret (K a)) t d) = (a <~ p5_ack false typ ;; sret (K a)) d.
Proof.
  intros Ht Hc Hd Hrl. unfold ack_decode, p5_ack. rewrite Hrl.
  rewrite bind_assoc, (ro_bind_sim _ _ _ _ _ sim_pid_read Hd). rewrite sbind_assoc. unfold sbind at 1.
  destruct (p_pid d) as [[pid d1]|] eqn:Ep; [|reflexivity].
  pose proof (p_pid_some _ _ _ Ep) as Hl. destruct (suffixing_pid _ _ _ Ep) as [c0 Hc0].
  assert (Hd1 : bytes_okb d1 = true) by (subst d; exact (bytes_okb_suffix _ _ Hd)).
  destruct d1 as [|c d2].
  { rewrite len_nil in Hl. destruct (N.eqb_spec (len d) 2) as [_|E]; [reflexivity|exfalso; lia]. }
  rewrite len_cons in Hl. destruct (N.eqb_spec (len d) 2) as [E|_]; [exfalso; lia|].
  rewrite sbind_assoc, sbind_at_end_cons. rewrite sbind_assoc.
  destruct d2 as [|y d3].
  { rewrite len_nil in Hl. destruct (N.eqb_spec (len d) 3) as [_|E]; [|exfalso; lia].
    rewrite bind_assoc. unfold reason_read, p_reason. rewrite bind_assoc, sbind_assoc. unfold bind at 1. cbn [read_u8].
    rewrite sbind_u8. rewrite Hc, mem_n_mem. destruct (Spec.mem c (reason_codes typ)); reflexivity. }
  rewrite !len_cons in Hl. destruct (N.eqb_spec (len d) 3) as [E|_]; [exfalso; lia|].
  rewrite bind_assoc.
  rewrite (ro_bind_sim _ _ _ _ _ (sim_reason table (h_typ h) typ Hc) Hd1). unfold sbind at 1.
  destruct (p_reason typ (c :: y :: d3)) as [[code d4]|] eqn:Er; [|reflexivity].
  pose proof (p_reason_some _ _ _ _ Er) as E4. inversion E4; subst d4 code.
  rewrite sbind_assoc, sbind_at_end_cons.
  apply okb_cons_inv in Hd1 as [_ Hd2].
  rewrite bind_assoc, (ro_bind_sim _ _ _ _ _ (props_lenient (CtxPacket (h_typ h)) ACK_PROPS typ Ht eq_refl) Hd2).
  rewrite sbind_assoc. unfold sbind at 1. destruct (p_props false typ (y :: d3)) as [[pr d5]|]; reflexivity.
Qed.

Lemma disconnect_eq h t d : bytes_okb d = true -> h_rl h = len d ->
  ro ((x <- disconnect_decode h ;; ret (Disconnect x)) t d) = p5_disconnect false d.
Proof.
  intros Hd Hrl. unfold disconnect_decode, p5_disconnect. rewrite Hrl.
  destruct d as [|c d2]; [reflexivity|].
  rewrite len_cons. destruct (N.eqb_spec (1 + len d2) 0) as [E|_]; [exfalso; lia|].
  rewrite sbind_at_end_cons.
  destruct d2 as [|y d3].
  { rewrite len_nil. change (1 + 0 =? 1) with true. cbv iota.
    rewrite bind_assoc. unfold reason_read, p_reason. rewrite bind_assoc, sbind_assoc. unfold bind at 1. cbn [read_u8].
    rewrite sbind_u8. change (codes_of PDisconnect) with (reason_codes 14). rewrite mem_n_mem.
    destruct (Spec.mem c (reason_codes 14)); reflexivity. }
  rewrite len_cons. destruct (N.eqb_spec (1 + (1 + len d3)) 1) as [E|_]; [exfalso; lia|].
  rewrite bind_assoc.
  assert (Hc : codes_of PDisconnect = reason_codes 14) by reflexivity.
  rewrite (ro_bind_sim _ _ _ _ _ (sim_reason PDisconnect (h_typ h) 14 Hc) Hd). unfold sbind at 1.
  destruct (p_reason 14 (c :: y :: d3)) as [[code d4]|] eqn:Er; [|reflexivity].
  pose proof (p_reason_some _ _ _ _ Er) as E4. inversion E4; subst d4 code.
  rewrite sbind_at_end_cons.
  apply okb_cons_inv in Hd as [_ Hd2].
  rewrite bind_assoc, (ro_bind_sim _ _ _ _ _ (props_lenient (CtxPacket (h_typ h)) DISCONNECT_PROPS 14 tab_disconnect eq_refl) Hd2).
  unfold sbind at 1. destruct (p_props false 14 (y :: d3)) as [[pr d5]|]; reflexivity.
Qed.

Lemma auth_eq h t d : bytes_okb d = true -> h_rl h = len d ->
  ro ((x <- auth_decode h ;; ret (Auth x)) t d) = p5_auth false d.
Proof.
  intros Hd Hrl. unfold auth_decode, p5_auth. rewrite Hrl.
  destruct d as [|c d2]; [reflexivity|].
  rewrite len_cons. destruct (N.eqb_spec (1 + len d2) 0) as [E|_]; [exfalso; lia|].
  rewrite sbind_at_end_cons. rewrite bind_assoc.
  assert (Hc : codes_of PAuth = reason_codes 15) by reflexivity.
  rewrite (ro_bind_sim _ _ _ _ _ (sim_reason PAuth (h_typ h) 15 Hc) Hd). unfold sbind at 1.
  destruct (p_reason 15 (c :: d2)) as [[code d4]|] eqn:Er; [|reflexivity].
  pose proof (p_reason_some _ _ _ _ Er) as E4. inversion E4; subst d4 code.
  apply okb_cons_inv in Hd as [_ Hd2].
  rewrite bind_assoc, (ro_bind_sim _ _ _ _ _ (props_lenient (CtxPacket (h_typ h)) AUTH_PROPS 15 tab_auth eq_refl) Hd2).
  unfold sbind at 1. destruct (p_props false 15 d2) as [[pr d5]|]; reflexivity.
Qed.

(* ------------------------------------------------------------------------------------------ *)
(* CONNECT                                                                                    *)
(* ------------------------------------------------------------------------------------------ *)
Definition flagged (o : option pvalue) : bool := match o with Some (VN 1) => true | _ => false end.
Lemma flagged_cases o : (o = Some (VN 1) /\ flagged o = true) \/
  (flagged o = false /\ forall (A : Type) (x y : A), match o with Some (VN 1) => x | _ => y end = y).
Proof.
  destruct o as [[n|b]|]; try (right; split; reflexivity).
  destruct n as [|p]; [right; split; reflexivity|].
  destruct p; try (right; split; reflexivity). left. split; reflexivity.
Qed.

Lemma flag_check_sim {A} (o : option pvalue) (payload : bytes) (x : A) :
  sim (if flagged o && negb (utf8_valid payload) then fail InvalidPayloadFormat else ret x)
      (_ <~ sguard (match o with Some (VN 1) => utf8_valid payload | _ => true end) ;; sret x).
Proof.
  destruct (flagged_cases o) as [[-> Hf]|[Hf Hm]].
  - cbn [flagged andb]. destruct (utf8_valid payload); cbn [negb sguard].
    + apply (sim_ext_r _ (sret x)); [reflexivity|apply sim_ret].
    + apply (sim_ext_r _ sfail); [reflexivity|apply sim_fail].
  - rewrite Hf, Hm. cbn [andb sguard]. apply (sim_ext_r _ (sret x)); [reflexivity|apply sim_ret].
Qed.

Definition will_spec (s : bool) (q : N) (r : bool) : sp will :=
  wp <~ p_props s W ;; t <~ p_name ;; m <~ p_bin ;; _ <~ sguard (utf8_flag_ok wp m) ;;
  sret {| w_qos := q; w_retain := r; w_props := wp; w_topic := t; w_payload := m |}.

Lemma will_sim q r : sim (will_decode q r) (will_spec false q r).
Proof.
  unfold will_decode, will_spec. apply sim_bind; [apply props_lenient; [exact tab_will|reflexivity]|intros wp].
  unfold p_name. apply sim_sassoc. apply sim_bind; [apply sim_read_string|intros topic].
  apply sim_sassoc. apply sim_sguard; intros Hok.
  - apply (sim_ext (payload <- read_bytes ;;
                    if flagged (pget wp PayloadFormatIndicator) && negb (utf8_valid payload)
                    then fail InvalidPayloadFormat
                    else ret {| w_qos := q; w_retain := r; w_props := wp; w_topic := topic; w_payload := payload |}) _
                   (m <~ p_bin ;; _ <~ sguard (utf8_flag_ok wp m) ;;
                    sret {| w_qos := q; w_retain := r; w_props := wp; w_topic := topic; w_payload := m |}) _).
    + intros t d. unfold name_try. rewrite name_spec, Hok. reflexivity.
    + intros d. reflexivity.
    + apply sim_bind; [apply sim_read_bytes|intros payload]. apply flag_check_sim.
  - intros t d. rewrite ro_bind. unfold name_try. rewrite name_spec, Hok. reflexivity.
Qed.

Definition p5_connect_rest (s : bool) : sp packet :=
  f <~ p_cflags ;;
  ka <~ p_u16 ;;
  pr <~ p_props s 1 ;;
  cid <~ p_str ;;
  will <~ p_opt (cf_will f) (will_spec s (cf_wqos f) (cf_wretain f)) ;;
  user <~ p_opt (cf_user f) p_str ;;
  pass <~ p_opt (cf_pass f) p_bin ;;
  sret (Connect {| c_protocol := V500; c_clean := cf_clean f; c_keep_alive := ka;
                   c_props := pr; c_client_id := cid; c_will := will;
                   c_username := user; c_password := pass |}).
Lemma p5_connect_split s d :
  p5_connect s d = (name <~ p_bin ;; lvl <~ p_u8 ;; _ <~ sguard (Spec.leq name [77; 81; 84; 84] && (lvl =? 5)) ;;
                    p5_connect_rest s) d.
Proof. reflexivity. Qed.

Lemma sim_opt {A} (c : bool) (m : reader A) (m' : sp A) :
  sim m m' -> sim (if c then s <- m ;; ret (Some s) else ret None) (p_opt c m').
Proof. intros H. destruct c; [|apply sim_ret]. unfold p_opt. apply sim_finish. exact H. Qed.

Lemma will_part_sim b : (if bit b 2 then (b / 8) mod 4 <? 3 else (b / 8) mod 4 =? 0) = true ->
  sim (if bit b 2 then
         qos <- lift_outcome (qos_of_u8 ((b / 8) mod 4)) ;; w <- will_decode qos (bit b 5) ;; ret (Some w)
       else if negb ((b / 8) mod 4 =? 0) then fail (InvalidConnectFlags b) else ret None)
      (p_opt (bit b 2) (will_spec false ((b / 8) mod 4) (bit b 5))).
Proof.
  intros Q. destruct (bit b 2).
  - unfold p_opt. apply (sim_ext_l (w <- will_decode ((b / 8) mod 4) (bit b 5) ;; ret (Some w))).
    + intros t d. unfold qos_of_u8. rewrite Q. reflexivity.
    + apply sim_finish. apply will_sim.
  - rewrite Q. cbn [negb]. apply sim_ret.
Qed.

Lemma will_part_none b t d : (if bit b 2 then (b / 8) mod 4 <? 3 else (b / 8) mod 4 =? 0) = false ->
  ro ((if bit b 2 then
         qos <- lift_outcome (qos_of_u8 ((b / 8) mod 4)) ;; w <- will_decode qos (bit b 5) ;; ret (Some w)
       else if negb ((b / 8) mod 4 =? 0) then fail (InvalidConnectFlags b) else ret None) t d) = None.
Proof.
  intros Q. destruct (bit b 2).
  - apply ro_bind_none_l. unfold qos_of_u8. rewrite Q. reflexivity.
  - rewrite Q. reflexivity.
Qed.

Lemma connect_rest_sim h : sim (c <- connect_decode_with_protocol h V500 ;; ret (Connect c)) (p5_connect_rest false).
Proof.
  unfold connect_decode_with_protocol, p5_connect_rest, p_cflags.
  apply sim_assoc. apply sim_sassoc. apply sim_bind; [apply sim_read_u8|intros b]. cbv zeta.
  rewrite !testbit_bit. cbn [cf_user cf_pass cf_wretain cf_wqos cf_will cf_clean].
  apply sim_sassoc. apply sim_sguard; intros B0.
  2:{ intros t d. apply negb_false_iff in B0. rewrite B0. reflexivity. }
  apply negb_true_iff in B0. rewrite B0.
  apply sim_sassoc. apply sim_sguard; intros Q.
  - apply (sim_ext_r _
      (ka <~ p_u16 ;; pr <~ p_props false 1 ;; cid <~ p_str ;;
       will <~ p_opt (bit b 2) (will_spec false ((b / 8) mod 4) (bit b 5)) ;;
       user <~ p_opt (bit b 7) p_str ;; pass <~ p_opt (bit b 6) p_bin ;;
       sret (Connect {| c_protocol := V500; c_clean := bit b 1; c_keep_alive := ka; c_props := pr;
                        c_client_id := cid; c_will := will; c_username := user; c_password := pass |})));
      [reflexivity|].
    apply sim_assoc. apply sim_bind; [apply sim_read_u16|intros ka].
    apply sim_assoc. apply sim_bind; [apply props_lenient; [exact tab_connect|reflexivity]|intros pr].
    apply sim_assoc. apply sim_bind; [apply sim_read_string|intros cid].
    apply sim_assoc. apply sim_bind; [apply will_part_sim; exact Q|intros w].
    apply sim_assoc. apply sim_bind; [apply sim_opt, sim_read_string|intros u].
    apply sim_assoc. apply sim_bind; [apply sim_opt, sim_read_bytes|intros pw].
    apply (sim_ext_l (ret (Connect {| c_protocol := V500; c_clean := bit b 1; c_keep_alive := ka; c_props := pr;
                        c_client_id := cid; c_will := w; c_username := u; c_password := pw |})));
      [reflexivity|apply sim_ret].
  - intros t d.
    rewrite bind_assoc. apply ro_bind_none. intros ka d2.
    rewrite bind_assoc. apply ro_bind_none. intros pr d3.
    rewrite bind_assoc. apply ro_bind_none. intros cid d4.
    rewrite bind_assoc. apply ro_bind_none_l. apply will_part_none. exact Q.
Qed.

Lemma connect_sim h : sim (c <- connect_decode h ;; ret (Connect c)) (p5_connect false).
Proof.
  apply (sim_ext_r _ _ _ (fun d => eq_sym (p5_connect_split false d))).
  unfold connect_decode, protocol_decode.
  apply sim_assoc. apply sim_assoc. apply sim_bind; [apply sim_read_bytes|intros name].
  apply sim_assoc. apply sim_bind; [apply sim_read_u8|intros lvl].
  change Spec.leq with beq_bytes.
  apply sim_sguard; intros E5.
  - apply andb_true_iff in E5 as [En El]. apply N.eqb_eq in El. subst lvl.
    apply (sim_ext_l (c <- connect_decode_with_protocol h V500 ;; ret (Connect c))); [|apply connect_rest_sim].
    intros t d. unfold protocol_new, MQTT. change (5 =? 3) with false. change (5 =? 4) with false.
    rewrite !andb_false_r, En. reflexivity.
  - intros t d. unfold protocol_new, MQISDP, MQTT. rewrite E5.
    destruct (beq_bytes name [77; 81; 73; 115; 100; 112] && (lvl =? 3)); [reflexivity|].
    destruct (beq_bytes name [77; 81; 84; 84] && (lvl =? 4)); [reflexivity|].
    destruct (utf8_valid name); reflexivity.
Qed.

(* ------------------------------------------------------------------------------------------ *)
(* the item loops: running remaining length against `many`                                    *)
(* ------------------------------------------------------------------------------------------ *)
Lemma length_rev' {A} (l : list A) : length (rev' l) = length l.
Proof. unfold rev'. rewrite rev_append_rev, app_nil_r, rev_length. reflexivity. Qed.

Lemma many_fuel_acc {A} (item : sp A) : forall fuel acc d l d',
  many_fuel fuel item acc d = Some (l, d') ->
  (length acc <= length l)%nat /\ (d <> [] -> (length acc < length l)%nat).
Proof.
  induction fuel as [|f IH]; intros acc d l d' H.
  - destruct d as [|x d0]; [|discriminate]. cbn [many_fuel] in H. inversion H; subst.
    rewrite length_rev'. split; [lia|]. intros C. exfalso. apply C. reflexivity.
  - destruct d as [|x d0].
    + cbn [many_fuel] in H. inversion H; subst.
      rewrite length_rev'. split; [lia|]. intros C. exfalso. apply C. reflexivity.
    + cbn [many_fuel] in H. destruct (item (x :: d0)) as [[a d1]|]; [|discriminate].
      apply IH in H as [H _]. cbn [length] in H. split; [lia|]. intros _. lia.
Qed.

Lemma many1_of_many {A} (item : sp A) (x : N) (d2 : bytes) :
  many1 item (x :: d2) = many item (x :: d2).
Proof.
  unfold many1, many, sbind.
  destruct (many_fuel (length (x :: d2)) item [] (x :: d2)) as [[l d3]|] eqn:Em; [|reflexivity].
  apply many_fuel_acc in Em as [_ Hn]. destruct l as [|a l]; [exfalso|reflexivity].
  assert (Hne : x :: d2 <> []) by discriminate. specialize (Hn Hne). cbn [length] in Hn. lia.
Qed.

Lemma ro_filter_read5 prof t d : ro (V3.filter_read prof t d) = p_filter d.
Proof.
  unfold V3.filter_read, p_filter. rewrite ro_bind, ro_read_string. unfold sbind at 1.
  destruct (p_str d) as [[s d1]|] eqn:Es; [|reflexivity]. apply p_str_some in Es as (_ & Hu & _).
  unfold filter_try. rewrite (filter_spec prof s Hu).
  destruct (Spec.topic_filter_ok s); reflexivity.
Qed.
Lemma p_filter_some d f d' : p_filter d = Some (f, d') -> len d = 2 + len (ftext f) + len d'.
Proof.
  unfold p_filter, sbind at 1. destruct (p_str d) as [[s d1]|] eqn:Es; [|discriminate].
  apply p_str_some in Es as (_ & _ & Hl).
  destruct (Spec.topic_filter_ok s); cbn [sguard sbind sret sfail]; intros H; inversion H; subst. cbn [ftext]. exact Hl.
Qed.

Lemma sub_item_eq prof t d :
  ro ((tf <- V3.filter_read prof ;; ob <- read_u8 ;; o <- lift_outcome (subopts_of_u8 ob) ;; ret (tf, o)) t d)
  = p5_sub_item d.
Proof.
  unfold p5_sub_item. apply ro_bind_ext; [apply ro_filter_read5|]. intros tf d1.
  apply ro_bind_ext; [apply ro_read_u8|]. intros ob d2. cbv zeta. unfold subopts_of_u8. rewrite !testbit_bit.
  destruct (N.ltb_spec 0 (ob / 64)); destruct (N.ltb_spec ob 64); try (exfalso; lia); cbn [andb]; [reflexivity|].
  destruct (N.eqb_spec (ob mod 4) 3); destruct (N.ltb_spec (ob mod 4) 3); try (exfalso; lia); cbn [andb]; [reflexivity|].
  destruct (N.eqb_spec ((ob / 16) mod 4) 3); destruct (N.ltb_spec ((ob / 16) mod 4) 3); try (exfalso; lia); reflexivity.
Qed.
Lemma sub_item_some d tf o d1 : p5_sub_item d = Some ((tf, o), d1) -> len d = 3 + len (ftext tf) + len d1.
Proof.
  unfold p5_sub_item, sbind at 1. destruct (p_filter d) as [[f d2]|] eqn:Ef; [|discriminate].
  apply p_filter_some in Ef. unfold sbind at 1. destruct (p_u8 d2) as [[ob d3]|] eqn:Eq; [|discriminate].
  apply p_u8_some in Eq. subst d2. cbv zeta. intros H. apply guard_some in H as (_ & H & ->). inversion H; subst.
  rewrite len_cons in Ef. lia.
Qed.

Lemma bind3_item {X Y Z R} (A : reader X) (B : reader Y) (C : Y -> reader Z) (K : X -> Z -> reader R) t d :
  (x <- A ;; y <- B ;; z <- C y ;; K x z) t d
  = (i <- (x <- A ;; y <- B ;; z <- C y ;; ret (x, z)) ;; K (fst i) (snd i)) t d.
Proof.
  unfold bind, ret. destruct (A t d) as [x d1|e|s]; try reflexivity.
  destruct (B t d1) as [y d2|e|s]; try reflexivity.
  destruct (C y t d2) as [z d3|e|s]; reflexivity.
Qed.

(* the loop with an arbitrary running length: it ends at the end of the data only when the
   running length is the length of the data, and then it is `many` *)
Lemma subscribe_loop_gen prof t : forall fuel fuel' d rl acc, (length d < fuel)%nat -> (length d <= fuel')%nat ->
  fin (ro (subscribe_loop prof fuel rl acc t d))
  = if rl =? len d then fin (many_fuel fuel' p5_sub_item acc d) else None.
Proof.
  induction fuel as [|f IH]; intros fuel' d rl acc H1 H2; [lia|].
  cbn [subscribe_loop].
  destruct (N.eqb_spec rl 0) as [Z|Z].
  { subst rl. destruct d as [|x d0].
    - rewrite len_nil. destruct fuel'; reflexivity.
    - rewrite len_cons. destruct (N.eqb_spec 0 (1 + len d0)); [exfalso; lia|reflexivity]. }
  destruct d as [|x d0].
  { rewrite len_nil. destruct (N.eqb_spec rl 0); [exfalso; lia|]. reflexivity. }
  destruct fuel' as [|f']; [cbn [length] in H2; lia|].
  rewrite (bind3_item (V3.filter_read prof) read_u8 (fun ob => lift_outcome (subopts_of_u8 ob))
             (fun tf o => rl' <- checked_sub rl (3 + len (ftext tf)) ;;
                          subscribe_loop prof f rl' ((tf, o) :: acc))).
  rewrite ro_bind, sub_item_eq. cbn [many_fuel].
  destruct (p5_sub_item (x :: d0)) as [[[tf o] d1]|] eqn:Ei; [|destruct (rl =? len (x :: d0)); reflexivity].
  apply sub_item_some in Ei. cbn [fst snd].
  unfold checked_sub at 1.
  destruct (N.leb_spec (3 + len (ftext tf)) rl) as [Hle|Hgt].
  - unfold bind at 1. cbn [ret].
    rewrite (IH f' d1 (rl - (3 + len (ftext tf))) ((tf, o) :: acc)) by (unfold len in Ei; cbn [length] in *; lia).
    destruct (N.eqb_spec (rl - (3 + len (ftext tf))) (len d1)); destruct (N.eqb_spec rl (len (x :: d0)));
      try reflexivity; exfalso; lia.
  - destruct (N.eqb_spec rl (len (x :: d0))); [exfalso; lia|reflexivity].
Qed.

Lemma unsubscribe_loop_gen prof t : forall fuel fuel' d rl acc, (length d < fuel)%nat -> (length d <= fuel')%nat ->
  fin (ro (unsubscribe_loop prof fuel rl acc t d))
  = if rl =? len d then fin (many_fuel fuel' p_filter acc d) else None.
Proof.
  induction fuel as [|f IH]; intros fuel' d rl acc H1 H2; [lia|].
  cbn [unsubscribe_loop].
  destruct (N.eqb_spec rl 0) as [Z|Z].
  { subst rl. destruct d as [|x d0].
    - rewrite len_nil. destruct fuel'; reflexivity.
    - rewrite len_cons. destruct (N.eqb_spec 0 (1 + len d0)); [exfalso; lia|reflexivity]. }
  destruct d as [|x d0].
  { rewrite len_nil. destruct (N.eqb_spec rl 0); [exfalso; lia|]. reflexivity. }
  destruct fuel' as [|f']; [cbn [length] in H2; lia|].
  rewrite ro_bind, ro_filter_read5. cbn [many_fuel].
  destruct (p_filter (x :: d0)) as [[tf d1]|] eqn:Ei; [|destruct (rl =? len (x :: d0)); reflexivity].
  apply p_filter_some in Ei.
  unfold checked_sub at 1.
  destruct (N.leb_spec (2 + len (ftext tf)) rl) as [Hle|Hgt].
  - unfold bind at 1. cbn [ret].
    rewrite (IH f' d1 (rl - (2 + len (ftext tf))) (tf :: acc)) by (unfold len in Ei; cbn [length] in *; lia).
    destruct (N.eqb_spec (rl - (2 + len (ftext tf))) (len d1)); destruct (N.eqb_spec rl (len (x :: d0)));
      try reflexivity; exfalso; lia.
  - destruct (N.eqb_spec rl (len (x :: d0))); [exfalso; lia|reflexivity].
Qed.

Lemma codes_loop_gen table pt typ t : codes_of table = reason_codes typ ->
  forall fuel fuel' d rl acc, (length d < fuel)%nat -> (length d <= fuel')%nat ->
  fin (ro (codes_loop table pt fuel rl acc t d))
  = if rl =? len d then fin (many_fuel fuel' (p_reason typ) acc d) else None.
Proof.
  intros Hc. induction fuel as [|f IH]; intros fuel' d rl acc H1 H2; [lia|].
  cbn [codes_loop].
  destruct (N.eqb_spec rl 0) as [Z|Z].
  { subst rl. destruct d as [|x d0].
    - rewrite len_nil. destruct fuel'; reflexivity.
    - rewrite len_cons. destruct (N.eqb_spec 0 (1 + len d0)); [exfalso; lia|reflexivity]. }
  destruct d as [|x d0].
  { rewrite len_nil. destruct (N.eqb_spec rl 0); [exfalso; lia|]. reflexivity. }
  destruct fuel' as [|f']; [cbn [length] in H2; lia|].
  rewrite ro_bind. cbn [many_fuel].
  unfold reason_read at 1, p_reason at 1. unfold bind at 1. cbn [read_u8]. rewrite sbind_u8.
  rewrite Hc, mem_n_mem. destruct (Spec.mem x (reason_codes typ)); cbn [sguard ro ret fail sbind sret sfail];
    [|destruct (rl =? len (x :: d0)); reflexivity].
  rewrite (IH f' d0 (rl - 1) (x :: acc)) by (cbn [length] in *; lia).
  rewrite len_cons.
  destruct (N.eqb_spec (rl - 1) (len d0)); destruct (N.eqb_spec rl (1 + len d0)); try reflexivity; exfalso; lia.
Qed.

Lemma fin_ro_map {A B C} (m : reader A) (f : A -> B) (g : B -> C) t d :
  fin (ro ((x <- (y <- m ;; ret (f y)) ;; ret (g x)) t d)) = option_map (fun y => g (f y)) (fin (ro (m t d))).
Proof. unfold bind, ret. destruct (m t d) as [a [|y r]|e|s]; reflexivity. Qed.
Lemma fin_smap {A B} (m' : sp A) (h : A -> B) d :
  fin ((l <~ m' ;; sret (h l)) d) = option_map h (fin (m' d)).
Proof. unfold sbind, sret. destruct (m' d) as [[a [|y r]]|]; reflexivity. Qed.

(* ------------------------------------------------------------------------------------------ *)
(* UNSUBSCRIBE (uses the number of bytes of the property length: lenient)                     *)
(* ------------------------------------------------------------------------------------------ *)
Lemma unsubscribe_fin prof h t d : bytes_okb d = true -> h_rl h = len d ->
  fin (ro ((u <- unsubscribe_decode prof h ;; ret (Unsubscribe u)) t d))
  = fin ((p <~ p_pid ;; pr <~ p_props false 10 ;; l <~ many1 p_filter ;;
          sret (Unsubscribe {| u_pid := p; u_props := pr; u_topics := l |})) d).
Proof.
  intros Hd Hrl. unfold unsubscribe_decode. rewrite Hrl.
  rewrite bind_assoc, (ro_bind_sim _ _ _ _ _ sim_pid_read Hd). unfold sbind at 1.
  destruct (p_pid d) as [[pid d1]|] eqn:Ep; [|reflexivity].
  pose proof (p_pid_some _ _ _ Ep) as Hl. destruct (suffixing_pid _ _ _ Ep) as [c0 Hc0].
  assert (Hd1 : bytes_okb d1 = true) by (subst d; exact (bytes_okb_suffix _ _ Hd)).
  rewrite bind_assoc, ro_bind. unfold sbind at 1.
  rewrite (props_full_lenient (CtxPacket (h_typ h)) UNSUBSCRIBE_PROPS 10 tab_unsubscribe t d1 eq_refl Hd1).
  destruct (decode_props_full (CtxPacket (h_typ h)) UNSUBSCRIBE_PROPS t d1) as [[[pr plen] k] d2|e|s] eqn:E;
    cbn [ro]; try reflexivity.
  destruct (props_full_facts _ _ _ tab_unsubscribe _ _ _ _ _ _ Hd1 E) as (Hd2 & F1 & F2 & F3 & F4).
  specialize (F4 eq_refl). cbv beta iota.
  rewrite bind_assoc. erewrite bind_ok by (apply checked_sub_ok; lia).
  replace (len d - (2 + k + plen)) with (len d2) by lia.
  destruct d2 as [|x d3]; [reflexivity|].
  destruct (N.eqb_spec (len (x :: d3)) 0) as [Z|Z]; [rewrite len_cons in Z; exfalso; lia|].
  rewrite (fin_ro_map (fun t0 d0 => unsubscribe_loop prof (S (length d0)) (len (x :: d3)) [] t0 d0)
             (fun topics => {| u_pid := pid; u_props := pr; u_topics := topics |}) Unsubscribe).
  rewrite (unsubscribe_loop_gen prof t (S (length (x :: d3))) (length (x :: d3))) by lia.
  rewrite N.eqb_refl.
  rewrite (fin_smap (many1 p_filter) (fun l => Unsubscribe {| u_pid := pid; u_props := pr; u_topics := l |})).
  rewrite many1_of_many. reflexivity.
Qed.

(* ------------------------------------------------------------------------------------------ *)
(* decoders that recompute the property length from the decoded values: strict                *)
(* ------------------------------------------------------------------------------------------ *)
Lemma checked_sub_fail a b t d : a < b -> checked_sub a b t d = RErr InvalidRemainingLength.
Proof. intros H. unfold checked_sub. destruct (N.leb_spec b a); [exfalso; lia|reflexivity]. Qed.

(* encode_properties_len! on decoded properties: the declared length plus its minimal width *)
Lemma props_len_decoded ctx L t d p plen k d' : Totality.nodupb L = true ->
  decode_props_full ctx L t d = ROk (p, plen, k) d' -> props_len L p = Ok (plen + width plen).
Proof.
  intros Hnd E. destruct (Totality.decode_props_full_post _ _ _ _ _ _ _ _ Hnd E) as [Hb Hlt].
  unfold props_len, props_len_of_body. rewrite Hb, (var_int_len_ok _ Hlt). reflexivity.
Qed.

Lemma subscribe_fin prof h t d : bytes_okb d = true -> h_rl h = len d ->
  fin (ro ((s <- subscribe_decode prof h ;; ret (Subscribe s)) t d))
  = fin ((p <~ p_pid ;; pr <~ p_props true 8 ;; l <~ many1 p5_sub_item ;;
          sret (Subscribe {| s_pid := p; s_props := pr; s_topics := l |})) d).
Proof.
  intros Hd Hrl. unfold subscribe_decode. rewrite Hrl.
  rewrite bind_assoc, (ro_bind_sim _ _ _ _ _ sim_pid_read Hd). unfold sbind at 1.
  destruct (p_pid d) as [[pid d1]|] eqn:Ep; [|reflexivity].
  pose proof (p_pid_some _ _ _ Ep) as Hl. destruct (suffixing_pid _ _ _ Ep) as [c0 Hc0].
  assert (Hd1 : bytes_okb d1 = true) by (subst d; exact (bytes_okb_suffix _ _ Hd)).
  unfold decode_props. rewrite !bind_assoc, ro_bind. unfold sbind at 1.
  rewrite (props_strict (CtxPacket (h_typ h)) SUBSCRIBE_PROPS 8 tab_subscribe t d1 Hd1).
  destruct (decode_props_full (CtxPacket (h_typ h)) SUBSCRIBE_PROPS t d1) as [[[pr plen] k] d2|e|s] eqn:E;
    cbn [ro]; try reflexivity.
  destruct (props_full_facts _ _ _ tab_subscribe _ _ _ _ _ _ Hd1 E) as (Hd2 & F1 & F2 & F3 & _).
  pose proof (props_len_decoded _ _ _ _ _ _ _ _ (eq_refl : Totality.nodupb SUBSCRIBE_PROPS = true) E) as Hpl.
  cbv beta iota. rewrite bind_ret, Hpl. rewrite bind_assoc. cbn [lift_outcome]. rewrite bind_ret.
  destruct (N.eqb_spec (len d1) (width plen + plen + len d2)) as [Eq|Ne].
  - rewrite bind_assoc. erewrite bind_ok by (apply checked_sub_ok; lia).
    replace (len d - (2 + (plen + width plen))) with (len d2) by lia.
    destruct d2 as [|x d3]; [reflexivity|].
    destruct (N.eqb_spec (len (x :: d3)) 0) as [Z|Z]; [rewrite len_cons in Z; exfalso; lia|].
    rewrite (fin_ro_map (fun t0 d0 => subscribe_loop prof (S (length d0)) (len (x :: d3)) [] t0 d0)
               (fun topics => {| s_pid := pid; s_props := pr; s_topics := topics |}) Subscribe).
    rewrite (subscribe_loop_gen prof t (S (length (x :: d3))) (length (x :: d3))) by lia.
    rewrite N.eqb_refl.
    rewrite (fin_smap (many1 p5_sub_item) (fun l => Subscribe {| s_pid := pid; s_props := pr; s_topics := l |})).
    rewrite many1_of_many. reflexivity.
  - rewrite bind_assoc.
    destruct (N.lt_ge_cases (len d) (2 + (plen + width plen))) as [Lt|Ge].
    { erewrite bind_err by (apply checked_sub_fail; exact Lt). reflexivity. }
    erewrite bind_ok by (apply checked_sub_ok; lia).
    set (rl := len d - (2 + (plen + width plen))).
    destruct (N.eqb_spec rl 0) as [Z|Z]; [reflexivity|].
    rewrite (fin_ro_map (fun t0 d0 => subscribe_loop prof (S (length d0)) rl [] t0 d0)
               (fun topics => {| s_pid := pid; s_props := pr; s_topics := topics |}) Subscribe).
    rewrite (subscribe_loop_gen prof t (S (length d2)) (length d2)) by lia.
    destruct (N.eqb_spec rl (len d2)) as [Er|_]; [exfalso; unfold rl in Er; lia|reflexivity].
Qed.

Lemma suback_fin table typ h (K : suback -> packet) t d :
  tab ACK_PROPS typ -> codes_of table = reason_codes typ -> bytes_okb d = true -> h_rl h = len d ->
  fin (ro ((s <- suback_decode table h ;; ret (K s)) t d))
  = fin ((s <~ p5_codes true typ ;; sret (K s)) d).
Proof.
  intros Ht Hc Hd Hrl. unfold suback_decode, p5_codes. rewrite Hrl.
  rewrite bind_assoc, (ro_bind_sim _ _ _ _ _ sim_pid_read Hd). rewrite sbind_assoc. unfold sbind at 1.
  destruct (p_pid d) as [[pid d1]|] eqn:Ep; [|reflexivity].
  pose proof (p_pid_some _ _ _ Ep) as Hl. destruct (suffixing_pid _ _ _ Ep) as [c0 Hc0].
  assert (Hd1 : bytes_okb d1 = true) by (subst d; exact (bytes_okb_suffix _ _ Hd)).
  unfold decode_props. rewrite !bind_assoc, ro_bind. rewrite sbind_assoc. unfold sbind at 1.
  rewrite (props_strict (CtxPacket (h_typ h)) ACK_PROPS typ Ht t d1 Hd1).
  destruct (decode_props_full (CtxPacket (h_typ h)) ACK_PROPS t d1) as [[[pr plen] k] d2|e|s] eqn:E;
    cbn [ro]; try reflexivity.
  destruct (props_full_facts _ _ _ Ht _ _ _ _ _ _ Hd1 E) as (Hd2 & F1 & F2 & F3 & _).
  pose proof (props_len_decoded _ _ _ _ _ _ _ _ (eq_refl : Totality.nodupb ACK_PROPS = true) E) as Hpl.
  cbv beta iota. rewrite bind_ret, Hpl. rewrite bind_assoc. cbn [lift_outcome]. rewrite bind_ret.
  destruct (N.eqb_spec (len d1) (width plen + plen + len d2)) as [Eq|Ne].
  - rewrite bind_assoc. erewrite bind_ok by (apply checked_sub_ok; lia).
    replace (len d - (2 + (plen + width plen))) with (len d2) by lia.
    rewrite (fin_ro_map (fun t0 d0 => codes_loop table (h_typ h) (S (length d0)) (len d2) [] t0 d0)
               (fun codes => {| sa_pid := pid; sa_props := pr; sa_codes := codes |}) K).
    rewrite (codes_loop_gen table (h_typ h) typ t Hc (S (length d2)) (length d2)) by lia.
    rewrite N.eqb_refl. rewrite sbind_assoc.
    rewrite (fin_smap (many (p_reason typ)) (fun l => K {| sa_pid := pid; sa_props := pr; sa_codes := l |})).
    reflexivity.
  - rewrite bind_assoc.
    destruct (N.lt_ge_cases (len d) (2 + (plen + width plen))) as [Lt|Ge].
    { erewrite bind_err by (apply checked_sub_fail; exact Lt). reflexivity. }
    erewrite bind_ok by (apply checked_sub_ok; lia).
    set (rl := len d - (2 + (plen + width plen))).
    rewrite (fin_ro_map (fun t0 d0 => codes_loop table (h_typ h) (S (length d0)) rl [] t0 d0)
               (fun codes => {| sa_pid := pid; sa_props := pr; sa_codes := codes |}) K).
    rewrite (codes_loop_gen table (h_typ h) typ t Hc (S (length d2)) (length d2)) by lia.
    destruct (N.eqb_spec rl (len d2)) as [Er|_]; [exfalso; unfold rl in Er; lia|reflexivity].
Qed.

(* ---- PUBLISH ---- *)
Lemma utf8_flag_spec pr payload :
  utf8_flag_ok pr payload = negb (flagged (pget pr PayloadFormatIndicator) && negb (utf8_valid payload)).
Proof.
  unfold utf8_flag_ok. destruct (flagged_cases (pget pr PayloadFormatIndicator)) as [[-> _]|[Hf Hm]].
  - cbn [flagged andb]. rewrite negb_involutive. reflexivity.
  - rewrite Hf, Hm. reflexivity.
Qed.

Lemma take_all_inv (d a b : bytes) n : take d n = Some (a, b) -> (b = [] <-> len d = n).
Proof.
  intros H. apply take_some in H as [-> Hl]. rewrite len_app. split.
  - intros ->. rewrite len_nil. lia.
  - intros E. apply len_zero_nil. lia.
Qed.

Lemma publish_tail5 ctx dup retain qp s t d2 : bytes_okb d2 = true ->
  fin (ro ((p <- (props <- decode_props ctx PUBLISH_PROPS ;;
                  pl <- lift_outcome (props_len PUBLISH_PROPS props) ;;
                  rl <- checked_sub (len d2) pl ;;
                  payload <- (if 0 <? rl then
                                data <- read_exact rl ;;
                                if flagged (pget props PayloadFormatIndicator) && negb (utf8_valid data)
                                then fail InvalidPayloadFormat else ret data
                              else ret []) ;;
                  topic' <- lift_outcome (name_try s) ;;
                  ret {| p_dup := dup; p_retain := retain; V5.p_qospid := qp; p_topic := topic';
                         V5.p_props := props; p_payload := payload |}) ;;
            ret (Publish p)) t d2))
  = fin ((_ <~ sguard (Spec.topic_name_ok s) ;;
          pr <~ p_props true 3 ;;
          payload <~ p_rest ;;
          _ <~ sguard (utf8_flag_ok pr payload) ;;
          sret (Publish {| p_dup := dup; p_retain := retain; V5.p_qospid := qp; p_topic := s;
                           V5.p_props := pr; p_payload := payload |})) d2).
Proof.
  intros Hd2. destruct (Spec.topic_name_ok s) eqn:Hok.
  2:{ (* the topic name is refused at the very end by the code *)
    assert (Hn : forall A (K : bytes -> A) t0 d0, ro ((topic' <- lift_outcome (name_try s) ;; ret (K topic')) t0 d0) = None).
    { intros A K t0 d0. apply ro_bind_none_l. unfold name_try. rewrite name_spec, Hok. reflexivity. }
    replace (ro _) with (@None (packet * bytes)); [reflexivity|]. symmetry.
    rewrite bind_assoc. apply ro_bind_none. intros props d3.
    rewrite bind_assoc. apply ro_bind_none. intros pl d4.
    rewrite bind_assoc. apply ro_bind_none. intros rl d5.
    rewrite bind_assoc. apply ro_bind_none. intros payload d6.
    apply ro_bind_none_l. apply Hn. }
  assert (Hnt : name_try s = Ok s) by (apply name_try_ok; rewrite name_spec, Hok; reflexivity).
  rewrite Hnt. cbn [sguard lift_outcome]. unfold sbind at 1. cbn [sret].
  unfold decode_props. rewrite !bind_assoc, ro_bind. unfold sbind at 1.
  rewrite (props_strict ctx PUBLISH_PROPS 3 tab_publish t d2 Hd2).
  destruct (decode_props_full ctx PUBLISH_PROPS t d2) as [[[pr plen] k] d3|e|s0] eqn:E; cbn [ro]; try reflexivity.
  destruct (props_full_facts _ _ _ tab_publish _ _ _ _ _ _ Hd2 E) as (Hd3 & F1 & F2 & F3 & _).
  pose proof (props_len_decoded _ _ _ _ _ _ _ _ (eq_refl : Totality.nodupb PUBLISH_PROPS = true) E) as Hpl.
  cbv beta iota. rewrite bind_ret, Hpl. rewrite bind_assoc. cbn [lift_outcome]. rewrite bind_ret.
  rewrite bind_assoc.
  destruct (N.eqb_spec (len d2) (width plen + plen + len d3)) as [Eq|Ne].
  - erewrite bind_ok by (apply checked_sub_ok; lia).
    replace (len d2 - (plen + width plen)) with (len d3) by lia.
    unfold sbind at 1. cbn [p_rest]. unfold sbind at 1. rewrite utf8_flag_spec.
    destruct d3 as [|x d4].
    + change (0 <? len []) with false. cbv iota.
      change (utf8_valid []) with true. rewrite andb_false_r. reflexivity.
    + destruct (N.ltb_spec 0 (len (x :: d4))) as [_|Z]; [|rewrite len_cons in Z; exfalso; lia].
      unfold bind, read_exact. rewrite take_all.
      destruct (flagged (pget pr PayloadFormatIndicator) && negb (utf8_valid (x :: d4))); reflexivity.
  - destruct (N.lt_ge_cases (len d2) (plen + width plen)) as [Lt|Ge].
    { erewrite bind_err by (apply checked_sub_fail; exact Lt). reflexivity. }
    erewrite bind_ok by (apply checked_sub_ok; lia).
    set (rl := len d2 - (plen + width plen)).
    assert (Hrl : rl <> len d3) by (unfold rl; lia).
    destruct (N.ltb_spec 0 rl) as [Pos|Zero].
    + unfold bind, read_exact. destruct (take d3 rl) as [[a b]|] eqn:Et; [|reflexivity].
      pose proof (take_all_inv _ _ _ _ Et) as Hb.
      destruct (flagged (pget pr PayloadFormatIndicator) && negb (utf8_valid a)); [reflexivity|].
      unfold ret. cbn [ro fin]. destruct b as [|y b0]; [exfalso; apply Hrl; symmetry; apply Hb; reflexivity|reflexivity].
    + unfold bind, ret. cbn [ro fin]. destruct d3 as [|y d4]; [exfalso; apply Hrl; rewrite len_nil; lia|reflexivity].
Qed.

Lemma p_pid_short d : len d < 2 -> p_pid d = None.
Proof. destruct d as [|a [|b r]]; try reflexivity. rewrite !len_cons. intros H. exfalso. lia. Qed.

Lemma spec_pid_first {R} (b : bool) (s : bytes) (Q : N -> qospid) (K : bytes -> qospid -> sp R) d1 :
  (t0 <~ (_ <~ sguard b ;; sret s) ;; qp <~ (p <~ p_pid ;; sret (Q p)) ;; K t0 qp) d1
  = match p_pid d1 with Some (pid, d2) => (_ <~ sguard b ;; K s (Q pid)) d2 | None => None end.
Proof. unfold sbind, sguard. destruct b; cbn; destruct (p_pid d1) as [[pid d2]|]; reflexivity. Qed.

Lemma publish_pid_case (QP : N -> qospid) dup retain s t d1 : bytes_okb d1 = true ->
  fin (ro ((a <- (rl' <- checked_sub (len d1) 2 ;; pid <- V3.pid_read ;; ret (QP pid, rl')) ;;
            p <- (let '(qp, rl) := a in
                  props <- decode_props (CtxPacket PPublish) PUBLISH_PROPS ;;
                  pl <- lift_outcome (props_len PUBLISH_PROPS props) ;;
                  rl <- checked_sub rl pl ;;
                  payload <- (if 0 <? rl then
                                data <- read_exact rl ;;
                                if match pget props PayloadFormatIndicator with Some (VN 1) => true | _ => false end
                                   && negb (utf8_valid data)
                                then fail InvalidPayloadFormat else ret data
                              else ret []) ;;
                  topic' <- lift_outcome (name_try s) ;;
                  ret {| p_dup := dup; p_retain := retain; V5.p_qospid := qp; p_topic := topic';
                         V5.p_props := props; p_payload := payload |}) ;;
            ret (Publish p)) t d1))
  = fin ((t0 <~ (_ <~ sguard (Spec.topic_name_ok s) ;; sret s) ;;
          qp <~ (p <~ p_pid ;; sret (QP p)) ;;
          pr <~ p_props true 3 ;;
          payload <~ p_rest ;;
          _ <~ sguard (utf8_flag_ok pr payload) ;;
          sret (Publish {| p_dup := dup; p_retain := retain; V5.p_qospid := qp; p_topic := t0;
                           V5.p_props := pr; p_payload := payload |})) d1).
Proof.
  intros Hd1. rewrite spec_pid_first.
  destruct (N.lt_ge_cases (len d1) 2) as [S|S].
  - rewrite bind_assoc. erewrite bind_err by (apply checked_sub_fail; exact S).
    rewrite (p_pid_short _ S). reflexivity.
  - rewrite bind_assoc. erewrite bind_ok by (apply checked_sub_ok; lia).
    rewrite bind_assoc, (ro_bind_sim _ _ _ _ _ sim_pid_read Hd1).
    destruct (p_pid d1) as [[pid d2]|] eqn:Ep; [|reflexivity].
    pose proof (p_pid_some _ _ _ Ep) as Hl. destruct (suffixing_pid _ _ _ Ep) as [c0 Hc0].
    assert (Hd2 : bytes_okb d2 = true) by (subst d1; exact (bytes_okb_suffix _ _ Hd1)).
    rewrite bind_ret. cbv beta iota. replace (len d1 - 2) with (len d2) by lia.
    exact (publish_tail5 (CtxPacket PPublish) dup retain (QP pid) s t d2 Hd2).
Qed.

Lemma publish_fin flags t d : bytes_okb d = true -> (flags / 2) mod 4 < 3 ->
  fin (ro ((p <- publish_decode {| h_typ := PPublish; h_dup := bit flags 3; h_qos := (flags / 2) mod 4;
                                   h_retain := bit flags 0; h_rl := len d |} ;; ret (Publish p)) t d))
  = fin (p5_publish true flags d).
Proof.
  intros Hd Hq. unfold p5_publish. cbv zeta. rewrite !testbit_bit.
  destruct (N.ltb_spec ((flags / 2) mod 4) 3) as [_|L]; [|exfalso; lia].
  cbn [sguard]. unfold sbind at 1. cbn [sret].
  unfold publish_decode. cbn [h_rl h_qos h_dup h_retain h_typ].
  remember ((flags / 2) mod 4) as q eqn:Eq.
  rewrite bind_assoc, ro_bind, ro_read_string. unfold p_name. rewrite sbind_assoc. unfold sbind at 1.
  destruct (p_str d) as [[s d1]|] eqn:Es; [|reflexivity].
  destruct (suffixing_str _ _ _ Es) as [c0 Hc0].
  assert (Hd1 : bytes_okb d1 = true) by (subst d; exact (bytes_okb_suffix _ _ Hd)).
  apply p_str_some in Es as (_ & Hu & Hlen).
  rewrite bind_assoc. erewrite bind_ok by (apply checked_sub_ok; lia).
  replace (len d - (2 + len s)) with (len d1) by lia.
  rewrite bind_assoc.
  assert (Hc : q = 0 \/ q = 1 \/ q = 2) by lia.
  destruct Hc as [E|[E|E]]; rewrite E; lit_tests.
  - rewrite bind_ret. cbv beta iota. unfold p_qospid. lit_tests. rewrite sbind_assoc.
    exact (publish_tail5 (CtxPacket PPublish) (bit flags 3) (bit flags 0) QP0 s t d1 Hd1).
  - unfold p_qospid. lit_tests. exact (publish_pid_case QP1 (bit flags 3) (bit flags 0) s t d1 Hd1).
  - unfold p_qospid. lit_tests. exact (publish_pid_case QP2 (bit flags 3) (bit flags 0) s t d1 Hd1).
Qed.

(* ------------------------------------------------------------------------------------------ *)
(* C04: the strict front-end against the grammar                                              *)
(* ------------------------------------------------------------------------------------------ *)
(* packet types whose decoder recomputes lengths from the decoded values and therefore refuses
   every non-minimal variable byte integer: PUBLISH, SUBSCRIBE, SUBACK, UNSUBACK *)
Definition recheck5 (cb : N) : bool :=
  match cb / 16 with 3 | 8 | 9 | 11 => true | _ => false end.

Lemma flags_qos cb : (cb / 2) mod 4 = (cb mod 16 / 2) mod 4.
Proof. lia. Qed.
Lemma flags_bit3 cb : bit cb 3 = bit (cb mod 16) 3.
Proof. unfold bit. change (2 ^ 3) with 8. f_equal. lia. Qed.
Lemma flags_bit0 cb : bit cb 0 = bit (cb mod 16) 0.
Proof. unfold bit. change (2 ^ 0) with 1. f_equal. lia. Qed.

Lemma strict_tail (r : reader packet) (m : sp packet) body :
  m [] = None -> fin (ro (r TEof body)) = fin (m body) ->
  (if len body =? 0 then None else match r TEof body with ROk p [] => Some p | _ => None end)
  = exactly m body.
Proof.
  intros Hn He. rewrite exactly_fin. destruct body as [|x b].
  - change (len [] =? 0) with true. cbv iota. rewrite Hn. reflexivity.
  - destruct (N.eqb_spec (len (x :: b)) 0) as [E|E]; [rewrite len_cons in E; lia|].
    rewrite fin_ro. exact He.
Qed.

Ltac hdr_reduce :=
  cbv beta iota zeta delta [flag_nibble body5 orb build_empty_packet V3.mk_header h_typ h_rl block_decode].

Ltac empty_case cb body :=
  destruct (cb mod 16 =? 0); cbn [andb]; [|reflexivity];
  destruct body as [|x b]; [reflexivity|];
  let Z := fresh "Z" in destruct (N.eqb_spec (len (x :: b)) 0) as [Z|Z]; [rewrite len_cons in Z; exfalso; lia|reflexivity].

Theorem v5_exact : forall prof cb body,
  bytes_okb (cb :: body) = true -> len body < 268435456 ->
  strict5 prof cb (len body) body = parse5 (recheck5 cb) (frame5 cb body).
Proof.
  intros prof cb body Hb Hl. unfold parse5. rewrite (frame_wvi_s _ cb body Hl). cbv beta iota zeta.
  apply okb_cons_inv in Hb as [Hcb Hbody].
  unfold strict5, header_new_with, recheck5.
  assert (Ht : cb / 16 = 0 \/ cb / 16 = 1 \/ cb / 16 = 2 \/ cb / 16 = 3 \/ cb / 16 = 4 \/ cb / 16 = 5 \/
               cb / 16 = 6 \/ cb / 16 = 7 \/ cb / 16 = 8 \/ cb / 16 = 9 \/ cb / 16 = 10 \/ cb / 16 = 11 \/
               cb / 16 = 12 \/ cb / 16 = 13 \/ cb / 16 = 14 \/ cb / 16 = 15) by lia.
  destruct Ht as [E|[E|[E|[E|[E|[E|[E|[E|[E|[E|[E|[E|[E|[E|[E|E]]]]]]]]]]]]]]];
    rewrite E; lit_tests; hdr_reduce.
  - (* 0: reserved *) reflexivity.
  - (* 1: CONNECT *)
    destruct (cb mod 16 =? 0); [|reflexivity]. cbv beta iota.
    apply strict_tail; [reflexivity|]. apply fin_sim; [apply connect_sim|exact Hbody].
  - (* 2: CONNACK *)
    destruct (cb mod 16 =? 0); [|reflexivity]. cbv beta iota.
    apply strict_tail; [reflexivity|]. apply fin_sim; [apply connack_sim|exact Hbody].
  - (* 3: PUBLISH *)
    unfold qos_of_u8. destruct (N.ltb_spec ((cb / 2) mod 4) 3) as [Q|Q]; cbv beta iota.
    + apply strict_tail.
      * unfold p5_publish. cbv zeta. destruct ((cb mod 16 / 2) mod 4 <? 3); reflexivity.
      * rewrite flags_bit3, flags_bit0, flags_qos. apply publish_fin; [exact Hbody|rewrite <- flags_qos; exact Q].
    + rewrite exactly_fin. unfold p5_publish. cbv zeta.
      destruct (N.ltb_spec ((cb mod 16 / 2) mod 4) 3) as [Q'|Q']; [rewrite <- flags_qos in Q'; exfalso; lia|].
      reflexivity.
  - (* 4: PUBACK *)
    destruct (cb mod 16 =? 0); [|reflexivity]. cbv beta iota.
    apply strict_tail; [reflexivity|]. f_equal. apply (ack_eq PPuback 4); [exact tab_puback|reflexivity|exact Hbody|reflexivity].
  - (* 5: PUBREC *)
    destruct (cb mod 16 =? 0); [|reflexivity]. cbv beta iota.
    apply strict_tail; [reflexivity|]. f_equal. apply (ack_eq PPubrec 5); [exact tab_pubrec|reflexivity|exact Hbody|reflexivity].
  - (* 6: PUBREL *)
    destruct (cb mod 16 =? 2); [|reflexivity]. cbv beta iota.
    apply strict_tail; [reflexivity|]. f_equal. apply (ack_eq PPubrel 6); [exact tab_pubrel|reflexivity|exact Hbody|reflexivity].
  - (* 7: PUBCOMP *)
    destruct (cb mod 16 =? 0); [|reflexivity]. cbv beta iota.
    apply strict_tail; [reflexivity|]. f_equal. apply (ack_eq PPubcomp 7); [exact tab_pubcomp|reflexivity|exact Hbody|reflexivity].
  - (* 8: SUBSCRIBE *)
    destruct (cb mod 16 =? 2); [|reflexivity]. cbv beta iota.
    apply strict_tail; [reflexivity|]. apply subscribe_fin; [exact Hbody|reflexivity].
  - (* 9: SUBACK *)
    destruct (cb mod 16 =? 0); [|reflexivity]. cbv beta iota.
    apply strict_tail; [reflexivity|]. apply (suback_fin PSuback 9); [exact tab_suback|reflexivity|exact Hbody|reflexivity].
  - (* 10: UNSUBSCRIBE *)
    destruct (cb mod 16 =? 2); [|reflexivity]. cbv beta iota.
    apply strict_tail; [reflexivity|]. apply unsubscribe_fin; [exact Hbody|reflexivity].
  - (* 11: UNSUBACK *)
    destruct (cb mod 16 =? 0); [|reflexivity]. cbv beta iota.
    apply strict_tail; [reflexivity|]. apply (suback_fin PUnsuback 11); [exact tab_unsuback|reflexivity|exact Hbody|reflexivity].
  - (* 12: PINGREQ *) empty_case cb body.
  - (* 13: PINGRESP *) empty_case cb body.
  - (* 14: DISCONNECT *)
    destruct (cb mod 16 =? 0); [|reflexivity]. cbv beta iota.
    destruct body as [|x b]; [reflexivity|].
    destruct (N.eqb_spec (len (x :: b)) 0) as [Z|Z]; [rewrite len_cons in Z; exfalso; lia|].
    rewrite exactly_fin, fin_ro. f_equal. apply disconnect_eq; [exact Hbody|reflexivity].
  - (* 15: AUTH *)
    destruct (cb mod 16 =? 0); [|reflexivity]. cbv beta iota.
    destruct body as [|x b]; [reflexivity|].
    destruct (N.eqb_spec (len (x :: b)) 0) as [Z|Z]; [rewrite len_cons in Z; exfalso; lia|].
    rewrite exactly_fin, fin_ro. f_equal. apply auth_eq; [exact Hbody|reflexivity].
Qed.

(* the three statements of the task: (i) soundness w.r.t. the lenient grammar, (ii) completeness
   w.r.t. the strict grammar, (iii) agreement wherever the two grammar modes agree *)
Theorem v5_grammar_sound : forall prof cb body p,
  bytes_okb (cb :: body) = true -> len body < 268435456 ->
  strict5 prof cb (len body) body = Some p ->
  parse5 false (cb :: write_var_int (len body) ++ body) = Some p.
Proof.
  intros prof cb body p Hb Hl H. rewrite (v5_exact prof cb body Hb Hl) in H. unfold frame5 in H.
  destruct (recheck5 cb); [apply parse5_mono|]; exact H.
Qed.

Theorem v5_grammar_complete : forall prof cb body p,
  bytes_okb (cb :: body) = true -> len body < 268435456 ->
  parse5 true (cb :: write_var_int (len body) ++ body) = Some p ->
  strict5 prof cb (len body) body = Some p.
Proof.
  intros prof cb body p Hb Hl H. rewrite (v5_exact prof cb body Hb Hl). unfold frame5.
  destruct (recheck5 cb); [|apply parse5_mono]; exact H.
Qed.

Theorem v5_accept_iff_grammar : forall prof cb body,
  bytes_okb (cb :: body) = true -> len body < 268435456 ->
  parse5 true (cb :: write_var_int (len body) ++ body) = parse5 false (cb :: write_var_int (len body) ++ body) ->
  strict5 prof cb (len body) body = parse5 true (cb :: write_var_int (len body) ++ body).
Proof.
  intros prof cb body Hb Hl Hm. rewrite (v5_exact prof cb body Hb Hl). unfold frame5.
  destruct (recheck5 cb); [reflexivity|symmetry; exact Hm].
Qed.

(* the verdict of the strict front-end does not depend on the build profile *)
Corollary v5_strict_profile_indep : forall cb body,
  bytes_okb (cb :: body) = true -> len body < 268435456 ->
  strict5 Debug cb (len body) body = strict5 Release cb (len body) body.
Proof. intros cb body Hb Hl. rewrite !(v5_exact _ cb body Hb Hl). reflexivity. Qed.

(* non-minimal integers are refused by exactly four decoders: on PUBLISH, SUBSCRIBE, SUBACK and
   UNSUBACK frames the code IS the strict grammar *)
Corollary v5_recheck_strict : forall prof cb body,
  bytes_okb (cb :: body) = true -> len body < 268435456 -> recheck5 cb = true ->
  strict5 prof cb (len body) body = parse5 true (cb :: write_var_int (len body) ++ body).
Proof. intros prof cb body Hb Hl Hr. rewrite (v5_exact prof cb body Hb Hl), Hr. reflexivity. Qed.

(* ------------------------------------------------------------------------------------------ *)
(* C10: the reference parser on what the encoder writes                                       *)
(* ------------------------------------------------------------------------------------------ *)
(* For PUBLISH, SUBSCRIBE, SUBACK, UNSUBACK conformance follows from the model round trip and
   v5_exact (their grammar mode is the strict one).  For the other packets v5_exact only gives the
   lenient grammar, so the strict grammar is run directly on the encoder's chunks; each primitive
   step is transferred from the model-side round-trip lemmas of Proofs/Parses.v. *)
Lemma ro_to_sp {A} (m : reader A) (m' : sp A) t d a r :
  (forall t d, ro (m t d) = m' d) -> m t d = ROk a r -> m' d = Some (a, r).
Proof. intros H E. rewrite <- (H t d), E. reflexivity. Qed.

Lemma sp_u16 n r : n < 65536 -> p_u16 (be16 n ++ r) = Some (n, r).
Proof. intros H. apply (ro_to_sp read_u16 p_u16 TEof); [apply ro_read_u16|apply read_u16_be16; exact H]. Qed.
Lemma sp_pid p r : pid_ok p = true -> p_pid (be16 p ++ r) = Some (p, r).
Proof. intros H. apply (ro_to_sp V3.pid_read p_pid TEof); [apply ro_pid_read|apply pid_read_be16; exact H]. Qed.
Lemma sp_bin s r : len s <= 65535 -> p_bin (be16 (len s mod 65536) ++ s ++ r) = Some (s, r).
Proof. intros H. apply (ro_to_sp read_bytes p_bin TEof); [apply ro_read_bytes|apply read_bytes_lp; exact H]. Qed.
Lemma sp_str s r : len s <= 65535 -> utf8_valid s = true -> p_str (be16 (len s mod 65536) ++ s ++ r) = Some (s, r).
Proof. intros H Hu. apply (ro_to_sp read_string p_str TEof); [apply ro_read_string|apply read_string_lp; assumption]. Qed.
Lemma sp_name s r : len s <= 65535 -> utf8_valid s = true -> name_is_invalid s = false ->
  p_name (be16 (len s mod 65536) ++ s ++ r) = Some (s, r).
Proof.
  intros H Hu Hn. unfold p_name, sbind. rewrite (sp_str s r H Hu).
  rewrite name_spec in Hn. apply negb_false_iff in Hn. rewrite Hn. reflexivity.
Qed.

Lemma sp_props L carrier ps pl rest : tab L carrier -> NoDup (map prop_num L) ->
  props_inv L ps = true -> props_valid L ps = true -> props_len L ps = Ok pl -> bytes_okb rest = true ->
  p_props true carrier (concat (props_enc L ps) ++ rest) = Some (ps, rest).
Proof.
  intros Ht Hnd Hi Hv Hl Hr. destruct (props_len_inv _ _ _ Hl) as [Hb Epl].
  assert (Hok : bytes_okb (concat (props_enc L ps) ++ rest) = true).
  { rewrite bytes_okb_app, (props_enc_bytes_inv _ _ Hi Hb), Hr. reflexivity. }
  rewrite (props_strict (CtxPacket PConnect) L carrier Ht TEof _ Hok).
  rewrite (props_rt (CtxPacket PConnect) L ps TEof rest Hnd Hi Hv Hb).
  rewrite len_app. fold (clen (props_enc L ps)).
  destruct (props_enc_len _ _ Hi Hb) as [-> _].
  destruct (N.eqb_spec (props_body_len L ps + width (props_body_len L ps) + len rest)
                       (width (props_body_len L ps) + props_body_len L ps + len rest)); [reflexivity|exfalso; lia].
Qed.

Lemma sp_reason typ c r : Spec.mem c (reason_codes typ) = true -> p_reason typ (c :: r) = Some (c, r).
Proof. intros H. unfold p_reason. rewrite sbind_u8, H. reflexivity. Qed.

Lemma app_nil_end_r (l : bytes) : l = l ++ [].
Proof. symmetry. apply app_nil_r. Qed.

(* ---- CONNACK ---- *)
Lemma connack_sp c n : I5.valid (Connack c) = true -> connack_len c = Ok n ->
  p5_connack true (concat (connack_enc c)) = Some (Connack c, []).
Proof.
  unfold I5.valid. cbn [I5.types_inv]. unfold connack_len, connack_enc. intros Hv H.
  open_len H CONNACK_PROPS (ca_props c) pl Epl. split_and.
  rewrite concat_app. cbn [concat app]. unfold p5_connack, p_bool01. rewrite sbind_assoc, sbind_u8.
  assert (Esp : (if bool_n (ca_sp c) =? 0 then sret false
                 else if bool_n (ca_sp c) =? 1 then sret true else sfail) = sret (ca_sp c))
    by (destruct (ca_sp c); reflexivity).
  rewrite Esp. unfold sbind at 1. cbn [sret]. unfold sbind at 1.
  rewrite sp_reason by assumption.
  rewrite (app_nil_end_r (concat (props_enc CONNACK_PROPS (ca_props c)))).
  unfold sbind. rewrite (sp_props _ _ _ pl [] tab_connack nodup_connack) by (try assumption; reflexivity).
  destruct c; reflexivity.
Qed.

(* ---- PUBACK / PUBREC / PUBREL / PUBCOMP ---- *)
Lemma ack_sp table typ a n : tab ACK_PROPS typ -> codes_of table = reason_codes typ ->
  I5.ack_inv table a = true -> props_valid ACK_PROPS (a_props a) = true -> ack_len a = Ok n ->
  p5_ack true typ (concat (ack_enc a)) = Some (a, []).
Proof.
  unfold I5.ack_inv, ack_len, ack_enc. intros Ht Hc Hi Hv H. split_and.
  rewrite concat_cons. unfold p5_ack, sbind at 1. rewrite sp_pid by assumption.
  destruct (props_is_default (a_props a)) eqn:Ed.
  - apply props_is_default_spec in Ed.
    destruct (N.eqb_spec (a_code a) 0) as [Ec|Ec].
    + cbn [concat]. rewrite sbind_at_end_nil. destruct a; cbn [a_code a_props] in *; subst; reflexivity.
    + cbn [concat app]. rewrite sbind_at_end_cons. unfold sbind at 1.
      rewrite sp_reason by (rewrite <- Hc, <- mem_n_mem; assumption).
      rewrite sbind_at_end_nil. destruct a; cbn [a_code a_props] in *; subst; reflexivity.
  - open_len H ACK_PROPS (a_props a) pl Epl.
    rewrite concat_cons. cbn [app]. rewrite sbind_at_end_cons. unfold sbind at 1.
    rewrite sp_reason by (rewrite <- Hc, <- mem_n_mem; assumption).
    pose proof (props_len_pos _ _ _ Epl) as Hp.
    assert (Hne : exists y r, concat (props_enc ACK_PROPS (a_props a)) = y :: r).
    { destruct (concat (props_enc ACK_PROPS (a_props a))) as [|y r] eqn:Ec; [|eauto]. exfalso.
      assert (Hcl : clen (props_enc ACK_PROPS (a_props a)) = pl) by (apply props_clen; [apply var_ok_ack|exact Epl]).
      unfold clen in Hcl. rewrite Ec, len_nil in Hcl. lia. }
    destruct Hne as (y & r & Ey). rewrite Ey, sbind_at_end_cons, <- Ey.
    rewrite (app_nil_end_r (concat (props_enc ACK_PROPS (a_props a)))).
    unfold sbind. rewrite (sp_props _ _ _ pl [] Ht nodup_ack) by (try assumption; reflexivity).
    destruct a; reflexivity.
Qed.

(* ---- DISCONNECT / AUTH ---- *)
Lemma props_enc_nonempty L ps pl : props_var_ok L ps = true -> props_len L ps = Ok pl ->
  exists y r, concat (props_enc L ps) = y :: r.
Proof.
  intros Hvo Epl. pose proof (props_len_pos _ _ _ Epl) as Hp.
  destruct (concat (props_enc L ps)) as [|y r] eqn:Ec; [|eauto]. exfalso.
  assert (Hcl : clen (props_enc L ps) = pl) by (apply props_clen; assumption).
  unfold clen in Hcl. rewrite Ec, len_nil in Hcl. lia.
Qed.

Lemma disconnect_sp d n : I5.valid (Disconnect d) = true -> disconnect_len d = Ok n ->
  p5_disconnect true (concat (disconnect_enc d)) = Some (Disconnect d, []).
Proof.
  unfold I5.valid. cbn [I5.types_inv]. unfold disconnect_len, disconnect_enc. intros Hv H. split_and.
  unfold p5_disconnect.
  destruct (props_is_default (d_props d)) eqn:Ed.
  - apply props_is_default_spec in Ed.
    destruct (N.eqb_spec (d_code d) 0) as [Ec|Ec].
    + cbn [concat]. rewrite sbind_at_end_nil. destruct d; cbn [d_code d_props] in *; subst; reflexivity.
    + cbn [concat app]. rewrite sbind_at_end_cons. unfold sbind at 1.
      rewrite sp_reason by (rewrite <- mem_n_mem; assumption).
      rewrite sbind_at_end_nil. destruct d; cbn [d_code d_props] in *; subst; reflexivity.
  - open_len H DISCONNECT_PROPS (d_props d) pl Epl.
    rewrite concat_cons. cbn [app]. rewrite sbind_at_end_cons. unfold sbind at 1.
    rewrite sp_reason by (rewrite <- mem_n_mem; assumption).
    destruct (props_enc_nonempty _ _ _ (var_ok_disconnect _) Epl) as (y & r & Ey).
    rewrite Ey, sbind_at_end_cons, <- Ey.
    rewrite (app_nil_end_r (concat (props_enc DISCONNECT_PROPS (d_props d)))).
    unfold sbind. rewrite (sp_props _ _ _ pl [] tab_disconnect nodup_disconnect) by (try assumption; reflexivity).
    destruct d; reflexivity.
Qed.

Lemma auth_sp d n : I5.valid (Auth d) = true -> auth_len d = Ok n ->
  p5_auth true (concat (auth_enc d)) = Some (Auth d, []).
Proof.
  unfold I5.valid. cbn [I5.types_inv]. unfold auth_len, auth_enc. intros Hv H. split_and.
  unfold p5_auth.
  destruct ((d_code d =? 0) && props_is_default (d_props d)) eqn:Ed.
  - apply andb_true_iff in Ed as [Ec Ed]. apply N.eqb_eq in Ec. apply props_is_default_spec in Ed.
    cbn [concat]. rewrite sbind_at_end_nil. destruct d; cbn [d_code d_props] in *; subst; reflexivity.
  - open_len H AUTH_PROPS (d_props d) pl Epl.
    rewrite concat_cons. cbn [app]. rewrite sbind_at_end_cons. unfold sbind at 1.
    rewrite sp_reason by (rewrite <- mem_n_mem; assumption).
    rewrite (app_nil_end_r (concat (props_enc AUTH_PROPS (d_props d)))).
    unfold sbind. rewrite (sp_props _ _ _ pl [] tab_auth nodup_auth) by (try assumption; reflexivity).
    destruct d; reflexivity.
Qed.

(* ---- CONNECT ---- *)
Lemma sp_opt_str o rest : opt_all text_ok o = true -> opt_all short o = true ->
  p_opt (match o with Some _ => true | None => false end) p_str (concat (V3.opt_lp o) ++ rest) = Some (o, rest).
Proof.
  intros Hi Hv. destruct o as [s|]; cbn [opt_all V3.opt_lp] in *; [|reflexivity].
  apply text_ok_parts in Hi as [_ Hu]. apply short_le in Hv. norm_bytes.
  unfold p_opt, sbind. rewrite (sp_str s rest Hv Hu). reflexivity.
Qed.
Lemma sp_opt_bin o rest : opt_all short o = true ->
  p_opt (match o with Some _ => true | None => false end) p_bin (concat (V3.opt_lp o) ++ rest) = Some (o, rest).
Proof.
  intros Hv. destruct o as [s|]; cbn [opt_all V3.opt_lp] in *; [|reflexivity].
  apply short_le in Hv. norm_bytes. unfold p_opt, sbind. rewrite (sp_bin s rest Hv). reflexivity.
Qed.

Lemma will_sp w n rest : I5.will_inv w = true -> I5.will_valid w = true -> will_len w = Ok n ->
  bytes_okb rest = true ->
  will_spec true (w_qos w) (w_retain w) (concat (will_enc w) ++ rest) = Some (w, rest).
Proof.
  unfold I5.will_inv, I5.will_valid, will_len, will_enc, will_spec. intros Hi Hv H Hr.
  open_len H WILL_PROPS (w_props w) pl Epl. split_and.
  match goal with Hn : name_ok _ = true |- _ => pose proof (name_ok_parts _ Hn) as [Hbt [Hu Hin]] end.
  repeat match goal with Hs : short _ = true |- _ => apply short_le in Hs end.
  rewrite !concat_app, <- ?app_assoc. unfold lp_chunks. norm_bytes.
  unfold sbind at 1. rewrite (sp_props _ _ _ pl _ tab_will nodup_will); try assumption.
  2:{ rewrite !bytes_okb_app, !bytes_okb_lenpfx, Hbt, Hr.
      match goal with Hp : bytes_okb (w_payload w) = true |- _ => rewrite Hp end. reflexivity. }
  unfold sbind at 1. rewrite sp_name by assumption.
  unfold sbind at 1. rewrite sp_bin by assumption.
  assert (Hf : utf8_flag_ok (w_props w) (w_payload w) = true).
  { rewrite utf8_flag_spec.
    match goal with Hx : (if payload_flagged (w_props w) then _ else true) = true |- _ => revert Hx end.
    change (payload_flagged (w_props w)) with (flagged (pget (w_props w) PayloadFormatIndicator)).
    destruct (flagged (pget (w_props w) PayloadFormatIndicator)); [intros ->|intros _]; reflexivity. }
  rewrite Hf. cbn [sguard]. unfold sbind, sret. destruct w; reflexivity.
Qed.

Lemma connect_sp c n : I5.valid (Connect c) = true -> connect_len c = Ok n ->
  bytes_okb (concat (connect_enc c)) = true ->
  p5_connect true (concat (connect_enc c)) = Some (Connect c, []).
Proof.
  unfold I5.valid. cbn [I5.types_inv]. intros Hv H Hb. split_and.
  destruct (c_protocol c) eqn:Epr; try discriminate.
  unfold connect_len in H. open_len H CONNECT_PROPS (c_props c) pl Epl.
  destruct (match c_will c with Some w => will_len w | None => Ok 0 end) as [wl|e|s] eqn:Ewl;
    cbn [obind] in H; try discriminate.
  match goal with Hw : opt_all I5.will_inv (c_will c) = true |- _ =>
    destruct (connect_flags_bits c (will_inv_qos _ Hw)) as (B0 & B1 & B2 & B3 & B5 & B6 & B7) end.
  match goal with Hk : u16 _ = true |- _ => unfold u16 in Hk; apply N.ltb_lt in Hk end.
  match goal with Hc : text_ok (c_client_id c) = true |- _ => apply text_ok_parts in Hc as [_ Hcu] end.
  match goal with Hs : short (c_client_id c) = true |- _ => apply short_le in Hs end.
  revert Hb. unfold connect_enc. rewrite Epr. rewrite !concat_app, <- ?app_assoc. unfold lp_chunks. norm_bytes.
  intros Hb. rewrite !bytes_okb_app in Hb. split_and.
  rewrite p5_connect_split.
  change (concat (protocol_enc V500) ++ ?R) with (be16 (len MQTT mod 65536) ++ MQTT ++ ([5] ++ R)).
  unfold sbind at 1. rewrite sp_bin by (vm_compute; discriminate).
  cbn [app]. rewrite sbind_u8.
  change (Spec.leq MQTT [77; 81; 84; 84] && (5 =? 5)) with true. cbn [sguard]. unfold sbind at 1. cbn [sret].
  unfold p5_connect_rest, p_cflags. rewrite sbind_assoc, sbind_u8. cbv zeta. rewrite !testbit_bit.
  cbn [cf_user cf_pass cf_wretain cf_wqos cf_will cf_clean].
  rewrite B0, B1, B2, B3, B5, B6, B7. cbn [negb sguard].
  rewrite sbind_assoc. unfold sbind at 1. cbn [sret].
  assert (Hq : (if match c_will c with Some _ => true | None => false end
                then match c_will c with Some w => w_qos w | None => 0 end <? 3
                else match c_will c with Some w => w_qos w | None => 0 end =? 0) = true).
  { match goal with Hw : opt_all I5.will_inv (c_will c) = true |- _ => pose proof (will_inv_qos _ Hw) as Hwq end.
    destruct (c_will c); [exact Hwq|reflexivity]. }
  rewrite Hq. cbn [sguard]. rewrite sbind_assoc. unfold sbind at 1. cbn [sret]. unfold sbind at 1. cbn [sret].
  unfold sbind at 1. rewrite sp_u16 by assumption.
  unfold sbind at 1. rewrite (sp_props _ _ _ pl _ tab_connect nodup_connect); try assumption.
  2:{ rewrite !bytes_okb_app. repeat match goal with Hx : bytes_okb _ = true |- _ => rewrite Hx end. reflexivity. }
  unfold sbind at 1. rewrite sp_str by assumption.
  unfold sbind at 1.
  cbn [cf_user cf_pass cf_wretain cf_wqos cf_will cf_clean].
  match goal with |- match ?X with _ => _ end = _ =>
    assert (Hwill : X = Some (c_will c, concat (V3.opt_lp (c_username c)) ++ concat (V3.opt_lp (c_password c)))) end.
  { destruct (c_will c) as [w|]; cbn [opt_all] in *; [|reflexivity].
    unfold p_opt, sbind. rewrite (will_sp w wl); try assumption; [reflexivity|].
    rewrite !bytes_okb_app. repeat match goal with Hx : bytes_okb _ = true |- _ => rewrite Hx end. reflexivity. }
  rewrite Hwill.
  unfold sbind at 1. rewrite sp_opt_str by assumption.
  rewrite (app_nil_end_r (concat (V3.opt_lp (c_password c)))).
  unfold sbind at 1. rewrite sp_opt_bin by assumption.
  unfold sret. destruct c; cbn [c_protocol] in Epr; subst; reflexivity.
Qed.

(* ---- whole packets ---- *)
Lemma body_rt5 prof p vb chunks n : I5.valid p = true -> encode prof p = Ok vb ->
  body_enc p = Some (chunks, Ok n) -> body_decode_async prof (hdr p n) TEof (concat chunks) = ROk p [].
Proof.
  intros Hv He Eb. destruct (encode_inv _ _ _ _ _ Eb He) as (n' & En & Hn & Hr). inversion En; subst n'.
  pose proof (v5_roundtrip filter_profile_indep prof p vb Hv He TEof []) as Hrt.
  rewrite Hr, app_nil_r in Hrt. unfold decode_async in Hrt.
  erewrite bind_ok in Hrt by (apply header_rt; [exact Hn|apply header_of; rewrite Eb; discriminate]).
  exact Hrt.
Qed.

(* the strict front-end accepts what the encoder wrote (packets with a body decoder and a
   non-empty body; DISCONNECT and AUTH are treated on the grammar side) *)
Lemma strict5_encoded prof p vb chunks n : I5.valid p = true -> encode prof p = Ok vb ->
  body_enc p = Some (chunks, Ok n) ->
  match p with Disconnect _ | Auth _ => False | _ => True end ->
  strict5 prof (control_byte p) n (concat chunks) = Some p.
Proof.
  intros Hv He Eb Hk. pose proof (body_rt5 _ _ _ _ _ Hv He Eb) as Hrt.
  pose proof (v5_parts_len _ _ _ Hv Eb) as Hc. unfold clen in Hc.
  unfold strict5. rewrite header_of by (rewrite Eb; discriminate).
  assert (Hbe : build_empty_packet (hdr p n) = None).
  { destruct p; try contradiction; try reflexivity; discriminate Eb. }
  rewrite Hbe.
  assert (Hbd : block_decode prof (hdr p n) = body_decode_async prof (hdr p n)).
  { destruct p; try reflexivity; discriminate Eb. }
  rewrite Hbd.
  destruct (N.eqb_spec n 0) as [Z|Z].
  - exfalso. rewrite Z in Hc. apply len_zero_nil in Hc. rewrite Hc in Hrt.
    destruct p; try contradiction; try discriminate Eb; vm_compute in Hrt; discriminate Hrt.
  - rewrite Hrt. reflexivity.
Qed.

Lemma conformant_via_model prof p vb chunks n : I5.valid p = true -> encode prof p = Ok vb ->
  body_enc p = Some (chunks, Ok n) -> n < 268435456 ->
  match p with Disconnect _ | Auth _ => False | _ => True end ->
  parse5 (recheck5 (control_byte p)) (control_byte p :: write_var_int n ++ concat chunks) = Some p.
Proof.
  intros Hv He Eb Hn Hk.
  pose proof (v5_parts_len _ _ _ Hv Eb) as Hc. unfold clen in Hc.
  pose proof (v5_chunks_bytes _ _ _ (valid_types_inv _ Hv) Eb) as Hbytes.
  pose proof (strict5_encoded _ _ _ _ _ Hv He Eb Hk) as Hs.
  rewrite <- Hc in Hs |- *. rewrite <- Hs.
  symmetry. apply (v5_exact prof); [|rewrite Hc; exact Hn].
  rewrite bytes_okb_cons, Hbytes. pose proof (control_byte_byte p) as Hcb.
  destruct (N.ltb_spec (control_byte p) 256); [reflexivity|exfalso; lia].
Qed.

Lemma sbind_pid_be16 {B} (K : N -> sp B) p r : pid_ok p = true -> (x <~ p_pid ;; K x) (be16 p ++ r) = K p r.
Proof. intros H. unfold sbind. rewrite (sp_pid p r H). reflexivity. Qed.

Lemma upgrade_props {B} carrier (K : props -> sp B) d ps d' :
  p_props true carrier d = Some (ps, d') ->
  (pr <~ p_props true carrier ;; K pr) d = (pr <~ p_props false carrier ;; K pr) d.
Proof. intros H. unfold sbind. rewrite H, (le_props _ _ _ H). reflexivity. Qed.

Lemma publish_recheck x : recheck5 (control_byte (Publish x)) = true.
Proof.
  cbn [control_byte]. unfold V3.publish_control_byte, recheck5.
  destruct (p_dup x), (p_retain x), (V5.p_qospid x); reflexivity.
Qed.

Lemma frame_wvi_e s cb body : len body < 268435456 ->
  frame s (cb :: write_var_int (len body) ++ body) = Some (cb, body).
Proof. exact (frame_wvi_s s cb body). Qed.

Ltac frame_open n chunks Hc Hn :=
  rewrite <- Hc; unfold parse5;
  rewrite (frame_wvi_e true _ (concat chunks)) by (rewrite Hc; exact Hn);
  cbv beta iota zeta.

Theorem v5_conformant : forall prof p vb, I5.valid p = true -> V5.encode prof p = Ok vb ->
  parse5_strict (as_ref vb) = Some p.
Proof.
  intros prof p vb Hv He. unfold parse5_strict.
  destruct (body_enc p) as [[chunks blen]|] eqn:Eb.
  2:{ destruct (body_enc_none _ Eb) as [-> | ->]; cbn [encode] in He; inversion He; subst; vm_compute; reflexivity. }
  destruct (encode_inv _ _ _ _ _ Eb He) as (n & -> & Hn & Hr). rewrite Hr.
  pose proof (v5_parts_len _ _ _ Hv Eb) as Hc. unfold clen in Hc.
  pose proof (v5_chunks_bytes _ _ _ (valid_types_inv _ Hv) Eb) as Hbytes.
  destruct p as [c|c|x|a|a|a|a|s|s|u|s| | |d|d]; cbn [body_enc] in Eb; try discriminate Eb.
  - (* CONNECT *)
    inversion Eb as [[E1 E2]]. subst chunks. cbn [control_byte]. frame_open n (connect_enc c) Hc Hn.
    change (16 / 16) with 1. change (16 mod 16) with 0. lit_tests. cbv beta iota zeta delta [flag_nibble body5].
    lit_tests. unfold exactly. rewrite (connect_sp c n Hv E2 Hbytes). reflexivity.
  - (* CONNACK *)
    inversion Eb as [[E1 E2]]. subst chunks. cbn [control_byte]. frame_open n (connack_enc c) Hc Hn.
    change (32 / 16) with 2. change (32 mod 16) with 0. lit_tests. cbv beta iota zeta delta [flag_nibble body5].
    lit_tests. unfold exactly. rewrite (connack_sp c n Hv E2). reflexivity.
  - (* PUBLISH *)
    rewrite <- (publish_recheck x). apply (conformant_via_model prof _ vb); try assumption. exact I.
  - (* PUBACK *)
    inversion Eb as [[E1 E2]]. subst chunks. cbn [control_byte]. frame_open n (ack_enc a) Hc Hn.
    change (64 / 16) with 4. change (64 mod 16) with 0. lit_tests. cbv beta iota zeta delta [flag_nibble body5].
    lit_tests. unfold I5.valid in Hv. cbn [I5.types_inv] in Hv. apply andb_true_iff in Hv as [Hi Hp].
    unfold exactly, sbind. rewrite (ack_sp PPuback 4 a n tab_puback eq_refl Hi Hp E2). reflexivity.
  - (* PUBREC *)
    inversion Eb as [[E1 E2]]. subst chunks. cbn [control_byte]. frame_open n (ack_enc a) Hc Hn.
    change (80 / 16) with 5. change (80 mod 16) with 0. lit_tests. cbv beta iota zeta delta [flag_nibble body5].
    lit_tests. unfold I5.valid in Hv. cbn [I5.types_inv] in Hv. apply andb_true_iff in Hv as [Hi Hp].
    unfold exactly, sbind. rewrite (ack_sp PPubrec 5 a n tab_pubrec eq_refl Hi Hp E2). reflexivity.
  - (* PUBREL *)
    inversion Eb as [[E1 E2]]. subst chunks. cbn [control_byte]. frame_open n (ack_enc a) Hc Hn.
    change (98 / 16) with 6. change (98 mod 16) with 2. lit_tests. cbv beta iota zeta delta [flag_nibble body5].
    lit_tests. unfold I5.valid in Hv. cbn [I5.types_inv] in Hv. apply andb_true_iff in Hv as [Hi Hp].
    unfold exactly, sbind. rewrite (ack_sp PPubrel 6 a n tab_pubrel eq_refl Hi Hp E2). reflexivity.
  - (* PUBCOMP *)
    inversion Eb as [[E1 E2]]. subst chunks. cbn [control_byte]. frame_open n (ack_enc a) Hc Hn.
    change (112 / 16) with 7. change (112 mod 16) with 0. lit_tests. cbv beta iota zeta delta [flag_nibble body5].
    lit_tests. unfold I5.valid in Hv. cbn [I5.types_inv] in Hv. apply andb_true_iff in Hv as [Hi Hp].
    unfold exactly, sbind. rewrite (ack_sp PPubcomp 7 a n tab_pubcomp eq_refl Hi Hp E2). reflexivity.
  - (* SUBSCRIBE *)
    change true with (recheck5 (control_byte (Subscribe s))).
    apply (conformant_via_model prof _ vb); try assumption. exact I.
  - (* SUBACK *)
    change true with (recheck5 (control_byte (Suback s))).
    apply (conformant_via_model prof _ vb); try assumption. exact I.
  - (* UNSUBSCRIBE: the lenient result, upgraded through the property section *)
    pose proof (conformant_via_model prof _ vb _ _ Hv He Eb Hn I) as Hl.
    change (recheck5 (control_byte (Unsubscribe u))) with false in Hl. rewrite <- Hl.
    inversion Eb as [[E1 E2]]. subst chunks. cbn [control_byte].
    rewrite <- Hc. unfold parse5.
    rewrite !(frame_wvi_e _ _ (concat (unsubscribe_enc u))) by (rewrite Hc; exact Hn). cbv beta iota zeta.
    change (162 / 16) with 10. change (162 mod 16) with 2. lit_tests. cbv beta iota zeta delta [flag_nibble body5].
    lit_tests. unfold exactly.
    unfold I5.valid in Hv. cbn [I5.types_inv] in Hv. unfold unsubscribe_len in E2.
    open_len E2 UNSUBSCRIBE_PROPS (u_props u) pl Epl. split_and.
    revert Hbytes. unfold unsubscribe_enc. rewrite concat_cons, concat_app. intros Hbytes.
    rewrite !bytes_okb_app in Hbytes. split_and.
    rewrite !sbind_pid_be16 by assumption.
    erewrite (upgrade_props 10); [reflexivity|].
    apply (sp_props _ _ _ pl _ tab_unsubscribe nodup_unsubscribe); assumption.
  - (* UNSUBACK *)
    change true with (recheck5 (control_byte (Unsuback s))).
    apply (conformant_via_model prof _ vb); try assumption. exact I.
  - (* DISCONNECT *)
    inversion Eb as [[E1 E2]]. subst chunks. cbn [control_byte]. frame_open n (disconnect_enc d) Hc Hn.
    change (224 / 16) with 14. change (224 mod 16) with 0. lit_tests. cbv beta iota zeta delta [flag_nibble body5].
    lit_tests. unfold exactly. rewrite (disconnect_sp d n Hv E2). reflexivity.
  - (* AUTH *)
    inversion Eb as [[E1 E2]]. subst chunks. cbn [control_byte]. frame_open n (auth_enc d) Hc Hn.
    change (240 / 16) with 15. change (240 mod 16) with 0. lit_tests. cbv beta iota zeta delta [flag_nibble body5].
    lit_tests. unfold exactly. rewrite (auth_sp d n Hv E2). reflexivity.
Qed.

Check v5_exact.
Check v5_grammar_sound.
Check v5_grammar_complete.
Check v5_accept_iff_grammar.
Check v5_conformant.
Print Assumptions v5_exact.
Print Assumptions parse5_mono.
Print Assumptions v5_grammar_sound.
Print Assumptions v5_grammar_complete.
Print Assumptions v5_accept_iff_grammar.
Print Assumptions v5_conformant.
Print Assumptions v5_strict_profile_indep.
Print Assumptions v5_recheck_strict.
