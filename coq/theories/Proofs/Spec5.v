(* Proofs/Spec5.v — C04 and C10 for the v5 family against the independent reference parser SP.

   Main results (all closed under the global context):

     v5_exact          strict5 prof cb (len body) body = SP.parse5 (recheck5 cb) (frame5 cb body)
                       where recheck5 cb = true for PUBLISH, SUBSCRIBE, SUBACK, UNSUBACK (their decoders
                       recompute lengths from the decoded values and thereby refuse every non-minimal
                       variable byte integer) and false for every other packet type (non-minimal
                       property lengths are accepted: the library's deliberate leniency).
     parse5_mono       (Spec5Base) the strict grammar is contained in the lenient one.
     v5_grammar_sound      (i)   accepted by the code  => accepted by the lenient grammar, same packet
     v5_grammar_complete   (ii)  accepted by the strict grammar => accepted by the code, same packet
     v5_accept_iff_grammar (iii) on frames where the two grammar modes agree (no non-minimal integer
                                 that matters) the code and the strict grammar agree          [C04]
     v5_conformant     the encoder's output for a valid packet is parsed back by the strict grammar [C10]

   FINDING: none.  No frame exists on which the code accepts and the lenient grammar does not, or with a
   different packet: (i) is proved without any extra hypothesis. *)
From MQ Require Import Proofs.Tactics Proofs.VarIntLaws Proofs.Parses Proofs.TopicNameEq
  Proofs.TopicFilterEq Proofs.V3RT Proofs.PropsRT Proofs.V5Len Proofs.V5RT Spec.SpecParse Model.Valid
  Proofs.Spec3Base Proofs.Spec5Def Proofs.Spec5Base.
From MQ Require Proofs.Stable Proofs.Totality.
Open Scope N_scope.
Import V5.
Import SP.

(* ------------------------------------------------------------------------------------------ *)
(* helpers                                                                                    *)
(* ------------------------------------------------------------------------------------------ *)
Lemma sim_finish {A B} (m : reader A) (m' : sp A) (K : A -> B) :
  sim m m' -> sim (x <- m ;; ret (K x)) (x <~ m' ;; sret (K x)).
Proof. intros H. apply sim_bind; [exact H|intros a; apply sim_ret]. Qed.

Lemma sim_assoc {A B C} (m : reader A) (f : A -> reader B) (g : B -> reader C) m' :
  sim (a <- m ;; b <- f a ;; g b) m' -> sim (b <- (a <- m ;; f a) ;; g b) m'.
Proof. apply sim_ext_l. intros t d. symmetry. apply bind_assoc. Qed.

Lemma sim_sassoc {A B C} (m : reader C) (m' : sp A) (f : A -> sp B) (g : B -> sp C) :
  sim m (a <~ m' ;; b <~ f a ;; g b) -> sim m (b <~ (a <~ m' ;; f a) ;; g b).
Proof. apply sim_ext_r. intros d. symmetry. apply sbind_assoc. Qed.

(* a guard of the grammar whose counterpart in the code comes later (or in another form) *)
Lemma sim_sguard {A} (b : bool) (m : reader A) (f' : unit -> sp A) :
  (b = true -> sim m (f' tt)) -> (b = false -> forall t d, ro (m t d) = None) -> sim m (sbind (sguard b) f').
Proof.
  destruct b; intros H1 H2.
  - apply (sim_ext_r _ (f' tt)); [reflexivity|]. apply H1. reflexivity.
  - apply (sim_ext_r _ sfail); [reflexivity|]. apply sim_none. apply H2. reflexivity.
Qed.

Lemma mem_n_mem v l : mem_n v l = Spec.mem v l.
Proof. reflexivity. Qed.

Lemma sim_reason (table pt : ptype) (typ : N) : codes_of table = reason_codes typ ->
  sim (reason_read table pt) (p_reason typ).
Proof.
  intros Hc. unfold reason_read, p_reason. apply sim_bind; [apply sim_read_u8|intros b].
  rewrite Hc, mem_n_mem. destruct (Spec.mem b (reason_codes typ)); [apply sim_ret|apply sim_fail].
Qed.

Lemma fin_sim {A} (m : reader A) (m' : sp A) t d : sim m m' -> bytes_okb d = true -> fin (ro (m t d)) = fin (m' d).
Proof. intros H Hd. destruct (H t d Hd) as [-> _]. reflexivity. Qed.

(* ------------------------------------------------------------------------------------------ *)
(* CONNACK                                                                                    *)
(* ------------------------------------------------------------------------------------------ *)
Lemma connack_sim h : sim (c <- connack_decode h ;; ret (Connack c)) (p5_connack false).
Proof.
  intros t d Hd. rewrite ro_bind. unfold connack_decode. rewrite ro_bind, ro_read_exact. unfold p_slice.
  destruct d as [|f [|c r]]; try (split; [reflexivity|exact I]).
  { change (take [f] 2) with (@None (bytes * bytes)). unfold p5_connack, p_bool01.
    rewrite sbind_assoc, sbind_u8. split; [|destruct (f =? 0); [exact I|destruct (f =? 1); exact I]].
    destruct (f =? 0); [reflexivity|]. destruct (f =? 1); reflexivity. }
  rewrite (take_app [f; c] r : take (f :: c :: r) 2 = Some ([f; c], r)). cbv beta iota.
  apply okb_cons_inv in Hd as [_ Hd]. apply okb_cons_inv in Hd as [_ Hd].
  assert (G : forall sp0 : bool,
    ro ((c0 <- (code <- (if mem_n c CONNECT_CODES then ret c else fail (InvalidReasonCode (h_typ h) c)) ;;
               props <- decode_props (CtxPacket (h_typ h)) CONNACK_PROPS ;;
               ret {| ca_sp := sp0; ca_code := code; ca_props := props |}) ;; ret (Connack c0)) t r)
    = (code <~ p_reason 2 ;; pr <~ p_props false 2 ;;
       sret (Connack {| ca_sp := sp0; ca_code := code; ca_props := pr |})) (c :: r)
    /\ okrest ((code <~ p_reason 2 ;; pr <~ p_props false 2 ;;
       sret (Connack {| ca_sp := sp0; ca_code := code; ca_props := pr |})) (c :: r))).
  { intros sp0. unfold p_reason. rewrite !sbind_assoc, !sbind_u8. rewrite mem_n_mem.
    change (reason_codes 2) with CONNECT_CODES.
    destruct (Spec.mem c CONNECT_CODES); [|split; [reflexivity|exact I]].
    cbn [sguard]. Set Printing All. Show. Unset Printing All. rewrite bind_assoc, bind_ret.
    assert (S1 : sim (c0 <- (props <- decode_props (CtxPacket (h_typ h)) CONNACK_PROPS ;;
                             ret {| ca_sp := sp0; ca_code := c; ca_props := props |}) ;; ret (Connack c0))
                     (pr <~ p_props false 2 ;; sret (Connack {| ca_sp := sp0; ca_code := c; ca_props := pr |}))).
    { apply sim_assoc. apply sim_bind; [apply props_lenient; [exact tab_connack|reflexivity]|intros pr].
      apply (sim_ext_l (ret (Connack {| ca_sp := sp0; ca_code := c; ca_props := pr |}))); [reflexivity|apply sim_ret]. }
    exact (S1 t r Hd). }
  unfold p5_connack, p_bool01. rewrite sbind_assoc, sbind_u8.
  destruct (N.eqb_spec f 0) as [F0|F0].
  - rewrite bind_assoc, bind_ret. exact (G false).
  - destruct (N.eqb_spec f 1) as [F1|F1]; [|split; [reflexivity|exact I]].
    rewrite bind_assoc, bind_ret. exact (G true).
Qed.
