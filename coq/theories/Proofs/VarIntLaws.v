(* Proofs/VarIntLaws.v — C15: variable byte integers and the length helpers, over unbounded N. *)
From MQ Require Import Proofs.Tactics Base.VarInt Spec.SpecTopic.
Open Scope N_scope.

Definition VMAX : N := 268435456.     (* 2^28 *)

(* ---- the writer, range by range ---- *)
Lemma wvi1 n : n < 128 -> write_var_int n = [n].
Proof.
  intros H. unfold write_var_int. cbn [write_var_int_fuel].
  destruct (N.ltb_spec 0 (n / 128)); [exfalso; lia|]. list_lia.
Qed.
Lemma wvi2 n : 128 <= n < 16384 -> write_var_int n = [n mod 128 + 128; n / 128].
Proof.
  intros H. unfold write_var_int. cbn [write_var_int_fuel].
  destruct (N.ltb_spec 0 (n / 128)); [|exfalso; lia].
  destruct (N.ltb_spec 0 (n / 128 / 128)); [exfalso; lia|]. list_lia.
Qed.
Lemma wvi3 n : 16384 <= n < 2097152 ->
  write_var_int n = [n mod 128 + 128; (n / 128) mod 128 + 128; n / 16384].
Proof.
  intros H. unfold write_var_int. cbn [write_var_int_fuel].
  destruct (N.ltb_spec 0 (n / 128)); [|exfalso; lia].
  destruct (N.ltb_spec 0 (n / 128 / 128)); [|exfalso; lia].
  destruct (N.ltb_spec 0 (n / 128 / 128 / 128)); [exfalso; lia|]. list_lia.
Qed.
Lemma wvi4 n : 2097152 <= n < VMAX ->
  write_var_int n = [n mod 128 + 128; (n / 128) mod 128 + 128; (n / 16384) mod 128 + 128; n / 2097152].
Proof.
  unfold VMAX. intros H. unfold write_var_int. cbn [write_var_int_fuel].
  destruct (N.ltb_spec 0 (n / 128)); [|exfalso; lia].
  destruct (N.ltb_spec 0 (n / 128 / 128)); [|exfalso; lia].
  destruct (N.ltb_spec 0 (n / 128 / 128 / 128)); [|exfalso; lia].
  destruct (N.ltb_spec 0 (n / 128 / 128 / 128 / 128)); [exfalso; lia|]. list_lia.
Qed.

Definition width (n : N) : N := if n <? 128 then 1 else if n <? 16384 then 2 else if n <? 2097152 then 3 else 4.

Lemma var_int_len_ok n : n < VMAX -> var_int_len n = Ok (width n).
Proof. unfold VMAX, var_int_len, width. intros H. repeat (dtest; try reflexivity); lia. Qed.

Ltac ranges n :=
  destruct (N.ltb_spec n 128); [|destruct (N.ltb_spec n 16384); [|destruct (N.ltb_spec n 2097152)]].

(* the writer emits exactly the reported size, between 1 and 4 bytes *)
Lemma write_len n : n < VMAX -> len (write_var_int n) = width n /\ 1 <= width n <= 4.
Proof.
  intros H. unfold width. ranges n.
  - rewrite wvi1 by lia. split; [reflexivity|lia].
  - rewrite wvi2 by lia. split; [reflexivity|lia].
  - rewrite wvi3 by lia. split; [reflexivity|lia].
  - rewrite wvi4 by (unfold VMAX in *; lia). split; [reflexivity|lia].
Qed.

(* it is the minimal form: k bytes suffice iff n < 128^k *)
Lemma write_minimal n k : n < VMAX -> 1 <= k <= 4 -> (len (write_var_int n) <= k <-> n < 128 ^ k).
Proof.
  intros H Hk. destruct (write_len n H) as [E _]; rewrite E; clear E. unfold width.
  assert (k = 1 \/ k = 2 \/ k = 3 \/ k = 4) as [-> | [-> | [-> | ->]]] by lia;
    change (128 ^ 1) with 128; change (128 ^ 2) with 16384; change (128 ^ 3) with 2097152;
    change (128 ^ 4) with 268435456; unfold VMAX in *; repeat dtest; lia.
Qed.

(* it agrees with the number format of MQTT 1.5.5 (little-endian base 128, least digits) *)
Lemma write_is_spec n : n < VMAX -> write_var_int n = Spec.vbi_print n.
Proof.
  intros H. unfold Spec.vbi_print, Spec.vbi_size. ranges n.
  - rewrite wvi1 by lia. cbn [Spec.vbi_digits]. list_lia.
  - rewrite wvi2 by lia. cbn [Spec.vbi_digits]. list_lia.
  - rewrite wvi3 by lia. cbn [Spec.vbi_digits]. list_lia.
  - rewrite wvi4 by (unfold VMAX in *; lia). cbn [Spec.vbi_digits]. unfold VMAX in *. list_lia.
Qed.

(* every byte written is a byte; all but the last carry the continuation bit; the last does not
   and is non-zero unless the value is 0 *)
Lemma write_bytes_ok n : n < VMAX -> Forall (fun b => b < 256) (write_var_int n).
Proof.
  intros H. ranges n.
  - rewrite wvi1 by lia. repeat constructor; lia.
  - rewrite wvi2 by lia. repeat constructor; lia.
  - rewrite wvi3 by lia. repeat constructor; lia.
  - rewrite wvi4 by (unfold VMAX in *; lia). unfold VMAX in *. repeat constructor; lia.
Qed.
Lemma write_last n : n < VMAX -> last (write_var_int n) 0 < 128 /\ (0 < n -> last (write_var_int n) 0 <> 0).
Proof.
  intros H. ranges n.
  - rewrite wvi1 by lia. cbn [last]. lia.
  - rewrite wvi2 by lia. cbn [last]. lia.
  - rewrite wvi3 by lia. cbn [last]. lia.
  - rewrite wvi4 by (unfold VMAX in *; lia). cbn [last]. unfold VMAX in *. lia.
Qed.

(* ---- the reader inverts the writer and reports the bytes consumed ---- *)
Lemma pow7 i : i = 0 \/ i = 1 \/ i = 2 \/ i = 3 -> 2 ^ (7 * i) = match i with 0 => 1 | 1 => 128 | 2 => 16384 | _ => 2097152 end.
Proof. intros [-> | [-> | [-> | ->]]]; reflexivity. Qed.

Lemma read_write n t r : n < VMAX -> decode_var_int t (write_var_int n ++ r) = ROk (n, width n) r.
Proof.
  intros H. unfold decode_var_int, width. ranges n.
  - rewrite wvi1 by lia. cbn [app decode_var_int_loop].
    destruct (N.ltb_spec n 128); [|exfalso; lia]. change (2 ^ (7 * 0)) with 1. list_lia.
  - rewrite wvi2 by lia. cbn [app decode_var_int_loop].
    destruct (N.ltb_spec (n mod 128 + 128) 128); [exfalso; lia|].
    destruct (N.ltb_spec (n / 128) 128); [|exfalso; lia].
    change (2 ^ (7 * 0)) with 1. change (2 ^ (7 * (0 + 1))) with 128. list_lia.
  - rewrite wvi3 by lia. cbn [app decode_var_int_loop].
    destruct (N.ltb_spec (n mod 128 + 128) 128); [exfalso; lia|].
    destruct (N.ltb_spec ((n / 128) mod 128 + 128) 128); [exfalso; lia|].
    destruct (N.ltb_spec (n / 16384) 128); [|exfalso; lia].
    change (2 ^ (7 * 0)) with 1. change (2 ^ (7 * (0 + 1))) with 128. change (2 ^ (7 * (0 + 1 + 1))) with 16384.
    list_lia.
  - unfold VMAX in *. rewrite wvi4 by (unfold VMAX; lia). cbn [app decode_var_int_loop].
    destruct (N.ltb_spec (n mod 128 + 128) 128); [exfalso; lia|].
    destruct (N.ltb_spec ((n / 128) mod 128 + 128) 128); [exfalso; lia|].
    destruct (N.ltb_spec ((n / 16384) mod 128 + 128) 128); [exfalso; lia|].
    destruct (N.ltb_spec (n / 2097152) 128); [|exfalso; lia].
    change (2 ^ (7 * 0)) with 1. change (2 ^ (7 * (0 + 1))) with 128. change (2 ^ (7 * (0 + 1 + 1))) with 16384.
    change (2 ^ (7 * (0 + 1 + 1 + 1))) with 2097152.
    list_lia.
Qed.

(* whatever the reader accepts is below 2^28, used 1..4 bytes, and is a prefix of the input *)
Lemma read_bound t d v k r : Forall (fun b => b < 256) d -> decode_var_int t d = ROk (v, k) r ->
  v < VMAX /\ 1 <= k <= 4 /\ exists c, d = c ++ r /\ len c = k.
Proof.
  unfold decode_var_int, VMAX. intros Hd H.
  destruct d as [|b0 d]; cbn [decode_var_int_loop] in H; [discriminate|].
  inversion Hd as [|? ? Hb0 Hd0]; subst.
  change (2 ^ (7 * 0)) with 1 in H.
  destruct (N.ltb_spec b0 128).
  { inversion H; subst. repeat split; try lia. exists [b0]. split; reflexivity. }
  destruct d as [|b1 d]; [discriminate|]. inversion Hd0 as [|? ? Hb1 Hd1]; subst.
  change (2 ^ (7 * (0 + 1))) with 128 in H.
  destruct (N.ltb_spec b1 128).
  { inversion H; subst. repeat split; try lia. exists [b0; b1]. split; reflexivity. }
  destruct d as [|b2 d]; [discriminate|]. inversion Hd1 as [|? ? Hb2 Hd2]; subst.
  change (2 ^ (7 * (0 + 1 + 1))) with 16384 in H.
  destruct (N.ltb_spec b2 128).
  { inversion H; subst. repeat split; try lia. exists [b0; b1; b2]. split; reflexivity. }
  destruct d as [|b3 d]; [discriminate|]. inversion Hd2 as [|? ? Hb3 Hd3]; subst.
  change (2 ^ (7 * (0 + 1 + 1 + 1))) with 2097152 in H.
  destruct (N.ltb_spec b3 128); [|discriminate].
  inversion H; subst. repeat split; try lia. exists [b0; b1; b2; b3]. split; reflexivity.
Qed.

(* an encoding longer than four bytes is rejected *)
Lemma read_too_long t b0 b1 b2 b3 r : 128 <= b0 -> 128 <= b1 -> 128 <= b2 -> 128 <= b3 ->
  decode_var_int t (b0 :: b1 :: b2 :: b3 :: r) = RErr InvalidVarByteInt.
Proof.
  intros. unfold decode_var_int. cbn [decode_var_int_loop].
  destruct (N.ltb_spec b0 128); [exfalso; lia|]. destruct (N.ltb_spec b1 128); [exfalso; lia|].
  destruct (N.ltb_spec b2 128); [exfalso; lia|]. destruct (N.ltb_spec b3 128); [exfalso; lia|]. reflexivity.
Qed.

(* ---- length helpers ---- *)
Lemma total_len_ok r : r < VMAX -> total_len r = Ok (r + 1 + width r).
Proof. unfold VMAX, total_len, width. intros H. repeat (dtest; try (f_equal; lia)); lia. Qed.

Lemma header_len_total r : r < VMAX -> header_len (r + 1 + width r) = 1 + width r.
Proof. unfold VMAX, header_len, width. intros H. repeat (dtest; try lia). Qed.

Lemma remaining_len_total prof r : r < VMAX -> remaining_len prof (r + 1 + width r) = Ok r.
Proof.
  intros H. unfold remaining_len. rewrite header_len_total by assumption.
  destruct (N.leb_spec (1 + width r) (r + 1 + width r)); [f_equal; lia|lia].
Qed.

(* ---- 2^28 and above are refused everywhere ---- *)
Lemma too_large n : VMAX <= n ->
  var_int_len n = Err InvalidVarByteInt /\ total_len n = Err InvalidVarByteInt /\
  var_byte_int_try n = Err InvalidVarByteInt.
Proof.
  unfold VMAX, var_int_len, total_len, var_byte_int_try. intros H.
  repeat split; repeat (dtest; try reflexivity); lia.
Qed.
Lemma var_byte_int_try_ok n : n < VMAX -> var_byte_int_try n = Ok n.
Proof. unfold VMAX, var_byte_int_try. intros. dtest; [reflexivity|lia]. Qed.
