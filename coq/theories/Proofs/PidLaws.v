(* Proofs/PidLaws.v — C19: packet identifiers form the cycle 1..65535. *)
From MQ Require Import Proofs.Tactics Model.Types Spec.SpecTopic.
Open Scope N_scope.

Definition is_pid (p : N) : Prop := 1 <= p <= 65535.

(* closed forms over the integers: p + u and p - u are u steps around the cycle *)
Lemma pid_add_cycle prof p u : is_pid p -> u <= 65535 ->
  exists q, pid_add prof p u = Ok q /\
            Z.of_N q = (((Z.of_N p - 1 + Z.of_N u) mod 65535) + 1)%Z.
Proof.
  unfold is_pid, pid_add; intros Hp Hu.
  destruct (N.ltb_spec (p + u) 65536) as [H|H].
  - eexists; split; [reflexivity|]. lia.
  - destruct (N.ltb_spec (p + u - 65536 + 1) 65536) as [H2|H2]; [|lia].
    eexists; split; [reflexivity|]. lia.
Qed.

Lemma pid_sub_cycle prof p u : is_pid p -> u <= 65535 ->
  exists q, pid_sub prof p u = Ok q /\
            Z.of_N q = (((Z.of_N p - 1 - Z.of_N u) mod 65535) + 1)%Z.
Proof.
  unfold is_pid, pid_sub; intros Hp Hu.
  destruct (N.leb_spec u p) as [H|H].
  - destruct (N.eqb_spec (p - u) 0) as [H2|H2]; eexists; (split; [reflexivity|]); lia.
  - destruct (N.eqb_spec (p + 65536 - u) 0) as [H2|H2]; [lia|].
    eexists; split; [reflexivity|]. lia.
Qed.

(* the same, against the N-valued spec *)
Lemma pid_add_spec prof p u : is_pid p -> u <= 65535 -> pid_add prof p u = Ok (Spec.pid_add p u).
Proof.
  intros Hp Hu. destruct (pid_add_cycle prof p u Hp Hu) as (q & -> & Hq). f_equal.
  unfold Spec.pid_add, is_pid in *. lia.
Qed.
Lemma pid_sub_spec prof p u : is_pid p -> u <= 65535 -> pid_sub prof p u = Ok (Spec.pid_sub p u).
Proof.
  intros Hp Hu. destruct (pid_sub_cycle prof p u Hp Hu) as (q & -> & Hq). f_equal.
  unfold Spec.pid_sub, is_pid in *. lia.
Qed.

(* never 0, never outside u16: the result is a Pid again (and no panic / wrap in either profile) *)
Lemma pid_add_is_pid prof p u : is_pid p -> u <= 65535 -> exists q, pid_add prof p u = Ok q /\ is_pid q.
Proof. intros Hp Hu. destruct (pid_add_cycle prof p u Hp Hu) as (q & E & Hq). exists q; split; auto. unfold is_pid. lia. Qed.
Lemma pid_sub_is_pid prof p u : is_pid p -> u <= 65535 -> exists q, pid_sub prof p u = Ok q /\ is_pid q.
Proof. intros Hp Hu. destruct (pid_sub_cycle prof p u Hp Hu) as (q & E & Hq). exists q; split; auto. unfold is_pid. lia. Qed.

(* subtraction undoes addition and vice versa *)
Lemma pid_add_sub prof p u : is_pid p -> u <= 65535 ->
  exists q, pid_add prof p u = Ok q /\ pid_sub prof q u = Ok p.
Proof.
  intros Hp Hu. destruct (pid_add_cycle prof p u Hp Hu) as (q & E & Hq). exists q; split; auto.
  assert (Hq' : is_pid q) by (unfold is_pid in *; lia).
  destruct (pid_sub_cycle prof q u Hq' Hu) as (r & -> & Hr). f_equal. unfold is_pid in *. lia.
Qed.
Lemma pid_sub_add prof p u : is_pid p -> u <= 65535 ->
  exists q, pid_sub prof p u = Ok q /\ pid_add prof q u = Ok p.
Proof.
  intros Hp Hu. destruct (pid_sub_cycle prof p u Hp Hu) as (q & E & Hq). exists q; split; auto.
  assert (Hq' : is_pid q) by (unfold is_pid in *; lia).
  destruct (pid_add_cycle prof q u Hq' Hu) as (r & -> & Hr). f_equal. unfold is_pid in *. lia.
Qed.

(* stepping: p + (u+1) is the successor of p + u on the cycle *)
Definition succ_cycle (q : N) : N := if q =? 65535 then 1 else q + 1.
Lemma pid_add_step prof p u : is_pid p -> u < 65535 ->
  exists q, pid_add prof p u = Ok q /\ pid_add prof p (u + 1) = Ok (succ_cycle q).
Proof.
  intros Hp Hu.
  destruct (pid_add_cycle prof p u Hp) as (q & E & Hq); [lia|].
  destruct (pid_add_cycle prof p (u + 1) Hp) as (r & E' & Hr); [lia|].
  exists q; split; auto. rewrite E'. f_equal. unfold succ_cycle, is_pid in *.
  destruct (N.eqb_spec q 65535); lia.
Qed.
Lemma pid_add_zero prof p : is_pid p -> pid_add prof p 0 = Ok p.
Proof. intros Hp. destruct (pid_add_cycle prof p 0 Hp) as (q & -> & Hq); [lia|]. f_equal. unfold is_pid in *. lia. Qed.

Lemma pid_try_spec v : v <= 65535 -> (pid_try v = Err ZeroPid <-> v = 0) /\ (v <> 0 -> pid_try v = Ok v).
Proof.
  intros Hv. unfold pid_try. destruct (N.eqb_spec v 0); split; try tauto; try congruence.
  split; [discriminate|tauto].
Qed.
