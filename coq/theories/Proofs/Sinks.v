(* Proofs/Sinks.v — laws of the scripted sinks (Model/Frontends.v, second half).

   Behind the properties
     "All encoder entry points emit the same bytes"              (sections 1-3)
     "Transport failures are surfaced as I/O errors of the same kind"  (sections 4-6)

   1. write_all_benign      a script that always makes progress never fails and writes everything
   2. write_chunks_benign   the same for a sequence of write_all calls
   3. encode_async_any_sink / encode_stream_any_sink and the "any two sinks agree" corollaries
   4. write_all_fault / write_chunks_fault / encode_async_fault / encode_stream_fault
      the first non-benign step decides the error kind; exactly the bytes accepted so far were written
   5. write_all_sound / write_chunks_sound  (no hypothesis on the script at all): what was written
      is always a prefix of the correct bytes, Ok means everything, an error is always the I/O
      error of some step of the script; the fuel panic is unreachable
   6. error-kind conversions, examples. *)
From MQ Require Import Proofs.Tactics Proofs.Parses Model.Frontends.
Open Scope N_scope.

(* ------------------------------------------------------------------------------------------ *)
(* Definitions                                                                                *)
(* ------------------------------------------------------------------------------------------ *)

(* a step that neither fails nor stalls for ever: accepts >= 1 byte, or is a Pending, or (blocking
   write_all only) is an Interrupted, which std retries *)
Definition benign (sync : bool) (st : wstep) : bool :=
  match st with
  | WAccept n => 0 <? n
  | WPend => true
  | WZero => false
  | WFail k => sync && (k =? KInterrupted)
  end.

(* the io::ErrorKind a step makes write_all return, if any *)
Definition fault_kind (sync : bool) (st : wstep) : option io_kind :=
  match st with
  | WAccept n => if n =? 0 then Some KWriteZero else None
  | WPend => None
  | WZero => Some KWriteZero
  | WFail k => if sync && (k =? KInterrupted) then None else Some k
  end.

(* total number of bytes the WAccept steps of a script are willing to take *)
Fixpoint sum_accepts (s : list wstep) : N :=
  match s with
  | [] => 0
  | WAccept n :: r => n + sum_accepts r
  | _ :: r => sum_accepts r
  end.

(* a benign step that takes at most one byte per write call *)
Definition unit_step (sync : bool) (st : wstep) : bool :=
  match st with
  | WAccept n => n =? 1
  | _ => benign sync st
  end.

(* the two notions are complementary *)
Lemma fault_kind_benign sync st : benign sync st = false <-> exists k, fault_kind sync st = Some k.
Proof.
  destruct st as [n| | |k]; cbn [benign fault_kind].
  - destruct (N.eqb_spec n 0) as [E|E]; destruct (N.ltb_spec 0 n) as [L|L]; try (exfalso; lia).
    + split; [intros _; eexists; reflexivity|reflexivity].
    + split; [discriminate|intros [k Hk]; discriminate].
  - split; [discriminate|intros [k Hk]; discriminate].
  - split; [intros _; eexists; reflexivity|reflexivity].
  - destruct (sync && (k =? KInterrupted)) eqn:E.
    + split; [discriminate|intros [k' Hk]; discriminate].
    + split; [intros _; eexists; reflexivity|reflexivity].
Qed.

Lemma fault_kind_fail sync kd :
  negb (sync && (kd =? KInterrupted)) = true -> fault_kind sync (WFail kd) = Some kd.
Proof. cbn [fault_kind]. destruct (sync && (kd =? KInterrupted)); [discriminate|reflexivity]. Qed.
Lemma fault_kind_zero sync : fault_kind sync WZero = Some KWriteZero.
Proof. reflexivity. Qed.
Lemma fault_kind_accept0 sync : fault_kind sync (WAccept 0) = Some KWriteZero.
Proof. reflexivity. Qed.
(* the documented exception: a blocking write_all retries Interrupted *)
Lemma interrupted_benign_sync : benign true (WFail KInterrupted) = true.
Proof. reflexivity. Qed.
Lemma interrupted_fault_async : fault_kind false (WFail KInterrupted) = Some KInterrupted.
Proof. reflexivity. Qed.

Lemma unit_step_benign sync st : unit_step sync st = true -> benign sync st = true.
Proof.
  destruct st as [n| | |k]; cbn [unit_step benign]; intros H; try exact H.
  destruct (N.eqb_spec n 1) as [E|E]; [|discriminate]. destruct (N.ltb_spec 0 n); [reflexivity|lia].
Qed.

Lemma unit_steps_benign sync pre :
  forallb (unit_step sync) pre = true -> forallb (benign sync) pre = true.
Proof.
  induction pre as [|st pre IH]; cbn [forallb]; [reflexivity|].
  intros H. apply andb_true_iff in H as [H1 H2]. apply andb_true_iff. split.
  - apply unit_step_benign. exact H1.
  - apply IH. exact H2.
Qed.

Lemma write_all_nil sync fuel script written calls :
  write_all sync fuel [] script written calls =
  {| w_ok := Ok tt; w_written := written; w_calls := calls; w_script := script |}.
Proof. destruct fuel; reflexivity. Qed.

(* ------------------------------------------------------------------------------------------ *)
(* 1. write_all on a benign script                                                            *)
(* ------------------------------------------------------------------------------------------ *)

Theorem write_all_benign sync : forall fuel buf script written calls,
  forallb (benign sync) script = true -> (length script < fuel)%nat ->
  let r := write_all sync fuel buf script written calls in
  w_ok r = Ok tt /\ w_written r = written ++ buf /\
  forallb (benign sync) (w_script r) = true /\ (length (w_script r) <= length script)%nat.
Proof.
  induction fuel as [|f IH]; intros buf script written calls Hb Hf; cbv zeta; [exfalso; lia|].
  destruct buf as [|x b].
  - cbn [write_all w_ok w_written w_script]. rewrite app_nil_r. repeat split; [exact Hb|lia].
  - destruct script as [|st sc].
    + cbn [write_all w_ok w_written w_script forallb length]. repeat split. lia.
    + cbn [forallb] in Hb. apply andb_true_iff in Hb as [Hst Hsc]. cbn [length] in Hf.
      assert (Hf' : (length sc < f)%nat) by lia.
      destruct st as [n| | |k]; cbn [benign] in Hst; cbn [write_all].
      * destruct (N.eqb_spec n 0) as [E|E]; [exfalso; lia|].
        destruct (take (x :: b) n) as [[a b']|] eqn:Et.
        -- apply take_some in Et as [Eab Hla].
           pose proof (IH b' sc (written ++ a) (calls + 1) Hsc Hf') as H. cbv zeta in H.
           destruct H as (H1 & H2 & H3 & H4).
           rewrite H1, H2, Eab, app_assoc. repeat split; [exact H3|cbn [length]; lia].
        -- cbn [w_ok w_written w_script length]. repeat split; [exact Hsc|lia].
      * destruct sync.
        -- pose proof (IH (x :: b) sc written calls Hsc Hf') as H. cbv zeta in H.
           destruct H as (H1 & H2 & H3 & H4). repeat split; [exact H1|exact H2|exact H3|cbn [length]; lia].
        -- pose proof (IH (x :: b) sc written (calls + 1) Hsc Hf') as H. cbv zeta in H.
           destruct H as (H1 & H2 & H3 & H4). repeat split; [exact H1|exact H2|exact H3|cbn [length]; lia].
      * discriminate.
      * rewrite Hst.
        pose proof (IH (x :: b) sc written (calls + 1) Hsc Hf') as H. cbv zeta in H.
        destruct H as (H1 & H2 & H3 & H4). repeat split; [exact H1|exact H2|exact H3|cbn [length]; lia].
Qed.

(* in particular the fuel write_chunks / encode_async_with supply is enough *)
Corollary write_all_benign_no_fuel_panic sync buf script written calls :
  forallb (benign sync) script = true ->
  w_ok (write_all sync (S (length script)) buf script written calls) = Ok tt.
Proof.
  intros Hb. pose proof (write_all_benign sync (S (length script)) buf script written calls Hb) as H.
  cbv zeta in H. apply H. lia.
Qed.

(* ------------------------------------------------------------------------------------------ *)
(* 2. write_chunks on a benign script                                                         *)
(* ------------------------------------------------------------------------------------------ *)

Theorem write_chunks_benign sync : forall chunks script written calls,
  forallb (benign sync) script = true ->
  let r := write_chunks sync chunks script written calls in
  w_ok r = Ok tt /\ w_written r = written ++ concat chunks /\
  forallb (benign sync) (w_script r) = true /\ (length (w_script r) <= length script)%nat.
Proof.
  induction chunks as [|c cs IH]; intros script written calls Hb; cbv zeta.
  - cbn [write_chunks w_ok w_written w_script concat]. rewrite app_nil_r. repeat split; [exact Hb|lia].
  - cbn [write_chunks]. cbv zeta.
    pose proof (write_all_benign sync (S (length script)) c script written calls Hb) as H.
    cbv zeta in H. destruct H as (H1 & H2 & H3 & H4); [lia|].
    rewrite H1.
    pose proof (IH _ (w_written (write_all sync (S (length script)) c script written calls))
                     (w_calls (write_all sync (S (length script)) c script written calls)) H3) as G.
    cbv zeta in G. destruct G as (G1 & G2 & G3 & G4).
    rewrite H2 in G2 at 2. cbn [concat]. rewrite app_assoc.
    repeat split; [exact G1|exact G2|exact G3|lia].
Qed.

(* ------------------------------------------------------------------------------------------ *)
(* 3. every encoder entry point emits the same bytes into every benign sink                   *)
(* ------------------------------------------------------------------------------------------ *)

Theorem encode_async_any_sink : forall vb script,
  forallb (benign false) script = true ->
  let r := encode_async_with (Ok vb) script in
  w_ok r = Ok tt /\ w_written r = as_ref vb.
Proof.
  intros vb script Hb. cbv zeta. unfold encode_async_with.
  pose proof (write_all_benign false (S (length script)) (as_ref vb) script [] 0 Hb) as H.
  cbv zeta in H. destruct H as (H1 & H2 & _); [lia|].
  split; [exact H1|exact H2].
Qed.

Theorem encode_stream_any_sink : forall chunks script,
  forallb (benign true) script = true ->
  let r := encode_stream_with chunks script in
  w_ok r = Ok tt /\ w_written r = concat chunks.
Proof.
  intros chunks script Hb. cbv zeta. unfold encode_stream_with.
  pose proof (write_chunks_benign true chunks script [] 0 Hb) as H.
  cbv zeta in H. destruct H as (H1 & H2 & _).
  split; [exact H1|exact H2].
Qed.

(* an encode() error or panic is passed through untouched and nothing reaches the sink *)
Lemma encode_async_err e script :
  w_ok (encode_async_with (Err e) script) = Err e /\ w_written (encode_async_with (Err e) script) = [].
Proof. split; reflexivity. Qed.
Lemma encode_async_panic s script :
  w_ok (encode_async_with (Panic s) script) = Panic s /\ w_written (encode_async_with (Panic s) script) = [].
Proof. split; reflexivity. Qed.

(* any two benign sinks receive identical bytes *)
Corollary encode_async_sinks_agree vb s1 s2 :
  forallb (benign false) s1 = true -> forallb (benign false) s2 = true ->
  w_written (encode_async_with (Ok vb) s1) = w_written (encode_async_with (Ok vb) s2).
Proof.
  intros H1 H2. pose proof (encode_async_any_sink vb s1 H1) as A. pose proof (encode_async_any_sink vb s2 H2) as B.
  cbv zeta in A, B. destruct A as [_ A]. destruct B as [_ B]. congruence.
Qed.

Corollary encode_stream_sinks_agree chunks s1 s2 :
  forallb (benign true) s1 = true -> forallb (benign true) s2 = true ->
  w_written (encode_stream_with chunks s1) = w_written (encode_stream_with chunks s2).
Proof.
  intros H1 H2. pose proof (encode_stream_any_sink chunks s1 H1) as A.
  pose proof (encode_stream_any_sink chunks s2 H2) as B.
  cbv zeta in A, B. destruct A as [_ A]. destruct B as [_ B]. congruence.
Qed.

(* encode_async and the chunked Encodable::encode agree whenever encode() yields the concatenation
   of the chunks (which is what the per-packet encoders are proved to do elsewhere) *)
Corollary encode_async_stream_agree vb chunks s1 s2 :
  as_ref vb = concat chunks ->
  forallb (benign false) s1 = true -> forallb (benign true) s2 = true ->
  w_written (encode_async_with (Ok vb) s1) = w_written (encode_stream_with chunks s2) /\
  w_ok (encode_async_with (Ok vb) s1) = w_ok (encode_stream_with chunks s2).
Proof.
  intros E H1 H2. pose proof (encode_async_any_sink vb s1 H1) as A.
  pose proof (encode_stream_any_sink chunks s2 H2) as B.
  cbv zeta in A, B. destruct A as [A1 A2]. destruct B as [B1 B2]. split; congruence.
Qed.

(* ------------------------------------------------------------------------------------------ *)
(* 4. failure injection                                                                       *)
(* ------------------------------------------------------------------------------------------ *)

(* `pre` is benign and accepts fewer bytes than the buffer holds; the next step is a fault *)
Theorem write_all_fault sync : forall pre fuel buf bad post written calls kd,
  forallb (benign sync) pre = true ->
  sum_accepts pre < len buf ->
  fault_kind sync bad = Some kd ->
  (length pre < fuel)%nat ->
  let r := write_all sync fuel buf (pre ++ bad :: post) written calls in
  w_ok r = Err (IoError kd) /\
  w_written r = written ++ firstn (N.to_nat (sum_accepts pre)) buf /\
  w_script r = post.
Proof.
  induction pre as [|st pre IH]; intros fuel buf bad post written calls kd Hb Hk Hbad Hf; cbv zeta.
  - cbn [sum_accepts] in *. destruct buf as [|x b]; [rewrite len_nil in Hk; lia|].
    destruct fuel as [|f]; [cbn [length] in Hf; lia|].
    change (N.to_nat 0) with 0%nat. cbn [firstn app]. rewrite app_nil_r.
    destruct bad as [n| | |k]; cbn [fault_kind] in Hbad; cbn [write_all].
    + destruct (n =? 0) eqn:En; [|discriminate]. inversion Hbad; subst kd.
      cbn [w_ok w_written w_script]. repeat split.
    + discriminate.
    + inversion Hbad; subst kd. cbn [w_ok w_written w_script]. repeat split.
    + destruct (sync && (k =? KInterrupted)) eqn:Ek; [discriminate|]. inversion Hbad; subst kd.
      cbn [w_ok w_written w_script]. repeat split.
  - destruct buf as [|x b]; [rewrite len_nil in Hk; lia|].
    destruct fuel as [|f]; [cbn [length] in Hf; lia|].
    cbn [length] in Hf. assert (Hf' : (length pre < f)%nat) by lia.
    cbn [forallb] in Hb. apply andb_true_iff in Hb as [Hst Hb].
    destruct st as [n| | |k]; cbn [benign] in Hst; cbn [sum_accepts] in Hk |- *; cbn [app write_all].
    + destruct (N.eqb_spec n 0) as [E|E]; [exfalso; lia|].
      destruct (take (x :: b) n) as [[a b']|] eqn:Et.
      * apply take_some in Et as [Eab Hla].
        assert (Hk' : sum_accepts pre < len b').
        { rewrite Eab, len_app in Hk. lia. }
        pose proof (IH f b' bad post (written ++ a) (calls + 1) kd Hb Hk' Hbad Hf') as H. cbv zeta in H.
        destruct H as (H1 & H2 & H3). rewrite H1, H2, H3, Eab.
        replace (N.to_nat (n + sum_accepts pre)) with (length a + N.to_nat (sum_accepts pre))%nat
          by (unfold len in Hla; lia).
        rewrite firstn_app_2, app_assoc. repeat split.
      * apply take_none in Et. exfalso. lia.
    + destruct sync.
      * exact (IH f (x :: b) bad post written calls kd Hb Hk Hbad Hf').
      * exact (IH f (x :: b) bad post written (calls + 1) kd Hb Hk Hbad Hf').
    + discriminate.
    + rewrite Hst. exact (IH f (x :: b) bad post written (calls + 1) kd Hb Hk Hbad Hf').
Qed.

(* the three shapes of `bad` spelled out *)
Corollary write_all_fault_fail sync pre buf kd post written calls :
  forallb (benign sync) pre = true -> sum_accepts pre < len buf ->
  negb (sync && (kd =? KInterrupted)) = true ->
  let script := pre ++ WFail kd :: post in
  let r := write_all sync (S (length script)) buf script written calls in
  w_ok r = Err (IoError kd) /\ w_written r = written ++ firstn (N.to_nat (sum_accepts pre)) buf.
Proof.
  intros Hb Hk Hkd. cbv zeta.
  pose proof (write_all_fault sync pre (S (length (pre ++ WFail kd :: post))) buf (WFail kd) post written calls kd
                Hb Hk (fault_kind_fail sync kd Hkd)) as H.
  cbv zeta in H. destruct H as (H1 & H2 & _); [rewrite app_length; lia|]. split; assumption.
Qed.

Corollary write_all_fault_zero sync pre buf bad post written calls :
  forallb (benign sync) pre = true -> sum_accepts pre < len buf ->
  bad = WZero \/ bad = WAccept 0 ->
  let script := pre ++ bad :: post in
  let r := write_all sync (S (length script)) buf script written calls in
  w_ok r = Err (IoError KWriteZero) /\ w_written r = written ++ firstn (N.to_nat (sum_accepts pre)) buf.
Proof.
  intros Hb Hk Hbad. cbv zeta.
  assert (Hf : fault_kind sync bad = Some KWriteZero) by (destruct Hbad; subst bad; reflexivity).
  pose proof (write_all_fault sync pre (S (length (pre ++ bad :: post))) buf bad post written calls KWriteZero
                Hb Hk Hf) as H.
  cbv zeta in H. destruct H as (H1 & H2 & _); [rewrite app_length; lia|]. split; assumption.
Qed.

(* --- chunked version ---

   A `WAccept n` step applies to ONE write call on the CURRENT chunk: it takes min(n, rest of that
   chunk) bytes.  So with n >= 2 a step can be "wasted" on a chunk boundary and the general
   statement (with `benign pre`, as for write_all) is FALSE for write_chunks: *)
Example write_chunks_fault_general_false :
  let chunks := [[1; 2]; [3; 4; 5]] in
  let pre := [WAccept 3] in
  forallb (benign true) pre = true /\ sum_accepts pre < clen chunks /\
  let r := write_chunks true chunks (pre ++ [WZero]) [] 0 in
  w_ok r = Err (IoError KWriteZero) /\
  w_written r = [1; 2] /\                                             (* two bytes, not three *)
  firstn (N.to_nat (sum_accepts pre)) (concat chunks) = [1; 2; 3].
Proof. vm_compute. repeat split. Qed.

(* The true statement: `pre` takes at most one byte per write call (unit_step: WAccept 1, Pending,
   retried Interrupted).  Empty chunks are allowed: write_all of an empty buffer returns Ok without
   touching the sink (write_all_nil), so they consume no script step. *)

(* a unit script that covers the whole buffer: Ok, and what is left of the script is again unit *)
Lemma write_all_unit_ok sync : forall pre fuel buf rest written calls,
  forallb (unit_step sync) pre = true -> len buf <= sum_accepts pre -> (length pre < fuel)%nat ->
  exists pre',
    let r := write_all sync fuel buf (pre ++ rest) written calls in
    w_ok r = Ok tt /\ w_written r = written ++ buf /\ w_script r = pre' ++ rest /\
    forallb (unit_step sync) pre' = true /\ sum_accepts pre' + len buf = sum_accepts pre.
Proof.
  induction pre as [|st pre IH]; intros fuel buf rest written calls Hu Hk Hf.
  - cbn [sum_accepts] in Hk. assert (E : buf = []) by (apply len_zero_nil; lia). subst buf.
    exists []. cbv zeta. rewrite write_all_nil. cbn [w_ok w_written w_script app forallb sum_accepts].
    rewrite app_nil_r, len_nil. repeat split.
  - destruct buf as [|x b].
    + exists (st :: pre). cbv zeta. rewrite write_all_nil. cbn [w_ok w_written w_script].
      rewrite app_nil_r, len_nil. repeat split; [exact Hu|lia].
    + destruct fuel as [|f]; [cbn [length] in Hf; lia|].
      cbn [length] in Hf. assert (Hf' : (length pre < f)%nat) by lia.
      cbn [forallb] in Hu. apply andb_true_iff in Hu as [Hst Hu].
      destruct st as [n| | |k]; cbn [unit_step benign] in Hst; cbn [sum_accepts] in Hk |- *.
      * destruct (N.eqb_spec n 1) as [E|E]; [subst n|discriminate].
        rewrite len_cons in Hk.
        destruct (IH f b rest (written ++ [x]) (calls + 1) Hu) as [pre' H]; [lia|exact Hf'|].
        cbv zeta in H. destruct H as (H1 & H2 & H3 & H4 & H5).
        exists pre'. cbv zeta. cbn [app write_all].
        change (1 =? 0) with false. cbv iota.
        change (take (x :: b) 1) with (match take b 0 with Some (a, b0) => Some (x :: a, b0) | None => None end).
        rewrite take_zero. rewrite H1, H2, H3, <- app_assoc. cbn [app].
        repeat split; [exact H4|rewrite len_cons; lia].
      * destruct sync.
        -- destruct (IH f (x :: b) rest written calls Hu Hk Hf') as [pre' H].
           exists pre'. cbv zeta. cbn [app write_all]. exact H.
        -- destruct (IH f (x :: b) rest written (calls + 1) Hu Hk Hf') as [pre' H].
           exists pre'. cbv zeta. cbn [app write_all]. exact H.
      * discriminate.
      * destruct (IH f (x :: b) rest written (calls + 1) Hu Hk Hf') as [pre' H].
        exists pre'. cbv zeta. cbn [app write_all]. rewrite Hst. exact H.
Qed.

Theorem write_chunks_fault sync : forall chunks pre bad post written calls kd,
  forallb (unit_step sync) pre = true ->
  sum_accepts pre < clen chunks ->
  fault_kind sync bad = Some kd ->
  let r := write_chunks sync chunks (pre ++ bad :: post) written calls in
  w_ok r = Err (IoError kd) /\
  w_written r = written ++ firstn (N.to_nat (sum_accepts pre)) (concat chunks) /\
  w_script r = post.
Proof.
  induction chunks as [|c cs IH]; intros pre bad post written calls kd Hu Hk Hbad; cbv zeta.
  - rewrite clen_nil in Hk. exfalso. lia.
  - cbn [write_chunks]. cbv zeta. rewrite clen_cons in Hk. cbn [concat].
    destruct (N.ltb_spec (sum_accepts pre) (len c)) as [L|L].
    + (* the fault hits inside this chunk *)
      pose proof (write_all_fault sync pre (S (length (pre ++ bad :: post))) c bad post written calls kd
                    (unit_steps_benign sync pre Hu) L Hbad) as H.
      cbv zeta in H. destruct H as (H1 & H2 & H3); [rewrite app_length; lia|].
      rewrite H1. cbv iota. rewrite H2, H3. rewrite firstn_app.
      replace (N.to_nat (sum_accepts pre) - length c)%nat with 0%nat by (unfold len in L; lia).
      rewrite firstn_O, app_nil_r. repeat split. exact H1.
    + (* this chunk goes through completely *)
      destruct (write_all_unit_ok sync pre (S (length (pre ++ bad :: post))) c (bad :: post) written calls Hu L)
        as [pre' H]; [rewrite app_length; lia|].
      cbv zeta in H. destruct H as (H1 & H2 & H3 & H4 & H5).
      rewrite H1, H2, H3.
      assert (Hk' : sum_accepts pre' < clen cs) by lia.
      pose proof (IH pre' bad post (written ++ c)
                    (w_calls (write_all sync (S (length (pre ++ bad :: post))) c (pre ++ bad :: post) written calls))
                    kd H4 Hk' Hbad) as G.
      cbv zeta in G. destruct G as (G1 & G2 & G3). rewrite G1, G2, G3.
      replace (N.to_nat (sum_accepts pre)) with (length c + N.to_nat (sum_accepts pre'))%nat
        by (unfold len in H5; lia).
      rewrite firstn_app_2, app_assoc. repeat split.
Qed.

Lemma unit_repeat sync k : forallb (unit_step sync) (repeat (WAccept 1) k) = true.
Proof. induction k as [|k IH]; cbn [repeat forallb unit_step]; [reflexivity|]. rewrite IH. reflexivity. Qed.
Lemma sum_accepts_repeat k : sum_accepts (repeat (WAccept 1) k) = N.of_nat k.
Proof. induction k as [|k IH]; cbn [repeat sum_accepts]; [reflexivity|]. rewrite IH. lia. Qed.

(* the statement as asked: one byte per write call, then the fault *)
Corollary write_chunks_fault_bytewise sync chunks k bad post kd :
  (k < length (concat chunks))%nat ->
  fault_kind sync bad = Some kd ->
  let r := write_chunks sync chunks (repeat (WAccept 1) k ++ bad :: post) [] 0 in
  w_ok r = Err (IoError kd) /\ w_written r = firstn k (concat chunks).
Proof.
  intros Hk Hbad. cbv zeta.
  pose proof (write_chunks_fault sync chunks (repeat (WAccept 1) k) bad post [] 0 kd (unit_repeat sync k)) as H.
  cbv zeta in H. rewrite sum_accepts_repeat, Nat2N.id in H.
  destruct H as (H1 & H2 & _); [unfold clen, len; lia|exact Hbad|].
  split; [exact H1|exact H2].
Qed.

(* --- entry points --- *)

Theorem encode_async_fault : forall vb pre bad post kd,
  forallb (benign false) pre = true ->
  sum_accepts pre < len (as_ref vb) ->
  fault_kind false bad = Some kd ->
  let r := encode_async_with (Ok vb) (pre ++ bad :: post) in
  w_ok r = Err (IoError kd) /\
  to_io (match w_ok r with Err e => e | _ => InvalidHeader end) = kd /\
  w_written r = firstn (N.to_nat (sum_accepts pre)) (as_ref vb) /\
  exists rest, as_ref vb = w_written r ++ rest.
Proof.
  intros vb pre bad post kd Hb Hk Hbad. cbv zeta. unfold encode_async_with.
  pose proof (write_all_fault false pre (S (length (pre ++ bad :: post))) (as_ref vb) bad post [] 0 kd Hb Hk Hbad) as H.
  cbv zeta in H. destruct H as (H1 & H2 & _); [rewrite app_length; lia|].
  rewrite H1, H2. cbn [app to_io]. repeat split.
  exists (skipn (N.to_nat (sum_accepts pre)) (as_ref vb)). symmetry. apply firstn_skipn.
Qed.

Theorem encode_stream_fault : forall chunks pre bad post kd,
  forallb (unit_step true) pre = true ->
  sum_accepts pre < clen chunks ->
  fault_kind true bad = Some kd ->
  let r := encode_stream_with chunks (pre ++ bad :: post) in
  w_ok r = Err (IoError kd) /\
  to_io (match w_ok r with Err e => e | _ => InvalidHeader end) = kd /\
  w_written r = firstn (N.to_nat (sum_accepts pre)) (concat chunks) /\
  exists rest, concat chunks = w_written r ++ rest.
Proof.
  intros chunks pre bad post kd Hu Hk Hbad. cbv zeta. unfold encode_stream_with.
  pose proof (write_chunks_fault true chunks pre bad post [] 0 kd Hu Hk Hbad) as H.
  cbv zeta in H. destruct H as (H1 & H2 & _).
  rewrite H1, H2. cbn [app to_io]. repeat split.
  exists (skipn (N.to_nat (sum_accepts pre)) (concat chunks)). symmetry. apply firstn_skipn.
Qed.

(* ------------------------------------------------------------------------------------------ *)
(* 5. no hypothesis on the script                                                             *)
(* ------------------------------------------------------------------------------------------ *)

(* what every write_all / write_chunks result satisfies, whatever the sink does:
   - the bytes written are `written` followed by a prefix of the buffer,
   - Ok means the whole buffer,
   - an error is the I/O error produced by one of the steps of the script (same kind),
   - the script left over is a suffix of the script. *)
Definition sound_res (sync : bool) (buf : bytes) (script : list wstep) (written : bytes) (r : wres) : Prop :=
  exists p s used,
    buf = p ++ s /\ script = used ++ w_script r /\ w_written r = written ++ p /\
    (w_ok r = Ok tt -> s = []) /\
    (forall e, w_ok r = Err e ->
       exists st k, In st script /\ fault_kind sync st = Some k /\ e = IoError k).

Theorem write_all_sound sync : forall fuel buf script written calls,
  sound_res sync buf script written (write_all sync fuel buf script written calls).
Proof.
  induction fuel as [|f IH]; intros buf script written calls.
  - destruct buf as [|x b]; cbn [write_all].
    + exists [], [], []. cbn [w_ok w_written w_script app]. rewrite app_nil_r.
      repeat split. intros e He. discriminate.
    + exists [], (x :: b), []. cbn [w_ok w_written w_script app]. rewrite app_nil_r.
      repeat split; [discriminate|intros e He; discriminate].
  - destruct buf as [|x b].
    + exists [], [], []. cbn [write_all w_ok w_written w_script app]. rewrite app_nil_r.
      repeat split. intros e He. discriminate.
    + destruct script as [|st sc].
      * exists (x :: b), [], []. cbn [write_all w_ok w_written w_script app]. rewrite app_nil_r.
        repeat split. intros e He. discriminate.
      * destruct st as [n| | |k]; cbn [write_all].
        -- destruct (n =? 0) eqn:En.
           ++ exists [], (x :: b), [WAccept n]. cbn [w_ok w_written w_script app]. rewrite app_nil_r.
              repeat split; [discriminate|]. intros e He. inversion He; subst e.
              exists (WAccept n), KWriteZero. cbn [fault_kind In]. rewrite En. repeat split. left. reflexivity.
           ++ destruct (take (x :: b) n) as [[a b']|] eqn:Et.
              ** apply take_some in Et as [Eab _].
                 destruct (IH b' sc (written ++ a) (calls + 1)) as (p & s & used & H1 & H2 & H3 & H4 & H5).
                 exists (a ++ p), s, (WAccept n :: used).
                 split; [rewrite Eab, H1, app_assoc; reflexivity|].
                 split; [cbn [app]; rewrite <- H2; reflexivity|].
                 split; [rewrite H3, app_assoc; reflexivity|].
                 split; [exact H4|].
                 intros e He. destruct (H5 e He) as (st & k & I1 & I2 & I3).
                 exists st, k. repeat split; [right; exact I1|exact I2|exact I3].
              ** exists (x :: b), [], [WAccept n]. cbn [w_ok w_written w_script app]. rewrite app_nil_r.
                 repeat split. intros e He. discriminate.
        -- assert (G : forall c, sound_res sync (x :: b) (WPend :: sc) written
                                  (write_all sync f (x :: b) sc written c)).
           { intros c. destruct (IH (x :: b) sc written c) as (p & s & used & H1 & H2 & H3 & H4 & H5).
             exists p, s, (WPend :: used). cbn [app]. rewrite <- H2.
             repeat split; [exact H1|exact H3|exact H4|]. intros e He.
             destruct (H5 e He) as (st & k & I1 & I2 & I3).
             exists st, k. repeat split; [right; exact I1|exact I2|exact I3]. }
           destruct sync; apply G.
        -- exists [], (x :: b), [WZero]. cbn [w_ok w_written w_script app]. rewrite app_nil_r.
           repeat split; [discriminate|]. intros e He. inversion He; subst e.
           exists WZero, KWriteZero. cbn [fault_kind In]. repeat split. left. reflexivity.
        -- destruct (sync && (k =? KInterrupted)) eqn:Ek.
           ++ destruct (IH (x :: b) sc written (calls + 1)) as (p & s & used & H1 & H2 & H3 & H4 & H5).
              exists p, s, (WFail k :: used). cbn [app]. rewrite <- H2.
              repeat split; [exact H1|exact H3|exact H4|]. intros e He.
              destruct (H5 e He) as (st & k' & I1 & I2 & I3).
              exists st, k'. repeat split; [right; exact I1|exact I2|exact I3].
           ++ exists [], (x :: b), [WFail k]. cbn [w_ok w_written w_script app]. rewrite app_nil_r.
              repeat split; [discriminate|]. intros e He. inversion He; subst e.
              exists (WFail k), k. cbn [fault_kind In]. rewrite Ek. repeat split. left. reflexivity.
Qed.

(* with at least S (length script) fuel the model artefact SiteFuel is unreachable; write_all has
   no other panic *)
Theorem write_all_no_panic sync : forall fuel buf script written calls s,
  (length script < fuel)%nat ->
  w_ok (write_all sync fuel buf script written calls) <> Panic s.
Proof.
  induction fuel as [|f IH]; intros buf script written calls s Hf; [exfalso; lia|].
  destruct buf as [|x b]; [cbn [write_all w_ok]; discriminate|].
  destruct script as [|st sc]; [cbn [write_all w_ok]; discriminate|].
  cbn [length] in Hf. assert (Hf' : (length sc < f)%nat) by lia.
  destruct st as [n| | |k]; cbn [write_all].
  - destruct (n =? 0) eqn:En; [cbn [w_ok]; discriminate|].
    destruct (take (x :: b) n) as [[a b']|] eqn:Et; [apply IH; exact Hf'|cbn [w_ok]; discriminate].
  - destruct sync; apply IH; exact Hf'.
  - cbn [w_ok]. discriminate.
  - destruct (sync && (k =? KInterrupted)) eqn:Ek; [apply IH; exact Hf'|cbn [w_ok]; discriminate].
Qed.

Theorem write_chunks_sound sync : forall chunks script written calls,
  sound_res sync (concat chunks) script written (write_chunks sync chunks script written calls).
Proof.
  induction chunks as [|c cs IH]; intros script written calls.
  - exists [], [], []. cbn [write_chunks w_ok w_written w_script app concat]. rewrite app_nil_r.
    repeat split. intros e He. discriminate.
  - cbn [write_chunks concat]. cbv zeta.
    destruct (write_all_sound sync (S (length script)) c script written calls)
      as (p & s & used & H1 & H2 & H3 & H4 & H5).
    remember (write_all sync (S (length script)) c script written calls) as r eqn:Er.
    destruct (w_ok r) as [[]| e | si] eqn:Eo.
    + specialize (H4 eq_refl). subst s. rewrite app_nil_r in H1. subst p.
      destruct (IH (w_script r) (w_written r) (w_calls r)) as (p' & s' & used' & G1 & G2 & G3 & G4 & G5).
      exists (c ++ p'), s', (used ++ used').
      split; [rewrite G1, app_assoc; reflexivity|].
      split; [rewrite <- app_assoc, <- G2; exact H2|].
      split; [rewrite G3, H3, app_assoc; reflexivity|].
      split; [exact G4|]. intros e He.
      destruct (G5 e He) as (st & k & I1 & I2 & I3). exists st, k.
      repeat split; [|exact I2|exact I3]. rewrite H2. apply in_or_app. right. exact I1.
    + exists p, (s ++ concat cs), used. rewrite H1, <- app_assoc.
      repeat split; [exact H2|exact H3|rewrite Eo; discriminate|].
      intros e' He'. apply H5. rewrite <- Eo. exact He'.
    + exists p, (s ++ concat cs), used. rewrite H1, <- app_assoc.
      repeat split; [exact H2|exact H3|rewrite Eo; discriminate|].
      intros e' He'. rewrite Eo in He'. discriminate.
Qed.

Theorem write_chunks_no_panic sync : forall chunks script written calls s,
  w_ok (write_chunks sync chunks script written calls) <> Panic s.
Proof.
  induction chunks as [|c cs IH]; intros script written calls s; [cbn [write_chunks w_ok]; discriminate|].
  cbn [write_chunks]. cbv zeta.
  pose proof (write_all_no_panic sync (S (length script)) c script written calls) as Hn.
  destruct (w_ok (write_all sync (S (length script)) c script written calls)) as [u|e|si] eqn:Eo.
  - apply IH.
  - rewrite Eo. discriminate.
  - exfalso. apply (Hn si); [lia|reflexivity].
Qed.

(* entry points, any sink whatsoever: never a panic; Ok means all the bytes,
   an error is an I/O error whose kind is that of a step of the script, and in every case only a
   prefix of the correct encoding reached the sink *)
Corollary encode_async_sound vb script :
  let r := encode_async_with (Ok vb) script in
  (exists rest, as_ref vb = w_written r ++ rest) /\
  (w_ok r = Ok tt -> w_written r = as_ref vb) /\
  (forall e, w_ok r = Err e -> exists st k, In st script /\ fault_kind false st = Some k /\ e = IoError k) /\
  (forall s, w_ok r <> Panic s).
Proof.
  cbv zeta. unfold encode_async_with.
  destruct (write_all_sound false (S (length script)) (as_ref vb) script [] 0)
    as (p & s & used & H1 & H2 & H3 & H4 & H5).
  cbn [app] in H3. repeat split.
  - exists s. rewrite H3. exact H1.
  - intros Ho. rewrite (H4 Ho), app_nil_r in H1. congruence.
  - exact H5.
  - intros si. apply write_all_no_panic. lia.
Qed.

Corollary encode_stream_sound chunks script :
  let r := encode_stream_with chunks script in
  (exists rest, concat chunks = w_written r ++ rest) /\
  (w_ok r = Ok tt -> w_written r = concat chunks) /\
  (forall e, w_ok r = Err e -> exists st k, In st script /\ fault_kind true st = Some k /\ e = IoError k) /\
  (forall s, w_ok r <> Panic s).
Proof.
  cbv zeta. unfold encode_stream_with.
  destruct (write_chunks_sound true chunks script [] 0) as (p & s & used & H1 & H2 & H3 & H4 & H5).
  cbn [app] in H3. repeat split.
  - exists s. rewrite H3. exact H1.
  - intros Ho. rewrite (H4 Ho), app_nil_r in H1. congruence.
  - exact H5.
  - intros si. apply write_chunks_no_panic.
Qed.

(* ------------------------------------------------------------------------------------------ *)
(* 6. error-kind conversions (From<io::Error> for Error, From<Error> for io::Error, is_eof)   *)
(* ------------------------------------------------------------------------------------------ *)

Lemma to_io_from_io k : to_io (from_io k) = k.
Proof. reflexivity. Qed.
Lemma from_io_is_io k : is_io (from_io k) = true.
Proof. reflexivity. Qed.
Lemma to_io_non_io : forall e, is_io e = false -> to_io e = KInvalidData.
Proof. intros e H. destruct e; try reflexivity. discriminate. Qed.
Lemma is_eof_from_io k : is_eof (from_io k) = (k =? KUnexpectedEof).
Proof. reflexivity. Qed.
Lemma is_eof_is_io e : is_eof e = true -> is_io e = true.
Proof. destruct e; try discriminate. reflexivity. Qed.
Lemma from_io_to_io e : is_io e = true -> from_io (to_io e) = e.
Proof. destruct e; try discriminate. reflexivity. Qed.

(* ------------------------------------------------------------------------------------------ *)
(* Examples                                                                                   *)
(* ------------------------------------------------------------------------------------------ *)

Definition ex_buf : bytes := [1; 2; 3; 4; 5].
Definition ex_chunks : list bytes := [[1; 2]; []; [3; 4; 5]].

Example ex_benign_async :
  let r := encode_async_with (Ok (Dynamic ex_buf)) [WAccept 2; WPend; WAccept 1] in
  w_ok r = Ok tt /\ w_written r = ex_buf /\ w_script r = [] /\ w_calls r = 4.
Proof. vm_compute. repeat split. Qed.

Example ex_benign_sync :
  let r := write_all true 4 ex_buf [WAccept 2; WPend; WAccept 1] [] 0 in
  w_ok r = Ok tt /\ w_written r = ex_buf /\ w_script r = [] /\ w_calls r = 3.
Proof. vm_compute. repeat split. Qed.

Example ex_benign_stream :
  let r := encode_stream_with ex_chunks [WAccept 2; WPend; WAccept 1] in
  w_ok r = Ok tt /\ w_written r = ex_buf /\ w_script r = [] /\ w_calls r = 3.
Proof. vm_compute. repeat split. Qed.

Example ex_fail_async :
  let r := encode_async_with (Ok (Dynamic ex_buf)) [WAccept 2; WFail 5] in
  w_ok r = Err (IoError 5) /\ w_written r = [1; 2].
Proof. vm_compute. repeat split. Qed.

Example ex_fail_stream :
  let r := encode_stream_with ex_chunks [WAccept 2; WFail 5] in
  w_ok r = Err (IoError 5) /\ w_written r = [1; 2] /\ w_calls r = 2.
Proof. vm_compute. repeat split. Qed.

Example ex_zero_async :
  let r := encode_async_with (Ok (Dynamic ex_buf)) [WAccept 2; WZero] in
  w_ok r = Err (IoError KWriteZero) /\ w_written r = [1; 2].
Proof. vm_compute. repeat split. Qed.

Example ex_zero_stream :
  let r := encode_stream_with ex_chunks [WAccept 2; WZero] in
  w_ok r = Err (IoError KWriteZero) /\ w_written r = [1; 2].
Proof. vm_compute. repeat split. Qed.

(* Interrupted: retried by the blocking write_all, surfaced by the async one *)
Example ex_interrupted_stream :
  let r := encode_stream_with ex_chunks [WAccept 2; WFail KInterrupted; WAccept 3] in
  w_ok r = Ok tt /\ w_written r = ex_buf.
Proof. vm_compute. repeat split. Qed.

Example ex_interrupted_async :
  let r := encode_async_with (Ok (Dynamic ex_buf)) [WAccept 2; WFail KInterrupted; WAccept 3] in
  w_ok r = Err (IoError KInterrupted) /\ w_written r = [1; 2].
Proof. vm_compute. repeat split. Qed.

(* one byte per call over the chunk list, the empty chunk costs no step *)
Example ex_bytewise_stream :
  let r := encode_stream_with ex_chunks (repeat (WAccept 1) 3 ++ [WFail 7; WAccept 9]) in
  w_ok r = Err (IoError 7) /\ w_written r = [1; 2; 3] /\ w_script r = [WAccept 9].
Proof. vm_compute. repeat split. Qed.

(* exhausted script: the sink takes everything *)
Example ex_exhausted :
  let r := encode_stream_with ex_chunks [] in
  w_ok r = Ok tt /\ w_written r = ex_buf /\ w_calls r = 2.
Proof. vm_compute. repeat split. Qed.

Print Assumptions write_all_benign.
Print Assumptions write_chunks_benign.
Print Assumptions encode_async_any_sink.
Print Assumptions encode_stream_any_sink.
Print Assumptions encode_async_sinks_agree.
Print Assumptions encode_stream_sinks_agree.
Print Assumptions encode_async_stream_agree.
Print Assumptions write_all_fault.
Print Assumptions write_all_fault_fail.
Print Assumptions write_all_fault_zero.
Print Assumptions write_chunks_fault.
Print Assumptions write_chunks_fault_bytewise.
Print Assumptions encode_async_fault.
Print Assumptions encode_stream_fault.
Print Assumptions write_all_sound.
Print Assumptions write_chunks_sound.
Print Assumptions write_all_no_panic.
Print Assumptions write_chunks_no_panic.
Print Assumptions encode_async_sound.
Print Assumptions encode_stream_sound.
Print Assumptions to_io_from_io.
Print Assumptions to_io_non_io.
Print Assumptions is_eof_from_io.
