(* Proofs/Spec5Tests.v — executable checks of the C04 / C10 statements on hand-made v5 frames, written
   BEFORE proving (generated list, expectations frozen after inspection of every verdict).

   For a control byte cb and a body, four results are compared:
     m_d, m_r = strict5 Debug / Release cb (len body) body   (the modelled strict front-end)
     g_s, g_l = SP.parse5 true / false on cb :: write_var_int (len body) ++ body
                                                             (reference grammar, strict / lenient
                                                              about non-minimal variable byte integers)
   and every test asserts one of four verdicts, each of which implies the three statements
     (i)   m = Some p -> g_l = Some p      (ii) g_s = Some p -> m = Some p
     (iii) g_s = g_l -> m = g_s
   for both profiles:
     ACC   all four are equal and accept;
     REJ   all four reject;
     NMREJ only the lenient grammar accepts: the frame has a non-minimal integer and the code
           refuses it (PUBLISH, SUBSCRIBE, SUBACK, UNSUBACK: lengths recomputed from the values);
     NMACC the strict grammar rejects, the code and the lenient grammar accept with the same
           packet (the deliberate leniency of the library).
   No test needed a fifth verdict, i.e. no frame was found on which the code accepts and the
   lenient grammar does not (or with another value). *)
From MQ Require Import Proofs.Tactics Spec.SpecParse Model.Valid Proofs.Spec5Def.
Open Scope N_scope.

Definition m_ prof cb body := strict5 prof cb (len body) body.
Definition g_ strict cb body := SP.parse5 strict (frame5 cb body).

Definition ACC cb body : Prop :=
  m_ Debug cb body = g_ true cb body /\ m_ Release cb body = g_ true cb body /\
  g_ false cb body = g_ true cb body /\ g_ true cb body <> None.
Definition REJ cb body : Prop :=
  m_ Debug cb body = None /\ m_ Release cb body = None /\ g_ true cb body = None /\ g_ false cb body = None.
Definition NMREJ cb body : Prop :=
  m_ Debug cb body = None /\ m_ Release cb body = None /\ g_ true cb body = None /\ g_ false cb body <> None.
Definition NMACC cb body : Prop :=
  m_ Debug cb body = g_ false cb body /\ m_ Release cb body = g_ false cb body /\
  g_ true cb body = None /\ g_ false cb body <> None.

(* each verdict implies the three statements *)
Definition three (cb : N) (body : bytes) : Prop :=
  forall prof,
    (forall p, m_ prof cb body = Some p -> g_ false cb body = Some p) /\
    (forall p, g_ true cb body = Some p -> m_ prof cb body = Some p) /\
    (g_ true cb body = g_ false cb body -> m_ prof cb body = g_ true cb body).
Lemma acc_three cb body : ACC cb body -> three cb body.
Proof. intros (H1 & H2 & H3 & _) [|]; repeat split; intros; congruence. Qed.
Lemma rej_three cb body : REJ cb body -> three cb body.
Proof. intros (H1 & H2 & H3 & H4) [|]; repeat split; intros; congruence. Qed.
Lemma nmrej_three cb body : NMREJ cb body -> three cb body.
Proof. intros (H1 & H2 & H3 & H4) [|]; repeat split; intros; congruence. Qed.
Lemma nmacc_three cb body : NMACC cb body -> three cb body.
Proof. intros (H1 & H2 & H3 & H4) [|]; repeat split; intros; congruence. Qed.

(* shape of the four results, for inspection: 1 = Some, 0 = None, in the order m_d m_r g_s g_l *)
Definition shape cb body : N * N * N * N :=
  let f (o : option V5.packet) : N := match o with Some _ => 1 | None => 0 end in
  (f (m_ Debug cb body), f (m_ Release cb body), f (g_ true cb body), f (g_ false cb body)).

Ltac verdict := vm_compute; repeat split; first [reflexivity | discriminate].

(* PINGREQ *)
Example t1 : ACC 192 []. Proof. verdict. Qed.
(* PINGREQ with a body byte *)
Example t2 : REJ 192 [0]. Proof. verdict. Qed.
(* PINGREQ flags 1 *)
Example t3 : REJ 193 []. Proof. verdict. Qed.
(* PINGRESP *)
Example t4 : ACC 208 []. Proof. verdict. Qed.
(* PINGRESP flags 1 *)
Example t5 : REJ 209 []. Proof. verdict. Qed.
(* reserved type 0 *)
Example t6 : REJ 0 []. Proof. verdict. Qed.
(* reserved type 0 with body *)
Example t7 : REJ 0 [1]. Proof. verdict. Qed.
(* DISCONNECT rl 0 *)
Example t8 : ACC 224 []. Proof. verdict. Qed.
(* DISCONNECT rl 1 code 0 *)
Example t9 : ACC 224 [0]. Proof. verdict. Qed.
(* DISCONNECT code 4 (with will) *)
Example t10 : ACC 224 [4]. Proof. verdict. Qed.
(* DISCONNECT invalid code 1 *)
Example t11 : REJ 224 [1]. Proof. verdict. Qed.
(* DISCONNECT 0x8C (pinned D3: refused) *)
Example t12 : REJ 224 [140]. Proof. verdict. Qed.
(* DISCONNECT rl 2 code, empty props *)
Example t13 : ACC 224 [0;0]. Proof. verdict. Qed.
(* DISCONNECT session expiry *)
Example t14 : ACC 224 [0;5;17;0;0;0;9]. Proof. verdict. Qed.
(* DISCONNECT property length 0 spelled 80 00 *)
Example t15 : NMACC 224 [0;128;0]. Proof. verdict. Qed.
(* DISCONNECT flags 1 *)
Example t16 : REJ 225 []. Proof. verdict. Qed.
(* DISCONNECT property length 1, nothing follows *)
Example t17 : REJ 224 [0;1]. Proof. verdict. Qed.
(* DISCONNECT trailing byte after empty props *)
Example t18 : REJ 224 [0;0;0]. Proof. verdict. Qed.
(* DISCONNECT empty reason string *)
Example t19 : ACC 224 [0;3;31;0;0]. Proof. verdict. Qed.
(* DISCONNECT server keep alive: not allowed here *)
Example t20 : REJ 224 [0;3;19;0;1]. Proof. verdict. Qed.
(* DISCONNECT duplicate reason string *)
Example t21 : REJ 224 [0;6;31;0;0;31;0;0]. Proof. verdict. Qed.
(* DISCONNECT two user properties *)
Example t22 : ACC 224 [0;10;38;0;0;0;0;38;0;0;0;0]. Proof. verdict. Qed.
(* DISCONNECT server reference *)
Example t23 : ACC 224 [0;4;28;0;1;97]. Proof. verdict. Qed.
(* DISCONNECT property length one short *)
Example t24 : REJ 224 [0;4;17;0;0;0;9]. Proof. verdict. Qed.
(* DISCONNECT property length one long *)
Example t25 : REJ 224 [0;6;17;0;0;0;9]. Proof. verdict. Qed.
(* DISCONNECT user property name bad UTF-8 *)
Example t26 : REJ 224 [0;7;38;0;1;255;0;0]. Proof. verdict. Qed.
(* AUTH rl 0 *)
Example t27 : ACC 240 []. Proof. verdict. Qed.
(* AUTH rl 1: property length missing *)
Example t28 : REJ 240 [0]. Proof. verdict. Qed.
(* AUTH rl 2 *)
Example t29 : ACC 240 [0;0]. Proof. verdict. Qed.
(* AUTH continue *)
Example t30 : ACC 240 [24;0]. Proof. verdict. Qed.
(* AUTH re-authenticate *)
Example t31 : ACC 240 [25;0]. Proof. verdict. Qed.
(* AUTH invalid code *)
Example t32 : REJ 240 [1;0]. Proof. verdict. Qed.
(* AUTH method *)
Example t33 : ACC 240 [24;5;21;0;2;97;98]. Proof. verdict. Qed.
(* AUTH data is binary *)
Example t34 : ACC 240 [24;4;22;0;1;255]. Proof. verdict. Qed.
(* AUTH method bad UTF-8 *)
Example t35 : REJ 240 [24;4;21;0;1;255]. Proof. verdict. Qed.
(* AUTH non-minimal property length *)
Example t36 : NMACC 240 [24;128;0]. Proof. verdict. Qed.
(* AUTH flags 1 *)
Example t37 : REJ 241 []. Proof. verdict. Qed.
(* AUTH session expiry not allowed *)
Example t38 : REJ 240 [24;5;17;0;0;0;1]. Proof. verdict. Qed.
(* PUBACK rl 2 *)
Example t39 : ACC 64 [0;1]. Proof. verdict. Qed.
(* PUBACK pid 0 *)
Example t40 : REJ 64 [0;0]. Proof. verdict. Qed.
(* PUBACK rl 3 success *)
Example t41 : ACC 64 [0;1;0]. Proof. verdict. Qed.
(* PUBACK no matching subscribers *)
Example t42 : ACC 64 [0;1;16]. Proof. verdict. Qed.
(* PUBACK invalid code *)
Example t43 : REJ 64 [0;1;1]. Proof. verdict. Qed.
(* PUBACK rl 4 *)
Example t44 : ACC 64 [0;1;16;0]. Proof. verdict. Qed.
(* PUBACK property length spelled 80 00 *)
Example t45 : NMACC 64 [0;1;0;128;0]. Proof. verdict. Qed.
(* PUBACK reason string *)
Example t46 : ACC 64 [0;1;16;3;31;0;0]. Proof. verdict. Qed.
(* PUBACK property length +1 *)
Example t47 : REJ 64 [0;1;16;4;31;0;0]. Proof. verdict. Qed.
(* PUBACK property length -1 *)
Example t48 : REJ 64 [0;1;16;2;31;0;0]. Proof. verdict. Qed.
(* PUBACK rl 1 *)
Example t49 : REJ 64 [0]. Proof. verdict. Qed.
(* PUBACK rl 0 *)
Example t50 : REJ 64 []. Proof. verdict. Qed.
(* PUBACK flags 1 *)
Example t51 : REJ 65 [0;1]. Proof. verdict. Qed.
(* PUBREC *)
Example t52 : ACC 80 [0;1;16]. Proof. verdict. Qed.
(* PUBREC with a PUBREL code *)
Example t53 : REJ 80 [0;1;146]. Proof. verdict. Qed.
(* PUBREL pid not found *)
Example t54 : ACC 98 [0;1;146]. Proof. verdict. Qed.
(* PUBREL with a PUBACK code *)
Example t55 : REJ 98 [0;1;16]. Proof. verdict. Qed.
(* PUBREL flags 0 *)
Example t56 : REJ 96 [0;1]. Proof. verdict. Qed.
(* PUBCOMP rl 4 *)
Example t57 : ACC 112 [0;1;146;0]. Proof. verdict. Qed.
(* PUBCOMP rl 2 *)
Example t58 : ACC 112 [0;1]. Proof. verdict. Qed.
(* PUBACK disallowed property *)
Example t59 : REJ 64 [0;1;0;2;17;0]. Proof. verdict. Qed.
(* PUBACK user property *)
Example t60 : ACC 64 [0;1;0;5;38;0;0;0;0]. Proof. verdict. Qed.
(* PUBACK property id 0 *)
Example t61 : REJ 64 [0;1;0;1;0]. Proof. verdict. Qed.
(* PUBACK unknown property id 4 *)
Example t62 : REJ 64 [0;1;0;2;4;0]. Proof. verdict. Qed.
(* PUBACK non-minimal property length 1, one byte of garbage *)
Example t63 : REJ 64 [0;1;0;129;0;0]. Proof. verdict. Qed.
(* CONNACK *)
Example t64 : ACC 32 [0;0;0]. Proof. verdict. Qed.
(* CONNACK session present *)
Example t65 : ACC 32 [1;0;0]. Proof. verdict. Qed.
(* CONNACK flags 2 *)
Example t66 : REJ 32 [2;0;0]. Proof. verdict. Qed.
(* CONNACK invalid code *)
Example t67 : REJ 32 [0;1;0]. Proof. verdict. Qed.
(* CONNACK unspecified error *)
Example t68 : ACC 32 [0;128;0]. Proof. verdict. Qed.
(* CONNACK without property length *)
Example t69 : REJ 32 [0;0]. Proof. verdict. Qed.
(* CONNACK rl 1 *)
Example t70 : REJ 32 [0]. Proof. verdict. Qed.
(* CONNACK rl 0 *)
Example t71 : REJ 32 []. Proof. verdict. Qed.
(* CONNACK non-minimal property length *)
Example t72 : NMACC 32 [0;0;128;0]. Proof. verdict. Qed.
(* CONNACK four-byte zero property length *)
Example t73 : NMACC 32 [0;0;128;128;128;0]. Proof. verdict. Qed.
(* CONNACK five-byte property length *)
Example t74 : REJ 32 [0;0;128;128;128;128;0]. Proof. verdict. Qed.
(* CONNACK maximum QoS 1 *)
Example t75 : ACC 32 [0;0;2;36;1]. Proof. verdict. Qed.
(* CONNACK maximum QoS 2 *)
Example t76 : REJ 32 [0;0;2;36;2]. Proof. verdict. Qed.
(* CONNACK retain available *)
Example t77 : ACC 32 [0;0;2;37;1]. Proof. verdict. Qed.
(* CONNACK retain available 2 *)
Example t78 : REJ 32 [0;0;2;37;2]. Proof. verdict. Qed.
(* CONNACK receive maximum *)
Example t79 : ACC 32 [0;0;3;33;0;10]. Proof. verdict. Qed.
(* CONNACK maximum packet size *)
Example t80 : ACC 32 [0;0;5;39;0;0;1;0]. Proof. verdict. Qed.
(* CONNACK assigned client id *)
Example t81 : ACC 32 [0;0;4;18;0;1;97]. Proof. verdict. Qed.
(* CONNACK payload format indicator not allowed *)
Example t82 : REJ 32 [0;0;2;1;1]. Proof. verdict. Qed.
(* CONNACK every property once *)
Example t83 : ACC 32 [1;0;61;17;0;0;0;1;33;0;2;36;0;37;1;39;0;0;0;9;18;0;1;99;34;0;3;31;0;1;114;40;1;41;0;42;1;19;0;7;26;0;1;105;28;0;1;115;21;0;1;109;22;0;2;0;255;38;0;1;107;0;1;118]. Proof. verdict. Qed.
(* CONNACK duplicate wildcard-available *)
Example t84 : REJ 32 [1;0;63;17;0;0;0;1;33;0;2;36;0;37;1;39;0;0;0;9;18;0;1;99;34;0;3;31;0;1;114;40;1;41;0;42;1;19;0;7;26;0;1;105;28;0;1;115;21;0;1;109;22;0;2;0;255;38;0;1;107;0;1;118;40;0]. Proof. verdict. Qed.
(* CONNACK flags 1 *)
Example t85 : REJ 33 [0;0;0]. Proof. verdict. Qed.
(* PUBLISH qos0 no payload *)
Example t86 : ACC 48 [0;1;97;0]. Proof. verdict. Qed.
(* PUBLISH qos0 payload *)
Example t87 : ACC 48 [0;1;97;0;1;2;3]. Proof. verdict. Qed.
(* PUBLISH property length missing *)
Example t88 : REJ 48 [0;1;97]. Proof. verdict. Qed.
(* PUBLISH qos1 *)
Example t89 : ACC 50 [0;1;97;0;1;0]. Proof. verdict. Qed.
(* PUBLISH qos1 pid 0 *)
Example t90 : REJ 50 [0;1;97;0;0;0]. Proof. verdict. Qed.
(* PUBLISH qos1 pid truncated *)
Example t91 : REJ 50 [0;1;97;0]. Proof. verdict. Qed.
(* PUBLISH qos2 payload *)
Example t92 : ACC 52 [0;1;97;1;0;0;9]. Proof. verdict. Qed.
(* PUBLISH qos3 *)
Example t93 : REJ 54 [0;1;97;0;1;0]. Proof. verdict. Qed.
(* PUBLISH topic + *)
Example t94 : REJ 48 [0;1;43;0]. Proof. verdict. Qed.
(* PUBLISH topic NUL *)
Example t95 : REJ 48 [0;1;0;0]. Proof. verdict. Qed.
(* PUBLISH empty topic (pinned L6) *)
Example t96 : ACC 48 [0;0;0]. Proof. verdict. Qed.
(* PUBLISH dup retain *)
Example t97 : ACC 57 [0;1;97;0]. Proof. verdict. Qed.
(* PUBLISH payload format 1, UTF-8 payload *)
Example t98 : ACC 48 [0;1;97;2;1;1;104;105]. Proof. verdict. Qed.
(* PUBLISH payload format 1, bad payload (pinned D4) *)
Example t99 : REJ 48 [0;1;97;2;1;1;255]. Proof. verdict. Qed.
(* PUBLISH payload format 0, binary payload *)
Example t100 : ACC 48 [0;1;97;2;1;0;255]. Proof. verdict. Qed.
(* PUBLISH payload format 2 *)
Example t101 : REJ 48 [0;1;97;2;1;2]. Proof. verdict. Qed.
(* PUBLISH payload format 1, empty payload *)
Example t102 : ACC 48 [0;1;97;2;1;1]. Proof. verdict. Qed.
(* PUBLISH subscription identifier *)
Example t103 : ACC 48 [0;1;97;2;11;5]. Proof. verdict. Qed.
(* PUBLISH subscription identifier 5 spelled 85 00 *)
Example t104 : NMREJ 48 [0;1;97;3;11;133;0]. Proof. verdict. Qed.
(* PUBLISH same, property length counts the minimal width *)
Example t105 : REJ 48 [0;1;97;2;11;133;0]. Proof. verdict. Qed.
(* PUBLISH same with a payload byte *)
Example t106 : REJ 48 [0;1;97;2;11;133;0;9]. Proof. verdict. Qed.
(* PUBLISH property length 80 00 *)
Example t107 : NMREJ 48 [0;1;97;128;0]. Proof. verdict. Qed.
(* PUBLISH property length 80 00 and payload *)
Example t108 : NMREJ 48 [0;1;97;128;0;7]. Proof. verdict. Qed.
(* PUBLISH subscription identifier 0 *)
Example t109 : ACC 48 [0;1;97;2;11;0]. Proof. verdict. Qed.
(* PUBLISH topic alias *)
Example t110 : ACC 48 [0;1;97;3;35;0;5]. Proof. verdict. Qed.
(* PUBLISH response topic *)
Example t111 : ACC 48 [0;1;97;4;8;0;1;114]. Proof. verdict. Qed.
(* PUBLISH response topic # *)
Example t112 : REJ 48 [0;1;97;4;8;0;1;35]. Proof. verdict. Qed.
(* PUBLISH correlation data *)
Example t113 : ACC 48 [0;1;97;4;9;0;1;255]. Proof. verdict. Qed.
(* PUBLISH content type *)
Example t114 : ACC 48 [0;1;97;4;3;0;1;120]. Proof. verdict. Qed.
(* PUBLISH message expiry *)
Example t115 : ACC 48 [0;1;97;5;2;0;0;0;7]. Proof. verdict. Qed.
(* PUBLISH message expiry truncated *)
Example t116 : REJ 48 [0;1;97;5;2;0;0;0]. Proof. verdict. Qed.
(* PUBLISH two subscription identifiers (pinned D1) *)
Example t117 : REJ 48 [0;1;97;4;11;1;11;2]. Proof. verdict. Qed.
(* PUBLISH property length beyond the body *)
Example t118 : REJ 48 [0;1;97;5;11;1]. Proof. verdict. Qed.
(* PUBLISH session expiry not allowed *)
Example t119 : REJ 48 [0;1;97;5;17;0;0;0;1]. Proof. verdict. Qed.
(* PUBLISH four-byte subscription identifier *)
Example t120 : ACC 48 [0;1;97;5;11;128;128;128;1]. Proof. verdict. Qed.
(* PUBLISH five-byte subscription identifier *)
Example t121 : REJ 48 [0;1;97;6;11;128;128;128;128;1]. Proof. verdict. Qed.
(* PUBLISH largest subscription identifier and payload *)
Example t122 : ACC 48 [0;1;97;5;11;255;255;255;127;1]. Proof. verdict. Qed.
(* PUBLISH property length -1 (rest would be payload) *)
Example t123 : REJ 48 [0;1;97;1;2;0;0;0;7]. Proof. verdict. Qed.
(* PUBLISH two properties *)
Example t124 : ACC 48 [0;1;97;7;2;0;0;0;7;1;0]. Proof. verdict. Qed.
(* PUBLISH property straddles the section end *)
Example t125 : REJ 48 [0;1;97;6;2;0;0;0;7;1;0]. Proof. verdict. Qed.
(* PUBLISH 200-byte payload (two-byte remaining length) *)
Example t126 : ACC 48 [0;1;97;0;65;65;65;65;65;65;65;65;65;65;65;65;65;65;65;65;65;65;65;65;65;65;65;65;65;65;65;65;65;65;65;65;65;65;65;65;65;65;65;65;65;65;65;65;65;65;65;65;65;65;65;65;65;65;65;65;65;65;65;65;65;65;65;65;65;65;65;65;65;65;65;65;65;65;65;65;65;65;65;65;65;65;65;65;65;65;65;65;65;65;65;65;65;65;65;65;65;65;65;65;65;65;65;65;65;65;65;65;65;65;65;65;65;65;65;65;65;65;65;65;65;65;65;65;65;65;65;65;65;65;65;65;65;65;65;65;65;65;65;65;65;65;65;65;65;65;65;65;65;65;65;65;65;65;65;65;65;65;65;65;65;65;65;65;65;65;65;65;65;65;65;65;65;65;65;65;65;65;65;65;65;65;65;65;65;65;65;65;65;65;65;65;65;65;65;65;65;65;65;65]. Proof. verdict. Qed.
(* PUBLISH topic bad UTF-8 *)
Example t127 : REJ 48 [0;2;195;40;0]. Proof. verdict. Qed.
(* PUBLISH topic truncated *)
Example t128 : REJ 48 [0;3;97]. Proof. verdict. Qed.
(* PUBLISH rl 0 *)
Example t129 : REJ 48 []. Proof. verdict. Qed.
(* SUBSCRIBE one filter *)
Example t130 : ACC 130 [0;1;0;0;1;97;0]. Proof. verdict. Qed.
(* SUBSCRIBE no filter *)
Example t131 : REJ 130 [0;1;0]. Proof. verdict. Qed.
(* SUBSCRIBE flags 0 *)
Example t132 : REJ 128 [0;1;0;0;1;97;0]. Proof. verdict. Qed.
(* SUBSCRIBE options qos1 nl rap rh1 *)
Example t133 : ACC 130 [0;1;0;0;1;97;29]. Proof. verdict. Qed.
(* SUBSCRIBE qos 3 *)
Example t134 : REJ 130 [0;1;0;0;1;97;3]. Proof. verdict. Qed.
(* SUBSCRIBE retain handling 3 *)
Example t135 : REJ 130 [0;1;0;0;1;97;48]. Proof. verdict. Qed.
(* SUBSCRIBE reserved bit 6 *)
Example t136 : REJ 130 [0;1;0;0;1;97;64]. Proof. verdict. Qed.
(* SUBSCRIBE reserved bit 7 *)
Example t137 : REJ 130 [0;1;0;0;1;97;128]. Proof. verdict. Qed.
(* SUBSCRIBE qos2 rh2 *)
Example t138 : ACC 130 [0;1;0;0;1;97;34]. Proof. verdict. Qed.
(* SUBSCRIBE subscription identifier *)
Example t139 : ACC 130 [0;1;2;11;7;0;1;97;0]. Proof. verdict. Qed.
(* SUBSCRIBE subscription identifier 1 spelled 81 00, property length 3 *)
Example t140 : NMREJ 130 [0;1;3;11;129;0;0;1;97;0]. Proof. verdict. Qed.
(* SUBSCRIBE same, property length 2 (minimal width) *)
Example t141 : REJ 130 [0;1;2;11;129;0;0;1;97;0]. Proof. verdict. Qed.
(* SUBSCRIBE same with one more byte *)
Example t142 : REJ 130 [0;1;2;11;129;0;0;1;97;0;0]. Proof. verdict. Qed.
(* SUBSCRIBE property length 80 00 *)
Example t143 : NMREJ 130 [0;1;128;0;0;1;97;0]. Proof. verdict. Qed.
(* SUBSCRIBE filter +x (fix F3) *)
Example t144 : REJ 130 [0;1;0;0;2;43;120;0]. Proof. verdict. Qed.
(* SUBSCRIBE filter # *)
Example t145 : ACC 130 [0;1;0;0;1;35;0]. Proof. verdict. Qed.
(* SUBSCRIBE shared filter *)
Example t146 : ACC 130 [0;1;0;0;10;36;115;104;97;114;101;47;103;47;97;1]. Proof. verdict. Qed.
(* SUBSCRIBE shared filter without a filter *)
Example t147 : REJ 130 [0;1;0;0;9;36;115;104;97;114;101;47;103;47;1]. Proof. verdict. Qed.
(* SUBSCRIBE two filters *)
Example t148 : ACC 130 [0;1;0;0;5;97;47;43;47;98;0;0;3;99;47;35;2]. Proof. verdict. Qed.
(* SUBSCRIBE second filter truncated *)
Example t149 : REJ 130 [0;1;0;0;1;97;0;0;5;98]. Proof. verdict. Qed.
(* SUBSCRIBE options byte missing *)
Example t150 : REJ 130 [0;1;0;0;1;97]. Proof. verdict. Qed.
(* SUBSCRIBE user property *)
Example t151 : ACC 130 [0;1;5;38;0;0;0;0;0;1;97;0]. Proof. verdict. Qed.
(* SUBSCRIBE pid 0 *)
Example t152 : REJ 130 [0;0;0;0;1;97;0]. Proof. verdict. Qed.
(* SUBSCRIBE reason string not allowed *)
Example t153 : REJ 130 [0;1;3;31;0;0;0;1;97;0]. Proof. verdict. Qed.
(* SUBSCRIBE empty filter *)
Example t154 : REJ 130 [0;1;0;0;0;0]. Proof. verdict. Qed.
(* SUBSCRIBE two subscription identifiers *)
Example t155 : REJ 130 [0;1;4;11;1;11;2;0;1;97;0]. Proof. verdict. Qed.
(* SUBACK one code *)
Example t156 : ACC 144 [0;1;0;0]. Proof. verdict. Qed.
(* SUBACK no code (accepted by both) *)
Example t157 : ACC 144 [0;1;0]. Proof. verdict. Qed.
(* SUBACK several codes *)
Example t158 : ACC 144 [0;1;0;0;1;2;128]. Proof. verdict. Qed.
(* SUBACK invalid code *)
Example t159 : REJ 144 [0;1;0;3]. Proof. verdict. Qed.
(* SUBACK property length 80 00 *)
Example t160 : NMREJ 144 [0;1;128;0;0]. Proof. verdict. Qed.
(* SUBACK reason string *)
Example t161 : ACC 144 [0;1;3;31;0;0;0]. Proof. verdict. Qed.
(* SUBACK property length beyond the body *)
Example t162 : REJ 144 [0;1;5;0]. Proof. verdict. Qed.
(* SUBACK rl 2 *)
Example t163 : REJ 144 [0;1]. Proof. verdict. Qed.
(* SUBACK pid 0 *)
Example t164 : REJ 144 [0;0;0;0]. Proof. verdict. Qed.
(* SUBACK flags 1 *)
Example t165 : REJ 145 [0;1;0;0]. Proof. verdict. Qed.
(* SUBACK with an UNSUBACK code *)
Example t166 : REJ 144 [0;1;0;17]. Proof. verdict. Qed.
(* UNSUBACK no subscription existed *)
Example t167 : ACC 176 [0;1;0;17]. Proof. verdict. Qed.
(* UNSUBACK with a SUBACK code *)
Example t168 : REJ 176 [0;1;0;1]. Proof. verdict. Qed.
(* UNSUBACK rl 2 *)
Example t169 : REJ 176 [0;1]. Proof. verdict. Qed.
(* UNSUBACK no code *)
Example t170 : ACC 176 [0;1;0]. Proof. verdict. Qed.
(* UNSUBACK property length 80 00 *)
Example t171 : NMREJ 176 [0;1;128;0;0]. Proof. verdict. Qed.
(* UNSUBACK user property *)
Example t172 : ACC 176 [0;1;5;38;0;0;0;0;0;128]. Proof. verdict. Qed.
(* UNSUBSCRIBE one filter *)
Example t173 : ACC 162 [0;1;0;0;1;97]. Proof. verdict. Qed.
(* UNSUBSCRIBE no filter *)
Example t174 : REJ 162 [0;1;0]. Proof. verdict. Qed.
(* UNSUBSCRIBE property length 80 00 (uses the bytes read) *)
Example t175 : NMACC 162 [0;1;128;0;0;1;97]. Proof. verdict. Qed.
(* UNSUBSCRIBE user property *)
Example t176 : ACC 162 [0;1;5;38;0;0;0;0;0;1;97]. Proof. verdict. Qed.
(* UNSUBSCRIBE reason string not allowed *)
Example t177 : REJ 162 [0;1;3;31;0;0;0;1;97]. Proof. verdict. Qed.
(* UNSUBSCRIBE flags 0 *)
Example t178 : REJ 160 [0;1;0;0;1;97]. Proof. verdict. Qed.
(* UNSUBSCRIBE two filters *)
Example t179 : ACC 162 [0;1;0;0;1;97;0;3;98;47;35]. Proof. verdict. Qed.
(* UNSUBSCRIBE invalid filter *)
Example t180 : REJ 162 [0;1;0;0;2;97;35]. Proof. verdict. Qed.
(* UNSUBSCRIBE trailing byte *)
Example t181 : REJ 162 [0;1;0;0;1;97;0]. Proof. verdict. Qed.
(* UNSUBSCRIBE non-minimal property length 5 with a user property *)
Example t182 : NMACC 162 [0;1;133;0;38;0;0;0;0;0;1;97]. Proof. verdict. Qed.
(* CONNECT minimal *)
Example t183 : ACC 16 [0;4;77;81;84;84;5;2;0;60;0;0;0]. Proof. verdict. Qed.
(* CONNECT level 4 *)
Example t184 : REJ 16 [0;4;77;81;84;84;4;2;0;60;0;0;0]. Proof. verdict. Qed.
(* CONNECT 3.1 name *)
Example t185 : REJ 16 [0;6;77;81;73;115;100;112;3;2;0;60;0;0;0]. Proof. verdict. Qed.
(* CONNECT level 6 *)
Example t186 : REJ 16 [0;4;77;81;84;84;6;2;0;60;0;0;0]. Proof. verdict. Qed.
(* CONNECT wrong name *)
Example t187 : REJ 16 [0;5;77;81;84;84;84;5;2;0;60;0;0;0]. Proof. verdict. Qed.
(* CONNECT reserved flag *)
Example t188 : REJ 16 [0;4;77;81;84;84;5;3;0;60;0;0;0]. Proof. verdict. Qed.
(* CONNECT header flags 1 *)
Example t189 : REJ 17 [0;4;77;81;84;84;5;2;0;60;0;0;0]. Proof. verdict. Qed.
(* CONNECT will qos1 *)
Example t190 : ACC 16 [0;4;77;81;84;84;5;14;0;60;0;0;0;0;0;3;119;47;116;0;2;1;2]. Proof. verdict. Qed.
(* CONNECT will qos3 *)
Example t191 : REJ 16 [0;4;77;81;84;84;5;30;0;60;0;0;0;0;0;3;119;47;116;0;2;1;2]. Proof. verdict. Qed.
(* CONNECT will qos without will flag *)
Example t192 : REJ 16 [0;4;77;81;84;84;5;10;0;60;0;0;0]. Proof. verdict. Qed.
(* CONNECT will retain without will flag (pinned L2) *)
Example t193 : ACC 16 [0;4;77;81;84;84;5;34;0;60;0;0;0]. Proof. verdict. Qed.
(* CONNECT user name and password *)
Example t194 : ACC 16 [0;4;77;81;84;84;5;194;0;60;0;0;0;0;1;117;0;1;255]. Proof. verdict. Qed.
(* CONNECT password without user name (pinned L3) *)
Example t195 : ACC 16 [0;4;77;81;84;84;5;66;0;60;0;0;0;0;1;255]. Proof. verdict. Qed.
(* CONNECT user name bad UTF-8 *)
Example t196 : REJ 16 [0;4;77;81;84;84;5;130;0;60;0;0;0;0;1;255]. Proof. verdict. Qed.
(* CONNECT every property *)
Example t197 : ACC 16 [0;4;77;81;84;84;5;2;0;60;35;17;0;0;0;5;33;0;9;39;0;0;16;0;34;0;2;25;1;23;0;21;0;1;109;22;0;1;0;38;0;1;107;0;1;118;0;3;99;105;100]. Proof. verdict. Qed.
(* CONNECT request problem information 2 *)
Example t198 : REJ 16 [0;4;77;81;84;84;5;2;0;60;2;23;2;0;0]. Proof. verdict. Qed.
(* CONNECT request response information *)
Example t199 : ACC 16 [0;4;77;81;84;84;5;2;0;60;2;25;1;0;0]. Proof. verdict. Qed.
(* CONNECT will delay among the CONNECT properties *)
Example t200 : REJ 16 [0;4;77;81;84;84;5;2;0;60;5;24;0;0;0;1;0;0]. Proof. verdict. Qed.
(* CONNECT subscription identifier not allowed *)
Example t201 : REJ 16 [0;4;77;81;84;84;5;2;0;60;2;11;1;0;0]. Proof. verdict. Qed.
(* CONNECT will with every will property, UTF-8 payload *)
Example t202 : ACC 16 [0;4;77;81;84;84;5;54;0;60;0;0;0;26;24;0;0;0;5;1;1;2;0;0;0;9;3;0;1;116;8;0;3;114;47;116;9;0;1;7;0;1;119;0;2;104;105]. Proof. verdict. Qed.
(* CONNECT will payload format 1, bad payload *)
Example t203 : REJ 16 [0;4;77;81;84;84;5;6;0;60;0;0;0;2;1;1;0;1;119;0;1;255]. Proof. verdict. Qed.
(* CONNECT will payload format 0, binary payload *)
Example t204 : ACC 16 [0;4;77;81;84;84;5;6;0;60;0;0;0;2;1;0;0;1;119;0;1;255]. Proof. verdict. Qed.
(* CONNECT session expiry among the will properties *)
Example t205 : REJ 16 [0;4;77;81;84;84;5;6;0;60;0;0;0;5;17;0;0;0;1;0;1;119;0;0]. Proof. verdict. Qed.
(* CONNECT will topic with wildcard *)
Example t206 : REJ 16 [0;4;77;81;84;84;5;6;0;60;0;0;0;0;0;3;119;47;35;0;0]. Proof. verdict. Qed.
(* CONNECT property length 80 00 *)
Example t207 : NMACC 16 [0;4;77;81;84;84;5;2;0;60;128;0;0;0]. Proof. verdict. Qed.
(* CONNECT will property length 80 00 *)
Example t208 : NMACC 16 [0;4;77;81;84;84;5;6;0;60;0;0;0;128;0;0;1;119;0;0]. Proof. verdict. Qed.
(* CONNECT property length 5 spelled 85 00 *)
Example t209 : NMACC 16 [0;4;77;81;84;84;5;2;0;60;133;0;17;0;0;0;5;0;0]. Proof. verdict. Qed.
(* CONNECT trailing byte *)
Example t210 : REJ 16 [0;4;77;81;84;84;5;2;0;60;0;0;0;0]. Proof. verdict. Qed.
(* CONNECT truncated client id *)
Example t211 : REJ 16 [0;4;77;81;84;84;5;2;0;60;0;0]. Proof. verdict. Qed.
(* CONNECT client id bad UTF-8 *)
Example t212 : REJ 16 [0;4;77;81;84;84;5;2;0;60;0;0;1;255]. Proof. verdict. Qed.
(* CONNECT will payload missing *)
Example t213 : REJ 16 [0;4;77;81;84;84;5;6;0;60;0;0;0;0;0;1;119]. Proof. verdict. Qed.
(* CONNECT clean start 0 *)
Example t214 : ACC 16 [0;4;77;81;84;84;5;0;0;60;0;0;3;97;98;99]. Proof. verdict. Qed.
(* CONNECT property length -1 *)
Example t215 : REJ 16 [0;4;77;81;84;84;5;2;0;60;4;17;0;0;0;5;0;0]. Proof. verdict. Qed.
(* CONNECT property length +1 (eats the client id length) *)
Example t216 : REJ 16 [0;4;77;81;84;84;5;2;0;60;6;17;0;0;0;5;0;0]. Proof. verdict. Qed.
(* CONNECT rl 0 *)
Example t217 : REJ 16 []. Proof. verdict. Qed.

(* what the code does on the SUBSCRIBE frame whose subscription identifier 1 is spelled 81 00
   (t140 / t141): the running count of decode_properties! adds the MINIMAL width of the identifier,
   so with property length 3 the loop reads on into the topic filter (property id 0), and with
   property length 2 the recomputed remaining length is one more than what is left. *)
Example t140_model : V5.block_decode Debug (V3.mk_header PSubscribe 10) TEof [0;1;3;11;129;0;0;1;97;0]
                     = RErr (InvalidPropertyId 0).
Proof. vm_compute. reflexivity. Qed.
Example t141_model : V5.block_decode Debug (V3.mk_header PSubscribe 10) TEof [0;1;2;11;129;0;0;1;97;0]
                     = RErr (IoError 0).
Proof. vm_compute. reflexivity. Qed.

(* the three statements on a frame of each verdict *)
Example t45_three : three 64 [0;1;0;128;0]. Proof. apply nmacc_three. verdict. Qed.
Example t140_three : three 130 [0;1;3;11;129;0;0;1;97;0]. Proof. apply nmrej_three. verdict. Qed.
Example t75_three : three 32 [0;0;2;36;1]. Proof. apply acc_three. verdict. Qed.
Example t63_three : three 64 [0;1;0;129;0;0]. Proof. apply rej_three. verdict. Qed.
