(* Proofs/AsyncChunks.v — why chunking and Pending are invisible to the async decoders.
   Base/Reader.v models tokio's read_exact by its contract ("n bytes or the transport's error").  Here the
   contract is derived from the obvious implementation loop over the scripted transport of Model/Poll.v
   (poll_read with the remaining capacity; Pending -> poll again; a zero-length read -> UnexpectedEof;
   an error -> that error), for every delivery schedule.  This is library behaviour, not repository
   code: it narrows the trusted contract "read_exact over any AsyncRead" to "read_exact is this loop". *)
From MQ Require Import Proofs.Tactics Model.Poll.
Open Scope N_scope.

(* the loop of tokio::io::util::read_exact: fill `need` more bytes *)
Fixpoint read_exact_atoms (fuel : nat) (need : N) (acc : bytes) (l : list atom) (t : tail)
  : option (res bytes * list atom) :=
  if need =? 0 then Some (ROk acc [], l) else
  match fuel with
  | O => None
  | S f =>
    match poll_read need l with
    | RdPending r => read_exact_atoms f need acc r t                 (* Pending: polled again later *)
    | RdTail => Some (RErr (io_err t), [])                           (* EOF (0 bytes) or the transport's error *)
    | RdData bs r =>
      if len bs =? 0 then Some (RErr (IoError KUnexpectedEof), r)
      else read_exact_atoms f (need - len bs) (acc ++ bs) r t
    end
  end.

Lemma len_app' (a b : bytes) : len (a ++ b) = len a + len b.
Proof. unfold len. rewrite app_length. lia. Qed.

Lemma atake_spec : forall l cap bs r, atake l cap = (bs, r) ->
  len bs <= cap /\ bytes_of l = bs ++ bytes_of r /\ (length r <= length l)%nat.
Proof.
  induction l as [|a l IH]; intros cap bs r H; cbn [atake] in H.
  - inversion H; subst. cbn. repeat split; try lia.
  - destruct a as [b| |].
    + destruct (N.eqb_spec cap 0) as [E|E].
      * inversion H; subst. cbn. repeat split; try lia.
      * destruct (atake l (N.pred cap)) as [bs' r'] eqn:Et. inversion H; subst.
        destruct (IH _ _ _ Et) as (H1 & H2 & H3). cbn [bytes_of]. rewrite H2.
        unfold len in *. cbn [length app]. split; [lia|]. split; [reflexivity|lia].
    + inversion H; subst. cbn. repeat split; try lia.
    + inversion H; subst. cbn. repeat split; try lia.
Qed.

Lemma astrip_spec : forall l, bytes_of (astrip l) = bytes_of l /\ (length (astrip l) <= length l)%nat.
Proof. induction l as [|[b| |] l IH]; cbn; try (split; [reflexivity|lia]). destruct IH. split; [assumption|lia]. Qed.

(* a data read with capacity >= 1 delivers at least one byte *)
Lemma poll_read_data cap l bs r : 1 <= cap -> poll_read cap l = RdData bs r ->
  1 <= len bs /\ len bs <= cap /\ bytes_of l = bs ++ bytes_of r /\ (length r < length l)%nat.
Proof.
  intros Hc H. unfold poll_read in H. destruct (astrip_spec l) as [Hb Hl].
  destruct (astrip l) as [|a l'] eqn:Es; [discriminate|].
  destruct a as [b| |]; [| |discriminate].
  - destruct (atake (AB b :: l') cap) as [bs' r'] eqn:Et. inversion H; subst.
    destruct (atake_spec _ _ _ _ Et) as (H1 & H2 & H3).
    cbn [atake] in Et. destruct (N.eqb_spec cap 0) as [E|E]; [lia|].
    destruct (atake l' (N.pred cap)) as [bs2 r2] eqn:Et2. inversion Et; subst.
    destruct (atake_spec _ _ _ _ Et2) as (_ & _ & H4).
    rewrite <- Hb, H2. unfold len in *. cbn [length] in *. repeat split; try lia.
  - exfalso. clear - Es. induction l as [|[b| |] l IH]; cbn in Es; try discriminate. auto.
Qed.

(* the contract: the outcome depends only on the bytes the schedule carries *)
Theorem read_exact_atoms_contract : forall fuel need acc l t,
  (length l < fuel)%nat ->
  exists rest,
    read_exact_atoms fuel need acc l t =
      Some (match take (bytes_of l) need with
            | Some (a, _) => ROk (acc ++ a) []
            | None => RErr (io_err t)
            end, rest)
    /\ (forall a b, take (bytes_of l) need = Some (a, b) -> bytes_of rest = b).
Proof.
  induction fuel as [|f IH]; intros need acc l t Hf; [lia|].
  cbn [read_exact_atoms].
  destruct (N.eqb_spec need 0) as [E0|E0].
  { subst need. exists l. assert (Ht : take (bytes_of l) 0 = Some ([], bytes_of l)) by (destruct (bytes_of l); reflexivity).
    rewrite Ht, app_nil_r. split; [reflexivity|]. intros a b H. inversion H; reflexivity. }
  destruct (poll_read need l) as [r|bs r|] eqn:Ep.
  - (* pending *)
    unfold poll_read in Ep. destruct (astrip_spec l) as [Hb Hl].
    destruct (astrip l) as [|a l'] eqn:Es; [discriminate|].
    destruct a as [b| |].
    + destruct (atake (AB b :: l') need); discriminate.
    + destruct (atake (ACut :: l') need); discriminate.
    + inversion Ep; subst r. cbn [bytes_of] in Hb. rewrite <- Hb.
      apply IH. cbn [length] in Hl. lia.
  - (* data *)
    destruct (poll_read_data need l bs r ltac:(lia) Ep) as (H1 & H2 & H3 & H4).
    destruct (N.eqb_spec (len bs) 0) as [Ez|Ez]; [lia|].
    destruct (IH (need - len bs) (acc ++ bs) r t ltac:(lia)) as (rest & Hr & Hrest).
    exists rest. rewrite Hr, H3.
    assert (Htk : take (bs ++ bytes_of r) need =
                  match take (bytes_of r) (need - len bs) with
                  | Some (a, b) => Some (bs ++ a, b) | None => None end).
    { clear - H2. revert need H2. induction bs as [|x bs IHb]; intros need H2.
      - cbn [app]. unfold len; cbn [length]. replace (need - N.of_nat 0) with need by lia.
        destruct (take (bytes_of r) need) as [[a b]|]; reflexivity.
      - cbn [app take]. unfold len in *. cbn [length] in *.
        destruct (N.eqb_spec need 0) as [E|E]; [lia|].
        rewrite (IHb (N.pred need)) by lia.
        replace (N.pred need - N.of_nat (length bs)) with (need - N.of_nat (S (length bs))) by lia.
        destruct (take (bytes_of r) (need - N.of_nat (S (length bs)))) as [[a b]|]; reflexivity. }
    rewrite Htk. destruct (take (bytes_of r) (need - len bs)) as [[a b]|] eqn:Et.
    + rewrite <- app_assoc. split; [reflexivity|]. intros a' b' H. inversion H; subst. apply (Hrest a b'). reflexivity.
    + split; [reflexivity|]. intros a' b' H. discriminate.
  - (* tail: no byte left *)
    unfold poll_read in Ep. destruct (astrip_spec l) as [Hb _].
    destruct (astrip l) as [|a l'] eqn:Es.
    + cbn [bytes_of] in Hb. rewrite <- Hb. exists [].
      assert (Ht : take [] need = None) by (cbn [take]; destruct (N.eqb_spec need 0); [lia|reflexivity]).
      rewrite Ht. split; [reflexivity|]. intros a b H. discriminate.
    + destruct a as [b| |]; try discriminate;
        match goal with H : (let '(_, _) := ?x in _) = _ |- _ => destruct x; discriminate end.
Qed.
Print Assumptions read_exact_atoms_contract.

(* restated against Base/Reader.v: under every schedule the loop is read_exact on the bytes *)
Corollary read_exact_any_schedule : forall n l t,
  exists rest, read_exact_atoms (S (length l)) n [] l t =
    Some (match read_exact n t (bytes_of l) with ROk a _ => ROk a [] | RErr e => RErr e | RPanic s => RPanic s end, rest).
Proof.
  intros n l t. destruct (read_exact_atoms_contract (S (length l)) n [] l t (Nat.lt_succ_diag_r _)) as (rest & H & _).
  exists rest. rewrite H. unfold read_exact. destruct (take (bytes_of l) n) as [[a b]|]; reflexivity.
Qed.
Print Assumptions read_exact_any_schedule.

Example ex_async_chunks :
  read_exact_atoms 20 3 [] [APend; AB 1; ACut; APend; AB 2; AB 3; AB 4] TEof = Some (ROk [1; 2; 3] [], [AB 4])
  /\ read_exact_atoms 20 3 [] [AB 1; ACut; AB 2; APend] (TFail 5) = Some (RErr (IoError 5), []).
Proof. vm_compute. split; reflexivity. Qed.
