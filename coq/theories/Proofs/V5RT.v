(* Proofs/V5RT.v — C01 for the v5 family: decoding the encoding of a valid packet returns it.
   One lemma per body decoder of Model/V5.v, then the whole-packet theorems.
   The length / bytes / profile statements live in Proofs/V5Len.v (re-exported here). *)
From MQ Require Import Proofs.Tactics Proofs.VarIntLaws Proofs.Parses Proofs.PropsRT Model.Valid.
From MQ Require Export Proofs.V5Len.
Open Scope N_scope.
Import V5.

(* ---------- small helpers ---------- *)
Lemma props_simple ctx L ps pl t rest :
  NoDup (map prop_num L) -> props_inv L ps = true -> props_valid L ps = true -> props_len L ps = Ok pl ->
  decode_props ctx L t (concat (props_enc L ps) ++ rest) = ROk ps rest.
Proof.
  intros Hnd Hi Hv Hl. destruct (props_len_inv _ _ _ Hl) as [Hb _]. apply props_rt_simple; assumption.
Qed.

Lemma props_len_pos L ps pl : props_len L ps = Ok pl -> 1 <= pl.
Proof.
  intros H. destruct (props_len_inv _ _ _ H) as [Hb ->]. destruct (write_len _ Hb) as [_ Hw]. lia.
Qed.

Lemma reason_read_ok table pt c t rest : mem_n c (codes_of table) = true ->
  reason_read table pt t (c :: rest) = ROk c rest.
Proof. intros H. unfold reason_read. erewrite bind_ok by apply read_u8_cons. rewrite H. reflexivity. Qed.

Lemma flag_check_ok ps payload :
  (if payload_flagged ps then utf8_valid payload else true) = true ->
  (match pget ps PayloadFormatIndicator with Some (VN 1) => true | _ => false end) && negb (utf8_valid payload) = false.
Proof.
  intros H. change (match pget ps PayloadFormatIndicator with Some (VN 1) => true | _ => false end)
    with (payload_flagged ps).
  destruct (payload_flagged ps); [rewrite H|]; reflexivity.
Qed.

Lemma read_exact_2 a b t r : read_exact 2 t (a :: b :: r) = ROk [a; b] r.
Proof. change (a :: b :: r) with ([a; b] ++ r). apply read_exact_app. reflexivity. Qed.

Lemma rev'_rev {A} (l : list A) : rev' l = rev l.
Proof. unfold rev'. rewrite <- rev_alt. reflexivity. Qed.

(* ================================================================== *)
(* Connack                                                             *)
(* ================================================================== *)
Lemma connack_rt c h n t rest :
  I5.valid (Connack c) = true -> connack_len c = Ok n ->
  connack_decode h t (concat (connack_enc c) ++ rest) = ROk c rest.
Proof.
  unfold I5.valid. cbn [I5.types_inv]. unfold connack_len, connack_decode, connack_enc. intros Hv H.
  open_len H CONNACK_PROPS (ca_props c) pl Epl. split_and.
  rewrite concat_app, <- app_assoc. cbn [concat app].
  erewrite bind_ok by apply read_exact_2. cbv beta iota.
  assert (Esp : (if bool_n (ca_sp c) =? 0 then ret false
                 else if bool_n (ca_sp c) =? 1 then ret true
                 else fail (InvalidConnackFlags (bool_n (ca_sp c)))) = ret (ca_sp c))
    by (destruct (ca_sp c); reflexivity).
  rewrite Esp, bind_ret.
  match goal with Hm : mem_n (ca_code c) CONNECT_CODES = true |- _ => rewrite Hm end. rewrite bind_ret.
  erewrite bind_ok by (eapply props_simple; [exact nodup_connack|eassumption|eassumption|exact Epl]).
  destruct c; reflexivity.
Qed.

(* ================================================================== *)
(* Puback / Pubrec / Pubrel / Pubcomp                                  *)
(* ================================================================== *)
Lemma ack_rt table a h n t rest :
  I5.ack_inv table a = true -> props_valid ACK_PROPS (a_props a) = true ->
  ack_len a = Ok n -> h_rl h = n ->
  ack_decode table h t (concat (ack_enc a) ++ rest) = ROk a rest.
Proof.
  unfold I5.ack_inv, ack_len, ack_decode, ack_enc. intros Hi Hv H Hrl. split_and.
  rewrite concat_cons, <- app_assoc. erewrite bind_ok by (apply pid_read_be16; assumption). rewrite Hrl.
  destruct (props_is_default (a_props a)) eqn:Ed.
  - apply props_is_default_spec in Ed.
    destruct (N.eqb_spec (a_code a) 0) as [Ec|Ec]; inversion H; subst n; ground_tests.
    + unfold ret. cbn [concat app]. destruct a; cbn [a_code a_props] in *; subst; reflexivity.
    + cbn [concat app]. erewrite bind_ok by (apply reason_read_ok; eassumption).
      unfold ret. destruct a; cbn [a_code a_props] in *; subst; reflexivity.
  - open_len H ACK_PROPS (a_props a) pl Epl. inversion H; subst n.
    pose proof (props_len_pos _ _ _ Epl) as Hp.
    destruct (N.eqb_spec (3 + pl) 2); [lia|]. destruct (N.eqb_spec (3 + pl) 3); [lia|].
    rewrite concat_cons, <- app_assoc. cbn [app].
    erewrite bind_ok by (apply reason_read_ok; eassumption).
    erewrite bind_ok by (eapply props_simple; [exact nodup_ack|eassumption|eassumption|exact Epl]).
    unfold ret. destruct a; reflexivity.
Qed.

(* ================================================================== *)
(* Disconnect / Auth                                                   *)
(* ================================================================== *)
Lemma disconnect_rt d h n t rest :
  I5.valid (Disconnect d) = true -> disconnect_len d = Ok n -> h_rl h = n ->
  disconnect_decode h t (concat (disconnect_enc d) ++ rest) = ROk d rest.
Proof.
  unfold I5.valid. cbn [I5.types_inv]. unfold disconnect_len, disconnect_decode, disconnect_enc.
  intros Hv H Hrl. split_and. rewrite Hrl.
  destruct (props_is_default (d_props d)) eqn:Ed.
  - apply props_is_default_spec in Ed.
    destruct (N.eqb_spec (d_code d) 0) as [Ec|Ec]; inversion H; subst n; ground_tests.
    + unfold ret. cbn [concat app]. destruct d; cbn [d_code d_props] in *; subst; reflexivity.
    + cbn [concat app]. erewrite bind_ok by (apply (reason_read_ok PDisconnect); eassumption).
      unfold ret. destruct d; cbn [d_code d_props] in *; subst; reflexivity.
  - open_len H DISCONNECT_PROPS (d_props d) pl Epl. inversion H; subst n.
    pose proof (props_len_pos _ _ _ Epl) as Hp.
    destruct (N.eqb_spec (1 + pl) 0); [lia|]. destruct (N.eqb_spec (1 + pl) 1); [lia|].
    rewrite concat_cons, <- app_assoc. cbn [app].
    erewrite bind_ok by (apply (reason_read_ok PDisconnect); eassumption).
    erewrite bind_ok by (eapply props_simple; [exact nodup_disconnect|eassumption|eassumption|exact Epl]).
    unfold ret. destruct d; reflexivity.
Qed.

Lemma auth_rt d h n t rest :
  I5.valid (Auth d) = true -> auth_len d = Ok n -> h_rl h = n ->
  auth_decode h t (concat (auth_enc d) ++ rest) = ROk d rest.
Proof.
  unfold I5.valid. cbn [I5.types_inv]. unfold auth_len, auth_decode, auth_enc.
  intros Hv H Hrl. split_and. rewrite Hrl.
  destruct ((d_code d =? 0) && props_is_default (d_props d)) eqn:Ed.
  - apply andb_true_iff in Ed as [Ec Ed]. apply N.eqb_eq in Ec. apply props_is_default_spec in Ed.
    inversion H; subst n; ground_tests.
    unfold ret. cbn [concat app]. destruct d; cbn [d_code d_props] in *; subst; reflexivity.
  - open_len H AUTH_PROPS (d_props d) pl Epl. inversion H; subst n.
    pose proof (props_len_pos _ _ _ Epl) as Hp.
    destruct (N.eqb_spec (1 + pl) 0); [lia|].
    rewrite concat_cons, <- app_assoc. cbn [app].
    erewrite bind_ok by (apply (reason_read_ok PAuth); eassumption).
    erewrite bind_ok by (eapply props_simple; [exact nodup_auth|eassumption|eassumption|exact Epl]).
    unfold ret. destruct d; reflexivity.
Qed.

(* ================================================================== *)
(* Publish                                                             *)
(* ================================================================== *)
Lemma name_try_ok5 s : name_is_invalid s = false -> name_try s = Ok s.
Proof. unfold name_try. intros ->. reflexivity. Qed.

(* everything after the packet identifier *)
Lemma publish_tail_rt (h : header) dup retain qp topic ps payload pl rl t rest :
  name_is_invalid topic = false ->
  props_inv PUBLISH_PROPS ps = true -> props_valid PUBLISH_PROPS ps = true ->
  props_len PUBLISH_PROPS ps = Ok pl ->
  (if payload_flagged ps then utf8_valid payload else true) = true ->
  rl = pl + len payload ->
  (props <- decode_props (CtxPacket (h_typ h)) PUBLISH_PROPS ;;
   pl <- lift_outcome (props_len PUBLISH_PROPS props) ;;
   rl <- checked_sub rl pl ;;
   payload <-
     (if 0 <? rl then
        data <- read_exact rl ;;
        if (match pget props PayloadFormatIndicator with Some (VN 1) => true | _ => false end)
           && negb (utf8_valid data)
        then fail InvalidPayloadFormat else ret data
      else ret []) ;;
   topic' <- lift_outcome (name_try topic) ;;
   ret {| p_dup := dup; p_retain := retain; p_qospid := qp; p_topic := topic';
          p_props := props; p_payload := payload |}) t
    (concat (props_enc PUBLISH_PROPS ps) ++ payload ++ rest)
  = ROk {| p_dup := dup; p_retain := retain; p_qospid := qp; p_topic := topic;
           p_props := ps; p_payload := payload |} rest.
Proof.
  intros Hn Hi Hv Hl Hf Hrl.
  erewrite bind_ok by (eapply props_simple; [exact nodup_publish|eassumption|eassumption|exact Hl]).
  rewrite Hl. cbn [lift_outcome]. rewrite bind_ret.
  erewrite bind_ok by (apply checked_sub_ok; lia).
  replace (rl - pl) with (len payload) by lia.
  destruct (N.ltb_spec 0 (len payload)) as [Hp|Hp].
  - erewrite bind_ok by (erewrite bind_ok by (apply read_exact_app; reflexivity);
                         rewrite (flag_check_ok _ _ Hf); reflexivity).
    rewrite (name_try_ok5 _ Hn). reflexivity.
  - assert (payload = []) as -> by (apply len_zero_nil; lia).
    rewrite bind_ret. rewrite (name_try_ok5 _ Hn). reflexivity.
Qed.

Lemma publish_rt p h n t rest :
  I5.valid (Publish p) = true -> publish_len p = Ok n ->
  h_rl h = n -> h_qos h = qospid_qos (p_qospid p) -> h_dup h = p_dup p -> h_retain h = p_retain p ->
  publish_decode h t (concat (publish_enc p) ++ rest) = ROk p rest.
Proof.
  unfold I5.valid. cbn [I5.types_inv]. unfold publish_len, publish_decode, publish_enc.
  intros Hv H Hrl Hqos Hdup Hret. open_len H PUBLISH_PROPS (p_props p) pl Epl.
  inversion H as [Hn]; clear H. rewrite <- Hn in Hrl. clear Hn.
  split_and.
  match goal with Hn : name_ok _ = true |- _ => destruct (name_ok_parts _ Hn) as [_ [Hu Hin]] end.
  match goal with Hs : short _ = true |- _ => apply short_le in Hs end.
  rewrite Hrl, Hqos, Hdup, Hret.
  destruct p as [dup retain qp topic ps payload];
    cbn [p_dup p_retain p_qospid p_topic p_props p_payload] in *.
  rewrite !concat_app, <- !app_assoc. unfold lp_chunks. norm_bytes.
  erewrite bind_ok by (apply read_string_lp; assumption).
  erewrite bind_ok by (apply checked_sub_ok; lia).
  destruct qp as [|pid|pid]; cbn [qospid_qos V3.qospid_enc V3.qospid_len qospid_ok] in *; ground_tests; norm_bytes.
  - rewrite bind_ret. cbv beta iota. eapply publish_tail_rt; try eassumption. lia.
  - erewrite bind_ok by (erewrite bind_ok by (apply checked_sub_ok; lia);
                         erewrite bind_ok by (apply pid_read_be16; assumption); reflexivity).
    cbv beta iota. eapply publish_tail_rt; try eassumption. lia.
  - erewrite bind_ok by (erewrite bind_ok by (apply checked_sub_ok; lia);
                         erewrite bind_ok by (apply pid_read_be16; assumption); reflexivity).
    cbv beta iota. eapply publish_tail_rt; try eassumption. lia.
Qed.

(* ================================================================== *)
(* Suback / Unsuback                                                   *)
(* ================================================================== *)
Lemma codes_loop_rt table pt t rest : forall codes acc fuel,
  forallb (fun c => mem_n c (codes_of table)) codes = true ->
  codes_loop table pt (length codes + fuel) (N.of_nat (length codes)) acc t
             (concat (map (fun c => [c]) codes) ++ rest)
  = ROk (rev acc ++ codes) rest.
Proof.
  induction codes as [|c codes IH]; intros acc fuel Hc.
  - cbn [length plus N.of_nat map concat app].
    destruct fuel; cbn [codes_loop]; ground_tests; unfold ret; rewrite rev'_rev, app_nil_r; reflexivity.
  - cbn [forallb] in Hc. apply andb_true_iff in Hc as [Hc0 Hc].
    cbn [length plus map concat app]. cbn [codes_loop].
    destruct (N.eqb_spec (N.of_nat (S (length codes))) 0) as [E|_]; [lia|].
    erewrite bind_ok by (apply reason_read_ok; exact Hc0).
    replace (N.of_nat (S (length codes)) - 1) with (N.of_nat (length codes)) by lia.
    rewrite IH by exact Hc. cbn [rev]. rewrite <- app_assoc. reflexivity.
Qed.

Lemma suback_rt table s h n t rest :
  I5.suback_inv table s = true -> props_valid ACK_PROPS (sa_props s) = true ->
  suback_len s = Ok n -> h_rl h = n ->
  suback_decode table h t (concat (suback_enc s) ++ rest) = ROk s rest.
Proof.
  unfold I5.suback_inv, suback_len, suback_decode, suback_enc. intros Hi Hv H Hrl.
  open_len H ACK_PROPS (sa_props s) pl Epl. inversion H as [Hn]; clear H. rewrite <- Hn in Hrl. clear Hn.
  split_and. rewrite Hrl.
  rewrite concat_cons, concat_app, <- !app_assoc.
  erewrite bind_ok by (apply pid_read_be16; assumption).
  erewrite bind_ok by (eapply props_simple; [exact nodup_ack|eassumption|eassumption|exact Epl]).
  rewrite Epl. cbn [lift_outcome]. rewrite bind_ret.
  erewrite bind_ok by (apply checked_sub_ok; lia). cbv beta.
  replace (2 + pl + N.of_nat (length (sa_codes s)) - (2 + pl)) with (N.of_nat (length (sa_codes s))) by lia.
  match goal with |- context [S (length ?d)] =>
    replace (S (length d)) with (length (sa_codes s) + (S (length d) - length (sa_codes s)))%nat
      by (rewrite app_length, concat_singletons; lia) end.
  erewrite bind_ok by (apply codes_loop_rt; eassumption).
  unfold ret. cbn [rev app]. destruct s; reflexivity.
Qed.

(* ================================================================== *)
(* Subscribe / Unsubscribe (topic filters)                             *)
(* ================================================================== *)
Lemma subopts_rt o : I5.subopts_inv o = true -> subopts_of_u8 (subopts_to_u8 o) = Ok o.
Proof.
  unfold I5.subopts_inv. destruct o as [q nl rap rh]. cbn [o_qos o_rh]. intros H. split_and.
  repeat match goal with H : (_ <? _) = true |- _ => apply N.ltb_lt in H end.
  assert (Hq : q = 0 \/ q = 1 \/ q = 2) by lia. assert (Hr : rh = 0 \/ rh = 1 \/ rh = 2) by lia.
  destruct Hq as [-> | [-> | ->]]; destruct Hr as [-> | [-> | ->]]; destruct nl, rap; reflexivity.
Qed.

Lemma topics_len5_cons tf o ts : topics_len5 ((tf, o) :: ts) = 3 + len (ftext tf) + topics_len5 ts.
Proof. reflexivity. Qed.
Lemma utopics_len5_cons tf ts : utopics_len5 (tf :: ts) = 2 + len (ftext tf) + utopics_len5 ts.
Proof. reflexivity. Qed.

Lemma sub_enc5_count ts : (length ts <= length (concat (sub_enc5 ts)))%nat.
Proof.
  induction ts as [|[tf o] ts IH]; [apply Nat.le_refl|].
  unfold sub_enc5 in *. cbn [flat_map]. rewrite concat_app, app_length. cbn [concat app length be16]. lia.
Qed.
Lemma unsub_enc5_count ts : (length ts <= length (concat (unsub_enc5 ts)))%nat.
Proof.
  induction ts as [|tf ts IH]; [apply Nat.le_refl|].
  unfold unsub_enc5 in *. cbn [flat_map]. rewrite concat_app, app_length. cbn [concat app length be16]. lia.
Qed.

(* ================================================================== *)
(* Connect                                                             *)
(* ================================================================== *)
Lemma protocol_rt t rest : protocol_decode t (concat (protocol_enc V500) ++ rest) = ROk V500 rest.
Proof.
  unfold protocol_decode.
  change (concat (protocol_enc V500) ++ rest) with (be16 (len MQTT mod 65536) ++ MQTT ++ ([5] ++ rest)).
  erewrite bind_ok by (apply read_bytes_lp; vm_compute; discriminate).
  erewrite bind_ok by apply read_u8_one. reflexivity.
Qed.

Lemma will_rt w n t rest :
  I5.will_inv w = true -> I5.will_valid w = true -> will_len w = Ok n ->
  will_decode (w_qos w) (w_retain w) t (concat (will_enc w) ++ rest) = ROk w rest.
Proof.
  unfold I5.will_inv, I5.will_valid, will_len, will_decode, will_enc. intros Hi Hv H.
  open_len H WILL_PROPS (w_props w) pl Epl. split_and.
  match goal with Hn : name_ok _ = true |- _ => destruct (name_ok_parts _ Hn) as [_ [Hu Hin]] end.
  repeat match goal with Hs : short _ = true |- _ => apply short_le in Hs end.
  rewrite !concat_app, <- !app_assoc. unfold lp_chunks. norm_bytes.
  erewrite bind_ok by (eapply props_simple; [exact nodup_will|eassumption|eassumption|exact Epl]).
  erewrite bind_ok by (apply read_string_lp; assumption).
  rewrite (name_try_ok5 _ Hin). cbn [lift_outcome]. rewrite bind_ret.
  erewrite bind_ok by (apply read_bytes_lp; assumption).
  rewrite flag_check_ok by assumption. unfold ret. destruct w; reflexivity.
Qed.

Lemma connect_flags_bits c :
  opt_all (fun w => w_qos w <? 3) (c_will c) = true ->
  bit (connect_flags c) 0 = false /\ bit (connect_flags c) 1 = c_clean c /\
  bit (connect_flags c) 2 = (match c_will c with Some _ => true | None => false end) /\
  (connect_flags c / 8) mod 4 = (match c_will c with Some w => w_qos w | None => 0 end) /\
  bit (connect_flags c) 5 = (match c_will c with Some w => w_retain w | None => false end) /\
  bit (connect_flags c) 6 = (match c_password c with Some _ => true | None => false end) /\
  bit (connect_flags c) 7 = (match c_username c with Some _ => true | None => false end).
Proof.
  unfold connect_flags. destruct c as [pr cl ka ps cid wl us pw].
  cbn [c_clean c_will c_username c_password opt_all]. intros H.
  destruct wl as [[q r wp wt wpl]|]; cbn [w_qos w_retain opt_all] in *.
  - apply N.ltb_lt in H. assert (Hq : q = 0 \/ q = 1 \/ q = 2) by lia.
    destruct Hq as [-> | [-> | ->]]; destruct cl, us, pw, r; repeat split; reflexivity.
  - destruct cl, us, pw; repeat split; reflexivity.
Qed.

Lemma will_opt_rt (f : N) (o : option will) wl t rest :
  bit f 2 = (match o with Some _ => true | None => false end) ->
  (f / 8) mod 4 = (match o with Some w => w_qos w | None => 0 end) ->
  bit f 5 = (match o with Some w => w_retain w | None => false end) ->
  opt_all I5.will_inv o = true -> opt_all I5.will_valid o = true ->
  (match o with Some w => will_len w | None => Ok 0 end) = Ok wl ->
  (if bit f 2 then
     qos <- lift_outcome (qos_of_u8 ((f / 8) mod 4)) ;;
     w <- will_decode qos (bit f 5) ;;
     ret (Some w)
   else if negb ((f / 8) mod 4 =? 0) then fail (InvalidConnectFlags f)
   else ret None) t (concat (match o with Some w => will_enc w | None => [] end) ++ rest)
  = ROk o rest.
Proof.
  intros B2 B3 B5 Hi Hv Hl. rewrite B2, B3, B5. destruct o as [w|]; cbn [opt_all] in *.
  - assert (Hq : w_qos w < 3).
    { unfold I5.will_inv in Hi. split_and.
      match goal with H : (w_qos w <? 3) = true |- _ => apply N.ltb_lt in H; exact H end. }
    unfold qos_of_u8. destruct (N.ltb_spec (w_qos w) 3); [|lia]. cbn [lift_outcome]. rewrite bind_ret.
    erewrite bind_ok by (eapply will_rt; eassumption). reflexivity.
  - ground_tests. reflexivity.
Qed.

Lemma opt_string_rt (b : bool) (o : option bytes) t rest :
  b = (match o with Some _ => true | None => false end) ->
  opt_all text_ok o = true -> opt_all short o = true ->
  (if b then s <- read_string ;; ret (Some s) else ret None) t (concat (V3.opt_lp o) ++ rest) = ROk o rest.
Proof.
  intros -> Hi Hv. destruct o as [s|]; cbn [opt_all V3.opt_lp] in *; [|reflexivity].
  apply text_ok_parts in Hi as [_ Hu]. apply short_le in Hv. norm_bytes.
  erewrite bind_ok by (apply read_string_lp; assumption). reflexivity.
Qed.

Lemma opt_bytes_rt (b : bool) (o : option bytes) t rest :
  b = (match o with Some _ => true | None => false end) -> opt_all short o = true ->
  (if b then s <- read_bytes ;; ret (Some s) else ret None) t (concat (V3.opt_lp o) ++ rest) = ROk o rest.
Proof.
  intros -> Hv. destruct o as [s|]; cbn [opt_all V3.opt_lp] in *; [|reflexivity].
  apply short_le in Hv. norm_bytes.
  erewrite bind_ok by (apply read_bytes_lp; assumption). reflexivity.
Qed.

Lemma will_inv_qos o : opt_all I5.will_inv o = true -> opt_all (fun w => w_qos w <? 3) o = true.
Proof.
  destruct o as [w|]; cbn [opt_all]; [|reflexivity]. unfold I5.will_inv. intros H. split_and. assumption.
Qed.

Lemma connect_rt c h n t rest :
  I5.valid (Connect c) = true -> connect_len c = Ok n ->
  connect_decode h t (concat (connect_enc c) ++ rest) = ROk c rest.
Proof.
  unfold I5.valid. cbn [I5.types_inv]. intros Hv H. split_and.
  destruct (c_protocol c) eqn:Epr; try discriminate.
  unfold connect_len in H. open_len H CONNECT_PROPS (c_props c) pl Epl.
  destruct (match c_will c with Some w => will_len w | None => Ok 0 end) as [wl|e|s] eqn:Ewl;
    cbn [obind] in H; try discriminate.
  match goal with Hw : opt_all I5.will_inv (c_will c) = true |- _ =>
    destruct (connect_flags_bits c (will_inv_qos _ Hw)) as (B0 & B1 & B2 & B3 & B5 & B6 & B7) end.
  match goal with Hk : u16 _ = true |- _ => unfold u16 in Hk; apply N.ltb_lt in Hk end.
  match goal with Hc : text_ok (c_client_id c) = true |- _ => apply text_ok_parts in Hc as [_ Hcu] end.
  match goal with Hs : short (c_client_id c) = true |- _ => apply short_le in Hs end.
  unfold connect_decode, connect_enc. rewrite Epr. rewrite concat_app, <- app_assoc.
  erewrite bind_ok by apply protocol_rt. cbn [connect_decode_with_protocol].
  rewrite !concat_app, <- !app_assoc. unfold lp_chunks. norm_bytes.
  erewrite bind_ok by apply read_u8_one. rewrite B0.
  erewrite bind_ok by (apply read_u16_be16; assumption).
  erewrite bind_ok by (eapply props_simple; [exact nodup_connect|eassumption|eassumption|exact Epl]).
  erewrite bind_ok by (apply read_string_lp; assumption).
  erewrite bind_ok by (eapply will_opt_rt; eassumption).
  erewrite bind_ok by (apply opt_string_rt; assumption).
  erewrite bind_ok by (apply opt_bytes_rt; assumption).
  unfold ret. rewrite B1. destruct c; cbn [c_protocol] in Epr; subst; reflexivity.
Qed.

Section WithFilterHyp.
(* proved elsewhere (TopicFilter: the debug_assert of is_invalid never fires on UTF-8 text) *)
Hypothesis filter_profile_indep :
  forall s, utf8_valid s = true -> filter_is_invalid Debug s = filter_is_invalid Release s.

Lemma filter_try_ok prof f : filter_ok f = true ->
  filter_try prof (ftext f) = Ok f /\ len (ftext f) <= 65535 /\ utf8_valid (ftext f) = true.
Proof.
  unfold filter_ok. intros H. apply andb_true_iff in H as [Ht H]. apply text_ok_parts in Ht as [_ Hu].
  destruct (filter_is_invalid Release (ftext f)) as [[b sep]|e|s] eqn:E; try discriminate.
  destruct b; [discriminate|]. apply N.eqb_eq in H.
  split; [|split; [|exact Hu]].
  - unfold filter_try. assert (E' : filter_is_invalid prof (ftext f) = Ok (false, sep))
      by (destruct prof; [rewrite filter_profile_indep by exact Hu|]; exact E).
    rewrite E'. destruct f as [tx sx]; cbn [ftext fsepidx] in *; subst; reflexivity.
  - unfold filter_is_invalid in E. destruct (N.ltb_spec 65535 (len (ftext f))); [discriminate|lia].
Qed.

Lemma filter_read_ok prof f t rest : filter_ok f = true ->
  V3.filter_read prof t (be16 (len (ftext f) mod 65536) ++ ftext f ++ rest) = ROk f rest.
Proof.
  intros H. destruct (filter_try_ok prof f H) as [Ht [Hl Hu]]. unfold V3.filter_read.
  erewrite bind_ok by (apply read_string_lp; assumption). rewrite Ht. reflexivity.
Qed.

Lemma subscribe_loop_rt prof t rest : forall ts acc fuel,
  forallb (fun '(f, o) => filter_ok f && I5.subopts_inv o) ts = true ->
  subscribe_loop prof (length ts + fuel) (topics_len5 ts) acc t (concat (sub_enc5 ts) ++ rest)
  = ROk (rev acc ++ ts) rest.
Proof.
  induction ts as [|[tf o] ts IH]; intros acc fuel Hc.
  - cbn [length plus]. change (topics_len5 []) with 0.
    destruct fuel; cbn [subscribe_loop]; ground_tests; unfold ret; rewrite rev'_rev, app_nil_r; reflexivity.
  - cbn [forallb] in Hc. apply andb_true_iff in Hc as [Hc0 Hc]. apply andb_true_iff in Hc0 as [Hf Ho].
    cbn [length plus]. rewrite topics_len5_cons. cbn [subscribe_loop].
    destruct (N.eqb_spec (3 + len (ftext tf) + topics_len5 ts) 0) as [E|_]; [lia|].
    unfold sub_enc5. cbn [flat_map]. fold (sub_enc5 ts). rewrite concat_app. norm_bytes.
    erewrite bind_ok by (apply filter_read_ok; exact Hf).
    erewrite bind_ok by apply read_u8_one.
    rewrite (subopts_rt _ Ho). cbn [lift_outcome]. rewrite bind_ret.
    erewrite bind_ok by (apply checked_sub_ok; lia).
    replace (3 + len (ftext tf) + topics_len5 ts - (3 + len (ftext tf))) with (topics_len5 ts) by lia.
    rewrite IH by exact Hc. cbn [rev]. rewrite <- app_assoc. reflexivity.
Qed.

Lemma subscribe_rt prof s h n t rest :
  I5.valid (Subscribe s) = true -> subscribe_len s = Ok n -> h_rl h = n ->
  subscribe_decode prof h t (concat (subscribe_enc s) ++ rest) = ROk s rest.
Proof.
  unfold I5.valid. cbn [I5.types_inv]. unfold subscribe_len, subscribe_decode, subscribe_enc.
  intros Hv H Hrl. open_len H SUBSCRIBE_PROPS (s_props s) pl Epl.
  inversion H as [Hn]; clear H. rewrite <- Hn in Hrl. clear Hn. split_and. rewrite Hrl.
  fold (sub_enc5 (s_topics s)). fold (topics_len5 (s_topics s)).
  rewrite concat_cons, concat_app, <- !app_assoc.
  erewrite bind_ok by (apply pid_read_be16; assumption).
  erewrite bind_ok by (eapply props_simple; [exact nodup_subscribe|eassumption|eassumption|exact Epl]).
  rewrite Epl. cbn [lift_outcome]. rewrite bind_ret.
  erewrite bind_ok by (apply checked_sub_ok; lia).
  replace (2 + pl + topics_len5 (s_topics s) - (2 + pl)) with (topics_len5 (s_topics s)) by lia.
  assert (Hne : topics_len5 (s_topics s) <> 0).
  { destruct (s_topics s) as [|[tf o] ts]; [discriminate|]. rewrite topics_len5_cons. lia. }
  destruct (N.eqb_spec (topics_len5 (s_topics s)) 0) as [E|_]; [contradiction|]. cbv beta.
  match goal with |- context [S (length ?d)] =>
    replace (S (length d)) with (length (s_topics s) + (S (length d) - length (s_topics s)))%nat
      by (pose proof (sub_enc5_count (s_topics s)); rewrite app_length; lia) end.
  erewrite bind_ok by (apply subscribe_loop_rt; assumption).
  unfold ret. cbn [rev app]. destruct s; reflexivity.
Qed.

Lemma unsubscribe_loop_rt prof t rest : forall ts acc fuel,
  forallb filter_ok ts = true ->
  unsubscribe_loop prof (length ts + fuel) (utopics_len5 ts) acc t (concat (unsub_enc5 ts) ++ rest)
  = ROk (rev acc ++ ts) rest.
Proof.
  induction ts as [|tf ts IH]; intros acc fuel Hc.
  - cbn [length plus]. change (utopics_len5 []) with 0.
    destruct fuel; cbn [unsubscribe_loop]; ground_tests; unfold ret; rewrite rev'_rev, app_nil_r; reflexivity.
  - cbn [forallb] in Hc. apply andb_true_iff in Hc as [Hf Hc].
    cbn [length plus]. rewrite utopics_len5_cons. cbn [unsubscribe_loop].
    destruct (N.eqb_spec (2 + len (ftext tf) + utopics_len5 ts) 0) as [E|_]; [lia|].
    unfold unsub_enc5. cbn [flat_map]. fold (unsub_enc5 ts). rewrite concat_app. norm_bytes.
    erewrite bind_ok by (apply filter_read_ok; exact Hf).
    erewrite bind_ok by (apply checked_sub_ok; lia).
    replace (2 + len (ftext tf) + utopics_len5 ts - (2 + len (ftext tf))) with (utopics_len5 ts) by lia.
    rewrite IH by exact Hc. cbn [rev]. rewrite <- app_assoc. reflexivity.
Qed.

Lemma unsubscribe_rt prof u h n t rest :
  I5.valid (Unsubscribe u) = true -> unsubscribe_len u = Ok n -> h_rl h = n ->
  unsubscribe_decode prof h t (concat (unsubscribe_enc u) ++ rest) = ROk u rest.
Proof.
  unfold I5.valid. cbn [I5.types_inv]. unfold unsubscribe_len, unsubscribe_decode, unsubscribe_enc.
  intros Hv H Hrl. open_len H UNSUBSCRIBE_PROPS (u_props u) pl Epl.
  inversion H as [Hn]; clear H. rewrite <- Hn in Hrl. clear Hn. split_and. rewrite Hrl.
  destruct (props_len_inv _ _ _ Epl) as [Hb Hpl].
  fold (unsub_enc5 (u_topics u)). fold (utopics_len5 (u_topics u)).
  rewrite concat_cons, concat_app, <- !app_assoc.
  erewrite bind_ok by (apply pid_read_be16; assumption).
  erewrite bind_ok by (apply props_rt; [exact nodup_unsubscribe|assumption|assumption|exact Hb]).
  cbv beta iota.
  erewrite bind_ok by (apply checked_sub_ok; lia).
  match goal with |- context [?a - ?b =? 0] =>
    replace (a - b) with (utopics_len5 (u_topics u)) by lia end.
  assert (Hne : utopics_len5 (u_topics u) <> 0).
  { destruct (u_topics u) as [|tf ts]; [discriminate|]. rewrite utopics_len5_cons. lia. }
  destruct (N.eqb_spec (utopics_len5 (u_topics u)) 0) as [E|_]; [contradiction|]. cbv beta.
  match goal with |- context [S (length ?d)] =>
    replace (S (length d)) with (length (u_topics u) + (S (length d) - length (u_topics u)))%nat
      by (pose proof (unsub_enc5_count (u_topics u)); rewrite app_length; lia) end.
  erewrite bind_ok by (apply unsubscribe_loop_rt; assumption).
  unfold ret. cbn [rev app]. destruct u; reflexivity.
Qed.


(* ================================================================== *)
(* Whole packets                                                       *)
(* ================================================================== *)
Lemma header_rt cb n h t d : n < 268435456 -> header_new_with cb n = Ok h ->
  header_decode t (cb :: write_var_int n ++ d) = ROk h d.
Proof.
  intros Hn Hh. unfold header_decode, decode_raw_header.
  erewrite bind_ok by (erewrite bind_ok by apply read_u8_cons;
                       erewrite bind_ok by (apply decode_var_int_write; exact Hn); reflexivity).
  cbv beta iota. rewrite Hh. reflexivity.
Qed.

(* the header the decoder builds from the control byte the encoder wrote *)
Definition hdr (p : packet) (n : N) : header :=
  match p with
  | Connect _ => V3.mk_header PConnect n
  | Connack _ => V3.mk_header PConnack n
  | Publish x => {| h_typ := PPublish; h_dup := p_dup x; h_qos := qospid_qos (p_qospid x);
                    h_retain := p_retain x; h_rl := n |}
  | Puback _ => V3.mk_header PPuback n
  | Pubrec _ => V3.mk_header PPubrec n
  | Pubrel _ => V3.mk_header PPubrel n
  | Pubcomp _ => V3.mk_header PPubcomp n
  | Subscribe _ => V3.mk_header PSubscribe n
  | Suback _ => V3.mk_header PSuback n
  | Unsubscribe _ => V3.mk_header PUnsubscribe n
  | Unsuback _ => V3.mk_header PUnsuback n
  | Pingreq => V3.mk_header PPingreq n
  | Pingresp => V3.mk_header PPingresp n
  | Disconnect _ => V3.mk_header PDisconnect n
  | Auth _ => V3.mk_header PAuth n
  end.

Lemma header_of p n : body_enc p <> None -> header_new_with (control_byte p) n = Ok (hdr p n).
Proof.
  destruct p; cbn [body_enc control_byte hdr]; intros Hb; try reflexivity; try (exfalso; apply Hb; reflexivity).
  unfold V3.publish_control_byte. destruct (p_dup p), (p_retain p), (p_qospid p); reflexivity.
Qed.

Theorem v5_roundtrip prof p vb : I5.valid p = true -> encode prof p = Ok vb ->
  forall t rest, decode_async prof t (as_ref vb ++ rest) = ROk p rest.
Proof.
  intros Hv He t rest. destruct (body_enc p) as [[chunks blen]|] eqn:Eb.
  - destruct (encode_inv _ _ _ _ _ Eb He) as [n [-> [Hn ->]]].
    unfold decode_async. rewrite <- app_comm_cons, <- app_assoc.
    erewrite bind_ok by (apply header_rt; [exact Hn|apply header_of; rewrite Eb; discriminate]).
    destruct p; cbn [body_enc] in Eb; try discriminate; inversion Eb as [[Ec El]]; clear Eb;
      cbn [hdr V3.mk_header body_decode_async h_typ].
    + erewrite bind_ok by (eapply connect_rt; eassumption). reflexivity.
    + erewrite bind_ok by (eapply connack_rt; eassumption). reflexivity.
    + erewrite bind_ok by (eapply publish_rt; try eassumption; reflexivity). reflexivity.
    + unfold I5.valid in Hv. cbn [I5.types_inv] in Hv. apply andb_true_iff in Hv as [Hi Hp].
      erewrite bind_ok by (eapply ack_rt; try eassumption; reflexivity). reflexivity.
    + unfold I5.valid in Hv. cbn [I5.types_inv] in Hv. apply andb_true_iff in Hv as [Hi Hp].
      erewrite bind_ok by (eapply ack_rt; try eassumption; reflexivity). reflexivity.
    + unfold I5.valid in Hv. cbn [I5.types_inv] in Hv. apply andb_true_iff in Hv as [Hi Hp].
      erewrite bind_ok by (eapply ack_rt; try eassumption; reflexivity). reflexivity.
    + unfold I5.valid in Hv. cbn [I5.types_inv] in Hv. apply andb_true_iff in Hv as [Hi Hp].
      erewrite bind_ok by (eapply ack_rt; try eassumption; reflexivity). reflexivity.
    + erewrite bind_ok by (eapply subscribe_rt; try eassumption; reflexivity). reflexivity.
    + unfold I5.valid in Hv. cbn [I5.types_inv] in Hv. apply andb_true_iff in Hv as [Hi Hp].
      erewrite bind_ok by (eapply suback_rt; try eassumption; reflexivity). reflexivity.
    + erewrite bind_ok by (eapply unsubscribe_rt; try eassumption; reflexivity). reflexivity.
    + unfold I5.valid in Hv. cbn [I5.types_inv] in Hv. apply andb_true_iff in Hv as [Hi Hp].
      erewrite bind_ok by (eapply suback_rt; try eassumption; reflexivity). reflexivity.
    + erewrite bind_ok by (eapply disconnect_rt; try eassumption; reflexivity). reflexivity.
    + erewrite bind_ok by (eapply auth_rt; try eassumption; reflexivity). reflexivity.
  - destruct (body_enc_none _ Eb) as [-> | ->]; cbn [encode] in He; inversion He; reflexivity.
Qed.

End WithFilterHyp.

(* ================================================================== *)
(* Non-vacuity                                                         *)
(* ================================================================== *)
Definition ex_connect : packet :=
  Connect {| c_protocol := V500; c_clean := true; c_keep_alive := 60;
             c_props := pset_user
                          (pset (pset (pset props_empty SessionExpiryInterval (Some (VN 3600)))
                                      ReceiveMaximum (Some (VN 100)))
                                AuthenticationMethod (Some (VB [80; 76; 65; 73; 78])))
                          [([107], [118]); ([97; 98], [99; 100])];
             c_client_id := [99; 108; 105];
             c_will := Some {| w_qos := 1; w_retain := true;
                               w_props := pset (pset props_empty WillDelayInterval (Some (VN 5)))
                                               PayloadFormatIndicator (Some (VN 1));
                               w_topic := [119; 47; 116]; w_payload := [104; 105] |};
             c_username := Some [117]; c_password := Some [1; 2; 3] |}.

Definition ex_publish : packet :=
  Publish {| p_dup := false; p_retain := true; p_qospid := QP1 7; p_topic := [97; 47; 98];
             p_props := pset_user
                          (pset (pset (pset props_empty SubscriptionIdentifier (Some (VN 300)))
                                      TopicAlias (Some (VN 4)))
                                ResponseTopic (Some (VB [114; 47; 116])))
                          [([107], [118])];
             p_payload := [1; 2; 255] |}.

Example ex_connect_valid : I5.valid ex_connect = true.
Proof. vm_compute. reflexivity. Qed.
Example ex_publish_valid : I5.valid ex_publish = true.
Proof. vm_compute. reflexivity. Qed.

Eval vm_compute in encode Debug ex_connect.
Eval vm_compute in encode Debug ex_publish.
Eval vm_compute in encode_len ex_connect.

Example ex_connect_rt :
  match encode Debug ex_connect with
  | Ok vb => decode_async Debug TEof (as_ref vb ++ [9; 9]) = ROk ex_connect [9; 9]
  | _ => False
  end.
Proof. vm_compute. reflexivity. Qed.
Example ex_publish_rt :
  match encode Release ex_publish with
  | Ok vb => decode_async Release TEof (as_ref vb) = ROk ex_publish []
  | _ => False
  end.
Proof. vm_compute. reflexivity. Qed.

Print Assumptions connect_rt.
Print Assumptions publish_rt.
Print Assumptions ack_rt.
Print Assumptions suback_rt.
Print Assumptions disconnect_rt.
Print Assumptions auth_rt.
Print Assumptions connack_rt.
Print Assumptions subscribe_rt.
Print Assumptions unsubscribe_rt.
Print Assumptions v5_roundtrip.
