(* Proofs/Reencode3.v — C11 for the v3 family: "Anything a decoder accepts can be re-encoded and
   decodes to itself".

   1. C11_v3_decoded_in_domain(_block,_poll) : what any front-end returns is in the encoder's domain
   2. C11_v3_redecode  : if it can be encoded at all, the re-encoding decodes to the same packet on the
                         async and blocking front-ends (poll clause: FrontRT3) — no class hypothesis
   3. C11_v3_not_longer(_block) : outside the KF2 class (frame overrun: the async / blocking
                         front-ends do not check the declared remaining length of CONNECT, CONNACK
                         and the pid-only packets) the packet IS encodable and the canonical encoding
                         is not longer than the bytes consumed
      C11_v3_length_any : with no class hypothesis, an encodable result is at most 3 bytes longer
   4. C11_v3_poll_reencode : the poll front-end is never in the class
   5. C11_KF2_witness_a    : the KF2 witness, by computation: consumed 164, re-encodes to 165

   Key lemma (m3_body / m3_block): for every packet type, body_len3 (result) <= body bytes consumed
   (for v3 every field is re-encoded with exactly the bytes it was read from; the only slack is a
   non-minimal remaining-length field in the fixed header).

   FINDINGS: none beyond KF2.  No packet type outside the KF2 class has a canonical encoding
   longer than a well-framed accepted input; the statements are proved as given. *)
From MQ Require Import Proofs.Tactics Proofs.VarIntLaws Proofs.Parses Proofs.Totality Model.Valid.
From MQ Require Export Proofs.ReencodeBase.
From MQ Require Proofs.DecInv Proofs.V3RT Proofs.TopicFilterEq Proofs.TopicNameEq Proofs.PollSched.
Open Scope N_scope.
Import V3.

(* ---------- weighted sums (topic lists) ---------- *)
Definition wsum {A} (w : A -> N) (l : list A) : N := fold_right (fun x a => w x + a) 0 l.
Lemma wsum_cons {A} (w : A -> N) x l : wsum w (x :: l) = w x + wsum w l.
Proof. reflexivity. Qed.
Lemma wsum_nil {A} (w : A -> N) : wsum w [] = 0.
Proof. reflexivity. Qed.
Lemma wsum_app {A} (w : A -> N) a b : wsum w (a ++ b) = wsum w a + wsum w b.
Proof.
  induction a as [|x a IH]; cbn [app]; [rewrite wsum_nil; lia|]. rewrite !wsum_cons, IH. lia.
Qed.
Lemma wsum_rev' {A} (w : A -> N) l : wsum w (rev' l) = wsum w l.
Proof.
  rewrite DecInv.rev'_rev. induction l as [|x l IH]; [reflexivity|].
  cbn [rev]. rewrite wsum_app, IH, !wsum_cons, wsum_nil. lia.
Qed.
Lemma wsum_one l : wsum (fun _ : N => 1) l = N.of_nat (length l).
Proof. induction l as [|x l IH]; [reflexivity|]. rewrite wsum_cons, IH. cbn [length]. lia. Qed.

Definition w_sub3 (x : tfilter * N) : N := 3 + len (ftext (fst x)).
Definition w_unsub (tf : tfilter) : N := 2 + len (ftext tf).

Lemma subscribe_len_wsum s : subscribe_len s = 2 + wsum w_sub3 (s_topics s).
Proof.
  unfold subscribe_len. f_equal. induction (s_topics s) as [|[tf q] l IH]; [reflexivity|].
  cbn [fold_right]. rewrite wsum_cons, IH. unfold w_sub3. cbn [fst]. lia.
Qed.
Lemma unsubscribe_len_wsum u : unsubscribe_len u = 2 + wsum w_unsub (u_topics u).
Proof.
  reflexivity. Qed.

(* ---------- measured post-conditions of the v3 body decoders ---------- *)
Lemma m3_connect_wp proto :
  postm (connect_decode_with_protocol proto) (fun c n => connect_len c = protocol_len proto + n).
Proof.
  unfold connect_decode_with_protocol.
  destruct (4 <? protocol_level proto); [apply postm_fail|].
  mbind (apply m_read_u8). intros flags ? ->.
  destruct (bit flags 0); [apply postm_fail|].
  mbind (apply m_read_u16). intros ka ? ->.
  mbind (apply m_read_string). intros cid ? ->.
  eapply postm_bind with (Q := fun o n => n = match o with Some w => will_len w | None => 0 end).
  { destruct (bit flags 2).
    - mbind (apply m_read_string). intros topic ? ->.
      mbind (apply m_read_bytes). intros msg ? ->.
      mbind (apply postm_lift). intros q ? [-> _].
      mbind (apply postm_lift). intros topic' ? [-> Ht]. apply TopicNameEq.name_try_inv in Ht as [-> _].
      apply postm_ret. unfold will_len. cbn [w_topic w_message]. lia.
    - destruct (negb ((flags / 8) mod 4 =? 0)); [apply postm_fail|]. apply postm_ret. reflexivity. }
  cbv beta. intros will ? ->.
  mbind (apply m_opt_string). intros un ? ->.
  mbind (apply m_opt_bytes). intros pw ? ->.
  apply postm_ret. unfold connect_len.
  cbn [c_protocol c_client_id c_will c_username c_password]. lia.
Qed.

Lemma m3_connect : postm connect_decode (fun c n => connect_len c = n).
Proof.
  unfold connect_decode. mbind (apply m_protocol_decode). intros proto ? ->.
  mweaken (apply m3_connect_wp). intros c n H. lia.
Qed.

Lemma m3_connack : postm connack_decode (fun _ n => n = 2).
Proof.
  unfold connack_decode. mbind (apply m_read_exact). intros payload ? [-> _].
  destruct payload as [|f [|c [|x r]]]; try apply postm_rpanic.
  eapply postm_bind with (Q := fun _ n => n = 0).
  { destruct (f =? 0); [apply postm_ret; reflexivity|].
    destruct (f =? 1); [apply postm_ret; reflexivity|apply postm_fail]. }
  cbv beta. intros sp ? ->.
  mbind (apply postm_lift). intros code ? [-> _]. apply postm_ret. lia.
Qed.

Lemma m3_publish h : postm (publish_decode h) (fun p n => publish_len p = n).
Proof.
  unfold publish_decode. mbind (apply m_read_string). intros topic ? ->.
  mbind (apply m_checked_sub). intros rl ? ->.
  mbind (apply m_qospid). intros [qp rl'] ? ->. cbn [fst].
  eapply postm_bind with (Q := fun s n => n = len s).
  { destruct (0 <? rl').
    - mweaken (apply m_read_exact). intros s n [-> Hs]. lia.
    - apply postm_ret. reflexivity. }
  cbv beta. intros payload ? ->.
  mbind (apply postm_lift). intros topic' ? [-> Ht]. apply TopicNameEq.name_try_inv in Ht as [-> _].
  apply postm_ret. unfold publish_len. cbn [p_topic p_qospid p_payload]. lia.
Qed.

Lemma m3_subscribe_loop prof fuel : forall rl acc,
  postm (subscribe_loop prof fuel rl acc) (fun l n => wsum w_sub3 l = wsum w_sub3 acc + n).
Proof.
  induction fuel as [|f IH]; intros rl acc; cbn [subscribe_loop];
    (destruct (rl =? 0); [apply postm_ret; rewrite wsum_rev'; lia|]).
  - apply postm_rpanic.
  - mbind (apply m_filter_read). intros tf ? ->.
    mbind (apply m_read_u8). intros qb ? ->.
    mbind (apply postm_lift). intros q ? [-> _].
    mbind (apply m_checked_sub). intros rl' ? ->.
    mweaken (apply IH). intros l n Hl. rewrite Hl, wsum_cons. unfold w_sub3 at 1. cbn [fst]. lia.
Qed.

Lemma m3_subscribe prof rl0 : postm (subscribe_decode prof rl0) (fun s n => subscribe_len s = n).
Proof.
  unfold subscribe_decode. mbind (apply m_pid_read). intros pid ? ->.
  mbind (apply m_checked_sub). intros rl ? ->.
  destruct (rl =? 0); [apply postm_fail|].
  apply postm_dep with (g := fun d => topics <- subscribe_loop prof (S (length d)) rl [] ;;
                                      ret {| s_pid := pid; s_topics := topics |}).
  intros d0. mbind (apply m3_subscribe_loop). intros topics n Hn.
  apply postm_ret. rewrite subscribe_len_wsum. cbn [s_topics]. rewrite Hn, wsum_nil. lia.
Qed.

Lemma m3_suback_loop fuel : forall rl acc,
  postm (suback_loop fuel rl acc) (fun l n => wsum (fun _ => 1) l = wsum (fun _ => 1) acc + n).
Proof.
  induction fuel as [|f IH]; intros rl acc; cbn [suback_loop];
    (destruct (rl =? 0); [apply postm_ret; rewrite wsum_rev'; lia|]).
  - apply postm_rpanic.
  - mbind (apply m_read_u8). intros v ? ->.
    mbind (apply postm_lift). intros code ? [-> _].
    mweaken (apply IH). intros l n Hl. rewrite Hl, wsum_cons. lia.
Qed.

Lemma m3_suback rl0 : postm (suback_decode rl0) (fun s n => suback_len s = n).
Proof.
  unfold suback_decode. mbind (apply m_pid_read). intros pid ? ->.
  mbind (apply m_checked_sub). intros rl ? ->.
  apply postm_dep with (g := fun d => codes <- suback_loop (S (length d)) rl [] ;;
                                      ret {| sa_pid := pid; sa_codes := codes |}).
  intros d0. mbind (apply m3_suback_loop). intros codes n Hn.
  apply postm_ret. unfold suback_len. cbn [sa_codes]. rewrite <- wsum_one, Hn, wsum_nil. lia.
Qed.

Lemma m3_unsubscribe_loop prof fuel : forall rl acc,
  postm (unsubscribe_loop prof fuel rl acc) (fun l n => wsum w_unsub l = wsum w_unsub acc + n).
Proof.
  induction fuel as [|f IH]; intros rl acc; cbn [unsubscribe_loop];
    (destruct (rl =? 0); [apply postm_ret; rewrite wsum_rev'; lia|]).
  - apply postm_rpanic.
  - mbind (apply m_filter_read). intros tf ? ->.
    mbind (apply m_checked_sub). intros rl' ? ->.
    mweaken (apply IH). intros l n Hl. rewrite Hl, wsum_cons. unfold w_unsub at 1. lia.
Qed.

Lemma m3_unsubscribe prof rl0 : postm (unsubscribe_decode prof rl0) (fun u n => unsubscribe_len u = n).
Proof.
  unfold unsubscribe_decode. mbind (apply m_pid_read). intros pid ? ->.
  mbind (apply m_checked_sub). intros rl ? ->.
  destruct (rl =? 0); [apply postm_fail|].
  apply postm_dep with (g := fun d => topics <- unsubscribe_loop prof (S (length d)) rl [] ;;
                                      ret {| u_pid := pid; u_topics := topics |}).
  intros d0. mbind (apply m3_unsubscribe_loop). intros topics n Hn.
  apply postm_ret. rewrite unsubscribe_len_wsum. cbn [u_topics]. rewrite Hn, wsum_nil. lia.
Qed.

Ltac m3_case lem :=
  mbind (apply lem); let x := fresh "x" in let n := fresh "n" in let H := fresh "H" in
  intros x n H; apply postm_ret; cbn [V3RT.body_len3]; lia.

(* the canonical body length of the result is at most (for v3: exactly) the body bytes consumed *)
Lemma m3_body prof h : postm (body_decode_async prof h) (fun p n => V3RT.body_len3 p <= n).
Proof.
  unfold body_decode_async. destruct (h_typ h);
    first [ apply postm_rpanic
          | apply postm_ret; cbn [V3RT.body_len3]; lia
          | m3_case m3_connect | m3_case m3_connack | m3_case (m3_publish h) | m3_case m_pid_read
          | m3_case (m3_subscribe prof (h_rl h)) | m3_case (m3_suback (h_rl h))
          | m3_case (m3_unsubscribe prof (h_rl h)) ].
Qed.

Lemma m3_block prof h : postm (block_decode prof h) (fun p n => V3RT.body_len3 p <= n).
Proof.
  unfold block_decode. destruct (h_typ h);
    first [ apply postm_rpanic
          | m3_case m3_connect | m3_case m3_connack | m3_case (m3_publish h) | m3_case m_pid_read
          | m3_case (m3_subscribe prof (h_rl h)) | m3_case (m3_suback (h_rl h))
          | m3_case (m3_unsubscribe prof (h_rl h)) ].
Qed.

(* ---------- the encoder on a packet whose canonical body fits ---------- *)
Lemma v3_reencode_fits prof p nb rl kk : V3RT.body_len3 p <= nb -> nb <= rl -> rl < VMAX -> width rl <= kk ->
  exists vb, encode prof p = Ok vb /\ len (as_ref vb) <= 1 + kk + nb.
Proof.
  intros H1 H2 H3 H4. destruct (fit _ _ _ _ H1 H2 H3 H4) as [Hb Hl].
  destruct (V3RT.encode_spec prof p Hb) as (vb & E & _). exists vb. split; [exact E|].
  rewrite (V3RT.encode_ok_len _ _ _ E). exact Hl.
Qed.

(* ================================================================== *)
(* 1. decoded packets are in the encoder's valid domain                *)
(* ================================================================== *)
Theorem C11_v3_decoded_in_domain : forall prof t d p d',
  bytes_okb d = true -> F3.dec_async prof t d = ROk p d' -> I3.valid p = true.
Proof.
  intros prof t d p d' Hd H.
  exact (DecInv.v3_decoded_valid TopicFilterEq.filter_profile_indep prof t d p d' Hd H).
Qed.

Theorem C11_v3_decoded_in_domain_block : forall prof d p,
  bytes_okb d = true -> F3.dec_block prof d = BOk p -> I3.valid p = true.
Proof.
  intros prof d p Hd H. unfold F3.dec_block, map_eof in H.
  destruct (decode_async prof TEof d) as [a d'|e|s] eqn:E.
  - inversion H; subst a. exact (C11_v3_decoded_in_domain prof TEof d p d' Hd E).
  - destruct (is_eof e); discriminate H.
  - discriminate H.
Qed.

(* what an accepting poll run looks like (PollSched.consumed_eq_total, instantiated) *)
Lemma v3_poll_ok_inv prof l t n body p :
  rr_res _ (F3.poll_drive prof l t) = Some (Ok (n, body, p)) ->
  exists (cb : N) (vbytes : bytes) (v : N) (h : header) (rest : bytes),
    bytes_of l = cb :: vbytes ++ body ++ rest /\
    PollSched.vbi_of vbytes v /\ header_new_with cb v = Ok h /\
    n = 1 + len vbytes + len body /\
    ((build_empty_packet h = Some p /\ body = []) \/
     (build_empty_packet h = None /\ h_rl h <> 0 /\ len body = h_rl h /\
      block_decode prof h TEof body = ROk p [])).
Proof.
  intros H. unfold F3.poll_drive in H.
  destruct (PollSched.consumed_eq_total _ _ _ _ prof l t n body p H)
    as (_ & _ & cb & vbytes & v & h & Hd & Hv & Hn & Ht & Hc).
  exists cb, vbytes, v, h, (bytes_of (rr_rest _ (poll_drive packet header_new_with build_empty_packet (block_decode prof) prof l t))).
  repeat split; assumption.
Qed.

Theorem C11_v3_decoded_in_domain_poll : forall prof l t n body p,
  rr_res _ (F3.poll_drive prof l t) = Some (Ok (n, body, p)) ->
  bytes_okb (bytes_of l) = true -> I3.valid p = true.
Proof.
  intros prof l t n body p H Hd.
  destruct (v3_poll_ok_inv _ _ _ _ _ _ H) as (cb & vbytes & v & h & rest & Hl & _ & _ & _ & Hc).
  destruct Hc as [[He _]|(_ & _ & _ & Hb)].
  - exact (DecInv.v3_empty_valid _ _ He).
  - rewrite Hl in Hd. apply DecInv.bytes_okb_cons in Hd as [_ Hd].
    rewrite !DecInv.bytes_okb_app in Hd. apply andb_true_iff in Hd as [_ Hd]. apply andb_true_iff in Hd as [Hd _].
    exact (DecInv.v3_block_decoded_valid TopicFilterEq.filter_profile_indep prof h TEof body p [] Hb Hd).
Qed.

(* ================================================================== *)
(* 2. the re-encoding decodes to the same packet                       *)
(* ================================================================== *)
Theorem C11_v3_redecode : forall prof p vb, I3.valid p = true -> encode prof p = Ok vb ->
  (forall t rest, F3.dec_async prof t (as_ref vb ++ rest) = ROk p rest) /\
  (forall rest, F3.dec_block prof (as_ref vb ++ rest) = BOk p).
Proof.
  intros prof p vb Hv He.
  pose proof (V3RT.v3_roundtrip TopicFilterEq.filter_profile_indep prof p vb Hv He) as Hrt.
  split; [exact Hrt|]. intros rest. unfold F3.dec_block. rewrite (Hrt TEof rest). reflexivity.
Qed.

(* decoded, re-encoded, decoded again: the same packet (items 1 and 2 composed) *)
Corollary C11_v3_decode_encode_decode : forall prof t d p d' vb,
  bytes_okb d = true -> F3.dec_async prof t d = ROk p d' -> encode prof p = Ok vb ->
  forall t2 rest, F3.dec_async prof t2 (as_ref vb ++ rest) = ROk p rest.
Proof.
  intros prof t d p d' vb Hd H He.
  exact (proj1 (C11_v3_redecode prof p vb (C11_v3_decoded_in_domain _ _ _ _ _ Hd H) He)).
Qed.

(* ================================================================== *)
(* 3. encodable, and not longer, outside the KF2 class                 *)
(* ================================================================== *)
Theorem C11_v3_not_longer : forall prof t d p d' cb rl k rest0,
  bytes_okb d = true -> F3.dec_async prof t d = ROk p d' ->
  decode_raw_header t d = ROk (cb, rl) rest0 -> k = len d - len rest0 ->   (* the header used k bytes and declares rl *)
  consumed d d' <= k + rl ->                                               (* not a frame overrun (KF2 class excluded) *)
  exists vb, encode prof p = Ok vb /\ len (as_ref vb) <= consumed d d'.
Proof.
  intros prof t d p d' cb rl k rest0 Hd H Hraw Hk Hc.
  unfold F3.dec_async, decode_async, header_decode in H.
  apply bind_inv in H as (h & d1 & Hh & Hb).
  apply bind_inv in Hh as ([cb' rl'] & d0 & Hraw' & Hl).
  rewrite Hraw in Hraw'. inversion Hraw'; subst cb' rl' d0.
  apply lift_inv in Hl as [_ ->].
  destruct (raw_header_measure _ _ _ _ _ Hraw) as (kk & L0 & Hrl & Hw).
  destruct (m3_body prof h _ _ _ _ Hb) as (nb & L1 & Hlen).
  unfold consumed in *.
  destruct (v3_reencode_fits prof p nb rl kk Hlen) as (vb & E & Hle); [lia|exact Hrl|exact Hw|].
  exists vb. split; [exact E|lia].
Qed.

(* the same for the blocking front-end (it is the async decoder on a slice) *)
Theorem C11_v3_not_longer_block : forall prof d p,
  bytes_okb d = true -> F3.dec_block prof d = BOk p ->
  exists d', F3.dec_async prof TEof d = ROk p d' /\                        (* the slice left over *)
    forall cb rl k rest0,
      decode_raw_header TEof d = ROk (cb, rl) rest0 -> k = len d - len rest0 ->
      consumed d d' <= k + rl ->
      exists vb, encode prof p = Ok vb /\ len (as_ref vb) <= consumed d d'.
Proof.
  intros prof d p Hd H. unfold F3.dec_block, map_eof in H. unfold F3.dec_async.
  destruct (decode_async prof TEof d) as [a d'|e|s] eqn:E.
  - inversion H; subst a. exists d'. split; [reflexivity|].
    intros cb rl k rest0 Hraw Hk Hc.
    exact (C11_v3_not_longer prof TEof d p d' cb rl k rest0 Hd E Hraw Hk Hc).
  - destruct (is_eof e); discriminate H.
  - discriminate H.
Qed.

(* without any class hypothesis: IF the decoded packet is encodable, the encoding exceeds the
   bytes consumed by at most the growth of the remaining-length field (<= 3 bytes) *)
Theorem C11_v3_length_any : forall prof t d p d' vb,
  F3.dec_async prof t d = ROk p d' -> encode prof p = Ok vb ->
  len (as_ref vb) <= consumed d d' + 3.
Proof.
  intros prof t d p d' vb H E.
  unfold F3.dec_async, decode_async, header_decode in H.
  apply bind_inv in H as (h & d1 & Hh & Hb).
  apply bind_inv in Hh as ([cb rl] & d0 & Hraw & Hl). apply lift_inv in Hl as [_ ->].
  destruct (raw_header_measure _ _ _ _ _ Hraw) as (kk & L0 & Hrl & Hw).
  destruct (m3_body prof h _ _ _ _ Hb) as (nb & L1 & Hlen).
  rewrite (V3RT.encode_ok_len _ _ _ E). unfold consumed.
  pose proof (width_pos (V3RT.body_len3 p)). pose proof (width_pos rl). lia.
Qed.

(* ================================================================== *)
(* 4. the poll front-end is never in the class                         *)
(* ================================================================== *)
Theorem C11_v3_poll_reencode : forall prof l t n body p,
  bytes_okb (bytes_of l) = true ->
  rr_res _ (F3.poll_drive prof l t) = Some (Ok (n, body, p)) ->
  exists vb, encode prof p = Ok vb /\ len (as_ref vb) <= n.
Proof.
  intros prof l t n body p Hd H.
  destruct (v3_poll_ok_inv _ _ _ _ _ _ H) as (cb & vbytes & v & h & rest & Hl & Hv & Hnw & Hn & Hc).
  pose proof (Hv TEof []) as Hdv. rewrite app_nil_r in Hdv.
  destruct (dvi_measure _ _ _ _ _ Hdv) as (_ & Hvb & Hw & _).
  pose proof (PollSched.V3_new_with_rl _ _ _ Hnw) as Hrl.
  destruct Hc as [[He ->]|(_ & _ & Hlb & Hb)].
  - assert (Hz : V3RT.body_len3 p <= 0).
    { unfold build_empty_packet in He. destruct (h_typ h); inversion He; subst p; cbn [V3RT.body_len3]; lia. }
    destruct (v3_reencode_fits prof p 0 v (len vbytes) Hz) as (vb & E & Hle); [lia|exact Hvb|exact Hw|].
    exists vb. split; [exact E|]. rewrite len_nil in Hn. lia.
  - destruct (m3_block prof h _ _ _ _ Hb) as (nb & L1 & Hlen). rewrite len_nil in L1.
    destruct (v3_reencode_fits prof p nb v (len vbytes) Hlen) as (vb & E & Hle); [lia|exact Hvb|exact Hw|].
    exists vb. split; [exact E|lia].
Qed.

(* ================================================================== *)
(* 5. KF2, witness (a): CONNECT declaring remaining length 0 followed  *)
(*    by a 162-byte body: accepted by the async / blocking front-ends, *)
(*    164 bytes consumed, canonical encoding 165 bytes                 *)
(* ================================================================== *)
Definition kf2_a : bytes := [16; 0; 0; 4; 77; 81; 84; 84; 4; 2; 0; 10; 0; 150] ++ repeat 99 150.

Example C11_KF2_witness_a :
  let d := [16; 0; 0; 4; 77; 81; 84; 84; 4; 2; 0; 10; 0; 150] ++ repeat 99 150 in
  exists p d', F3.dec_async Release TEof d = ROk p d' /\ consumed d d' = 164 /\
               exists vb, encode Release p = Ok vb /\ len (as_ref vb) = 165.
Proof.
  cbv zeta.
  destruct (F3.dec_async Release TEof ([16; 0; 0; 4; 77; 81; 84; 84; 4; 2; 0; 10; 0; 150] ++ repeat 99 150))
    as [p d'|e|s] eqn:E; vm_compute in E; try discriminate E.
  inversion E; subst p d'. eexists; eexists. split; [reflexivity|]. split; [vm_compute; reflexivity|].
  eexists. split; [vm_compute; reflexivity|vm_compute; reflexivity].
Qed.

(* the witness is in the excluded class: its header uses 2 bytes and declares 0 *)
Example C11_KF2_witness_a_in_class :
  decode_raw_header TEof kf2_a = ROk (16, 0) (skipn 2 kf2_a) /\ 164 > 2 + 0.
Proof. split; [vm_compute; reflexivity|lia]. Qed.

(* ...and the poll front-end refuses it *)
Example C11_KF2_witness_a_poll :
  rr_res _ (F3.poll1 Release kf2_a TEof) = Some (Err InvalidRemainingLength).
Proof. vm_compute. reflexivity. Qed.

Print Assumptions C11_v3_decoded_in_domain.
Print Assumptions C11_v3_decoded_in_domain_block.
Print Assumptions C11_v3_decoded_in_domain_poll.
Print Assumptions C11_v3_redecode.
Print Assumptions C11_v3_decode_encode_decode.
Print Assumptions C11_v3_not_longer.
Print Assumptions C11_v3_not_longer_block.
Print Assumptions C11_v3_length_any.
Print Assumptions C11_v3_poll_reencode.
Print Assumptions C11_KF2_witness_a.
