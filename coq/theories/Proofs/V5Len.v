(* Proofs/V5Len.v — v5 family: declared body lengths equal bytes written (C02), the encoder emits
   bytes, inversion of Packet::encode, profile independence, 2^28 and above refused. *)
From MQ Require Import Proofs.Tactics Proofs.VarIntLaws Proofs.Parses Proofs.PropsRT Model.Valid.
Open Scope N_scope.
Import V5.

Ltac split_and :=
  repeat match goal with
  | H : _ && _ = true |- _ => apply andb_true_iff in H; destruct H
  end.

(* ---------- outcome helpers ---------- *)
Lemma total_len_inv n tl : total_len n = Ok tl -> n < 268435456 /\ tl = n + 1 + width n.
Proof.
  intros H. destruct (N.lt_ge_cases n 268435456) as [Hb|Hb].
  - rewrite (total_len_ok _ Hb) in H. inversion H. auto.
  - destruct (too_large _ Hb) as [_ [E _]]. rewrite E in H. discriminate.
Qed.

Lemma encode_packet_ok prof cb chunks n : clen chunks = n -> n < 268435456 ->
  V3.encode_packet prof cb chunks n = Ok (cb :: write_var_int n ++ concat chunks).
Proof.
  intros Hc Hn. unfold V3.encode_packet. rewrite (total_len_ok _ Hn).
  destruct prof; [|reflexivity].
  rewrite len_cons, len_app. destruct (write_len _ Hn) as [-> _]. fold (clen chunks). rewrite Hc.
  replace (1 + (width n + n)) with (n + 1 + width n) by lia. rewrite N.eqb_refl. reflexivity.
Qed.

Lemma encode_packet_inv prof cb chunks n b : V3.encode_packet prof cb chunks n = Ok b ->
  n < 268435456 /\ b = cb :: write_var_int n ++ concat chunks.
Proof.
  unfold V3.encode_packet. intros H. destruct (total_len n) as [tl|e|s] eqn:Et; try discriminate.
  destruct (total_len_inv _ _ Et) as [Hn _]. split; [exact Hn|].
  destruct prof.
  - destruct (len (cb :: write_var_int n ++ concat chunks) =? tl); [|discriminate]. inversion H. reflexivity.
  - inversion H. reflexivity.
Qed.

(* ---------- Packet::encode / encode_len through body_enc ---------- *)
Lemma encode_unfold prof p chunks blen : body_enc p = Some (chunks, blen) ->
  encode prof p = (n <-o blen ;; b <-o V3.encode_packet prof (control_byte p) chunks n ;; Ok (Dynamic b)).
Proof. destruct p; cbn [body_enc]; intros H; try discriminate; inversion H; subst; reflexivity. Qed.

Lemma encode_len_unfold p chunks blen : body_enc p = Some (chunks, blen) ->
  encode_len p = (n <-o blen ;; total_len n).
Proof. destruct p; cbn [body_enc]; intros H; try discriminate; inversion H; subst; reflexivity. Qed.

Lemma body_enc_none p : body_enc p = None -> p = Pingreq \/ p = Pingresp.
Proof. destruct p; cbn [body_enc]; intros H; try discriminate; auto. Qed.

Definition body_len5 (p : packet) : outcome N :=
  match body_enc p with Some (_, n) => n | None => Ok 0 end.

(* ---------- chunk helpers ---------- *)
Lemma clen_lp s : clen (lp_chunks s) = 2 + len s.
Proof. unfold lp_chunks. rewrite !clen_cons, ?clen_nil, ?clen_nil', len_be16. lia. Qed.
Lemma clen_opt_lp o : clen (V3.opt_lp o) = V3.opt_lp_len o.
Proof. destruct o as [s|]; [|reflexivity]. cbn [V3.opt_lp V3.opt_lp_len]. rewrite !clen_cons, ?clen_nil, ?clen_nil', len_be16. lia. Qed.
Lemma clen_protocol pr : clen (protocol_enc pr) = protocol_len pr.
Proof. destruct pr; reflexivity. Qed.
Lemma clen_qospid q : clen (V3.qospid_enc q) = V3.qospid_len q.
Proof. destruct q; reflexivity. Qed.
Lemma clen_one (c : bytes) : clen [c] = len c.
Proof. rewrite clen_cons, ?clen_nil, ?clen_nil'. lia. Qed.

Lemma props_clen L ps pl : props_var_ok L ps = true -> props_len L ps = Ok pl -> clen (props_enc L ps) = pl.
Proof.
  intros Hv H. destruct (props_len_inv _ _ _ H) as [Hb ->].
  destruct (props_enc_len_gen _ _ Hv Hb) as [E _]. exact E.
Qed.

(* only PUBLISH_PROPS and SUBSCRIBE_PROPS contain a var-int property *)
Lemma var_ok_connect ps : props_var_ok CONNECT_PROPS ps = true. Proof. reflexivity. Qed.
Lemma var_ok_will ps : props_var_ok WILL_PROPS ps = true. Proof. reflexivity. Qed.
Lemma var_ok_connack ps : props_var_ok CONNACK_PROPS ps = true. Proof. reflexivity. Qed.
Lemma var_ok_ack ps : props_var_ok ACK_PROPS ps = true. Proof. reflexivity. Qed.
Lemma var_ok_unsubscribe ps : props_var_ok UNSUBSCRIBE_PROPS ps = true. Proof. reflexivity. Qed.
Lemma var_ok_disconnect ps : props_var_ok DISCONNECT_PROPS ps = true. Proof. reflexivity. Qed.
Lemma var_ok_auth ps : props_var_ok AUTH_PROPS ps = true. Proof. reflexivity. Qed.

(* destructure `pl <-o props_len L ps ;; Ok (...) = Ok n` *)
Ltac open_len H L ps pl E :=
  destruct (props_len L ps) as [pl|?e|?s] eqn:E; cbn [obind] in H; try discriminate.

(* ================================================================== *)
(* parts_len: X_len x = Ok n -> clen (X_enc x) = n                      *)
(* ================================================================== *)

Lemma will_parts_len w n : will_len w = Ok n -> clen (will_enc w) = n.
Proof.
  unfold will_len, will_enc. intros H. open_len H WILL_PROPS (w_props w) pl Epl.
  inversion H; subst n. rewrite !clen_app, !clen_lp, (props_clen _ _ _ (var_ok_will _) Epl). lia.
Qed.

Lemma connect_parts_len c n : connect_len c = Ok n -> clen (connect_enc c) = n.
Proof.
  unfold connect_len, connect_enc. intros H. open_len H CONNECT_PROPS (c_props c) pl Epl.
  destruct (match c_will c with Some w => will_len w | None => Ok 0 end) as [wl|e|s] eqn:Ewl;
    cbn [obind] in H; try discriminate.
  inversion H; subst n.
  assert (Ew : clen (match c_will c with Some w => will_enc w | None => [] end) = wl).
  { destruct (c_will c) as [w|]; [exact (will_parts_len _ _ Ewl)|inversion Ewl; reflexivity]. }
  rewrite !clen_app, clen_protocol, !clen_cons, ?clen_nil, ?clen_nil', clen_lp, !clen_opt_lp, Ew, len_one, len_be16.
  rewrite (props_clen _ _ _ (var_ok_connect _) Epl). lia.
Qed.

Lemma connack_parts_len c n : connack_len c = Ok n -> clen (connack_enc c) = n.
Proof.
  unfold connack_len, connack_enc. intros H. open_len H CONNACK_PROPS (ca_props c) pl Epl.
  inversion H; subst n. rewrite clen_app, !clen_cons, ?clen_nil, ?clen_nil', !len_one.
  rewrite (props_clen _ _ _ (var_ok_connack _) Epl). lia.
Qed.

Lemma publish_parts_len p n : props_var_ok PUBLISH_PROPS (p_props p) = true ->
  publish_len p = Ok n -> clen (publish_enc p) = n.
Proof.
  unfold publish_len, publish_enc. intros Hv H. open_len H PUBLISH_PROPS (p_props p) pl Epl.
  inversion H; subst n. rewrite !clen_app, clen_lp, clen_qospid, clen_one, (props_clen _ _ _ Hv Epl). lia.
Qed.

Lemma ack_parts_len a n : ack_len a = Ok n -> clen (ack_enc a) = n.
Proof.
  unfold ack_len, ack_enc. intros H. rewrite clen_cons, len_be16.
  destruct (props_is_default (a_props a)).
  - destruct (a_code a =? 0); inversion H; subst n; rewrite ?clen_one, ?clen_nil, ?clen_nil', ?len_one; lia.
  - open_len H ACK_PROPS (a_props a) pl Epl. inversion H; subst n.
    rewrite clen_cons, len_one, (props_clen _ _ _ (var_ok_ack _) Epl). lia.
Qed.

Definition topics_len5 (ts : list (tfilter * subopts)) : N :=
  fold_right (fun '(tf, _) a => 3 + len (ftext tf) + a) 0 ts.
Definition sub_enc5 (ts : list (tfilter * subopts)) : list bytes :=
  flat_map (fun '(tf, o) => [be16 (len (ftext tf) mod 65536); ftext tf; [subopts_to_u8 o]]) ts.
Lemma sub_enc5_len ts : clen (sub_enc5 ts) = topics_len5 ts.
Proof.
  induction ts as [|[tf o] ts IH]; [reflexivity|].
  unfold sub_enc5, topics_len5 in *. cbn [flat_map fold_right]. rewrite clen_app, IH.
  rewrite !clen_cons, ?clen_nil, ?clen_nil', len_be16, len_one. lia.
Qed.

Lemma subscribe_parts_len s n : props_var_ok SUBSCRIBE_PROPS (s_props s) = true ->
  subscribe_len s = Ok n -> clen (subscribe_enc s) = n.
Proof.
  unfold subscribe_len, subscribe_enc. intros Hv H. open_len H SUBSCRIBE_PROPS (s_props s) pl Epl.
  inversion H; subst n. fold (sub_enc5 (s_topics s)). fold (topics_len5 (s_topics s)).
  rewrite clen_cons, clen_app, len_be16, sub_enc5_len, (props_clen _ _ _ Hv Epl). lia.
Qed.

Lemma clen_codes (l : list N) : clen (map (fun c => [c]) l) = N.of_nat (length l).
Proof. rewrite clen_singletons. reflexivity. Qed.

Lemma suback_parts_len s n : suback_len s = Ok n -> clen (suback_enc s) = n.
Proof.
  unfold suback_len, suback_enc. intros H. open_len H ACK_PROPS (sa_props s) pl Epl.
  inversion H; subst n. rewrite clen_cons, clen_app, len_be16, clen_codes.
  rewrite (props_clen _ _ _ (var_ok_ack _) Epl). lia.
Qed.

Definition utopics_len5 (ts : list tfilter) : N := fold_right (fun tf a => 2 + len (ftext tf) + a) 0 ts.
Definition unsub_enc5 (ts : list tfilter) : list bytes :=
  flat_map (fun tf => [be16 (len (ftext tf) mod 65536); ftext tf]) ts.
Lemma unsub_enc5_len ts : clen (unsub_enc5 ts) = utopics_len5 ts.
Proof.
  induction ts as [|tf ts IH]; [reflexivity|].
  unfold unsub_enc5, utopics_len5 in *. cbn [flat_map fold_right]. rewrite clen_app, IH.
  rewrite !clen_cons, ?clen_nil, ?clen_nil', len_be16. lia.
Qed.

Lemma unsubscribe_parts_len u n : unsubscribe_len u = Ok n -> clen (unsubscribe_enc u) = n.
Proof.
  unfold unsubscribe_len, unsubscribe_enc. intros H. open_len H UNSUBSCRIBE_PROPS (u_props u) pl Epl.
  inversion H; subst n. fold (unsub_enc5 (u_topics u)). fold (utopics_len5 (u_topics u)).
  rewrite clen_cons, clen_app, len_be16, unsub_enc5_len, (props_clen _ _ _ (var_ok_unsubscribe _) Epl). lia.
Qed.

Lemma disconnect_parts_len d n : disconnect_len d = Ok n -> clen (disconnect_enc d) = n.
Proof.
  unfold disconnect_len, disconnect_enc. intros H.
  destruct (props_is_default (d_props d)).
  - destruct (d_code d =? 0); inversion H; subst n; rewrite ?clen_one, ?clen_nil, ?clen_nil', ?len_one; reflexivity.
  - open_len H DISCONNECT_PROPS (d_props d) pl Epl. inversion H; subst n.
    rewrite clen_cons, len_one, (props_clen _ _ _ (var_ok_disconnect _) Epl). lia.
Qed.

Lemma auth_parts_len d n : auth_len d = Ok n -> clen (auth_enc d) = n.
Proof.
  unfold auth_len, auth_enc. intros H.
  destruct ((d_code d =? 0) && props_is_default (d_props d)).
  - inversion H. reflexivity.
  - open_len H AUTH_PROPS (d_props d) pl Epl. inversion H; subst n.
    rewrite clen_cons, len_one, (props_clen _ _ _ (var_ok_auth _) Epl). lia.
Qed.

(* the only hypothesis the length law needs: subscription identifiers fit a VarByteInt *)
Definition var_ok5 (p : packet) : bool :=
  match p with
  | Publish x => props_var_ok PUBLISH_PROPS (p_props x)
  | Subscribe s => props_var_ok SUBSCRIBE_PROPS (s_props s)
  | _ => true
  end.

Lemma types_inv_var_ok5 p : I5.types_inv p = true -> var_ok5 p = true.
Proof.
  destruct p; cbn [I5.types_inv var_ok5]; intros H; try reflexivity; split_and;
    eapply props_inv_var_ok; eassumption.
Qed.
Lemma valid_types_inv p : I5.valid p = true -> I5.types_inv p = true.
Proof. unfold I5.valid. intros H. apply andb_true_iff in H as [H _]. exact H. Qed.

Theorem v5_parts_len_gen p chunks n : var_ok5 p = true -> body_enc p = Some (chunks, Ok n) -> clen chunks = n.
Proof.
  destruct p; cbn [body_enc var_ok5]; intros Hv H; try discriminate; inversion H as [[Hc Hn]]; clear H.
  - exact (connect_parts_len _ _ Hn).
  - exact (connack_parts_len _ _ Hn).
  - exact (publish_parts_len _ _ Hv Hn).
  - exact (ack_parts_len _ _ Hn).
  - exact (ack_parts_len _ _ Hn).
  - exact (ack_parts_len _ _ Hn).
  - exact (ack_parts_len _ _ Hn).
  - exact (subscribe_parts_len _ _ Hv Hn).
  - exact (suback_parts_len _ _ Hn).
  - exact (unsubscribe_parts_len _ _ Hn).
  - exact (suback_parts_len _ _ Hn).
  - exact (disconnect_parts_len _ _ Hn).
  - exact (auth_parts_len _ _ Hn).
Qed.

Theorem v5_parts_len p chunks n : I5.valid p = true -> body_enc p = Some (chunks, Ok n) -> clen chunks = n.
Proof. intros Hv. apply v5_parts_len_gen. apply types_inv_var_ok5, valid_types_inv, Hv. Qed.

(* ================================================================== *)
(* the encoders emit bytes                                             *)
(* ================================================================== *)
Ltac bytes_split :=
  repeat first [ rewrite concat_app
               | match goal with |- context [concat (_ :: _)] => rewrite concat_cons end ];
  rewrite ?concat_nil, ?app_nil_r, ?bytes_okb_app;
  repeat match goal with |- _ && _ = true => apply andb_true_intro; split end.

Lemma bytes_lp s : bytes_okb s = true -> bytes_okb (concat (lp_chunks s)) = true.
Proof. intros H. unfold lp_chunks. norm_bytes. rewrite bytes_okb_app, bytes_okb_lenpfx, H. reflexivity. Qed.
Lemma bytes_opt_lp o : opt_all bytes_okb o = true -> bytes_okb (concat (V3.opt_lp o)) = true.
Proof.
  destruct o as [s|]; cbn [opt_all V3.opt_lp]; intros H; [|reflexivity].
  norm_bytes. rewrite bytes_okb_app, bytes_okb_lenpfx, H. reflexivity.
Qed.
Lemma opt_text_bytes o : opt_all text_ok o = true -> opt_all bytes_okb o = true.
Proof. destruct o as [s|]; cbn [opt_all]; intros H; [|reflexivity]. apply text_ok_parts in H as [H _]. exact H. Qed.
Lemma bytes_protocol pr : bytes_okb (concat (protocol_enc pr)) = true.
Proof. destruct pr; reflexivity. Qed.
Lemma props_bytes L ps pl : props_inv L ps = true -> props_len L ps = Ok pl ->
  bytes_okb (concat (props_enc L ps)) = true.
Proof. intros Hi H. destruct (props_len_inv _ _ _ H) as [Hb _]. exact (props_enc_bytes_inv _ _ Hi Hb). Qed.
Lemma pid_bytes p : pid_ok p = true -> bytes_okb (be16 p) = true.
Proof. unfold pid_ok, u16. intros H. split_and. apply bytes_okb_be16. apply N.ltb_lt. assumption. Qed.

Lemma will_enc_bytes w n : I5.will_inv w = true -> will_len w = Ok n -> bytes_okb (concat (will_enc w)) = true.
Proof.
  unfold I5.will_inv, will_len, will_enc. intros Hi H. open_len H WILL_PROPS (w_props w) pl Epl. split_and.
  bytes_split.
  - eapply props_bytes; eassumption.
  - apply bytes_lp. match goal with H : name_ok _ = true |- _ => apply name_ok_parts in H as [H _]; exact H end.
  - apply bytes_lp. assumption.
Qed.

Lemma connect_flags_byte c : opt_all I5.will_inv (c_will c) = true -> connect_flags c < 256.
Proof.
  unfold connect_flags. intros H.
  destruct (c_clean c), (c_username c), (c_password c), (c_will c) as [w|]; cbn [opt_all] in H; try lia;
    unfold I5.will_inv in H; split_and;
    match goal with H : (w_qos w <? 3) = true |- _ => apply N.ltb_lt in H end;
    destruct (w_retain w); lia.
Qed.

Lemma connect_enc_bytes c n : I5.types_inv (Connect c) = true -> connect_len c = Ok n ->
  bytes_okb (concat (connect_enc c)) = true.
Proof.
  cbn [I5.types_inv]. unfold connect_len, connect_enc. intros Hi H.
  open_len H CONNECT_PROPS (c_props c) pl Epl.
  destruct (match c_will c with Some w => will_len w | None => Ok 0 end) as [wl|e|s] eqn:Ewl;
    cbn [obind] in H; try discriminate.
  split_and. bytes_split.
  - apply bytes_protocol.
  - apply bytes_okb_one. apply connect_flags_byte. assumption.
  - apply bytes_okb_be16.
    match goal with H : u16 _ = true |- _ => unfold u16 in H; apply N.ltb_lt in H; exact H end.
  - eapply props_bytes; eassumption.
  - apply bytes_lp. match goal with H : text_ok _ = true |- _ => apply text_ok_parts in H as [H _]; exact H end.
  - destruct (c_will c) as [w|]; [|reflexivity]. eapply will_enc_bytes; [|exact Ewl]. assumption.
  - apply bytes_opt_lp, opt_text_bytes. assumption.
  - apply bytes_opt_lp. assumption.
Qed.

Lemma mem_n_bound c L : forallb (fun x => x <? 256) L = true -> mem_n c L = true -> c < 256.
Proof.
  unfold mem_n. intros HL H. apply existsb_exists in H as [x [Hin E]]. apply N.eqb_eq in E. subst x.
  rewrite forallb_forall in HL. apply N.ltb_lt. exact (HL c Hin).
Qed.
Lemma codes_byte table c : mem_n c (codes_of table) = true -> c < 256.
Proof. apply mem_n_bound. destruct table; reflexivity. Qed.

Lemma connack_enc_bytes c n : I5.types_inv (Connack c) = true -> connack_len c = Ok n ->
  bytes_okb (concat (connack_enc c)) = true.
Proof.
  cbn [I5.types_inv]. unfold connack_len, connack_enc. intros Hi H.
  open_len H CONNACK_PROPS (ca_props c) pl Epl. split_and. bytes_split.
  - apply bytes_okb_one. destruct (ca_sp c); reflexivity.
  - apply bytes_okb_one. apply (codes_byte PConnack). assumption.
  - eapply props_bytes; eassumption.
Qed.

Lemma qospid_bytes q : qospid_ok q = true -> bytes_okb (concat (V3.qospid_enc q)) = true.
Proof. destruct q; cbn [qospid_ok V3.qospid_enc]; intros H; [reflexivity| |]; norm_bytes; apply pid_bytes; exact H. Qed.

Lemma publish_enc_bytes p n : I5.types_inv (Publish p) = true -> publish_len p = Ok n ->
  bytes_okb (concat (publish_enc p)) = true.
Proof.
  cbn [I5.types_inv]. unfold publish_len, publish_enc. intros Hi H.
  open_len H PUBLISH_PROPS (p_props p) pl Epl. split_and. bytes_split.
  - apply bytes_lp. match goal with H : name_ok _ = true |- _ => apply name_ok_parts in H as [H _]; exact H end.
  - apply qospid_bytes. assumption.
  - eapply props_bytes; eassumption.
  - assumption.
Qed.

Lemma ack_enc_bytes table a n : I5.ack_inv table a = true -> ack_len a = Ok n ->
  bytes_okb (concat (ack_enc a)) = true.
Proof.
  unfold I5.ack_inv, ack_len, ack_enc. intros Hi H. split_and.
  assert (Hc : a_code a < 256) by (eapply codes_byte; eassumption).
  rewrite concat_cons, bytes_okb_app. apply andb_true_intro. split; [apply pid_bytes; assumption|].
  destruct (props_is_default (a_props a)).
  - destruct (a_code a =? 0); [reflexivity|]. norm_bytes. apply bytes_okb_one. exact Hc.
  - open_len H ACK_PROPS (a_props a) pl Epl. bytes_split; [apply bytes_okb_one; exact Hc|].
    eapply props_bytes; eassumption.
Qed.

Lemma subopts_byte o : I5.subopts_inv o = true -> subopts_to_u8 o < 256.
Proof.
  unfold I5.subopts_inv, subopts_to_u8. intros H. split_and.
  repeat match goal with H : (_ <? _) = true |- _ => apply N.ltb_lt in H end.
  destruct (o_nl o), (o_rap o); lia.
Qed.
Lemma filter_ok_bytes f : filter_ok f = true -> bytes_okb (ftext f) = true.
Proof. unfold filter_ok. intros H. split_and. match goal with H : text_ok _ = true |- _ => apply text_ok_parts in H as [H _]; exact H end. Qed.

Lemma sub_enc5_bytes ts : forallb (fun '(f, o) => filter_ok f && I5.subopts_inv o) ts = true ->
  bytes_okb (concat (sub_enc5 ts)) = true.
Proof.
  induction ts as [|[tf o] ts IH]; intros H; [reflexivity|].
  cbn [forallb] in H. split_and. unfold sub_enc5 in *. cbn [flat_map]. bytes_split.
  - apply bytes_okb_lenpfx.
  - apply filter_ok_bytes. assumption.
  - apply bytes_okb_one, subopts_byte. assumption.
  - apply IH. assumption.
Qed.

Lemma subscribe_enc_bytes s n : I5.types_inv (Subscribe s) = true -> subscribe_len s = Ok n ->
  bytes_okb (concat (subscribe_enc s)) = true.
Proof.
  cbn [I5.types_inv]. unfold subscribe_len, subscribe_enc. intros Hi H.
  open_len H SUBSCRIBE_PROPS (s_props s) pl Epl. split_and. fold (sub_enc5 (s_topics s)). bytes_split.
  - apply pid_bytes. assumption.
  - eapply props_bytes; eassumption.
  - apply sub_enc5_bytes. assumption.
Qed.

Lemma codes_bytes table l : forallb (fun c => mem_n c (codes_of table)) l = true ->
  bytes_okb (concat (map (fun c => [c]) l)) = true.
Proof.
  intros H. rewrite concat_singletons. unfold bytes_okb. apply forallb_forall. intros c Hc.
  rewrite forallb_forall in H. apply N.ltb_lt. apply (codes_byte table). exact (H c Hc).
Qed.

Lemma suback_enc_bytes table s n : I5.suback_inv table s = true -> suback_len s = Ok n ->
  bytes_okb (concat (suback_enc s)) = true.
Proof.
  unfold I5.suback_inv, suback_len, suback_enc. intros Hi H.
  open_len H ACK_PROPS (sa_props s) pl Epl. split_and. bytes_split.
  - apply pid_bytes. assumption.
  - eapply props_bytes; eassumption.
  - eapply codes_bytes. eassumption.
Qed.

Lemma unsub_enc5_bytes ts : forallb filter_ok ts = true -> bytes_okb (concat (unsub_enc5 ts)) = true.
Proof.
  induction ts as [|tf ts IH]; intros H; [reflexivity|].
  cbn [forallb] in H. split_and. unfold unsub_enc5 in *. cbn [flat_map]. bytes_split.
  - apply bytes_okb_lenpfx.
  - apply filter_ok_bytes. assumption.
  - apply IH. assumption.
Qed.

Lemma unsubscribe_enc_bytes u n : I5.types_inv (Unsubscribe u) = true -> unsubscribe_len u = Ok n ->
  bytes_okb (concat (unsubscribe_enc u)) = true.
Proof.
  cbn [I5.types_inv]. unfold unsubscribe_len, unsubscribe_enc. intros Hi H.
  open_len H UNSUBSCRIBE_PROPS (u_props u) pl Epl. split_and. fold (unsub_enc5 (u_topics u)). bytes_split.
  - apply pid_bytes. assumption.
  - eapply props_bytes; eassumption.
  - apply unsub_enc5_bytes. assumption.
Qed.

Lemma disconnect_enc_bytes d n : I5.types_inv (Disconnect d) = true -> disconnect_len d = Ok n ->
  bytes_okb (concat (disconnect_enc d)) = true.
Proof.
  cbn [I5.types_inv]. unfold disconnect_len, disconnect_enc. intros Hi H. split_and.
  assert (Hc : d_code d < 256) by (apply (codes_byte PDisconnect); assumption).
  destruct (props_is_default (d_props d)).
  - destruct (d_code d =? 0); [reflexivity|]. norm_bytes. apply bytes_okb_one. exact Hc.
  - open_len H DISCONNECT_PROPS (d_props d) pl Epl. bytes_split; [apply bytes_okb_one; exact Hc|].
    eapply props_bytes; eassumption.
Qed.

Lemma auth_enc_bytes d n : I5.types_inv (Auth d) = true -> auth_len d = Ok n ->
  bytes_okb (concat (auth_enc d)) = true.
Proof.
  cbn [I5.types_inv]. unfold auth_len, auth_enc. intros Hi H. split_and.
  assert (Hc : d_code d < 256) by (apply (codes_byte PAuth); assumption).
  destruct ((d_code d =? 0) && props_is_default (d_props d)); [reflexivity|].
  open_len H AUTH_PROPS (d_props d) pl Epl. bytes_split; [apply bytes_okb_one; exact Hc|].
  eapply props_bytes; eassumption.
Qed.

Theorem v5_chunks_bytes p chunks n : I5.types_inv p = true -> body_enc p = Some (chunks, Ok n) ->
  bytes_okb (concat chunks) = true.
Proof.
  destruct p; cbn [body_enc]; intros Hv H; try discriminate; inversion H as [[Hc Hn]]; clear H.
  - exact (connect_enc_bytes _ _ Hv Hn).
  - exact (connack_enc_bytes _ _ Hv Hn).
  - exact (publish_enc_bytes _ _ Hv Hn).
  - exact (ack_enc_bytes PPuback _ _ Hv Hn).
  - exact (ack_enc_bytes PPubrec _ _ Hv Hn).
  - exact (ack_enc_bytes PPubrel _ _ Hv Hn).
  - exact (ack_enc_bytes PPubcomp _ _ Hv Hn).
  - exact (subscribe_enc_bytes _ _ Hv Hn).
  - exact (suback_enc_bytes PSuback _ _ Hv Hn).
  - exact (unsubscribe_enc_bytes _ _ Hv Hn).
  - exact (suback_enc_bytes PUnsuback _ _ Hv Hn).
  - exact (disconnect_enc_bytes _ _ Hv Hn).
  - exact (auth_enc_bytes _ _ Hv Hn).
Qed.

Lemma control_byte_byte p : control_byte p < 256.
Proof.
  destruct p; try reflexivity. cbn [control_byte]. unfold V3.publish_control_byte.
  destruct (p_dup p), (p_retain p), (p_qospid p); reflexivity.
Qed.

(* ================================================================== *)
(* property sections below 2^28 <-> the body length is defined         *)
(* ================================================================== *)
Definition small (L : list prop_id) (ps : props) : Prop := props_body_len L ps < 268435456.

Definition sections_small (p : packet) : Prop :=
  match p with
  | Connect c => small CONNECT_PROPS (c_props c)
                 /\ match c_will c with Some w => small WILL_PROPS (w_props w) | None => True end
  | Connack c => small CONNACK_PROPS (ca_props c)
  | Publish x => small PUBLISH_PROPS (p_props x)
  | Puback a | Pubrec a | Pubrel a | Pubcomp a => small ACK_PROPS (a_props a)
  | Subscribe s => small SUBSCRIBE_PROPS (s_props s)
  | Suback s | Unsuback s => small ACK_PROPS (sa_props s)
  | Unsubscribe u => small UNSUBSCRIBE_PROPS (u_props u)
  | Disconnect d => small DISCONNECT_PROPS (d_props d)
  | Auth d => small AUTH_PROPS (d_props d)
  | Pingreq | Pingresp => True
  end.

Lemma small_len L ps : small L ps -> exists pl, props_len L ps = Ok pl.
Proof. intros H. eexists. apply props_len_ok. exact H. Qed.
Lemma len_small L ps pl : props_len L ps = Ok pl -> small L ps.
Proof. intros H. exact (proj1 (props_len_inv _ _ _ H)). Qed.

Lemma default_small L ps : props_is_default ps = true -> props_body_len L ps = 0.
Proof.
  intros H. apply props_is_default_spec in H. subst ps. unfold props_body_len. cbn [pr_user props_empty length fold_right].
  induction L as [|i L IH]; [reflexivity|]. cbn [fold_left]. rewrite pget_empty. exact IH.
Qed.

(* validity is not needed for this direction either; the hypothesis is kept for uniformity *)
Theorem v5_body_len_ok p : I5.valid p = true -> sections_small p -> exists n, body_len5 p = Ok n.
Proof.
  intros _. unfold body_len5.
  destruct p; cbn [body_enc sections_small]; intros Hs; try (eexists; reflexivity).
  - destruct Hs as [H1 H2]. unfold connect_len. destruct (small_len _ _ H1) as [pl ->]. cbn [obind].
    destruct (c_will c) as [w|].
    + unfold will_len. destruct (small_len _ _ H2) as [wl ->]. cbn [obind]. eexists; reflexivity.
    + cbn [obind]. eexists; reflexivity.
  - unfold connack_len. destruct (small_len _ _ Hs) as [pl ->]. eexists; reflexivity.
  - unfold publish_len. destruct (small_len _ _ Hs) as [pl ->]. eexists; reflexivity.
  - unfold ack_len. destruct (small_len _ _ Hs) as [pl ->].
    destruct (props_is_default _); [destruct (_ =? 0)|]; eexists; reflexivity.
  - unfold ack_len. destruct (small_len _ _ Hs) as [pl ->].
    destruct (props_is_default _); [destruct (_ =? 0)|]; eexists; reflexivity.
  - unfold ack_len. destruct (small_len _ _ Hs) as [pl ->].
    destruct (props_is_default _); [destruct (_ =? 0)|]; eexists; reflexivity.
  - unfold ack_len. destruct (small_len _ _ Hs) as [pl ->].
    destruct (props_is_default _); [destruct (_ =? 0)|]; eexists; reflexivity.
  - unfold subscribe_len. destruct (small_len _ _ Hs) as [pl ->]. eexists; reflexivity.
  - unfold suback_len. destruct (small_len _ _ Hs) as [pl ->]. eexists; reflexivity.
  - unfold unsubscribe_len. destruct (small_len _ _ Hs) as [pl ->]. eexists; reflexivity.
  - unfold suback_len. destruct (small_len _ _ Hs) as [pl ->]. eexists; reflexivity.
  - unfold disconnect_len. destruct (small_len _ _ Hs) as [pl ->].
    destruct (props_is_default _); [destruct (_ =? 0)|]; eexists; reflexivity.
  - unfold auth_len. destruct (small_len _ _ Hs) as [pl ->].
    destruct (_ && _); eexists; reflexivity.
Qed.

(* and conversely: a defined body length means every section is below 2^28 (no panic of KF1) *)
Theorem v5_body_len_sections p n : body_len5 p = Ok n -> sections_small p.
Proof.
  unfold body_len5. destruct p; cbn [body_enc sections_small]; intros H; try exact I.
  - unfold connect_len in H. open_len H CONNECT_PROPS (c_props c) pl Epl.
    split; [exact (len_small _ _ _ Epl)|].
    destruct (c_will c) as [w|]; [|exact I]. unfold will_len in H.
    open_len H WILL_PROPS (w_props w) wl Ewl. exact (len_small _ _ _ Ewl).
  - unfold connack_len in H. open_len H CONNACK_PROPS (ca_props c) pl Epl. exact (len_small _ _ _ Epl).
  - unfold publish_len in H. open_len H PUBLISH_PROPS (p_props p) pl Epl. exact (len_small _ _ _ Epl).
  - unfold ack_len in H. destruct (props_is_default (a_props a)) eqn:Ed.
    + unfold small. rewrite (default_small _ _ Ed). reflexivity.
    + open_len H ACK_PROPS (a_props a) pl Epl. exact (len_small _ _ _ Epl).
  - unfold ack_len in H. destruct (props_is_default (a_props a)) eqn:Ed.
    + unfold small. rewrite (default_small _ _ Ed). reflexivity.
    + open_len H ACK_PROPS (a_props a) pl Epl. exact (len_small _ _ _ Epl).
  - unfold ack_len in H. destruct (props_is_default (a_props a)) eqn:Ed.
    + unfold small. rewrite (default_small _ _ Ed). reflexivity.
    + open_len H ACK_PROPS (a_props a) pl Epl. exact (len_small _ _ _ Epl).
  - unfold ack_len in H. destruct (props_is_default (a_props a)) eqn:Ed.
    + unfold small. rewrite (default_small _ _ Ed). reflexivity.
    + open_len H ACK_PROPS (a_props a) pl Epl. exact (len_small _ _ _ Epl).
  - unfold subscribe_len in H. open_len H SUBSCRIBE_PROPS (s_props s) pl Epl. exact (len_small _ _ _ Epl).
  - unfold suback_len in H. open_len H ACK_PROPS (sa_props s) pl Epl. exact (len_small _ _ _ Epl).
  - unfold unsubscribe_len in H. open_len H UNSUBSCRIBE_PROPS (u_props u) pl Epl. exact (len_small _ _ _ Epl).
  - unfold suback_len in H. open_len H ACK_PROPS (sa_props s) pl Epl. exact (len_small _ _ _ Epl).
  - unfold disconnect_len in H. destruct (props_is_default (d_props d)) eqn:Ed.
    + unfold small. rewrite (default_small _ _ Ed). reflexivity.
    + open_len H DISCONNECT_PROPS (d_props d) pl Epl. exact (len_small _ _ _ Epl).
  - unfold auth_len in H. destruct ((d_code d =? 0) && props_is_default (d_props d)) eqn:Ed.
    + apply andb_true_iff in Ed as [_ Ed]. unfold small. rewrite (default_small _ _ Ed). reflexivity.
    + open_len H AUTH_PROPS (d_props d) pl Epl. exact (len_small _ _ _ Epl).
Qed.

(* ================================================================== *)
(* whole-packet statements that do not involve the decoder             *)
(* ================================================================== *)

(* what Packet::encode returned, read backwards; needs no validity *)
Lemma encode_inv prof p vb chunks blen : body_enc p = Some (chunks, blen) -> encode prof p = Ok vb ->
  exists n, blen = Ok n /\ n < 268435456 /\ as_ref vb = control_byte p :: write_var_int n ++ concat chunks.
Proof.
  intros Eb H. rewrite (encode_unfold _ _ _ _ Eb) in H.
  destruct blen as [n|e|s]; cbn [obind] in H; try discriminate.
  destruct (V3.encode_packet prof (control_byte p) chunks n) as [b|e|s] eqn:Ep; cbn [obind] in H; try discriminate.
  inversion H; subst vb. destruct (encode_packet_inv _ _ _ _ _ Ep) as [Hn ->].
  exists n. repeat split; [exact Hn].
Qed.

Theorem v5_encode_ok prof p n : I5.valid p = true -> body_len5 p = Ok n -> n < 268435456 ->
  exists vb, encode prof p = Ok vb.
Proof.
  intros Hv. unfold body_len5. destruct (body_enc p) as [[chunks blen]|] eqn:Eb.
  - intros -> Hn. rewrite (encode_unfold _ _ _ _ Eb). cbn [obind].
    rewrite (encode_packet_ok _ _ _ _ (v5_parts_len _ _ _ Hv Eb) Hn). cbn [obind]. eexists; reflexivity.
  - intros _ _. destruct (body_enc_none _ Eb) as [-> | ->]; eexists; reflexivity.
Qed.

Theorem v5_encode_shape prof p vb n : I5.valid p = true -> encode prof p = Ok vb -> body_len5 p = Ok n ->
  exists chunks, (body_enc p = Some (chunks, Ok n) \/ (body_enc p = None /\ chunks = []))
                 /\ as_ref vb = control_byte p :: write_var_int n ++ concat chunks
                 /\ clen chunks = n.
Proof.
  intros Hv He. unfold body_len5. destruct (body_enc p) as [[chunks blen]|] eqn:Eb.
  - intros ->. destruct (encode_inv _ _ _ _ _ Eb He) as [m [Em [Hm Hr]]]. inversion Em; subst m.
    exists chunks. split; [left; reflexivity|]. split; [exact Hr|]. exact (v5_parts_len _ _ _ Hv Eb).
  - intros Hn. inversion Hn; subst n. exists []. split; [right; split; reflexivity|].
    destruct (body_enc_none _ Eb) as [-> | ->]; cbn [encode] in He; inversion He; subst vb; split; reflexivity.
Qed.

Theorem v5_encode_len prof p vb : I5.valid p = true -> encode prof p = Ok vb ->
  encode_len p = Ok (len (as_ref vb)).
Proof.
  intros Hv He. destruct (body_enc p) as [[chunks blen]|] eqn:Eb.
  - destruct (encode_inv _ _ _ _ _ Eb He) as [n [-> [Hn Hr]]].
    rewrite (encode_len_unfold _ _ _ Eb). cbn [obind]. rewrite (total_len_ok _ Hn), Hr.
    rewrite len_cons, len_app. destruct (write_len _ Hn) as [-> _]. fold (clen chunks).
    rewrite (v5_parts_len _ _ _ Hv Eb). f_equal. lia.
  - destruct (body_enc_none _ Eb) as [-> | ->]; cbn [encode] in He; inversion He; reflexivity.
Qed.

Theorem v5_profile_indep p : I5.valid p = true -> encode Debug p = encode Release p.
Proof.
  intros Hv. destruct (body_enc p) as [[chunks blen]|] eqn:Eb.
  - rewrite !(encode_unfold _ _ _ _ Eb). destruct blen as [n|e|s]; cbn [obind]; try reflexivity.
    destruct (N.lt_ge_cases n 268435456) as [Hn|Hn].
    + rewrite !(encode_packet_ok _ _ _ _ (v5_parts_len _ _ _ Hv Eb) Hn). reflexivity.
    + unfold V3.encode_packet. destruct (too_large _ Hn) as [_ [-> _]]. reflexivity.
  - destruct (body_enc_none _ Eb) as [-> | ->]; reflexivity.
Qed.

(* needs no validity *)
Theorem v5_too_large_gen prof p n : body_len5 p = Ok n -> 268435456 <= n ->
  encode prof p = Err InvalidVarByteInt /\ encode_len p = Err InvalidVarByteInt.
Proof.
  unfold body_len5. destruct (body_enc p) as [[chunks blen]|] eqn:Eb.
  - intros -> Hn. rewrite (encode_unfold _ _ _ _ Eb), (encode_len_unfold _ _ _ Eb). cbn [obind].
    unfold V3.encode_packet. destruct (too_large _ Hn) as [_ [-> _]]. split; reflexivity.
  - intros H Hn. inversion H; subst n. lia.
Qed.

Theorem v5_too_large prof p n : I5.valid p = true -> body_len5 p = Ok n -> 268435456 <= n ->
  encode prof p = Err InvalidVarByteInt /\ encode_len p = Err InvalidVarByteInt.
Proof. intros _. apply v5_too_large_gen. Qed.

Theorem v5_encode_bytes prof p vb : I5.valid p = true -> encode prof p = Ok vb -> bytes_okb (as_ref vb) = true.
Proof.
  intros Hv He. destruct (body_enc p) as [[chunks blen]|] eqn:Eb.
  - destruct (encode_inv _ _ _ _ _ Eb He) as [n [-> [Hn ->]]].
    rewrite bytes_okb_cons, bytes_okb_app, (bytes_okb_var_int _ Hn).
    rewrite (v5_chunks_bytes _ _ _ (valid_types_inv _ Hv) Eb).
    pose proof (control_byte_byte p) as Hc. destruct (N.ltb_spec (control_byte p) 256); [reflexivity|lia].
  - destruct (body_enc_none _ Eb) as [-> | ->]; cbn [encode] in He; inversion He; reflexivity.
Qed.

Print Assumptions v5_parts_len.
Print Assumptions v5_body_len_ok.
Print Assumptions v5_body_len_sections.
Print Assumptions v5_encode_ok.
Print Assumptions v5_encode_shape.
Print Assumptions v5_encode_len.
Print Assumptions v5_profile_indep.
Print Assumptions v5_too_large.
Print Assumptions v5_encode_bytes.
