(* Proofs/V5Len.v — v5 family: declared body lengths equal bytes written (C02), the encoder emits
   bytes, inversion of Packet::encode, profile independence, 2^28 and above refused. *)
From MQ Require Import Proofs.Tactics Proofs.VarIntLaws Proofs.Parses Proofs.PropsRT Model.Valid.
Open Scope N_scope.
Import V5.

Ltac split_and :=
  repeat match goal with
  | H : _ && _ = true |- _ => apply andb_true_iff in H; destruct H
  end.

(* ---------- outcome helpers ---------- *)
Lemma total_len_inv n tl : total_len n = Ok tl -> n < 268435456 /\ tl = n + 1 + width n.
Proof.
  intros H. destruct (N.lt_ge_cases n 268435456) as [Hb|Hb].
  - rewrite (total_len_ok _ Hb) in H. inversion H. auto.
  - destruct (too_large _ Hb) as [_ [E _]]. rewrite E in H. discriminate.
Qed.

Lemma encode_packet_ok prof cb chunks n : clen chunks = n -> n < 268435456 ->
  V3.encode_packet prof cb chunks n = Ok (cb :: write_var_int n ++ concat chunks).
Proof.
  intros Hc Hn. unfold V3.encode_packet. rewrite (total_len_ok _ Hn).
  destruct prof; [|reflexivity].
  rewrite len_cons, len_app. destruct (write_len _ Hn) as [-> _]. fold (clen chunks). rewrite Hc.
  replace (1 + (width n + n)) with (n + 1 + width n) by lia. rewrite N.eqb_refl. reflexivity.
Qed.

Lemma encode_packet_inv prof cb chunks n b : V3.encode_packet prof cb chunks n = Ok b ->
  n < 268435456 /\ b = cb :: write_var_int n ++ concat chunks.
Proof.
  unfold V3.encode_packet. intros H. destruct (total_len n) as [tl|e|s] eqn:Et; try discriminate.
  destruct (total_len_inv _ _ Et) as [Hn _]. split; [exact Hn|].
  destruct prof.
  - destruct (len (cb :: write_var_int n ++ concat chunks) =? tl); [|discriminate]. inversion H. reflexivity.
  - inversion H. reflexivity.
Qed.

(* ---------- Packet::encode / encode_len through body_enc ---------- *)
Lemma encode_unfold prof p chunks blen : body_enc p = Some (chunks, blen) ->
  encode prof p = (n <-o blen ;; b <-o V3.encode_packet prof (control_byte p) chunks n ;; Ok (Dynamic b)).
Proof. destruct p; cbn [body_enc]; intros H; try discriminate; inversion H; subst; reflexivity. Qed.

Lemma encode_len_unfold p chunks blen : body_enc p = Some (chunks, blen) ->
  encode_len p = (n <-o blen ;; total_len n).
Proof. destruct p; cbn [body_enc]; intros H; try discriminate; inversion H; subst; reflexivity. Qed.

Lemma body_enc_none p : body_enc p = None -> p = Pingreq \/ p = Pingresp.
Proof. destruct p; cbn [body_enc]; intros H; try discriminate; auto. Qed.

Definition body_len5 (p : packet) : outcome N :=
  match body_enc p with Some (_, n) => n | None => Ok 0 end.

(* ---------- chunk helpers ---------- *)
Lemma clen_lp s : clen (lp_chunks s) = 2 + len s.
Proof. unfold lp_chunks. rewrite !clen_cons, ?clen_nil, ?clen_nil', len_be16. lia. Qed.
Lemma clen_opt_lp o : clen (V3.opt_lp o) = V3.opt_lp_len o.
Proof. destruct o as [s|]; [|reflexivity]. cbn [V3.opt_lp V3.opt_lp_len]. rewrite !clen_cons, ?clen_nil, ?clen_nil', len_be16. lia. Qed.
Lemma clen_protocol pr : clen (protocol_enc pr) = protocol_len pr.
Proof. destruct pr; reflexivity. Qed.
Lemma clen_qospid q : clen (V3.qospid_enc q) = V3.qospid_len q.
Proof. destruct q; reflexivity. Qed.
Lemma clen_one (c : bytes) : clen [c] = len c.
Proof. rewrite clen_cons, ?clen_nil, ?clen_nil'. lia. Qed.

Lemma props_clen L ps pl : props_var_ok L ps = true -> props_len L ps = Ok pl -> clen (props_enc L ps) = pl.
Proof.
  intros Hv H. destruct (props_len_inv _ _ _ H) as [Hb ->].
  destruct (props_enc_len_gen _ _ Hv Hb) as [E _]. exact E.
Qed.

(* only PUBLISH_PROPS and SUBSCRIBE_PROPS contain a var-int property *)
Lemma var_ok_connect ps : props_var_ok CONNECT_PROPS ps = true. Proof. reflexivity. Qed.
Lemma var_ok_will ps : props_var_ok WILL_PROPS ps = true. Proof. reflexivity. Qed.
Lemma var_ok_connack ps : props_var_ok CONNACK_PROPS ps = true. Proof. reflexivity. Qed.
Lemma var_ok_ack ps : props_var_ok ACK_PROPS ps = true. Proof. reflexivity. Qed.
Lemma var_ok_unsubscribe ps : props_var_ok UNSUBSCRIBE_PROPS ps = true. Proof. reflexivity. Qed.
Lemma var_ok_disconnect ps : props_var_ok DISCONNECT_PROPS ps = true. Proof. reflexivity. Qed.
Lemma var_ok_auth ps : props_var_ok AUTH_PROPS ps = true. Proof. reflexivity. Qed.

(* destructure `pl <-o props_len L ps ;; Ok (...) = Ok n` *)
Ltac open_len H L ps pl E :=
  destruct (props_len L ps) as [pl|?e|?s] eqn:E; cbn [obind] in H; try discriminate.

(* ================================================================== *)
(* parts_len: X_len x = Ok n -> clen (X_enc x) = n                      *)
(* ================================================================== *)

Lemma will_parts_len w n : will_len w = Ok n -> clen (will_enc w) = n.
Proof.
  unfold will_len, will_enc. intros H. open_len H WILL_PROPS (w_props w) pl Epl.
  inversion H; subst n. rewrite !clen_app, !clen_lp, (props_clen _ _ _ (var_ok_will _) Epl). lia.
Qed.

Lemma connect_parts_len c n : connect_len c = Ok n -> clen (connect_enc c) = n.
Proof.
  unfold connect_len, connect_enc. intros H. open_len H CONNECT_PROPS (c_props c) pl Epl.
  destruct (match c_will c with Some w => will_len w | None => Ok 0 end) as [wl|e|s] eqn:Ewl;
    cbn [obind] in H; try discriminate.
  inversion H; subst n.
  assert (Ew : clen (match c_will c with Some w => will_enc w | None => [] end) = wl).
  { destruct (c_will c) as [w|]; [exact (will_parts_len _ _ Ewl)|inversion Ewl; reflexivity]. }
  rewrite !clen_app, clen_protocol, !clen_cons, ?clen_nil, ?clen_nil', clen_lp, !clen_opt_lp, Ew, len_one, len_be16.
  rewrite (props_clen _ _ _ (var_ok_connect _) Epl). lia.
Qed.

Lemma connack_parts_len c n : connack_len c = Ok n -> clen (connack_enc c) = n.
Proof.
  unfold connack_len, connack_enc. intros H. open_len H CONNACK_PROPS (ca_props c) pl Epl.
  inversion H; subst n. rewrite clen_app, !clen_cons, ?clen_nil, ?clen_nil', !len_one.
  rewrite (props_clen _ _ _ (var_ok_connack _) Epl). lia.
Qed.

Lemma publish_parts_len p n : props_var_ok PUBLISH_PROPS (p_props p) = true ->
  publish_len p = Ok n -> clen (publish_enc p) = n.
Proof.
  unfold publish_len, publish_enc. intros Hv H. open_len H PUBLISH_PROPS (p_props p) pl Epl.
  inversion H; subst n. rewrite !clen_app, clen_lp, clen_qospid, clen_one, (props_clen _ _ _ Hv Epl). lia.
Qed.

Lemma ack_parts_len a n : ack_len a = Ok n -> clen (ack_enc a) = n.
Proof.
  unfold ack_len, ack_enc. intros H. rewrite clen_cons, len_be16.
  destruct (props_is_default (a_props a)).
  - destruct (a_code a =? 0); inversion H; subst n; rewrite ?clen_one, ??clen_nil, ?clen_nil', ?len_one; lia.
  - open_len H ACK_PROPS (a_props a) pl Epl. inversion H; subst n.
    rewrite clen_cons, len_one, (props_clen _ _ _ (var_ok_ack _) Epl). lia.
Qed.

Definition topics_len5 (ts : list (tfilter * subopts)) : N :=
  fold_right (fun '(tf, _) a => 3 + len (ftext tf) + a) 0 ts.
Definition sub_enc5 (ts : list (tfilter * subopts)) : list bytes :=
  flat_map (fun '(tf, o) => [be16 (len (ftext tf) mod 65536); ftext tf; [subopts_to_u8 o]]) ts.
Lemma sub_enc5_len ts : clen (sub_enc5 ts) = topics_len5 ts.
Proof.
  induction ts as [|[tf o] ts IH]; [reflexivity|].
  unfold sub_enc5, topics_len5 in *. cbn [flat_map fold_right]. rewrite clen_app, IH.
  rewrite !clen_cons, ?clen_nil, ?clen_nil', len_be16, len_one. lia.
Qed.

Lemma subscribe_parts_len s n : props_var_ok SUBSCRIBE_PROPS (s_props s) = true ->
  subscribe_len s = Ok n -> clen (subscribe_enc s) = n.
Proof.
  unfold subscribe_len, subscribe_enc. intros Hv H. open_len H SUBSCRIBE_PROPS (s_props s) pl Epl.
  inversion H; subst n. fold (sub_enc5 (s_topics s)). fold (topics_len5 (s_topics s)).
  rewrite clen_cons, clen_app, len_be16, sub_enc5_len, (props_clen _ _ _ Hv Epl). lia.
Qed.

Lemma clen_codes (l : list N) : clen (map (fun c => [c]) l) = N.of_nat (length l).
Proof. rewrite clen_singletons. reflexivity. Qed.

Lemma suback_parts_len s n : suback_len s = Ok n -> clen (suback_enc s) = n.
Proof.
  unfold suback_len, suback_enc. intros H. open_len H ACK_PROPS (sa_props s) pl Epl.
  inversion H; subst n. rewrite clen_cons, clen_app, len_be16, clen_codes.
  rewrite (props_clen _ _ _ (var_ok_ack _) Epl). lia.
Qed.

Definition utopics_len5 (ts : list tfilter) : N := fold_right (fun tf a => 2 + len (ftext tf) + a) 0 ts.
Definition unsub_enc5 (ts : list tfilter) : list bytes :=
  flat_map (fun tf => [be16 (len (ftext tf) mod 65536); ftext tf]) ts.
Lemma unsub_enc5_len ts : clen (unsub_enc5 ts) = utopics_len5 ts.
Proof.
  induction ts as [|tf ts IH]; [reflexivity|].
  unfold unsub_enc5, utopics_len5 in *. cbn [flat_map fold_right]. rewrite clen_app, IH.
  rewrite !clen_cons, ?clen_nil, ?clen_nil', len_be16. lia.
Qed.

Lemma unsubscribe_parts_len u n : unsubscribe_len u = Ok n -> clen (unsubscribe_enc u) = n.
Proof.
  unfold unsubscribe_len, unsubscribe_enc. intros H. open_len H UNSUBSCRIBE_PROPS (u_props u) pl Epl.
  inversion H; subst n. fold (unsub_enc5 (u_topics u)). fold (utopics_len5 (u_topics u)).
  rewrite clen_cons, clen_app, len_be16, unsub_enc5_len, (props_clen _ _ _ (var_ok_unsubscribe _) Epl). lia.
Qed.

Lemma disconnect_parts_len d n : disconnect_len d = Ok n -> clen (disconnect_enc d) = n.
Proof.
  unfold disconnect_len, disconnect_enc. intros H.
  destruct (props_is_default (d_props d)).
  - destruct (d_code d =? 0); inversion H; subst n; rewrite ?clen_one, ??clen_nil, ?clen_nil', ?len_one; reflexivity.
  - open_len H DISCONNECT_PROPS (d_props d) pl Epl. inversion H; subst n.
    rewrite clen_cons, len_one, (props_clen _ _ _ (var_ok_disconnect _) Epl). lia.
Qed.

Lemma auth_parts_len d n : auth_len d = Ok n -> clen (auth_enc d) = n.
Proof.
  unfold auth_len, auth_enc. intros H.
  destruct ((d_code d =? 0) && props_is_default (d_props d)).
  - inversion H. reflexivity.
  - open_len H AUTH_PROPS (d_props d) pl Epl. inversion H; subst n.
    rewrite clen_cons, len_one, (props_clen _ _ _ (var_ok_auth _) Epl). lia.
Qed.

(* the only hypothesis the length law needs: subscription identifiers fit a VarByteInt *)
Definition var_ok5 (p : packet) : bool :=
  match p with
  | Publish x => props_var_ok PUBLISH_PROPS (p_props x)
  | Subscribe s => props_var_ok SUBSCRIBE_PROPS (s_props s)
  | _ => true
  end.

Lemma types_inv_var_ok5 p : I5.types_inv p = true -> var_ok5 p = true.
Proof.
  destruct p; cbn [I5.types_inv var_ok5]; intros H; try reflexivity; split_and;
    eapply props_inv_var_ok; eassumption.
Qed.
Lemma valid_types_inv p : I5.valid p = true -> I5.types_inv p = true.
Proof. unfold I5.valid. intros H. apply andb_true_iff in H as [H _]. exact H. Qed.

Theorem v5_parts_len_gen p chunks n : var_ok5 p = true -> body_enc p = Some (chunks, Ok n) -> clen chunks = n.
Proof.
  destruct p; cbn [body_enc var_ok5]; intros Hv H; try discriminate; inversion H as [[Hc Hn]]; clear H.
  - exact (connect_parts_len _ _ Hn).
  - exact (connack_parts_len _ _ Hn).
  - exact (publish_parts_len _ _ Hv Hn).
  - exact (ack_parts_len _ _ Hn).
  - exact (ack_parts_len _ _ Hn).
  - exact (ack_parts_len _ _ Hn).
  - exact (ack_parts_len _ _ Hn).
  - exact (subscribe_parts_len _ _ Hv Hn).
  - exact (suback_parts_len _ _ Hn).
  - exact (unsubscribe_parts_len _ _ Hn).
  - exact (suback_parts_len _ _ Hn).
  - exact (disconnect_parts_len _ _ Hn).
  - exact (auth_parts_len _ _ Hn).
Qed.

Theorem v5_parts_len p chunks n : I5.valid p = true -> body_enc p = Some (chunks, Ok n) -> clen chunks = n.
Proof. intros Hv. apply v5_parts_len_gen. apply types_inv_var_ok5, valid_types_inv, Hv. Qed.
