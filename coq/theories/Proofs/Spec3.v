(* Proofs/Spec3.v — C04 and C10 for the v3 family against the independent reference parser SP. *)
From MQ Require Import Proofs.Tactics Proofs.VarIntLaws Proofs.Parses Proofs.TopicNameEq Proofs.V3RT
  Spec.SpecParse Model.Valid Proofs.Spec3Base.
Open Scope N_scope.
Import V3.
Import SP.

(* ------------------------------------------------------------------------------------------ *)
(* bodies that do not involve topic filters                                                   *)
(* ------------------------------------------------------------------------------------------ *)
Lemma pid_body_eq (K : N -> packet) t d :
  ro ((pid <- pid_read ;; ret (K pid)) t d) = (p <~ p_pid ;; sret (K p)) d.
Proof. apply ro_bind_ext; [apply ro_pid_read|reflexivity]. Qed.

Lemma connack_eq t d : ro ((c <- connack_decode ;; ret (Connack c)) t d) = p3_connack d.
Proof.
  rewrite ro_bind. unfold connack_decode. rewrite ro_bind, ro_read_exact. unfold p_slice.
  destruct d as [|f [|c r]]; try reflexivity.
  { change (take [f] 2) with (@None (bytes * bytes)). unfold p3_connack, p_bool01.
    rewrite sbind_assoc, sbind_u8. destruct (f =? 0); [reflexivity|]. destruct (f =? 1); reflexivity. }
  rewrite (take_app [f; c] r : take (f :: c :: r) 2 = Some ([f; c], r)). cbv beta iota.
  unfold p3_connack, p_bool01. rewrite sbind_assoc, sbind_u8.
  rewrite ro_bind.
  destruct (N.eqb_spec f 0) as [F0|F0].
  - cbn [ro ret]. rewrite ro_bind. unfold sbind at 1. cbn [sret]. rewrite sbind_u8.
    unfold connect_return_code_of_u8.
    destruct (N.ltb_spec c 6); destruct (N.leb_spec c 5); try (exfalso; lia); reflexivity.
  - destruct (N.eqb_spec f 1) as [F1|F1]; [|reflexivity].
    cbn [ro ret]. rewrite ro_bind. unfold sbind at 1. cbn [sret]. rewrite sbind_u8.
    unfold connect_return_code_of_u8.
    destruct (N.ltb_spec c 6); destruct (N.leb_spec c 5); try (exfalso; lia); reflexivity.
Qed.

(* ---- CONNECT ---- *)
(* the reference parser after the protocol name and level *)
Definition p3_connect_rest (proto : protocol) : sp packet :=
  f <~ p_cflags ;;
  ka <~ p_u16 ;;
  cid <~ p_str ;;
  will <~ p_opt (cf_will f)
       (t <~ p_name ;; m <~ p_bin ;;
        sret {| w_qos := cf_wqos f; w_retain := cf_wretain f; w_topic := t; w_message := m |}) ;;
  user <~ p_opt (cf_user f) p_str ;;
  pass <~ p_opt (cf_pass f) p_bin ;;
  sret (Connect {| c_protocol := proto; c_clean := cf_clean f; c_keep_alive := ka;
                   c_client_id := cid; c_will := will; c_username := user; c_password := pass |}).
Lemma p3_connect_split d : p3_connect d = sbind p3_protocol p3_connect_rest d.
Proof. reflexivity. Qed.

Lemma ro_opt {A} (c : bool) (m : reader A) (m' : sp A) t d :
  (forall d0, ro (m t d0) = m' d0) ->
  ro ((if c then s <- m ;; ret (Some s) else ret None) t d) = p_opt c m' d.
Proof.
  intros H. destruct c; [|reflexivity]. unfold p_opt. apply ro_bind_ext; [apply H|reflexivity].
Qed.

(* the will: the model validates the topic name after reading the message *)
Lemma will_eq q r t d : (q <? 3) = true ->
  ro ((topic <- read_string ;;
       message <- read_bytes ;;
       qos <- lift_outcome (qos_of_u8 q) ;;
       topic' <- lift_outcome (name_try topic) ;;
       ret (Some {| w_qos := qos; w_retain := r; w_topic := topic'; w_message := message |})) t d)
  = (a <~ (tn <~ p_name ;; m <~ p_bin ;;
           sret {| w_qos := q; w_retain := r; w_topic := tn; w_message := m |}) ;; sret (Some a)) d.
Proof.
  intros Hq. rewrite ro_bind, ro_read_string. rewrite sbind_assoc. unfold p_name. rewrite sbind_assoc.
  unfold sbind at 1. destruct (p_str d) as [[s d1]|]; [|reflexivity].
  rewrite ro_bind, ro_read_bytes. rewrite sbind_assoc.
  unfold qos_of_u8. rewrite Hq.
  destruct (p_bin d1) as [[m d2]|] eqn:Em.
  - rewrite ro_bind. cbn [lift_outcome ret ro]. rewrite ro_bind, ro_name_try.
    unfold sbind, sguard. destruct (Spec.topic_name_ok s); cbn [sret sfail]; [|reflexivity].
    rewrite Em. reflexivity.
  - unfold sbind, sguard. destruct (Spec.topic_name_ok s); cbn [sret sfail]; [|reflexivity].
    rewrite Em. reflexivity.
Qed.

Lemma connect_rest_eq proto t d : (protocol_level proto <=? 4) = true ->
  ro ((c <- connect_decode_with_protocol proto ;; ret (Connect c)) t d) = p3_connect_rest proto d.
Proof.
  intros Hp. unfold connect_decode_with_protocol.
  destruct (N.ltb_spec 4 (protocol_level proto)) as [L|L]; [apply N.leb_le in Hp; exfalso; lia|].
  unfold p3_connect_rest, p_cflags. rewrite sbind_assoc. rewrite bind_assoc.
  apply ro_bind_ext; [apply ro_read_u8|]. intros b d1. cbv zeta.
  rewrite !testbit_bit.
  cbn [cf_user cf_pass cf_wretain cf_wqos cf_will cf_clean].
  destruct (bit b 0) eqn:B0; [reflexivity|].
  cbn [negb sguard]. rewrite sbind_assoc. unfold sbind at 1. cbn [sret].
  rewrite sbind_assoc.
  destruct (bit b 2) eqn:B2.
  - (* will flag set *)
    destruct ((b / 8) mod 4 <? 3) eqn:Q.
    + cbn [sguard]. unfold sbind at 1. cbn [sret]. unfold sbind at 1. cbn [sret].
      cbn [cf_user cf_pass cf_wretain cf_wqos cf_will cf_clean].
      rewrite bind_assoc. apply ro_bind_ext; [apply ro_read_u16|]. intros ka d2.
      rewrite bind_assoc. apply ro_bind_ext; [apply ro_read_string|]. intros cid d3.
      rewrite bind_assoc. apply ro_bind_ext; [apply will_eq; exact Q|]. intros w d4.
      rewrite bind_assoc. apply ro_bind_ext; [apply ro_opt; intros; apply ro_read_string|]. intros u d5.
      rewrite bind_assoc. apply ro_bind_ext; [apply ro_opt; intros; apply ro_read_bytes|]. intros pw d6.
      reflexivity.
    + cbn [sguard]. unfold sbind at 1. cbn [sfail].
      rewrite bind_assoc. apply ro_bind_none. intros ka d2.
      rewrite bind_assoc. apply ro_bind_none. intros cid d3.
      rewrite bind_assoc. apply ro_bind_none_l.
      apply ro_bind_none. intros topic d4. apply ro_bind_none. intros msg d5. apply ro_bind_none_l.
      unfold qos_of_u8. rewrite Q. reflexivity.
  - (* no will *)
    destruct (N.eqb_spec ((b / 8) mod 4) 0) as [Q|Q].
    + cbn [sguard]. unfold sbind at 1. cbn [sret]. unfold sbind at 1. cbn [sret].
      cbn [cf_user cf_pass cf_wretain cf_wqos cf_will cf_clean].
      rewrite bind_assoc. apply ro_bind_ext; [apply ro_read_u16|]. intros ka d2.
      rewrite bind_assoc. apply ro_bind_ext; [apply ro_read_string|]. intros cid d3.
      rewrite bind_assoc. apply ro_bind_ext; [cbn [negb]; reflexivity|]. intros w d4.
      rewrite bind_assoc. apply ro_bind_ext; [apply ro_opt; intros; apply ro_read_string|]. intros u d5.
      rewrite bind_assoc. apply ro_bind_ext; [apply ro_opt; intros; apply ro_read_bytes|]. intros pw d6.
      reflexivity.
    + cbn [sguard]. unfold sbind at 1. cbn [sfail].
      rewrite bind_assoc. apply ro_bind_none. intros ka d2.
      rewrite bind_assoc. apply ro_bind_none. intros cid d3.
      rewrite bind_assoc. apply ro_bind_none_l.
      reflexivity.
Qed.

Lemma connect_eq t d : ro ((c <- connect_decode ;; ret (Connect c)) t d) = p3_connect d.
Proof.
  rewrite p3_connect_split. unfold connect_decode, protocol_decode.
  rewrite !bind_assoc.
  rewrite ro_bind, ro_read_bytes. unfold p3_protocol. rewrite sbind_assoc. unfold sbind at 1.
  destruct (p_bin d) as [[name d1]|]; [|reflexivity].
  rewrite bind_assoc, ro_bind, ro_read_u8. rewrite sbind_assoc. unfold sbind at 1.
  destruct (p_u8 d1) as [[lvl d2]|]; [|reflexivity].
  unfold protocol_new, MQISDP, MQTT. change Spec.leq with beq_bytes.
  destruct (beq_bytes name [77; 81; 73; 115; 100; 112] && (lvl =? 3)).
  { apply (connect_rest_eq V310). reflexivity. }
  destruct (beq_bytes name [77; 81; 84; 84] && (lvl =? 4)).
  { apply (connect_rest_eq V311). reflexivity. }
  destruct (beq_bytes name [77; 81; 84; 84] && (lvl =? 5)).
  { reflexivity. }
  destruct (utf8_valid name); reflexivity.
Qed.

(* ---- PUBLISH: running-length accounting against slicing ---- *)
Lemma payload_all t d : (if 0 <? len d then read_exact (len d) else ret []) t d = ROk d [].
Proof.
  destruct (N.ltb_spec 0 (len d)) as [L|L].
  - unfold read_exact. rewrite take_all. reflexivity.
  - assert (d = []) as -> by (apply len_zero_nil; lia). reflexivity.
Qed.

Lemma p_pid_short d : len d < 2 -> p_pid d = None.
Proof.
  destruct d as [|a [|b r]]; try reflexivity. rewrite !len_cons. intros H. exfalso. lia.
Qed.

Lemma publish_tail (QP : N -> qospid) dup retain s t d1 :
  ro ((a <- (rl' <- checked_sub (len d1) 2 ;; pid <- pid_read ;; ret (QP pid, rl')) ;;
       p <- (let '(qp, rl) := a in
             payload <- (if 0 <? rl then read_exact rl else ret []) ;;
             topic' <- lift_outcome (name_try s) ;;
             ret {| p_dup := dup; p_retain := retain; V3.p_qospid := qp; p_topic := topic';
                    p_payload := payload |}) ;;
       ret (Publish p)) t d1)
  = (t0 <~ (_ <~ sguard (Spec.topic_name_ok s) ;; sret s) ;;
     qp <~ (p <~ p_pid ;; sret (QP p)) ;;
     payload <~ p_rest ;;
     sret (Publish {| p_dup := dup; p_retain := retain; V3.p_qospid := qp; p_topic := t0;
                      p_payload := payload |})) d1.
Proof.
  destruct (N.lt_ge_cases (len d1) 2) as [S|S].
  - rewrite bind_assoc. rewrite ro_bind_none_l.
    + unfold sbind, sguard. destruct (Spec.topic_name_ok s); cbn [sret sfail]; [|reflexivity].
      rewrite (p_pid_short _ S). reflexivity.
    + unfold checked_sub. destruct (N.leb_spec 2 (len d1)); [exfalso; lia|reflexivity].
  - rewrite bind_assoc. erewrite bind_ok by (apply checked_sub_ok; lia).
    rewrite bind_assoc, ro_bind, ro_pid_read.
    destruct (p_pid d1) as [[pid d2]|] eqn:Ep.
    + pose proof (p_pid_some _ _ _ Ep) as Hl2. rewrite bind_ret. cbv beta iota.
      replace (len d1 - 2) with (len d2) by lia.
      rewrite bind_assoc. erewrite bind_ok by (apply payload_all).
      rewrite bind_assoc, ro_bind, ro_name_try.
      unfold sbind, sguard. destruct (Spec.topic_name_ok s); cbn [sret sfail]; [|reflexivity].
      rewrite Ep. reflexivity.
    + unfold sbind, sguard. destruct (Spec.topic_name_ok s); cbn [sret sfail]; [|reflexivity].
      rewrite Ep. reflexivity.
Qed.

Lemma publish_eq flags t d : (flags / 2) mod 4 < 3 ->
  ro ((p <- publish_decode {| h_typ := PPublish; h_dup := bit flags 3; h_qos := (flags / 2) mod 4;
                              h_retain := bit flags 0; h_rl := len d |} ;; ret (Publish p)) t d)
  = p3_publish flags d.
Proof.
  intros Hq. unfold p3_publish. cbv zeta. rewrite !testbit_bit.
  destruct (N.ltb_spec ((flags / 2) mod 4) 3) as [_|L]; [|exfalso; lia].
  cbn [sguard]. unfold sbind at 1. cbn [sret].
  unfold publish_decode. cbn [h_rl h_qos h_dup h_retain].
  remember ((flags / 2) mod 4) as q eqn:Eq.
  rewrite bind_assoc, ro_bind, ro_read_string. unfold p_name. rewrite sbind_assoc. unfold sbind at 1.
  destruct (p_str d) as [[s d1]|] eqn:Es; [|reflexivity].
  apply p_str_some in Es as (_ & Hu & Hlen).
  rewrite bind_assoc. erewrite bind_ok by (apply checked_sub_ok; lia).
  replace (len d - (2 + len s)) with (len d1) by lia.
  rewrite bind_assoc.
  assert (Hc : q = 0 \/ q = 1 \/ q = 2) by lia.
  destruct Hc as [E|[E|E]]; rewrite E; lit_tests.
  - rewrite bind_ret. cbv beta iota. rewrite bind_assoc.
    erewrite bind_ok by (apply payload_all).
    rewrite bind_assoc, ro_bind, ro_name_try.
    unfold sbind, sguard. destruct (Spec.topic_name_ok s); reflexivity.
  - unfold p_qospid. lit_tests. apply (publish_tail QP1).
  - unfold p_qospid. lit_tests. apply (publish_tail QP2).
Qed.

(* ---- the item loops ---- *)
Lemma length_rev' {A} (l : list A) : length (rev' l) = length l.
Proof. unfold rev'. rewrite rev_append_rev, app_nil_r, rev_length. reflexivity. Qed.

Lemma many_fuel_acc {A} (item : sp A) : forall fuel acc d l d',
  many_fuel fuel item acc d = Some (l, d') ->
  (length acc <= length l)%nat /\ (d <> [] -> (length acc < length l)%nat).
Proof.
  induction fuel as [|f IH]; intros acc d l d' H.
  - destruct d as [|x d0]; [|discriminate]. cbn [many_fuel] in H. inversion H; subst.
    rewrite length_rev'. split; [lia|]. intros C. exfalso. apply C. reflexivity.
  - destruct d as [|x d0].
    + cbn [many_fuel] in H. inversion H; subst.
      rewrite length_rev'. split; [lia|]. intros C. exfalso. apply C. reflexivity.
    + cbn [many_fuel] in H. destruct (item (x :: d0)) as [[a d1]|]; [|discriminate].
      apply IH in H as [H _]. cbn [length] in H. split; [lia|]. intros _. lia.
Qed.

(* regroup a loop body as "read one item, then continue" *)
Lemma bind3_item {X Y Z R} (A : reader X) (B : reader Y) (C : Y -> reader Z) (K : X -> Z -> reader R) t d :
  (x <- A ;; y <- B ;; z <- C y ;; K x z) t d
  = (i <- (x <- A ;; y <- B ;; z <- C y ;; ret (x, z)) ;; K (fst i) (snd i)) t d.
Proof.
  unfold bind, ret. destruct (A t d) as [x d1|e|s]; try reflexivity.
  destruct (B t d1) as [y d2|e|s]; try reflexivity.
  destruct (C y t d2) as [z d3|e|s]; reflexivity.
Qed.
Lemma bind2_item {Y Z R} (B : reader Y) (C : Y -> reader Z) (K : Z -> reader R) t d :
  (y <- B ;; z <- C y ;; K z) t d = (i <- (y <- B ;; C y) ;; K i) t d.
Proof. symmetry. apply bind_assoc. Qed.

Lemma suback_code_eq t d :
  ro ((v <- read_u8 ;; lift_outcome (subscribe_return_code_of_u8 v)) t d) = p3_suback_code d.
Proof.
  unfold p3_suback_code. apply ro_bind_ext; [apply ro_read_u8|]. intros v d1.
  unfold subscribe_return_code_of_u8, Spec.mem. cbn [existsb].
  destruct (N.eqb_spec v 128); destruct (N.ltb_spec v 3); destruct (N.eqb_spec v 0);
    destruct (N.eqb_spec v 1); destruct (N.eqb_spec v 2); try (exfalso; lia); reflexivity.
Qed.
Lemma suback_code_some d c d1 : p3_suback_code d = Some (c, d1) -> len d = 1 + len d1.
Proof.
  unfold p3_suback_code, sbind at 1. destruct (p_u8 d) as [[v d2]|] eqn:E; [|discriminate].
  apply p_u8_some in E. subst d. destruct (Spec.mem v [0; 1; 2; 128]); cbn [sguard sbind sret sfail]; intros H; inversion H; subst.
  rewrite len_cons. reflexivity.
Qed.

Lemma suback_loop_eq t : forall fuel fuel' d acc, (length d < fuel)%nat -> (length d <= fuel')%nat ->
  ro (suback_loop fuel (len d) acc t d) = many_fuel fuel' p3_suback_code acc d.
Proof.
  induction fuel as [|f IH]; intros fuel' d acc H1 H2; [lia|].
  destruct d as [|x d0]; [destruct fuel'; reflexivity|].
  destruct fuel' as [|f']; [cbn [length] in H2; lia|].
  cbn [suback_loop many_fuel].
  destruct (N.eqb_spec (len (x :: d0)) 0) as [E|E]; [rewrite len_cons in E; lia|].
  rewrite bind2_item, ro_bind, suback_code_eq.
  destruct (p3_suback_code (x :: d0)) as [[c d1]|] eqn:Ei; [|reflexivity].
  apply suback_code_some in Ei.
  replace (len (x :: d0) - 1) with (len d1) by lia.
  apply IH; unfold len in Ei; cbn [length] in *; lia.
Qed.

Lemma suback_eq t d :
  ro ((s <- suback_decode (len d) ;; ret (Suback s)) t d)
  = (p <~ p_pid ;; l <~ many p3_suback_code ;; sret (Suback {| sa_pid := p; sa_codes := l |})) d.
Proof.
  unfold suback_decode. rewrite bind_assoc, ro_bind, ro_pid_read. unfold sbind at 1.
  destruct (p_pid d) as [[pid d1]|] eqn:Ep; [|reflexivity]. apply p_pid_some in Ep.
  rewrite bind_assoc. erewrite bind_ok by (apply checked_sub_ok; lia).
  replace (len d - 2) with (len d1) by lia.
  rewrite ro_bind. cbv beta. rewrite ro_bind.
  rewrite (suback_loop_eq t (S (length d1)) (length d1)) by lia.
  unfold many, sbind. destruct (many_fuel (length d1) p3_suback_code [] d1) as [[l d2]|]; reflexivity.
Qed.

Section Filters.
Hypothesis filter_spec : forall prof s, utf8_valid s = true ->
  filter_is_invalid prof s = Ok (negb (Spec.topic_filter_ok s), Spec.share_sep s).

Lemma filter_profile_indep_from_spec :
  forall s, utf8_valid s = true -> filter_is_invalid Debug s = filter_is_invalid Release s.
Proof. intros s Hu. rewrite !filter_spec by assumption. reflexivity. Qed.

Lemma ro_filter_read prof t d : ro (filter_read prof t d) = p_filter d.
Proof.
  unfold filter_read, p_filter. rewrite ro_bind, ro_read_string. unfold sbind at 1.
  destruct (p_str d) as [[s d1]|] eqn:Es; [|reflexivity]. apply p_str_some in Es as (_ & Hu & _).
  unfold filter_try. rewrite (filter_spec prof s Hu).
  destruct (Spec.topic_filter_ok s); reflexivity.
Qed.

Lemma p_filter_some d f d' : p_filter d = Some (f, d') -> len d = 2 + len (ftext f) + len d'.
Proof.
  unfold p_filter, sbind at 1. destruct (p_str d) as [[s d1]|] eqn:Es; [|discriminate].
  apply p_str_some in Es as (_ & _ & Hl).
  destruct (Spec.topic_filter_ok s); cbn [sguard sbind sret sfail]; intros H; inversion H; subst. cbn [ftext]. exact Hl.
Qed.

Lemma sub_item_eq prof t d :
  ro ((tf <- filter_read prof ;; qb <- read_u8 ;; q <- lift_outcome (qos_of_u8 qb) ;; ret (tf, q)) t d)
  = p3_sub_item d.
Proof.
  unfold p3_sub_item. apply ro_bind_ext; [apply ro_filter_read|]. intros tf d1.
  apply ro_bind_ext; [apply ro_read_u8|]. intros qb d2. unfold qos_of_u8.
  destruct (N.ltb_spec qb 3); destruct (N.leb_spec qb 2); try (exfalso; lia); reflexivity.
Qed.
Lemma sub_item_some d tf q d1 : p3_sub_item d = Some ((tf, q), d1) -> len d = 3 + len (ftext tf) + len d1.
Proof.
  unfold p3_sub_item, sbind at 1. destruct (p_filter d) as [[f d2]|] eqn:Ef; [|discriminate].
  apply p_filter_some in Ef. unfold sbind at 1. destruct (p_u8 d2) as [[qb d3]|] eqn:Eq; [|discriminate].
  apply p_u8_some in Eq. subst d2. destruct (qb <=? 2); cbn [sguard sbind sret sfail]; intros H; inversion H; subst.
  rewrite len_cons in Ef. lia.
Qed.

Lemma subscribe_loop_eq prof t : forall fuel fuel' d acc, (length d < fuel)%nat -> (length d <= fuel')%nat ->
  ro (subscribe_loop prof fuel (len d) acc t d) = many_fuel fuel' p3_sub_item acc d.
Proof.
  induction fuel as [|f IH]; intros fuel' d acc H1 H2; [lia|].
  destruct d as [|x d0]; [destruct fuel'; reflexivity|].
  destruct fuel' as [|f']; [cbn [length] in H2; lia|].
  cbn [subscribe_loop many_fuel].
  destruct (N.eqb_spec (len (x :: d0)) 0) as [E|E]; [rewrite len_cons in E; lia|].
  rewrite (bind3_item (filter_read prof) read_u8 (fun qb => lift_outcome (qos_of_u8 qb))
             (fun tf q => rl' <- checked_sub (len (x :: d0)) (3 + len (ftext tf)) ;;
                          subscribe_loop prof f rl' ((tf, q) :: acc))).
  rewrite ro_bind, sub_item_eq.
  destruct (p3_sub_item (x :: d0)) as [[[tf q] d1]|] eqn:Ei; [|reflexivity].
  apply sub_item_some in Ei. cbn [fst snd].
  erewrite bind_ok by (apply checked_sub_ok; lia).
  replace (len (x :: d0) - (3 + len (ftext tf))) with (len d1) by lia.
  apply IH; unfold len in Ei; cbn [length] in *; lia.
Qed.

Lemma subscribe_eq prof t d :
  ro ((s <- subscribe_decode prof (len d) ;; ret (Subscribe s)) t d)
  = (p <~ p_pid ;; l <~ many1 p3_sub_item ;; sret (Subscribe {| s_pid := p; s_topics := l |})) d.
Proof.
  unfold subscribe_decode. rewrite bind_assoc, ro_bind, ro_pid_read. unfold sbind at 1.
  destruct (p_pid d) as [[pid d1]|] eqn:Ep; [|reflexivity]. apply p_pid_some in Ep.
  rewrite bind_assoc. erewrite bind_ok by (apply checked_sub_ok; lia).
  replace (len d - 2) with (len d1) by lia.
  destruct d1 as [|x d2]; [reflexivity|].
  destruct (N.eqb_spec (len (x :: d2)) 0) as [E|E]; [rewrite len_cons in E; lia|].
  rewrite ro_bind. cbv beta. rewrite ro_bind.
  rewrite (subscribe_loop_eq prof t (S (length (x :: d2))) (length (x :: d2))) by lia.
  unfold many1, many. rewrite sbind_assoc. unfold sbind at 1.
  destruct (many_fuel (length (x :: d2)) p3_sub_item [] (x :: d2)) as [[l d3]|] eqn:Em; [|reflexivity].
  apply many_fuel_acc in Em as [_ Hn]. destruct l as [|a l]; [exfalso; cbn [length] in Hn|reflexivity].
  assert (x :: d2 <> []) as Hne by discriminate. specialize (Hn Hne). lia.
Qed.

Lemma unsubscribe_loop_eq prof t : forall fuel fuel' d acc, (length d < fuel)%nat -> (length d <= fuel')%nat ->
  ro (unsubscribe_loop prof fuel (len d) acc t d) = many_fuel fuel' p_filter acc d.
Proof.
  induction fuel as [|f IH]; intros fuel' d acc H1 H2; [lia|].
  destruct d as [|x d0]; [destruct fuel'; reflexivity|].
  destruct fuel' as [|f']; [cbn [length] in H2; lia|].
  cbn [unsubscribe_loop many_fuel].
  destruct (N.eqb_spec (len (x :: d0)) 0) as [E|E]; [rewrite len_cons in E; lia|].
  rewrite ro_bind, ro_filter_read.
  destruct (p_filter (x :: d0)) as [[tf d1]|] eqn:Ei; [|reflexivity].
  apply p_filter_some in Ei.
  erewrite bind_ok by (apply checked_sub_ok; lia).
  replace (len (x :: d0) - (2 + len (ftext tf))) with (len d1) by lia.
  apply IH; unfold len in Ei; cbn [length] in *; lia.
Qed.

Lemma unsubscribe_eq prof t d :
  ro ((u <- unsubscribe_decode prof (len d) ;; ret (Unsubscribe u)) t d)
  = (p <~ p_pid ;; l <~ many1 p_filter ;; sret (Unsubscribe {| u_pid := p; u_topics := l |})) d.
Proof.
  unfold unsubscribe_decode. rewrite bind_assoc, ro_bind, ro_pid_read. unfold sbind at 1.
  destruct (p_pid d) as [[pid d1]|] eqn:Ep; [|reflexivity]. apply p_pid_some in Ep.
  rewrite bind_assoc. erewrite bind_ok by (apply checked_sub_ok; lia).
  replace (len d - 2) with (len d1) by lia.
  destruct d1 as [|x d2]; [reflexivity|].
  destruct (N.eqb_spec (len (x :: d2)) 0) as [E|E]; [rewrite len_cons in E; lia|].
  rewrite ro_bind. cbv beta. rewrite ro_bind.
  rewrite (unsubscribe_loop_eq prof t (S (length (x :: d2))) (length (x :: d2))) by lia.
  unfold many1, many. rewrite sbind_assoc. unfold sbind at 1.
  destruct (many_fuel (length (x :: d2)) p_filter [] (x :: d2)) as [[l d3]|] eqn:Em; [|reflexivity].
  apply many_fuel_acc in Em as [_ Hn]. destruct l as [|a l]; [exfalso; cbn [length] in Hn|reflexivity].
  assert (x :: d2 <> []) as Hne by discriminate. specialize (Hn Hne). lia.
Qed.

(* ------------------------------------------------------------------------------------------ *)
(* C04: the strict front-end against the grammar                                              *)
(* ------------------------------------------------------------------------------------------ *)
Lemma flags_qos cb : (cb / 2) mod 4 = (cb mod 16 / 2) mod 4.
Proof. lia. Qed.
Lemma flags_bit3 cb : bit cb 3 = bit (cb mod 16) 3.
Proof. unfold bit. change (2 ^ 3) with 8. f_equal. lia. Qed.
Lemma flags_bit0 cb : bit cb 0 = bit (cb mod 16) 0.
Proof. unfold bit. change (2 ^ 0) with 1. f_equal. lia. Qed.

(* the part of the front-end after the header: an empty body is refused, otherwise the body
   decoder must end exactly at the end of the body *)
Lemma strict_tail (r : reader packet) (m : sp packet) body :
  m [] = None -> fin (ro (r TEof body)) = fin (m body) ->
  (if len body =? 0 then None else match r TEof body with ROk p [] => Some p | _ => None end)
  = exactly m body.
Proof.
  intros Hn He. rewrite exactly_fin. destruct body as [|x b].
  - change (len [] =? 0) with true. cbv iota. rewrite Hn. reflexivity.
  - destruct (N.eqb_spec (len (x :: b)) 0) as [E|E]; [rewrite len_cons in E; lia|].
    rewrite fin_ro. exact He.
Qed.

Ltac hdr_reduce :=
  cbv beta iota zeta delta [flag_nibble body3 orb build_empty_packet mk_header h_typ h_rl block_decode].

(* PINGREQ, PINGRESP, DISCONNECT: flags 0 and an empty body on both sides *)
Ltac empty_case cb body :=
  destruct (cb mod 16 =? 0); cbn [andb]; [|reflexivity];
  destruct body as [|x b]; [reflexivity|];
  let Z := fresh "Z" in destruct (N.eqb_spec (len (x :: b)) 0) as [Z|Z]; [rewrite len_cons in Z; exfalso; lia|reflexivity].

Theorem v3_accept_iff_grammar : forall prof cb body,
  bytes_okb (cb :: body) = true -> len body < 268435456 ->
  strict3 prof cb (len body) body = parse3 true (cb :: write_var_int (len body) ++ body).
Proof.
  intros prof cb body Hb Hl. unfold parse3. rewrite (frame_wvi cb body Hl). cbv beta iota zeta.
  assert (Hcb : cb < 256).
  { cbn [bytes_okb forallb] in Hb. apply andb_true_iff in Hb as [Hb _]. apply N.ltb_lt in Hb. exact Hb. }
  unfold strict3, header_new_with.
  assert (Ht : cb / 16 = 0 \/ cb / 16 = 1 \/ cb / 16 = 2 \/ cb / 16 = 3 \/ cb / 16 = 4 \/ cb / 16 = 5 \/
               cb / 16 = 6 \/ cb / 16 = 7 \/ cb / 16 = 8 \/ cb / 16 = 9 \/ cb / 16 = 10 \/ cb / 16 = 11 \/
               cb / 16 = 12 \/ cb / 16 = 13 \/ cb / 16 = 14 \/ cb / 16 = 15) by lia.
  destruct Ht as [E|[E|[E|[E|[E|[E|[E|[E|[E|[E|[E|[E|[E|[E|[E|E]]]]]]]]]]]]]]];
    rewrite E; lit_tests; hdr_reduce.
  - (* 0: reserved *) reflexivity.
  - (* 1: CONNECT *)
    destruct (cb mod 16 =? 0); [|reflexivity]. cbv beta iota.
    apply strict_tail; [reflexivity|]. rewrite connect_eq. reflexivity.
  - (* 2: CONNACK *)
    destruct (cb mod 16 =? 0); [|reflexivity]. cbv beta iota.
    apply strict_tail; [reflexivity|]. rewrite connack_eq. reflexivity.
  - (* 3: PUBLISH *)
    unfold qos_of_u8. destruct (N.ltb_spec ((cb / 2) mod 4) 3) as [Q|Q]; cbv beta iota.
    + apply strict_tail.
      * unfold p3_publish. cbv zeta. destruct ((cb mod 16 / 2) mod 4 <? 3); reflexivity.
      * rewrite flags_bit3, flags_bit0, flags_qos. rewrite publish_eq by (rewrite <- flags_qos; exact Q).
        reflexivity.
    + rewrite exactly_fin. unfold p3_publish. cbv zeta.
      destruct (N.ltb_spec ((cb mod 16 / 2) mod 4) 3) as [Q'|Q']; [rewrite <- flags_qos in Q'; exfalso; lia|].
      reflexivity.
  - (* 4: PUBACK *)
    destruct (cb mod 16 =? 0); [|reflexivity]. cbv beta iota.
    apply strict_tail; [reflexivity|]. rewrite (pid_body_eq Puback). reflexivity.
  - (* 5: PUBREC *)
    destruct (cb mod 16 =? 0); [|reflexivity]. cbv beta iota.
    apply strict_tail; [reflexivity|]. rewrite (pid_body_eq Pubrec). reflexivity.
  - (* 6: PUBREL *)
    destruct (cb mod 16 =? 2); [|reflexivity]. cbv beta iota.
    apply strict_tail; [reflexivity|]. rewrite (pid_body_eq Pubrel). reflexivity.
  - (* 7: PUBCOMP *)
    destruct (cb mod 16 =? 0); [|reflexivity]. cbv beta iota.
    apply strict_tail; [reflexivity|]. rewrite (pid_body_eq Pubcomp). reflexivity.
  - (* 8: SUBSCRIBE *)
    destruct (cb mod 16 =? 2); [|reflexivity]. cbv beta iota.
    apply strict_tail; [reflexivity|]. rewrite subscribe_eq. reflexivity.
  - (* 9: SUBACK *)
    destruct (cb mod 16 =? 0); [|reflexivity]. cbv beta iota.
    apply strict_tail; [reflexivity|]. rewrite suback_eq. reflexivity.
  - (* 10: UNSUBSCRIBE *)
    destruct (cb mod 16 =? 2); [|reflexivity]. cbv beta iota.
    apply strict_tail; [reflexivity|]. rewrite unsubscribe_eq. reflexivity.
  - (* 11: UNSUBACK *)
    destruct (cb mod 16 =? 0); [|reflexivity]. cbv beta iota.
    apply strict_tail; [reflexivity|]. rewrite (pid_body_eq Unsuback). reflexivity.
  - (* 12: PINGREQ *) empty_case cb body.
  - (* 13: PINGRESP *) empty_case cb body.
  - (* 14: DISCONNECT *) empty_case cb body.
  - (* 15: reserved *) reflexivity.
Qed.


(* the two directions separately *)
Theorem v3_grammar_sound : forall prof cb body p,
  bytes_okb (cb :: body) = true -> len body < 268435456 ->
  strict3 prof cb (len body) body = Some p ->
  parse3 true (cb :: write_var_int (len body) ++ body) = Some p.
Proof. intros prof cb body p Hb Hl H. rewrite <- (v3_accept_iff_grammar prof cb body Hb Hl). exact H. Qed.

Theorem v3_grammar_complete : forall prof cb body p,
  bytes_okb (cb :: body) = true -> len body < 268435456 ->
  parse3 true (cb :: write_var_int (len body) ++ body) = Some p ->
  strict3 prof cb (len body) body = Some p.
Proof. intros prof cb body p Hb Hl H. rewrite (v3_accept_iff_grammar prof cb body Hb Hl). exact H. Qed.

(* ------------------------------------------------------------------------------------------ *)
(* C10: the encoder's output is a conformant packet for the reference parser                  *)
(* ------------------------------------------------------------------------------------------ *)
Lemma body_len3_pos p : build_empty_packet (header_of p) = None -> body_len3 p <> 0.
Proof.
  destruct p as [c|c|pb|pid|pid|pid|pid|s|s|u|pid| | |]; cbn [body_len3]; intros H; try discriminate; try lia.
  - unfold connect_len, protocol_len. destruct (c_protocol c); lia.
  - unfold publish_len. lia.
  - unfold subscribe_len. lia.
  - unfold suback_len. lia.
  - unfold unsubscribe_len. lia.
Qed.

Lemma strict3_encoded prof p : I3.valid p = true ->
  strict3 prof (control_byte p) (body_len3 p) (concat (body_chunks3 p)) = Some p.
Proof.
  intros Hv. unfold strict3. rewrite header_new_with_ok.
  destruct (build_empty_packet (header_of p)) as [q|] eqn:Eb.
  - destruct p; cbn [header_of ptype_of mk_header build_empty_packet h_typ] in Eb; try discriminate;
      inversion Eb; reflexivity.
  - destruct (N.eqb_spec (body_len3 p) 0) as [Z|Z]; [exfalso; exact (body_len3_pos p Eb Z)|].
    assert (Hbd : block_decode prof (header_of p) = body_decode_async prof (header_of p)).
    { destruct p; cbn [header_of ptype_of mk_header build_empty_packet h_typ] in Eb; try discriminate;
        reflexivity. }
    rewrite Hbd.
    pose proof (body_rt filter_profile_indep_from_spec prof p TEof [] Hv) as Hr.
    rewrite app_nil_r in Hr. rewrite Hr. reflexivity.
Qed.

Theorem v3_conformant : forall prof p vb, I3.valid p = true -> V3.encode prof p = Ok vb ->
  parse3_strict (as_ref vb) = Some p.
Proof.
  intros prof p vb Hv He. unfold parse3_strict.
  pose proof (v3_encode_bytes prof p vb Hv He) as Hb.
  pose proof (encode_ok_bound _ _ _ He) as Hl. unfold VMAX in Hl.
  rewrite (encode_ok_shape _ _ _ He) in *.
  pose proof (body_chunks_len p) as Hc. unfold clen in Hc.
  set (body := concat (body_chunks3 p)) in *.
  rewrite <- Hc in *.
  rewrite <- (v3_accept_iff_grammar prof).
  - rewrite Hc. apply strict3_encoded. exact Hv.
  - change (bytes_okb (control_byte p :: write_var_int (len body) ++ body))
      with ((control_byte p <? 256) && bytes_okb (write_var_int (len body) ++ body)) in Hb.
    apply andb_true_iff in Hb as [H1 H2]. rewrite bytes_okb_app in H2. apply andb_true_iff in H2 as [_ H2].
    change (bytes_okb (control_byte p :: body)) with ((control_byte p <? 256) && bytes_okb body).
    rewrite H1, H2. reflexivity.
  - exact Hl.
Qed.

End Filters.

Check v3_accept_iff_grammar.
Check v3_grammar_sound.
Check v3_grammar_complete.
Check v3_conformant.
Print Assumptions v3_accept_iff_grammar.
Print Assumptions v3_grammar_sound.
Print Assumptions v3_grammar_complete.
Print Assumptions v3_conformant.
