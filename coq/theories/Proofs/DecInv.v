(* Proofs/DecInv.v — C-inv: every decoded packet satisfies the invariants its types promise
   (I3.types_inv / I5.types_inv) and is inside the encoder's valid domain (I3.valid / I5.valid).

   Organisation: a postcondition transformer `post m Q` for the reader monad ("if the input
   consists of bytes and m accepts, the result satisfies Q and the rest consists of bytes"),
   one `post_*` lemma per primitive, then one short proof per decoder; loops by induction on the
   fuel with an invariant on the accumulator.

   filter_ok is stated with the Release validator while the decoders run `filter_try prof`;
   the lemmas that read topic filters (sections 6 and 7) live in a Section whose only
   Hypothesis is filter_profile_indep (proved in Proofs/TopicFilterEq.v).

   Outcome: no counterexample — every conjunct of I3.valid / I5.valid is established by a check
   the decoders perform; the statements are proved exactly as given. *)
From MQ Require Import Proofs.Tactics Proofs.VarIntLaws Proofs.Parses Proofs.Utf8Facts
  Proofs.TopicNameEq Model.Valid.
Open Scope N_scope.

(* ------------------------------------------------------------------ *)
(* 0. small boolean / list facts                                        *)
(* ------------------------------------------------------------------ *)

Lemma bytes_okb_cons b l : bytes_okb (b :: l) = true <-> b < 256 /\ bytes_okb l = true.
Proof.
  unfold bytes_okb. cbn [forallb]. rewrite andb_true_iff.
  split; intros [H1 H2]; split; try assumption; lia.
Qed.

Lemma bytes_okb_app a b : bytes_okb (a ++ b) = bytes_okb a && bytes_okb b.
Proof. unfold bytes_okb. apply forallb_app. Qed.

Lemma bytes_okb_Forall d : bytes_okb d = true -> Forall (fun b => b < 256) d.
Proof.
  induction d as [|x d IH]; intros H; [constructor|].
  apply bytes_okb_cons in H as [Hx Hd]. constructor; [exact Hx|exact (IH Hd)].
Qed.

Lemma rev'_rev {A} (l : list A) : rev' l = rev l.
Proof. unfold rev'. symmetry. apply rev_alt. Qed.

Lemma forallb_rev' {A} (f : A -> bool) l : forallb f (rev' l) = forallb f l.
Proof.
  rewrite rev'_rev. induction l as [|x l IH]; [reflexivity|].
  cbn [rev forallb]. rewrite forallb_app, IH. cbn [forallb].
  destruct (f x), (forallb f l); reflexivity.
Qed.

Lemma rev'_nonempty {A} (l : list A) : l <> [] -> rev' l <> [].
Proof.
  rewrite rev'_rev. destruct l as [|x l]; [congruence|]. intros _ H.
  cbn [rev] in H. apply app_eq_nil in H as [_ H]. discriminate.
Qed.

Lemma forallb_ext' {A} (f g : A -> bool) l : (forall a, f a = g a) -> forallb f l = forallb g l.
Proof. intros H. induction l as [|x l IH]; [reflexivity|]. cbn [forallb]. rewrite H, IH. reflexivity. Qed.

Lemma nonempty_match {A} (l : list A) : l <> [] -> match l with [] => false | _ => true end = true.
Proof. destruct l; [congruence|reflexivity]. Qed.

(* ------------------------------------------------------------------ *)
(* 1. the postcondition transformer                                     *)
(* ------------------------------------------------------------------ *)

Definition post {A} (m : reader A) (Q : A -> Prop) : Prop :=
  forall t d a d', bytes_okb d = true -> m t d = ROk a d' -> Q a /\ bytes_okb d' = true.

Lemma post_ret {A} (a : A) (Q : A -> Prop) : Q a -> post (ret a) Q.
Proof. intros HQ t d a' d' Hd H. unfold ret in H. inversion H; subst. split; assumption. Qed.

Lemma post_fail {A} e (Q : A -> Prop) : post (fail e) Q.
Proof. intros t d a d' _ H. discriminate. Qed.

Lemma post_rpanic {A} s (Q : A -> Prop) : post (rpanic s) Q.
Proof. intros t d a d' _ H. discriminate. Qed.

Lemma post_bind {A B} (m : reader A) (f : A -> reader B) (Q : A -> Prop) (R : B -> Prop) :
  post m Q -> (forall a, Q a -> post (f a) R) -> post (bind m f) R.
Proof.
  intros Hm Hf t d b d' Hd H. unfold bind in H.
  destruct (m t d) as [a d1|e|s] eqn:Em; try discriminate.
  destruct (Hm _ _ _ _ Hd Em) as [HQ Hd1]. exact (Hf a HQ _ _ _ _ Hd1 H).
Qed.

Lemma post_weaken {A} (m : reader A) (Q R : A -> Prop) :
  post m Q -> (forall a, Q a -> R a) -> post m R.
Proof. intros Hm HQR t d a d' Hd H. destruct (Hm _ _ _ _ Hd H) as [HQ Hd']. split; auto. Qed.

Lemma post_if {A} (b : bool) (m1 m2 : reader A) Q :
  (b = true -> post m1 Q) -> (b = false -> post m2 Q) -> post (if b then m1 else m2) Q.
Proof. destruct b; auto. Qed.

(* the `fun t d => (... (S (length d)) ...) t d` idiom of the fuelled loops *)
Lemma post_dep {A} (g : bytes -> reader A) Q :
  (forall d0, post (g d0) Q) -> post (fun t d => g d t d) Q.
Proof. intros Hg t d a d' Hd H. exact (Hg d _ _ _ _ Hd H). Qed.

Lemma post_lift {A} (o : outcome A) (Q : A -> Prop) :
  (forall a, o = Ok a -> Q a) -> post (lift_outcome o) Q.
Proof.
  intros HQ. destruct o as [a|e|s]; cbn [lift_outcome];
    [apply post_ret; auto | apply post_fail | apply post_rpanic].
Qed.

Lemma post_guard b e : post (guard b e) (fun _ => b = true).
Proof. unfold guard. destruct b; [apply post_ret; reflexivity | apply post_fail]. Qed.

Lemma post_checked_sub a b : post (checked_sub a b) (fun r => r = a - b /\ b <= a).
Proof.
  unfold checked_sub. destruct (N.leb_spec b a); [apply post_ret; split; [reflexivity|assumption] | apply post_fail].
Qed.

(* bind step: solve the first reader with tactic [tac], beta-reduce the postcondition *)
Tactic Notation "pbind" tactic3(tac) := eapply post_bind; [tac | cbv beta].
Tactic Notation "pweaken" tactic3(tac) := eapply post_weaken; [tac | cbv beta].

(* ------------------------------------------------------------------ *)
(* 2. primitives                                                        *)
(* ------------------------------------------------------------------ *)

Lemma post_read_u8 : post read_u8 (fun b => b < 256).
Proof.
  intros t d a d' Hd H. unfold read_u8 in H. destruct d as [|b r]; [discriminate|].
  inversion H; subst. apply bytes_okb_cons in Hd. exact Hd.
Qed.

Lemma post_read_u16 : post read_u16 (fun n => n < 65536).
Proof.
  intros t d a d' Hd H. unfold read_u16 in H. destruct d as [|x [|y r]]; try discriminate.
  inversion H; subst. apply bytes_okb_cons in Hd as [Hx Hd]. apply bytes_okb_cons in Hd as [Hy Hd].
  split; [lia|exact Hd].
Qed.

Lemma post_read_u32 : post read_u32 (fun n => n < 4294967296).
Proof.
  intros t d a d' Hd H. unfold read_u32 in H. destruct d as [|x [|y [|z [|w r]]]]; try discriminate.
  inversion H; subst. apply bytes_okb_cons in Hd as [Hx Hd]. apply bytes_okb_cons in Hd as [Hy Hd].
  apply bytes_okb_cons in Hd as [Hz Hd]. apply bytes_okb_cons in Hd as [Hw Hd].
  split; [lia|exact Hd].
Qed.

Lemma post_read_exact n : post (read_exact n) (fun s => bytes_okb s = true /\ len s = n).
Proof.
  intros t d a d' Hd H. unfold read_exact in H.
  destruct (take d n) as [[x y]|] eqn:Et; [|discriminate]. inversion H; subst.
  apply take_some in Et as [-> Hl]. rewrite bytes_okb_app in Hd. apply andb_true_iff in Hd as [Ha Hb].
  repeat split; assumption.
Qed.

Lemma post_read_bytes : post read_bytes (fun s => bytes_okb s = true /\ short s = true).
Proof.
  unfold read_bytes. pbind (apply post_read_u16). intros n Hn.
  pweaken (apply post_read_exact). intros s [Hs Hl]. split; [exact Hs|].
  unfold short. lia.
Qed.

Lemma post_read_string : post read_string (fun s => text_ok s = true /\ short s = true).
Proof.
  unfold read_string. pbind (apply post_read_bytes). intros s [Hs Hl].
  destruct (utf8_valid s) eqn:Eu; [|apply post_fail]. apply post_ret.
  unfold text_ok. rewrite Hs, Eu. split; [reflexivity|exact Hl].
Qed.

Lemma post_pid_read : post V3.pid_read (fun p => pid_ok p = true).
Proof.
  unfold V3.pid_read. pbind (apply post_read_u16). intros v Hv.
  apply post_lift. intros p. unfold pid_try. destruct (N.eqb_spec v 0) as [E|E]; [discriminate|].
  intros H; inversion H; subst. unfold pid_ok, u16. lia.
Qed.

Lemma post_decode_var_int : post decode_var_int (fun p => fst p < 268435456 /\ 1 <= snd p <= 4).
Proof.
  intros t d [v k] d' Hd H.
  destruct (read_bound _ _ _ _ _ (bytes_okb_Forall _ Hd) H) as (Hv & Hk & c & -> & Hc).
  rewrite bytes_okb_app in Hd. apply andb_true_iff in Hd as [_ Hd].
  cbn [fst snd]. unfold VMAX in Hv. repeat split; try assumption; lia.
Qed.

Lemma text_ok_utf8 s : text_ok s = true -> utf8_valid s = true.
Proof. unfold text_ok. intros H. apply andb_true_iff in H as [_ H]. exact H. Qed.
Lemma text_ok_bytes s : text_ok s = true -> bytes_okb s = true.
Proof. unfold text_ok. intros H. apply andb_true_iff in H as [H _]. exact H. Qed.

Lemma name_try_post s : text_ok s = true ->
  post (lift_outcome (name_try s)) (fun s' => s' = s /\ name_ok s' = true).
Proof.
  intros Hs. apply post_lift. intros s' H. apply name_try_inv in H as [-> Hi].
  split; [reflexivity|]. unfold name_ok. rewrite Hs, Hi. reflexivity.
Qed.

Lemma qos_of_u8_inv b q : qos_of_u8 b = Ok q -> q = b /\ q < 3.
Proof. unfold qos_of_u8. destruct (N.ltb_spec b 3) as [Hb|Hb]; intros H; inversion H; subst. split; [reflexivity|assumption]. Qed.

(* ------------------------------------------------------------------ *)
(* 3. MQTT v3                                                           *)
(* ------------------------------------------------------------------ *)

Lemma post_opt_string (b : bool) :
  post (if b then s <- read_string ;; ret (Some s) else ret None)
       (fun o => opt_all text_ok o = true /\ opt_all short o = true).
Proof.
  destruct b; [|apply post_ret; split; reflexivity].
  pbind (apply post_read_string). intros s [Hs Hl]. apply post_ret. split; assumption.
Qed.

Lemma post_opt_bytes (b : bool) :
  post (if b then s <- read_bytes ;; ret (Some s) else ret None)
       (fun o => opt_all bytes_okb o = true /\ opt_all short o = true).
Proof.
  destruct b; [|apply post_ret; split; reflexivity].
  pbind (apply post_read_bytes). intros s [Hs Hl]. apply post_ret. split; assumption.
Qed.

Lemma v3_post_connect_with_protocol proto :
  post (V3.connect_decode_with_protocol proto)
       (fun c => I3.valid (V3.Connect c) = true).
Proof.
  unfold V3.connect_decode_with_protocol.
  destruct (4 <? protocol_level proto) eqn:Ep; [apply post_fail|].
  pbind (apply post_read_u8). intros flags Hflags.
  destruct (bit flags 0); [apply post_fail|].
  pbind (apply post_read_u16). intros ka Hka.
  pbind (apply post_read_string). intros cid [Hcid Hcidl].
  eapply post_bind with (Q := fun o => opt_all I3.will_inv o = true /\ opt_all I3.will_valid o = true).
  { destruct (bit flags 2).
    - pbind (apply post_read_string). intros topic [Htopic Htopicl].
      pbind (apply post_read_bytes). intros msg [Hmsg Hmsgl].
      pbind (apply post_lift; intros q Hq; exact (qos_of_u8_inv _ _ Hq)). intros q [_ Hq].
      pbind (apply name_try_post; exact Htopic). intros topic' [-> Hn].
      apply post_ret. cbn [opt_all]. unfold I3.will_inv, I3.will_valid. cbn [V3.w_qos V3.w_topic V3.w_message].
      rewrite Hn, Hmsg, Htopicl, Hmsgl. split; [|reflexivity].
      rewrite !andb_true_r. lia.
    - destruct (negb ((flags / 8) mod 4 =? 0)); [apply post_fail|]. apply post_ret. split; reflexivity. }
  cbv beta. intros will [Hwi Hwv].
  pbind (apply post_opt_string). intros un [Hun Hunl].
  pbind (apply post_opt_bytes). intros pw [Hpw Hpwl].
  apply post_ret. unfold I3.valid, I3.types_inv.
  cbn [V3.c_protocol V3.c_keep_alive V3.c_client_id V3.c_will V3.c_username V3.c_password].
  rewrite Hcid, Hwi, Hun, Hpw, Hcidl, Hwv, Hunl, Hpwl. rewrite !andb_true_r.
  apply andb_true_iff. split; [unfold u16; lia|].
  destruct proto; try reflexivity. cbn [protocol_level] in Ep. discriminate.
Qed.

Lemma post_protocol_decode : post protocol_decode (fun _ => True).
Proof.
  unfold protocol_decode. pbind (apply post_read_bytes). intros name _.
  pbind (apply post_read_u8). intros lvl _. apply post_lift. intros; exact I.
Qed.

Lemma v3_post_connect : post V3.connect_decode (fun c => I3.valid (V3.Connect c) = true).
Proof.
  unfold V3.connect_decode. pbind (apply post_protocol_decode). intros proto _.
  apply v3_post_connect_with_protocol.
Qed.

Lemma v3_post_connack : post V3.connack_decode (fun c => I3.valid (V3.Connack c) = true).
Proof.
  unfold V3.connack_decode. pbind (apply post_read_exact). intros payload [Hp Hl].
  destruct payload as [|f [|c [|x r]]]; try apply post_rpanic.
  pbind (instantiate (1 := fun _ => True); destruct (f =? 0); [apply post_ret; exact I|];
         destruct (f =? 1); [apply post_ret; exact I|apply post_fail]).
  intros sp _.
  pbind (apply post_lift; intros code Hc; exact Hc). intros code Hc.
  apply post_ret. unfold I3.valid, I3.types_inv. cbn [V3.ca_code]. rewrite andb_true_r.
  unfold V3.connect_return_code_of_u8 in Hc. destruct (N.ltb_spec c 6) as [Hc6|Hc6]; inversion Hc; subst. lia.
Qed.

Definition qp_rl_post (q : qospid * N) : Prop := qospid_ok (fst q) = true.

Lemma post_qospid (qos rl : N) :
  post (if qos =? 0 then ret (QP0, rl)
        else if qos =? 1 then rl' <- checked_sub rl 2 ;; pid <- V3.pid_read ;; ret (QP1 pid, rl')
        else rl' <- checked_sub rl 2 ;; pid <- V3.pid_read ;; ret (QP2 pid, rl')) qp_rl_post.
Proof.
  destruct (qos =? 0); [apply post_ret; reflexivity|].
  destruct (qos =? 1).
  - pbind (apply post_checked_sub). intros rl' _. pbind (apply post_pid_read). intros pid Hpid.
    apply post_ret. exact Hpid.
  - pbind (apply post_checked_sub). intros rl' _. pbind (apply post_pid_read). intros pid Hpid.
    apply post_ret. exact Hpid.
Qed.

Lemma v3_post_publish h : post (V3.publish_decode h) (fun p => I3.valid (V3.Publish p) = true).
Proof.
  unfold V3.publish_decode. pbind (apply post_read_string). intros topic [Ht Htl].
  pbind (apply post_checked_sub). intros rl _.
  pbind (apply post_qospid). intros [qp rl'] Hqp. unfold qp_rl_post in Hqp. cbn [fst] in Hqp.
  pbind (instantiate (1 := fun s => bytes_okb s = true); destruct (0 <? rl');
         [pweaken (apply post_read_exact); intros s [Hs _]; exact Hs | apply post_ret; reflexivity]).
  intros payload Hpl.
  pbind (apply name_try_post; exact Ht). intros topic' [-> Hn].
  apply post_ret. unfold I3.valid, I3.types_inv. cbn [V3.p_qospid V3.p_topic V3.p_payload].
  rewrite Hqp, Hn, Hpl, Htl. reflexivity.
Qed.

Definition code3_ok (c : N) : bool := (c =? 128) || (c <? 3).

Lemma v3_post_suback_loop fuel : forall rl acc,
  forallb code3_ok acc = true ->
  post (V3.suback_loop fuel rl acc) (fun l => forallb code3_ok l = true).
Proof.
  induction fuel as [|f IH]; intros rl acc Hacc; cbn [V3.suback_loop];
    (destruct (N.eqb_spec rl 0) as [E|E]; [apply post_ret; rewrite forallb_rev'; exact Hacc|]).
  - apply post_rpanic.
  - pbind (apply post_read_u8). intros v _.
    pbind (apply post_lift; intros code Hc; exact Hc). intros code Hc.
    apply IH. cbn [forallb]. rewrite Hacc, andb_true_r.
    unfold V3.subscribe_return_code_of_u8 in Hc. unfold code3_ok.
    destruct ((v =? 128) || (v <? 3)) eqn:Ev; inversion Hc; subst. exact Ev.
Qed.

Lemma v3_post_suback rl0 : post (V3.suback_decode rl0) (fun s => I3.valid (V3.Suback s) = true).
Proof.
  unfold V3.suback_decode. pbind (apply post_pid_read). intros pid Hpid.
  pbind (apply post_checked_sub). intros rl _.
  apply post_dep with (g := fun d => codes <- V3.suback_loop (S (length d)) rl [] ;;
                                     ret {| V3.sa_pid := pid; V3.sa_codes := codes |}).
  intros d0. pbind (apply v3_post_suback_loop; reflexivity). intros codes Hc.
  apply post_ret. unfold I3.valid, I3.types_inv. cbn [V3.sa_pid V3.sa_codes].
  fold code3_ok. rewrite Hpid, Hc. reflexivity.
Qed.

Lemma v3_post_pid (mk : N -> V3.packet) :
  (forall p, I3.valid (mk p) = pid_ok p && true) ->
  post (pid <- V3.pid_read ;; ret (mk pid)) (fun p => I3.valid p = true).
Proof.
  intros Hmk. pbind (apply post_pid_read). intros pid Hpid. apply post_ret. rewrite Hmk, Hpid. reflexivity.
Qed.

Lemma post_raw_header : post decode_raw_header (fun _ => True).
Proof.
  unfold decode_raw_header. pbind (apply post_read_u8). intros typ _.
  pbind (apply post_decode_var_int). intros [rl k] _. apply post_ret. exact I.
Qed.

Lemma v3_post_header : post V3.header_decode (fun _ => True).
Proof.
  unfold V3.header_decode. pbind (apply post_raw_header). intros [typ rl] _.
  apply post_lift. intros; exact I.
Qed.

Lemma i3_valid_inv p : I3.valid p = true -> I3.types_inv p = true.
Proof. unfold I3.valid. intros H. apply andb_true_iff in H as [H _]. exact H. Qed.

(* ------------------------------------------------------------------ *)
(* 4. v5 properties                                                     *)
(* ------------------------------------------------------------------ *)

Lemma prop_id_dec (a b : prop_id) : {a = b} + {a <> b}.
Proof. decide equality. Qed.

Lemma pget_pset_same p id v : pget (pset p id v) id = v.
Proof. destruct p, id; reflexivity. Qed.

Lemma pget_pset_other p id id' v : id <> id' -> pget (pset p id v) id' = pget p id'.
Proof. intros H. destruct p, id, id'; try reflexivity; congruence. Qed.

Lemma pr_user_pset p id v : pr_user (pset p id v) = pr_user p.
Proof. destruct p, id; reflexivity. Qed.

Lemma pget_pset_user p u id : pget (pset_user p u) id = pget p id.
Proof. destruct p, id; reflexivity. Qed.

Lemma pr_user_pset_user p u : pr_user (pset_user p u) = u.
Proof. destruct p; reflexivity. Qed.

Definition props_ok (allowed : list prop_id) (p : props) : Prop :=
  props_inv allowed p = true /\ props_valid allowed p = true.

Lemma props_ok_empty allowed : props_ok allowed props_empty.
Proof. split; reflexivity. Qed.

Lemma props_ok_set allowed acc id v :
  props_ok allowed acc -> prop_mem id allowed = true ->
  value_inv (prop_wtype id) v = true -> value_valid (prop_wtype id) v = true ->
  props_ok allowed (pset acc id (Some v)).
Proof.
  intros [Hi Hv] Hm Hvi Hvv. unfold props_inv, props_valid in *.
  apply andb_true_iff in Hi as [Hi Hiu]. apply andb_true_iff in Hv as [Hv Hvu].
  rewrite forallb_forall in Hi, Hv.
  split; apply andb_true_iff; (split; [|rewrite pr_user_pset; assumption]);
    apply forallb_forall; intros id' Hin;
    (destruct (prop_id_dec id id') as [<-|Hne];
     [rewrite pget_pset_same | rewrite (pget_pset_other _ _ _ _ Hne)]).
  - rewrite Hm, Hvi. reflexivity.
  - exact (Hi id' Hin).
  - exact Hvv.
  - exact (Hv id' Hin).
Qed.

Lemma props_ok_user allowed acc name value :
  props_ok allowed acc -> text_ok name = true -> short name = true ->
  text_ok value = true -> short value = true ->
  props_ok allowed (pset_user acc (pr_user acc ++ [(name, value)])).
Proof.
  intros [Hi Hv] Hn Hnl Hva Hval. unfold props_inv, props_valid in *.
  apply andb_true_iff in Hi as [Hi Hiu]. apply andb_true_iff in Hv as [Hv Hvu].
  split; apply andb_true_iff; split.
  - erewrite forallb_ext'; [exact Hi|]. intros id. cbv beta. rewrite pget_pset_user. reflexivity.
  - rewrite pr_user_pset_user, forallb_app, Hiu. cbn [forallb]. unfold user_inv. cbn [fst snd].
    rewrite Hn, Hva. reflexivity.
  - erewrite forallb_ext'; [exact Hv|]. intros id. cbv beta. rewrite pget_pset_user. reflexivity.
  - rewrite pr_user_pset_user, forallb_app, Hvu. cbn [forallb]. unfold user_valid. cbn [fst snd].
    rewrite Hnl, Hval. reflexivity.
Qed.

Lemma post_decode_value id :
  post (decode_value id)
       (fun v => value_inv (prop_wtype id) v = true /\ value_valid (prop_wtype id) v = true).
Proof.
  unfold decode_value. destruct (prop_wtype id).
  - (* WBool *) pbind (apply post_read_u8). intros v _.
    destruct (N.ltb_spec 1 v) as [Hv|Hv]; [apply post_fail|]. apply post_ret.
    cbn [value_inv value_valid]. split; [lia|reflexivity].
  - (* WU16 *) pbind (apply post_read_u16). intros v Hv. apply post_ret.
    cbn [value_inv value_valid]. unfold u16. split; [lia|reflexivity].
  - (* WU32 *) pbind (apply post_read_u32). intros v Hv. apply post_ret.
    cbn [value_inv value_valid]. unfold u32. split; [lia|reflexivity].
  - (* WStr *) pbind (apply post_read_string). intros s [Hs Hl]. apply post_ret.
    cbn [value_inv value_valid]. split; assumption.
  - (* WTopic *) pbind (apply post_read_string). intros s [Hs Hl].
    destruct (name_is_invalid s) eqn:En; [apply post_fail|]. apply post_ret.
    cbn [value_inv value_valid]. unfold name_ok. rewrite Hs, En. split; [reflexivity|assumption].
  - (* WBin *) pbind (apply post_read_bytes). intros s [Hs Hl]. apply post_ret.
    cbn [value_inv value_valid]. split; assumption.
  - (* WVar *) pbind (apply post_decode_var_int). intros [v k] _.
    pbind (apply post_lift; intros v' Hv'; exact Hv'). intros v' Hv'. apply post_ret.
    cbn [value_inv value_valid]. unfold var_byte_int_try in Hv'.
    destruct (N.ltb_spec v 268435456) as [Hlt|Hlt]; inversion Hv'; subst. split; [lia|reflexivity].
  - (* WQos *) pbind (apply post_read_u8). intros v _.
    destruct (N.ltb_spec 1 v) as [Hv|Hv]; [apply post_fail|].
    destruct (qos_of_u8 v) as [q|e|s] eqn:Eq; try apply post_rpanic.
    apply qos_of_u8_inv in Eq as [-> _]. apply post_ret.
    cbn [value_inv value_valid]. split; lia.
Qed.

Lemma post_decode_props_loop fuel ctx allowed plen : forall n acc,
  props_ok allowed acc ->
  post (decode_props_loop fuel ctx allowed plen n acc) (props_ok allowed).
Proof.
  induction fuel as [|f IH]; intros n acc Hacc; cbn [decode_props_loop];
    (destruct (plen <=? n); [destruct (plen =? n); [apply post_ret; exact Hacc|apply post_fail]|]).
  - apply post_rpanic.
  - pbind (apply post_read_u8). intros b _.
    destruct (prop_of_u8 b) as [[|id]|]; [| |apply post_fail].
    + pbind (apply post_read_string). intros name [Hn Hnl].
      pbind (apply post_read_string). intros value [Hv Hvl].
      apply IH. apply props_ok_user; assumption.
    + destruct (prop_mem id allowed) eqn:Em; [|apply post_fail].
      destruct (pget acc id) as [x|]; [apply post_fail|].
      pbind (apply post_decode_value). intros v [Hvi Hvv].
      apply IH. apply props_ok_set; assumption.
Qed.

Lemma post_decode_props_full ctx allowed :
  post (decode_props_full ctx allowed) (fun x => props_ok allowed (fst (fst x))).
Proof.
  unfold decode_props_full. pbind (apply post_decode_var_int). intros [plen plen_bytes] _.
  apply post_dep with (g := fun d => p <- decode_props_loop (S (length d)) ctx allowed plen 0 props_empty ;;
                                     ret (p, plen, plen_bytes)).
  intros d0. pbind (apply post_decode_props_loop; apply props_ok_empty). intros p Hp.
  apply post_ret. exact Hp.
Qed.

Lemma post_decode_props ctx allowed : post (decode_props ctx allowed) (props_ok allowed).
Proof.
  unfold decode_props. pbind (apply post_decode_props_full). intros [[p a] b] Hp.
  apply post_ret. exact Hp.
Qed.

(* ------------------------------------------------------------------ *)
(* 5. MQTT v5                                                           *)
(* ------------------------------------------------------------------ *)

Lemma post_reason_read table pt :
  post (V5.reason_read table pt) (fun c => V5.mem_n c (V5.codes_of table) = true).
Proof.
  unfold V5.reason_read. pbind (apply post_read_u8). intros b _.
  destruct (V5.mem_n b (V5.codes_of table)) eqn:Em; [apply post_ret; exact Em|apply post_fail].
Qed.

Lemma subopts_of_u8_inv b o : V5.subopts_of_u8 b = Ok o -> I5.subopts_inv o = true.
Proof.
  unfold V5.subopts_of_u8.
  destruct (0 <? b / 64); [discriminate|].
  destruct (N.eqb_spec (b mod 4) 3) as [E1|E1]; [discriminate|].
  destruct (N.eqb_spec ((b / 16) mod 4) 3) as [E2|E2]; [discriminate|].
  intros H; inversion H; subst. unfold I5.subopts_inv. cbn [V5.o_qos V5.o_rh]. lia.
Qed.

Lemma flagged_payload_ok (props : props) (payload : bytes) :
  (match pget props PayloadFormatIndicator with Some (VN 1) => true | _ => false end)
    && negb (utf8_valid payload) = false ->
  (if payload_flagged props then utf8_valid payload else true) = true.
Proof.
  unfold payload_flagged.
  destruct (match pget props PayloadFormatIndicator with Some (VN 1) => true | _ => false end);
    [|reflexivity].
  cbn [andb]. destruct (utf8_valid payload); [reflexivity|discriminate].
Qed.

Lemma v5_post_will qos retain : qos < 3 ->
  post (V5.will_decode qos retain) (fun w => I5.will_inv w = true /\ I5.will_valid w = true).
Proof.
  intros Hq. unfold V5.will_decode.
  pbind (apply post_decode_props). intros props [Hpi Hpv].
  pbind (apply post_read_string). intros topic [Ht Htl].
  pbind (apply name_try_post; exact Ht). intros topic' [-> Hn].
  pbind (apply post_read_bytes). intros payload [Hp Hpl].
  match goal with |- post (if ?c then _ else _) _ => destruct c eqn:Ec end; [apply post_fail|].
  apply post_ret. unfold I5.will_inv, I5.will_valid.
  cbn [V5.w_qos V5.w_props V5.w_topic V5.w_payload].
  rewrite Hpi, Hpv, Hn, Hp, Htl, Hpl, (flagged_payload_ok _ _ Ec). rewrite !andb_true_r.
  split; [lia|reflexivity].
Qed.

Lemma v5_post_connect_with_protocol h proto :
  post (V5.connect_decode_with_protocol h proto) (fun c => I5.valid (V5.Connect c) = true).
Proof.
  unfold V5.connect_decode_with_protocol. destruct proto; try apply post_fail.
  pbind (apply post_read_u8). intros flags Hflags.
  destruct (bit flags 0); [apply post_fail|].
  pbind (apply post_read_u16). intros ka Hka.
  pbind (apply post_decode_props). intros props [Hpi Hpv].
  pbind (apply post_read_string). intros cid [Hcid Hcidl].
  eapply post_bind with (Q := fun o => opt_all I5.will_inv o = true /\ opt_all I5.will_valid o = true).
  { destruct (bit flags 2).
    - pbind (apply post_lift; intros q Hq; exact (qos_of_u8_inv _ _ Hq)). intros q [_ Hq].
      pbind (apply v5_post_will; exact Hq). intros w Hw. apply post_ret. exact Hw.
    - destruct (negb ((flags / 8) mod 4 =? 0)); [apply post_fail|]. apply post_ret. split; reflexivity. }
  cbv beta. intros will [Hwi Hwv].
  pbind (apply post_opt_string). intros un [Hun Hunl].
  pbind (apply post_opt_bytes). intros pw [Hpw Hpwl].
  apply post_ret. unfold I5.valid, I5.types_inv.
  cbn [V5.c_protocol V5.c_keep_alive V5.c_props V5.c_client_id V5.c_will V5.c_username V5.c_password].
  rewrite Hpi, Hpv, Hcid, Hwi, Hun, Hpw, Hcidl, Hwv, Hunl, Hpwl. rewrite !andb_true_r.
  unfold u16. lia.
Qed.

Lemma v5_post_connect h : post (V5.connect_decode h) (fun c => I5.valid (V5.Connect c) = true).
Proof.
  unfold V5.connect_decode. pbind (apply post_protocol_decode). intros proto _.
  apply v5_post_connect_with_protocol.
Qed.

Lemma v5_post_connack h : post (V5.connack_decode h) (fun c => I5.valid (V5.Connack c) = true).
Proof.
  unfold V5.connack_decode. pbind (apply post_read_exact). intros payload [Hp Hl].
  destruct payload as [|f [|c [|x r]]]; try apply post_rpanic.
  pbind (instantiate (1 := fun _ => True); destruct (f =? 0); [apply post_ret; exact I|];
         destruct (f =? 1); [apply post_ret; exact I|apply post_fail]).
  intros sp _.
  eapply post_bind with (Q := fun code => V5.mem_n code V5.CONNECT_CODES = true).
  { destruct (V5.mem_n c V5.CONNECT_CODES) eqn:Em; [apply post_ret; exact Em | apply post_fail]. }
  cbv beta. intros code Hcode.
  pbind (apply post_decode_props). intros props [Hpi Hpv].
  apply post_ret. unfold I5.valid, I5.types_inv. cbn [V5.ca_code V5.ca_props].
  rewrite Hcode, Hpi, Hpv. reflexivity.
Qed.

Lemma v5_post_publish h : post (V5.publish_decode h) (fun p => I5.valid (V5.Publish p) = true).
Proof.
  unfold V5.publish_decode. pbind (apply post_read_string). intros topic [Ht Htl].
  pbind (apply post_checked_sub). intros rl _.
  pbind (apply post_qospid). intros [qp rl'] Hqp. unfold qp_rl_post in Hqp. cbn [fst] in Hqp.
  pbind (apply post_decode_props). intros props [Hpi Hpv].
  pbind (apply post_lift; intros pl _; exact I). intros pl _.
  pbind (apply post_checked_sub). intros rl2 _.
  eapply post_bind with (Q := fun s => bytes_okb s = true /\
                              (if payload_flagged props then utf8_valid s else true) = true).
  { destruct (0 <? rl2).
    - pbind (apply post_read_exact). intros data [Hd _].
      match goal with |- post (if ?c then _ else _) _ => destruct c eqn:Ec end; [apply post_fail|].
      apply post_ret. split; [exact Hd|exact (flagged_payload_ok _ _ Ec)].
    - apply post_ret. split; [reflexivity|]. destruct (payload_flagged props); reflexivity. }
  cbv beta. intros payload [Hpl Hfl].
  pbind (apply name_try_post; exact Ht). intros topic' [-> Hn].
  apply post_ret. unfold I5.valid, I5.types_inv. cbn [V5.p_qospid V5.p_topic V5.p_props V5.p_payload].
  rewrite Hqp, Hn, Hpi, Hpv, Hpl, Hfl, Htl. reflexivity.
Qed.

Lemma v5_post_ack table h : V5.mem_n 0 (V5.codes_of table) = true ->
  post (V5.ack_decode table h)
       (fun a => I5.ack_inv table a = true /\ props_valid ACK_PROPS (V5.a_props a) = true).
Proof.
  intros H0. unfold V5.ack_decode. pbind (apply post_pid_read). intros pid Hpid.
  destruct (h_rl h =? 2).
  { apply post_ret. unfold I5.ack_inv. cbn [V5.a_pid V5.a_code V5.a_props]. rewrite Hpid, H0.
    split; reflexivity. }
  destruct (h_rl h =? 3).
  { pbind (apply post_reason_read). intros code Hcode.
    apply post_ret. unfold I5.ack_inv. cbn [V5.a_pid V5.a_code V5.a_props]. rewrite Hpid, Hcode.
    split; reflexivity. }
  pbind (apply post_reason_read). intros code Hcode.
  pbind (apply post_decode_props). intros props [Hpi Hpv].
  apply post_ret. unfold I5.ack_inv. cbn [V5.a_pid V5.a_code V5.a_props]. rewrite Hpid, Hcode, Hpi, Hpv.
  split; reflexivity.
Qed.

Lemma v5_post_codes_loop table pt fuel : forall rl acc,
  forallb (fun c => V5.mem_n c (V5.codes_of table)) acc = true ->
  post (V5.codes_loop table pt fuel rl acc)
       (fun l => forallb (fun c => V5.mem_n c (V5.codes_of table)) l = true).
Proof.
  induction fuel as [|f IH]; intros rl acc Hacc; cbn [V5.codes_loop];
    (destruct (N.eqb_spec rl 0) as [E|E]; [apply post_ret; rewrite forallb_rev'; exact Hacc|]).
  - apply post_rpanic.
  - pbind (apply post_reason_read). intros code Hcode.
    apply IH. cbn [forallb]. rewrite Hcode, Hacc. reflexivity.
Qed.

Lemma v5_post_suback table h :
  post (V5.suback_decode table h)
       (fun s => I5.suback_inv table s = true /\ props_valid ACK_PROPS (V5.sa_props s) = true).
Proof.
  unfold V5.suback_decode. pbind (apply post_pid_read). intros pid Hpid.
  pbind (apply post_decode_props). intros props [Hpi Hpv].
  pbind (apply post_lift; intros pl _; exact I). intros pl _.
  pbind (apply post_checked_sub). intros rl _.
  apply post_dep with (g := fun d => codes <- V5.codes_loop table (h_typ h) (S (length d)) rl [] ;;
                          ret {| V5.sa_pid := pid; V5.sa_props := props; V5.sa_codes := codes |}).
  intros d0. pbind (apply v5_post_codes_loop; reflexivity). intros codes Hc.
  apply post_ret. unfold I5.suback_inv. cbn [V5.sa_pid V5.sa_props V5.sa_codes].
  rewrite Hpid, Hpi, Hpv, Hc. split; reflexivity.
Qed.

Lemma v5_post_disconnect h :
  post (V5.disconnect_decode h) (fun d => I5.valid (V5.Disconnect d) = true).
Proof.
  unfold V5.disconnect_decode.
  destruct (h_rl h =? 0); [apply post_ret; reflexivity|].
  destruct (h_rl h =? 1).
  { pbind (apply post_reason_read). intros code Hcode. apply post_ret.
    unfold I5.valid, I5.types_inv. cbn [V5.d_code V5.d_props]. cbn [V5.codes_of] in Hcode.
    rewrite Hcode. reflexivity. }
  pbind (apply post_reason_read). intros code Hcode.
  pbind (apply post_decode_props). intros props [Hpi Hpv]. apply post_ret.
  unfold I5.valid, I5.types_inv. cbn [V5.d_code V5.d_props]. cbn [V5.codes_of] in Hcode.
  rewrite Hcode, Hpi, Hpv. reflexivity.
Qed.

Lemma v5_post_auth h : post (V5.auth_decode h) (fun d => I5.valid (V5.Auth d) = true).
Proof.
  unfold V5.auth_decode.
  destruct (h_rl h =? 0); [apply post_ret; reflexivity|].
  pbind (apply post_reason_read). intros code Hcode.
  pbind (apply post_decode_props). intros props [Hpi Hpv]. apply post_ret.
  unfold I5.valid, I5.types_inv. cbn [V5.d_code V5.d_props]. cbn [V5.codes_of] in Hcode.
  rewrite Hcode, Hpi, Hpv. reflexivity.
Qed.

Lemma v5_post_ack_packet table h (mk : V5.ack -> V5.packet) :
  V5.mem_n 0 (V5.codes_of table) = true ->
  (forall a, I5.valid (mk a) = I5.ack_inv table a && props_valid ACK_PROPS (V5.a_props a)) ->
  post (a <- V5.ack_decode table h ;; ret (mk a)) (fun p => I5.valid p = true).
Proof.
  intros H0 Hmk. pbind (apply v5_post_ack; exact H0). intros a [Hi Hv]. apply post_ret.
  rewrite Hmk, Hi, Hv. reflexivity.
Qed.

Lemma v5_post_suback_packet table h (mk : V5.suback -> V5.packet) :
  (forall s, I5.valid (mk s) = I5.suback_inv table s && props_valid ACK_PROPS (V5.sa_props s)) ->
  post (s <- V5.suback_decode table h ;; ret (mk s)) (fun p => I5.valid p = true).
Proof.
  intros Hmk. pbind (apply v5_post_suback). intros a [Hi Hv]. apply post_ret.
  rewrite Hmk, Hi, Hv. reflexivity.
Qed.

Lemma v5_post_header : post V5.header_decode (fun _ => True).
Proof.
  unfold V5.header_decode. pbind (apply post_raw_header). intros [typ rl] _.
  apply post_lift. intros; exact I.
Qed.

Lemma i5_valid_inv p : I5.valid p = true -> I5.types_inv p = true.
Proof. unfold I5.valid. intros H. apply andb_true_iff in H as [H _]. exact H. Qed.

(* ------------------------------------------------------------------ *)
(* 6. decoders that validate topic filters, and whole packets           *)
(* ------------------------------------------------------------------ *)

Section WithFilterIndep.

(* proved in Proofs/TopicFilterEq.v by another development; discharged by the caller *)
Hypothesis filter_profile_indep :
  forall s, utf8_valid s = true -> filter_is_invalid Debug s = filter_is_invalid Release s.

Lemma filter_try_inv prof s f : text_ok s = true -> filter_try prof s = Ok f ->
  ftext f = s /\ filter_ok f = true.
Proof.
  intros Hs H. unfold filter_try in H.
  assert (Er : filter_is_invalid prof s = filter_is_invalid Release s).
  { destruct prof; [apply filter_profile_indep, text_ok_utf8, Hs | reflexivity]. }
  rewrite Er in H.
  destruct (filter_is_invalid Release s) as [[[|] sep]|e|p] eqn:Ef; try discriminate.
  inversion H; subst. cbn [ftext]. split; [reflexivity|].
  unfold filter_ok. cbn [ftext fsepidx]. rewrite Hs, Ef. cbn [andb]. apply N.eqb_refl.
Qed.

Lemma post_filter_read prof :
  post (V3.filter_read prof) (fun f => filter_ok f = true /\ short (ftext f) = true).
Proof.
  unfold V3.filter_read. pbind (apply post_read_string). intros s [Hs Hl].
  apply post_lift. intros f Hf. destruct (filter_try_inv _ _ _ Hs Hf) as [Et Hok].
  rewrite Et. split; assumption.
Qed.

Definition sub3_ok (x : tfilter * N) : bool := let '(f, q) := x in filter_ok f && (q <? 3).

Lemma v3_post_subscribe_loop prof fuel : forall rl acc,
  forallb sub3_ok acc = true ->
  post (V3.subscribe_loop prof fuel rl acc)
       (fun l => forallb sub3_ok l = true /\ (acc <> [] \/ rl <> 0 -> l <> [])).
Proof.
  induction fuel as [|f IH]; intros rl acc Hacc; cbn [V3.subscribe_loop];
    (destruct (N.eqb_spec rl 0) as [E|E];
     [apply post_ret; split; [rewrite forallb_rev'; exact Hacc|];
      intros [Ha|Hr]; [apply rev'_nonempty; exact Ha|contradiction]|]).
  - apply post_rpanic.
  - pbind (apply post_filter_read). intros tf [Htf _].
    pbind (apply post_read_u8). intros qb _.
    pbind (apply post_lift; intros q Hq; exact (qos_of_u8_inv _ _ Hq)). intros q [_ Hq].
    pbind (apply post_checked_sub). intros rl' _.
    pweaken (apply IH; cbn [forallb sub3_ok]; rewrite Htf, Hacc; rewrite !andb_true_r; lia).
    intros l [Hl Hne]. split; [exact Hl|]. intros _. apply Hne. left. discriminate.
Qed.

Lemma v3_post_subscribe prof rl0 :
  post (V3.subscribe_decode prof rl0) (fun s => I3.valid (V3.Subscribe s) = true).
Proof.
  unfold V3.subscribe_decode. pbind (apply post_pid_read). intros pid Hpid.
  pbind (apply post_checked_sub). intros rl _.
  destruct (N.eqb_spec rl 0) as [E|E]; [apply post_fail|].
  apply post_dep with (g := fun d => topics <- V3.subscribe_loop prof (S (length d)) rl [] ;;
                                     ret {| V3.s_pid := pid; V3.s_topics := topics |}).
  intros d0. pbind (apply v3_post_subscribe_loop; reflexivity). intros topics [Ht Hne].
  apply post_ret. unfold I3.valid, I3.types_inv. cbn [V3.s_pid V3.s_topics].
  fold sub3_ok. rewrite Hpid, Ht. cbn [andb]. apply nonempty_match. apply Hne. right. exact E.
Qed.

Lemma post_unsubscribe_loop3 prof fuel : forall rl acc,
  forallb filter_ok acc = true ->
  post (V3.unsubscribe_loop prof fuel rl acc)
       (fun l => forallb filter_ok l = true /\ (acc <> [] \/ rl <> 0 -> l <> [])).
Proof.
  induction fuel as [|f IH]; intros rl acc Hacc; cbn [V3.unsubscribe_loop];
    (destruct (N.eqb_spec rl 0) as [E|E];
     [apply post_ret; split; [rewrite forallb_rev'; exact Hacc|];
      intros [Ha|Hr]; [apply rev'_nonempty; exact Ha|contradiction]|]).
  - apply post_rpanic.
  - pbind (apply post_filter_read). intros tf [Htf _].
    pbind (apply post_checked_sub). intros rl' _.
    pweaken (apply IH; cbn [forallb]; rewrite Htf, Hacc; reflexivity).
    intros l [Hl Hne]. split; [exact Hl|]. intros _. apply Hne. left. discriminate.
Qed.

Lemma v3_post_unsubscribe prof rl0 :
  post (V3.unsubscribe_decode prof rl0) (fun u => I3.valid (V3.Unsubscribe u) = true).
Proof.
  unfold V3.unsubscribe_decode. pbind (apply post_pid_read). intros pid Hpid.
  pbind (apply post_checked_sub). intros rl _.
  destruct (N.eqb_spec rl 0) as [E|E]; [apply post_fail|].
  apply post_dep with (g := fun d => topics <- V3.unsubscribe_loop prof (S (length d)) rl [] ;;
                                     ret {| V3.u_pid := pid; V3.u_topics := topics |}).
  intros d0. pbind (apply post_unsubscribe_loop3; reflexivity). intros topics [Ht Hne].
  apply post_ret. unfold I3.valid, I3.types_inv. cbn [V3.u_pid V3.u_topics].
  rewrite Hpid, Ht. cbn [andb]. apply nonempty_match. apply Hne. right. exact E.
Qed.

Lemma v3_post_block prof h : post (V3.block_decode prof h) (fun p => I3.valid p = true).
Proof.
  unfold V3.block_decode. destruct (h_typ h); try apply post_rpanic;
    try (apply v3_post_pid; intros p; reflexivity).
  - pbind (apply v3_post_connect). intros c Hc. apply post_ret. exact Hc.
  - pbind (apply v3_post_connack). intros c Hc. apply post_ret. exact Hc.
  - pbind (apply v3_post_publish). intros c Hc. apply post_ret. exact Hc.
  - pbind (apply v3_post_subscribe). intros c Hc. apply post_ret. exact Hc.
  - pbind (apply v3_post_suback). intros c Hc. apply post_ret. exact Hc.
  - pbind (apply v3_post_unsubscribe). intros c Hc. apply post_ret. exact Hc.
Qed.

Lemma v3_post_body prof h : post (V3.body_decode_async prof h) (fun p => I3.valid p = true).
Proof.
  unfold V3.body_decode_async. destruct (h_typ h); try apply post_rpanic;
    try (apply post_ret; reflexivity);
    try (apply v3_post_pid; intros p; reflexivity).
  - pbind (apply v3_post_connect). intros c Hc. apply post_ret. exact Hc.
  - pbind (apply v3_post_connack). intros c Hc. apply post_ret. exact Hc.
  - pbind (apply v3_post_publish). intros c Hc. apply post_ret. exact Hc.
  - pbind (apply v3_post_subscribe). intros c Hc. apply post_ret. exact Hc.
  - pbind (apply v3_post_suback). intros c Hc. apply post_ret. exact Hc.
  - pbind (apply v3_post_unsubscribe). intros c Hc. apply post_ret. exact Hc.
Qed.

Lemma v3_post_decode prof : post (V3.decode_async prof) (fun p => I3.valid p = true).
Proof.
  unfold V3.decode_async. pbind (apply v3_post_header). intros h _. apply v3_post_body.
Qed.

Definition sub5_ok (x : tfilter * V5.subopts) : bool := let '(f, o) := x in filter_ok f && I5.subopts_inv o.

Lemma v5_post_subscribe_loop prof fuel : forall rl acc,
  forallb sub5_ok acc = true ->
  post (V5.subscribe_loop prof fuel rl acc)
       (fun l => forallb sub5_ok l = true /\ (acc <> [] \/ rl <> 0 -> l <> [])).
Proof.
  induction fuel as [|f IH]; intros rl acc Hacc; cbn [V5.subscribe_loop];
    (destruct (N.eqb_spec rl 0) as [E|E];
     [apply post_ret; split; [rewrite forallb_rev'; exact Hacc|];
      intros [Ha|Hr]; [apply rev'_nonempty; exact Ha|contradiction]|]).
  - apply post_rpanic.
  - pbind (apply post_filter_read). intros tf [Htf _].
    pbind (apply post_read_u8). intros ob _.
    pbind (apply post_lift; intros o Ho; exact (subopts_of_u8_inv _ _ Ho)). intros o Ho.
    pbind (apply post_checked_sub). intros rl' _.
    pweaken (apply IH; cbn [forallb sub5_ok]; rewrite Htf, Ho, Hacc; reflexivity).
    intros l [Hl Hne]. split; [exact Hl|]. intros _. apply Hne. left. discriminate.
Qed.

Lemma v5_post_subscribe prof h :
  post (V5.subscribe_decode prof h) (fun s => I5.valid (V5.Subscribe s) = true).
Proof.
  unfold V5.subscribe_decode. pbind (apply post_pid_read). intros pid Hpid.
  pbind (apply post_decode_props). intros props [Hpi Hpv].
  pbind (apply post_lift; intros pl _; exact I). intros pl _.
  pbind (apply post_checked_sub). intros rl _.
  destruct (N.eqb_spec rl 0) as [E|E]; [apply post_fail|].
  apply post_dep with (g := fun d => topics <- V5.subscribe_loop prof (S (length d)) rl [] ;;
                          ret {| V5.s_pid := pid; V5.s_props := props; V5.s_topics := topics |}).
  intros d0. pbind (apply v5_post_subscribe_loop; reflexivity). intros topics [Ht Hne].
  apply post_ret. unfold I5.valid, I5.types_inv. cbn [V5.s_pid V5.s_props V5.s_topics].
  fold sub5_ok. rewrite Hpid, Hpi, Hpv, Ht. cbn [andb]. apply nonempty_match. apply Hne. right. exact E.
Qed.

Lemma post_unsubscribe_loop5 prof fuel : forall rl acc,
  forallb filter_ok acc = true ->
  post (V5.unsubscribe_loop prof fuel rl acc)
       (fun l => forallb filter_ok l = true /\ (acc <> [] \/ rl <> 0 -> l <> [])).
Proof.
  induction fuel as [|f IH]; intros rl acc Hacc; cbn [V5.unsubscribe_loop];
    (destruct (N.eqb_spec rl 0) as [E|E];
     [apply post_ret; split; [rewrite forallb_rev'; exact Hacc|];
      intros [Ha|Hr]; [apply rev'_nonempty; exact Ha|contradiction]|]).
  - apply post_rpanic.
  - pbind (apply post_filter_read). intros tf [Htf _].
    pbind (apply post_checked_sub). intros rl' _.
    pweaken (apply IH; cbn [forallb]; rewrite Htf, Hacc; reflexivity).
    intros l [Hl Hne]. split; [exact Hl|]. intros _. apply Hne. left. discriminate.
Qed.

Lemma v5_post_unsubscribe prof h :
  post (V5.unsubscribe_decode prof h) (fun u => I5.valid (V5.Unsubscribe u) = true).
Proof.
  unfold V5.unsubscribe_decode. pbind (apply post_pid_read). intros pid Hpid.
  pbind (apply post_decode_props_full). intros [[props plen] plen_bytes] [Hpi Hpv]. cbn [fst] in Hpi, Hpv.
  pbind (apply post_checked_sub). intros rl _.
  destruct (N.eqb_spec rl 0) as [E|E]; [apply post_fail|].
  apply post_dep with (g := fun d => topics <- V5.unsubscribe_loop prof (S (length d)) rl [] ;;
                          ret {| V5.u_pid := pid; V5.u_props := props; V5.u_topics := topics |}).
  intros d0. pbind (apply post_unsubscribe_loop5; reflexivity). intros topics [Ht Hne].
  apply post_ret. unfold I5.valid, I5.types_inv. cbn [V5.u_pid V5.u_props V5.u_topics].
  rewrite Hpid, Hpi, Hpv, Ht. cbn [andb]. apply nonempty_match. apply Hne. right. exact E.
Qed.

Lemma v5_post_block prof h : post (V5.block_decode prof h) (fun p => I5.valid p = true).
Proof.
  unfold V5.block_decode. destruct (h_typ h); try apply post_rpanic;
    try (apply v5_post_ack_packet; [reflexivity|intros a; reflexivity]);
    try (apply v5_post_suback_packet; intros a; reflexivity).
  - pbind (apply v5_post_connect). intros c Hc. apply post_ret. exact Hc.
  - pbind (apply v5_post_connack). intros c Hc. apply post_ret. exact Hc.
  - pbind (apply v5_post_publish). intros c Hc. apply post_ret. exact Hc.
  - pbind (apply v5_post_subscribe). intros c Hc. apply post_ret. exact Hc.
  - pbind (apply v5_post_unsubscribe). intros c Hc. apply post_ret. exact Hc.
  - pbind (apply v5_post_disconnect). intros c Hc. apply post_ret. exact Hc.
  - pbind (apply v5_post_auth). intros c Hc. apply post_ret. exact Hc.
Qed.

Lemma v5_post_body prof h : post (V5.body_decode_async prof h) (fun p => I5.valid p = true).
Proof.
  unfold V5.body_decode_async. destruct (h_typ h);
    try (apply post_ret; reflexivity);
    try (apply v5_post_ack_packet; [reflexivity|intros a; reflexivity]);
    try (apply v5_post_suback_packet; intros a; reflexivity).
  - pbind (apply v5_post_connect). intros c Hc. apply post_ret. exact Hc.
  - pbind (apply v5_post_connack). intros c Hc. apply post_ret. exact Hc.
  - pbind (apply v5_post_publish). intros c Hc. apply post_ret. exact Hc.
  - pbind (apply v5_post_subscribe). intros c Hc. apply post_ret. exact Hc.
  - pbind (apply v5_post_unsubscribe). intros c Hc. apply post_ret. exact Hc.
  - pbind (apply v5_post_disconnect). intros c Hc. apply post_ret. exact Hc.
  - pbind (apply v5_post_auth). intros c Hc. apply post_ret. exact Hc.
Qed.

Lemma v5_post_decode prof : post (V5.decode_async prof) (fun p => I5.valid p = true).
Proof.
  unfold V5.decode_async. pbind (apply v5_post_header). intros h _. apply v5_post_body.
Qed.

(* ------------------------------------------------------------------ *)
(* 7. the theorems                                                      *)
(* ------------------------------------------------------------------ *)

Theorem v3_decoded_valid prof t d p d' :
  bytes_okb d = true -> V3.decode_async prof t d = ROk p d' -> I3.valid p = true.
Proof. intros Hd H. exact (proj1 (v3_post_decode prof _ _ _ _ Hd H)). Qed.

Theorem v3_decoded_inv prof t d p d' :
  bytes_okb d = true -> V3.decode_async prof t d = ROk p d' -> I3.types_inv p = true.
Proof. intros Hd H. apply i3_valid_inv. exact (v3_decoded_valid _ _ _ _ _ Hd H). Qed.

Theorem v3_block_decoded_valid prof h t d p d' :
  V3.block_decode prof h t d = ROk p d' -> bytes_okb d = true -> I3.valid p = true.
Proof. intros H Hd. exact (proj1 (v3_post_block prof h _ _ _ _ Hd H)). Qed.

Theorem v3_block_decoded_inv prof h t d p d' :
  V3.block_decode prof h t d = ROk p d' -> bytes_okb d = true -> I3.types_inv p = true.
Proof. intros H Hd. apply i3_valid_inv. exact (v3_block_decoded_valid _ _ _ _ _ _ H Hd). Qed.

Theorem v5_decoded_valid prof t d p d' :
  bytes_okb d = true -> V5.decode_async prof t d = ROk p d' -> I5.valid p = true.
Proof. intros Hd H. exact (proj1 (v5_post_decode prof _ _ _ _ Hd H)). Qed.

Theorem v5_decoded_inv prof t d p d' :
  bytes_okb d = true -> V5.decode_async prof t d = ROk p d' -> I5.types_inv p = true.
Proof. intros Hd H. apply i5_valid_inv. exact (v5_decoded_valid _ _ _ _ _ Hd H). Qed.

Theorem v5_block_decoded_valid prof h t d p d' :
  V5.block_decode prof h t d = ROk p d' -> bytes_okb d = true -> I5.valid p = true.
Proof. intros H Hd. exact (proj1 (v5_post_block prof h _ _ _ _ Hd H)). Qed.

Theorem v5_block_decoded_inv prof h t d p d' :
  V5.block_decode prof h t d = ROk p d' -> bytes_okb d = true -> I5.types_inv p = true.
Proof. intros H Hd. apply i5_valid_inv. exact (v5_block_decoded_valid _ _ _ _ _ _ H Hd). Qed.

(* the decoders also leave a rest that consists of bytes (used when packets are decoded in sequence) *)
Theorem v3_decoded_rest prof t d p d' :
  bytes_okb d = true -> V3.decode_async prof t d = ROk p d' -> bytes_okb d' = true.
Proof. intros Hd H. exact (proj2 (v3_post_decode prof _ _ _ _ Hd H)). Qed.

Theorem v5_decoded_rest prof t d p d' :
  bytes_okb d = true -> V5.decode_async prof t d = ROk p d' -> bytes_okb d' = true.
Proof. intros Hd H. exact (proj2 (v5_post_decode prof _ _ _ _ Hd H)). Qed.

End WithFilterIndep.

(* the CONNECT decoders entered with an already decoded protocol do not read topic filters *)
Theorem v3_connect_with_protocol_valid proto t d c d' :
  bytes_okb d = true -> V3.connect_decode_with_protocol proto t d = ROk c d' ->
  I3.valid (V3.Connect c) = true.
Proof. intros Hd H. exact (proj1 (v3_post_connect_with_protocol proto _ _ _ _ Hd H)). Qed.

Theorem v3_connect_with_protocol_inv proto t d c d' :
  bytes_okb d = true -> V3.connect_decode_with_protocol proto t d = ROk c d' ->
  I3.types_inv (V3.Connect c) = true.
Proof. intros Hd H. apply i3_valid_inv. exact (v3_connect_with_protocol_valid _ _ _ _ _ Hd H). Qed.

Theorem v5_connect_with_protocol_valid h proto t d c d' :
  bytes_okb d = true -> V5.connect_decode_with_protocol h proto t d = ROk c d' ->
  I5.valid (V5.Connect c) = true.
Proof. intros Hd H. exact (proj1 (v5_post_connect_with_protocol h proto _ _ _ _ Hd H)). Qed.

Theorem v5_connect_with_protocol_inv h proto t d c d' :
  bytes_okb d = true -> V5.connect_decode_with_protocol h proto t d = ROk c d' ->
  I5.types_inv (V5.Connect c) = true.
Proof. intros Hd H. apply i5_valid_inv. exact (v5_connect_with_protocol_valid _ _ _ _ _ _ Hd H). Qed.

(* the packets the poll front-end builds without a body: no hypothesis needed *)
Theorem v3_empty_valid h p : V3.build_empty_packet h = Some p -> I3.valid p = true.
Proof.
  unfold V3.build_empty_packet. destruct (h_typ h); intros H; inversion H; subst; reflexivity.
Qed.

Theorem v3_empty_inv h p : V3.build_empty_packet h = Some p -> I3.types_inv p = true.
Proof.
  unfold V3.build_empty_packet. destruct (h_typ h); intros H; inversion H; subst; reflexivity.
Qed.

Theorem v5_empty_valid h p : V5.build_empty_packet h = Some p -> I5.valid p = true.
Proof.
  unfold V5.build_empty_packet. destruct (h_typ h); try destruct (h_rl h =? 0);
    intros H; inversion H; subst; reflexivity.
Qed.

Theorem v5_empty_inv h p : V5.build_empty_packet h = Some p -> I5.types_inv p = true.
Proof.
  unfold V5.build_empty_packet. destruct (h_typ h); try destruct (h_rl h =? 0);
    intros H; inversion H; subst; reflexivity.
Qed.

(* ------------------------------------------------------------------ *)
(* 8. non-vacuity: the decoders do accept non-trivial inputs            *)
(* ------------------------------------------------------------------ *)

(* v5 PUBLISH, QoS 1, pid 10, topic "a/b", properties: Payload Format Indicator = 1,
   Message Expiry Interval = 60, one user property ("k","v"); payload "hi" *)
Definition ex_v5_publish : bytes :=
  [50; 24; 0; 3; 97; 47; 98; 0; 10; 14; 1; 1; 2; 0; 0; 0; 60; 38; 0; 1; 107; 0; 1; 118; 104; 105].

Example ex_v5_publish_decodes :
  match V5.decode_async Debug TEof ex_v5_publish with
  | ROk (V5.Publish p) [] =>
      (V5.p_qospid p, V5.p_topic p, V5.p_payload p,
       pget (V5.p_props p) PayloadFormatIndicator, pget (V5.p_props p) MessageExpiryInterval,
       pr_user (V5.p_props p))
      = (QP1 10, [97; 47; 98], [104; 105], Some (VN 1), Some (VN 60), [([107], [118])])
      /\ I5.valid (V5.Publish p) = true
  | _ => False
  end.
Proof. vm_compute. split; reflexivity. Qed.

(* v3.1.1 CONNECT with clean session, will (QoS 1, retain), user name and password *)
Definition ex_v3_connect : bytes :=
  [16; 26; 0; 4; 77; 81; 84; 84; 4; 238; 0; 30; 0; 2; 99; 49; 0; 1; 116; 0; 1; 109; 0; 1; 117; 0; 1; 112].

Example ex_v3_connect_decodes :
  V3.decode_async Debug TEof ex_v3_connect =
  ROk (V3.Connect {| V3.c_protocol := V311; V3.c_clean := true; V3.c_keep_alive := 30;
                     V3.c_client_id := [99; 49];
                     V3.c_will := Some {| V3.w_qos := 1; V3.w_retain := true;
                                          V3.w_topic := [116]; V3.w_message := [109] |};
                     V3.c_username := Some [117]; V3.c_password := Some [112] |}) [].
Proof. vm_compute. reflexivity. Qed.

(* v3 SUBSCRIBE pid 1, filter "a/+" QoS 1 — exercises the loop and the filter validator *)
Example ex_v3_subscribe_decodes :
  V3.decode_async Debug TEof [130; 8; 0; 1; 0; 3; 97; 47; 43; 1] =
  ROk (V3.Subscribe {| V3.s_pid := 1; V3.s_topics := [({| ftext := [97; 47; 43]; fsepidx := 0 |}, 1)] |}) [].
Proof. vm_compute. reflexivity. Qed.

(* v5 SUBSCRIBE pid 1, Subscription Identifier 5, filter "$share/g/t" with options 0x2d *)
Example ex_v5_subscribe_decodes :
  match V5.decode_async Debug TEof
          [130; 18; 0; 1; 2; 11; 5; 0; 10; 36; 115; 104; 97; 114; 101; 47; 103; 47; 116; 45] with
  | ROk (V5.Subscribe s) [] =>
      V5.s_topics s = [({| ftext := [36; 115; 104; 97; 114; 101; 47; 103; 47; 116]; fsepidx := 8 |},
                        {| V5.o_qos := 1; V5.o_nl := true; V5.o_rap := true; V5.o_rh := 2 |})]
      /\ pget (V5.s_props s) SubscriptionIdentifier = Some (VN 5)
      /\ I5.valid (V5.Subscribe s) = true
  | _ => False
  end.
Proof. vm_compute. repeat split; reflexivity. Qed.

Print Assumptions v3_decoded_inv.
Print Assumptions v3_decoded_valid.
Print Assumptions v5_decoded_inv.
Print Assumptions v5_decoded_valid.
Print Assumptions v3_block_decoded_inv.
Print Assumptions v3_block_decoded_valid.
Print Assumptions v5_block_decoded_inv.
Print Assumptions v5_block_decoded_valid.
Print Assumptions v3_connect_with_protocol_inv.
Print Assumptions v3_connect_with_protocol_valid.
Print Assumptions v5_connect_with_protocol_inv.
Print Assumptions v5_connect_with_protocol_valid.
Print Assumptions v3_decoded_rest.
Print Assumptions v5_decoded_rest.
Print Assumptions v3_empty_valid.
Print Assumptions v3_empty_inv.
Print Assumptions v5_empty_valid.
Print Assumptions v5_empty_inv.
