(* Proofs/ReencodeBase.v — toolkit for C11 ("anything a decoder accepts can be re-encoded and
   decodes to itself"): the MEASURED post-condition transformer.

     postm m Q  :=  whenever m accepts, it consumed a prefix of n bytes and Q result n holds

   with one lemma per read primitive (read_u8 consumes 1, read_u16 2, read_bytes 2 + len s,
   decode_var_int k >= width v, ...), `postm_bind` adding the consumptions, and the arithmetic that
   turns "canonical body length <= body bytes consumed" into "the re-encoding exists and is not
   longer than what was consumed" outside the KF2 class (frame overrun).

   No assumption on the input is needed for the measurements (any list of N). *)
From MQ Require Import Proofs.Tactics Proofs.VarIntLaws Proofs.Parses Proofs.Totality Model.Valid.
Open Scope N_scope.

(* the number of bytes a decoder used: input length minus rest length *)
Definition consumed (d d' : bytes) : N := len d - len d'.

Definition postm {A} (m : reader A) (Q : A -> N -> Prop) : Prop :=
  forall t d a d', m t d = ROk a d' -> exists n, len d = n + len d' /\ Q a n.

Lemma postm_ret {A} (a : A) (Q : A -> N -> Prop) : Q a 0 -> postm (ret a) Q.
Proof. intros HQ t d a' d' H. unfold ret in H. inversion H; subst. exists 0. split; [lia|exact HQ]. Qed.

Lemma postm_fail {A} e (Q : A -> N -> Prop) : postm (fail e) Q.
Proof. intros t d a d' H. discriminate H. Qed.

Lemma postm_rpanic {A} s (Q : A -> N -> Prop) : postm (rpanic s) Q.
Proof. intros t d a d' H. discriminate H. Qed.

Lemma postm_bind {A B} (m : reader A) (f : A -> reader B) (Q : A -> N -> Prop) (R : B -> N -> Prop) :
  postm m Q -> (forall a n1, Q a n1 -> postm (f a) (fun b n2 => R b (n1 + n2))) -> postm (bind m f) R.
Proof.
  intros Hm Hf t d b d' H. apply bind_inv in H as (a & d1 & H1 & H2).
  destruct (Hm _ _ _ _ H1) as (n1 & L1 & Q1).
  destruct (Hf a n1 Q1 _ _ _ _ H2) as (n2 & L2 & Q2).
  exists (n1 + n2). split; [lia|exact Q2].
Qed.

Lemma postm_weaken {A} (m : reader A) (Q R : A -> N -> Prop) :
  postm m Q -> (forall a n, Q a n -> R a n) -> postm m R.
Proof. intros Hm HQR t d a d' H. destruct (Hm _ _ _ _ H) as (n & L & HQ). exists n. split; auto. Qed.

(* the `fun t d => (... (S (length d)) ...) t d` idiom of the fuelled loops *)
Lemma postm_dep {A} (g : bytes -> reader A) Q :
  (forall d0, postm (g d0) Q) -> postm (fun t d => g d t d) Q.
Proof. intros Hg t d a d' H. exact (Hg d _ _ _ _ H). Qed.

Lemma postm_lift {A} (o : outcome A) : postm (lift_outcome o) (fun a n => n = 0 /\ o = Ok a).
Proof.
  intros t d a d' H. apply lift_inv in H as [-> ->]. exists 0. split; [lia|]. split; reflexivity.
Qed.

Tactic Notation "mbind" tactic3(tac) := eapply postm_bind; [tac | cbv beta].
Tactic Notation "mweaken" tactic3(tac) := eapply postm_weaken; [tac | cbv beta].

(* ---------- primitives ---------- *)
Lemma m_read_u8 : postm read_u8 (fun _ n => n = 1).
Proof.
  intros t d a d' H. unfold read_u8 in H. destruct d as [|b r]; [discriminate H|].
  inversion H; subst. exists 1. rewrite len_cons. split; [lia|reflexivity].
Qed.

Lemma m_read_u16 : postm read_u16 (fun _ n => n = 2).
Proof.
  intros t d a d' H. unfold read_u16 in H. destruct d as [|x [|y r]]; try discriminate H.
  inversion H; subst. exists 2. rewrite !len_cons. split; [lia|reflexivity].
Qed.

Lemma m_read_u32 : postm read_u32 (fun _ n => n = 4).
Proof.
  intros t d a d' H. unfold read_u32 in H. destruct d as [|x [|y [|z [|w r]]]]; try discriminate H.
  inversion H; subst. exists 4. rewrite !len_cons. split; [lia|reflexivity].
Qed.

Lemma m_read_exact k : postm (read_exact k) (fun s n => n = k /\ len s = k).
Proof.
  intros t d a d' H. unfold read_exact in H.
  destruct (take d k) as [[x y]|] eqn:Et; [|discriminate H]. inversion H; subst.
  apply take_some in Et as [-> Hl]. exists (len a). rewrite len_app. split; [lia|]. split; [exact Hl|exact Hl].
Qed.

Lemma m_read_bytes : postm read_bytes (fun s n => n = 2 + len s).
Proof.
  unfold read_bytes. mbind (apply m_read_u16). intros k ? ->.
  mweaken (apply m_read_exact). intros s n [-> Hl]. lia.
Qed.

Lemma m_read_string : postm read_string (fun s n => n = 2 + len s).
Proof.
  unfold read_string. mbind (apply m_read_bytes). intros s ? ->.
  destruct (utf8_valid s); [|apply postm_fail]. apply postm_ret. lia.
Qed.

Lemma m_checked_sub a b : postm (checked_sub a b) (fun _ n => n = 0).
Proof. unfold checked_sub. destruct (b <=? a); [apply postm_ret; reflexivity|apply postm_fail]. Qed.

Lemma m_pid_read : postm V3.pid_read (fun _ n => n = 2).
Proof.
  unfold V3.pid_read. mbind (apply m_read_u16). intros v ? ->.
  mweaken (apply postm_lift). intros p n [-> _]. reflexivity.
Qed.

(* a variable byte integer read from k bytes: the value is below 2^28 and its minimal width is at
   most k (non-minimal spellings are accepted; they only make the input longer) *)
Lemma dvi_measure t d v k r : decode_var_int t d = ROk (v, k) r ->
  len d = k + len r /\ v < VMAX /\ width v <= k /\ 1 <= k <= 4.
Proof.
  unfold decode_var_int, VMAX, width. intros H.
  destruct d as [|b0 d]; cbn [decode_var_int_loop] in H; [discriminate H|].
  change (2 ^ (7 * 0)) with 1 in H.
  destruct (N.ltb_spec b0 128).
  { inversion H; subst. rewrite len_cons.
    repeat match goal with |- context [?a <? ?b] => destruct (N.ltb_spec a b) end; lia. }
  destruct d as [|b1 d]; [discriminate H|].
  change (2 ^ (7 * (0 + 1))) with 128 in H.
  destruct (N.ltb_spec b1 128).
  { inversion H; subst. rewrite !len_cons.
    repeat match goal with |- context [?a <? ?b] => destruct (N.ltb_spec a b) end; lia. }
  destruct d as [|b2 d]; [discriminate H|].
  change (2 ^ (7 * (0 + 1 + 1))) with 16384 in H.
  destruct (N.ltb_spec b2 128).
  { inversion H; subst. rewrite !len_cons.
    repeat match goal with |- context [?a <? ?b] => destruct (N.ltb_spec a b) end; lia. }
  destruct d as [|b3 d]; [discriminate H|].
  change (2 ^ (7 * (0 + 1 + 1 + 1))) with 2097152 in H.
  destruct (N.ltb_spec b3 128); [|discriminate H].
  inversion H; subst. rewrite !len_cons.
  repeat match goal with |- context [?a <? ?b] => destruct (N.ltb_spec a b) end; lia.
Qed.

Lemma m_decode_var_int :
  postm decode_var_int (fun p n => n = snd p /\ fst p < VMAX /\ width (fst p) <= snd p).
Proof.
  intros t d [v k] d' H. destruct (dvi_measure _ _ _ _ _ H) as (L & Hv & Hw & _).
  exists k. cbn [fst snd]. repeat split; assumption.
Qed.

(* decode_raw_header: control byte, then the remaining length on kk bytes *)
Lemma raw_header_measure t d cb rl r : decode_raw_header t d = ROk (cb, rl) r ->
  exists kk, len d = 1 + kk + len r /\ rl < VMAX /\ width rl <= kk.
Proof.
  unfold decode_raw_header. intros H. apply bind_inv in H as (typ & d1 & H1 & H).
  apply bind_inv in H as ([v k] & d2 & H2 & H). unfold ret in H. inversion H; subst.
  destruct (m_read_u8 _ _ _ _ H1) as (n1 & L1 & ->).
  destruct (dvi_measure _ _ _ _ _ H2) as (L2 & Hv & Hw & _).
  exists k. repeat split; [lia|exact Hv|exact Hw].
Qed.

(* ---------- small facts ---------- *)
Lemma width_mono a b : a <= b -> width a <= width b.
Proof.
  unfold width. intros H.
  repeat match goal with |- context [?x <? ?y] => destruct (N.ltb_spec x y) end; lia.
Qed.
Lemma width_pos a : 1 <= width a <= 4.
Proof. unfold width. repeat match goal with |- context [?x <? ?y] => destruct (N.ltb_spec x y) end; lia. Qed.
Lemma width_0 : width 0 = 1.
Proof. reflexivity. Qed.

Lemma beq_bytes_len a : forall b, beq_bytes a b = true -> len a = len b.
Proof.
  induction a as [|x a IH]; intros [|y b] H; cbn [beq_bytes] in H; try discriminate H; [reflexivity|].
  apply andb_true_iff in H as [_ H]. rewrite !len_cons, (IH _ H). reflexivity.
Qed.

Lemma protocol_new_len name lvl pr : protocol_new name lvl = Ok pr -> protocol_len pr = 2 + len name + 1.
Proof.
  unfold protocol_new. intros H.
  destruct (beq_bytes name MQISDP && (lvl =? 3)) eqn:E1.
  { inversion H; subst. apply andb_true_iff in E1 as [E1 _]. rewrite (beq_bytes_len _ _ E1). reflexivity. }
  destruct (beq_bytes name MQTT && (lvl =? 4)) eqn:E2.
  { inversion H; subst. apply andb_true_iff in E2 as [E2 _]. rewrite (beq_bytes_len _ _ E2). reflexivity. }
  destruct (beq_bytes name MQTT && (lvl =? 5)) eqn:E3.
  { inversion H; subst. apply andb_true_iff in E3 as [E3 _]. rewrite (beq_bytes_len _ _ E3). reflexivity. }
  destruct (utf8_valid name); discriminate H.
Qed.

Lemma m_protocol_decode : postm protocol_decode (fun pr n => n = protocol_len pr).
Proof.
  unfold protocol_decode. mbind (apply m_read_bytes). intros name ? ->.
  mbind (apply m_read_u8). intros lvl ? ->.
  mweaken (apply postm_lift). intros pr n [-> Hpr]. rewrite (protocol_new_len _ _ _ Hpr). lia.
Qed.

Lemma filter_try_text prof s tf : filter_try prof s = Ok tf -> ftext tf = s.
Proof.
  unfold filter_try. destruct (filter_is_invalid prof s) as [[[|] sep]|e|st]; intros H; inversion H. reflexivity.
Qed.

Lemma m_filter_read prof : postm (V3.filter_read prof) (fun tf n => n = 2 + len (ftext tf)).
Proof.
  unfold V3.filter_read. mbind (apply m_read_string). intros s ? ->.
  mweaken (apply postm_lift). intros tf n [-> Htf]. rewrite (filter_try_text _ _ _ Htf). lia.
Qed.

Lemma m_opt_string (b : bool) :
  postm (if b then s <- read_string ;; ret (Some s) else ret None) (fun o n => n = V3.opt_lp_len o).
Proof.
  destruct b; [|apply postm_ret; reflexivity].
  mbind (apply m_read_string). intros s ? ->. apply postm_ret. cbn [V3.opt_lp_len]. lia.
Qed.
Lemma m_opt_bytes (b : bool) :
  postm (if b then s <- read_bytes ;; ret (Some s) else ret None) (fun o n => n = V3.opt_lp_len o).
Proof.
  destruct b; [|apply postm_ret; reflexivity].
  mbind (apply m_read_bytes). intros s ? ->. apply postm_ret. cbn [V3.opt_lp_len]. lia.
Qed.

(* the qos / packet identifier part of PUBLISH (same code in both families) *)
Lemma m_qospid (qos rl : N) :
  postm (if qos =? 0 then ret (QP0, rl)
         else if qos =? 1 then rl' <- checked_sub rl 2 ;; pid <- V3.pid_read ;; ret (QP1 pid, rl')
         else rl' <- checked_sub rl 2 ;; pid <- V3.pid_read ;; ret (QP2 pid, rl'))
        (fun q n => n = V3.qospid_len (fst q)).
Proof.
  destruct (qos =? 0); [apply postm_ret; reflexivity|].
  destruct (qos =? 1).
  - mbind (apply m_checked_sub). intros rl' ? ->. mbind (apply m_pid_read). intros pid ? ->.
    apply postm_ret. reflexivity.
  - mbind (apply m_checked_sub). intros rl' ? ->. mbind (apply m_pid_read). intros pid ? ->.
    apply postm_ret. reflexivity.
Qed.

(* ---------- the arithmetic of "not longer" ----------
   blen : canonical body length of the decoded packet     nb : body bytes consumed
   rl   : declared remaining length                       kk : bytes of the length field
   Outside the KF2 class (nb <= rl) the canonical frame 1 + width blen + blen fits in the
   1 + kk + nb bytes consumed. *)
Lemma fit (blen nb rl kk : N) : blen <= nb -> nb <= rl -> rl < VMAX -> width rl <= kk ->
  blen < VMAX /\ 1 + width blen + blen <= 1 + kk + nb.
Proof.
  intros H1 H2 H3 H4. split; [lia|].
  assert (Hw : width blen <= width rl) by (apply width_mono; lia). lia.
Qed.
