(* Proofs/Tactics.v — shared proof setup: lia that understands N division/modulo and booleans. *)
From Coq Require Export ZifyBool ZifyN ZifyNat Lia.
From MQ Require Export Base.Prelude.
Ltac Zify.zify_post_hook ::= Z.div_mod_to_equations.
Open Scope N_scope.

(* turn one boolean comparison test into a hypothesis *)
Ltac dtest :=
  match goal with
  | |- context [?a <? ?b] => destruct (N.ltb_spec a b)
  | |- context [?a <=? ?b] => destruct (N.leb_spec a b)
  | |- context [?a =? ?b] => destruct (N.eqb_spec a b)
  end.

(* equality of explicit lists / tuples of numbers: peel constructors, close leaves by lia *)
Ltac list_lia := repeat (first [reflexivity | lia | f_equal]).
