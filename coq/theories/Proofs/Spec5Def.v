(* Proofs/Spec5Def.v — the objects compared by Proofs/Spec5Tests.v and Proofs/Spec5.v (definitions only). *)
From MQ Require Import Spec.SpecParse Model.Valid.
Open Scope N_scope.

(* the strict front-end on one complete v5 frame (common/poll.rs + v5/poll.rs): header check,
   packets built from the header alone, an empty body refused for everything else, and the
   block decoder has to end exactly at the end of the body *)
Definition strict5 (prof : profile) (cb rl : N) (body : bytes) : option V5.packet :=
  match V5.header_new_with cb rl with
  | Ok h => match V5.build_empty_packet h with
            | Some p => Some p
            | None => if rl =? 0 then None else
                      match V5.block_decode prof h TEof body with ROk p [] => Some p | _ => None end
            end
  | _ => None
  end.

(* the frame the reference parser is given: minimal remaining length by construction *)
Definition frame5 (cb : N) (body : bytes) : bytes := cb :: write_var_int (len body) ++ body.
