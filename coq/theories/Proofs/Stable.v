(* Proofs/Stable.v — "stability" metatheory of the reader monad (port of DESIGN.md Appendix D
   to the real definitions): a reader's verdict depends only on the bytes it consumed; an
   I/O error arises only from running out of data (and is then the transport's error);
   every other error and every panic is insensitive to what follows.
   Sections: definitions; prefix / take facts; combinators and read primitives; odet (the
   outcome-valued helpers never give an I/O error); the tactic stable_auto; corollaries
   (ok_extend ... P_ok_unique); loops whose fuel is taken from the data (stable_fuel, fuel_ok);
   every V3 / props / V5 decoder; finally: SiteFuel is unreachable (the nofuel lemmas). *)
From MQ Require Import Proofs.Tactics.
From MQ Require Import Model.V5.
Open Scope N_scope.

(* ------------------------------------------------------------------------------------ *)
(* Definitions                                                                          *)
(* ------------------------------------------------------------------------------------ *)

Definition prefix (ys d : bytes) : Prop := exists z, d = ys ++ z.
Definition sprefix (ys d : bytes) : Prop := exists z, d = ys ++ z /\ z <> [].

Definition is_det (e : err) : Prop := is_io e = false.

Definition P_ok {A} (m : reader A) (c : bytes) (a : A) : Prop :=
  forall d2 t2, m t2 (c ++ d2) = ROk a d2.
Definition P_short {A} (m : reader A) (d : bytes) : Prop :=
  forall ys t2, prefix ys d -> m t2 ys = RErr (io_err t2).
Definition P_det {A} (m : reader A) (d : bytes) (r : res A) : Prop :=
  forall d2 t2, m t2 (d ++ d2) = r.

Definition stable {A} (m : reader A) : Prop := forall t d,
  match m t d with
  | ROk a d' => exists c, d = c ++ d' /\ P_ok m c a /\ (forall ys, sprefix ys c -> P_short m ys)
  | RErr e => (is_det e /\ P_det m d (RErr e)) \/ (e = io_err t /\ P_short m d)
  | RPanic s => P_det m d (RPanic s)
  end.

(* ------------------------------------------------------------------------------------ *)
(* Prefix facts                                                                         *)
(* ------------------------------------------------------------------------------------ *)

Lemma prefix_refl (d : bytes) : prefix d d.
Proof. exists []. now rewrite app_nil_r. Qed.

Lemma prefix_len ys d : prefix ys d -> (length ys <= length d)%nat.
Proof. intros [z ->]. rewrite app_length. lia. Qed.

Lemma sprefix_len ys d : sprefix ys d -> (length ys < length d)%nat.
Proof. intros [z [-> Hz]]. rewrite app_length. destruct z as [|x z]; [congruence|]. cbn [length]. lia. Qed.

Lemma prefix_nil ys : prefix ys [] -> ys = [].
Proof. intros H. apply prefix_len in H. destruct ys; [reflexivity|]. cbn [length] in H. lia. Qed.

Lemma prefix_trans a b c : prefix a b -> prefix b c -> prefix a c.
Proof. intros [z ->] [z' ->]. exists (z ++ z'). now rewrite app_assoc. Qed.

Lemma sprefix_prefix ys d : sprefix ys d -> prefix ys d.
Proof. intros [z [-> _]]. now exists z. Qed.

Lemma split_cases (c x ys z : bytes) : c ++ x = ys ++ z ->
  (exists l, c = ys ++ l /\ l <> []) \/ (exists w, ys = c ++ w /\ x = w ++ z).
Proof.
  intros H. apply app_eq_app in H. destruct H as [l [[H1 H2]|[H1 H2]]].
  - destruct l as [|y l].
    + right. exists []. rewrite app_nil_r in H1. subst. split; [now rewrite app_nil_r|reflexivity].
    + left. exists (y :: l). split; [assumption|discriminate].
  - right. exists l. split; assumption.
Qed.

Lemma io_err_is_io t : is_io (io_err t) = true.
Proof. reflexivity. Qed.

Lemma det_not_io e t : is_det e -> e <> io_err t.
Proof. intros Hd ->. unfold is_det in Hd. rewrite io_err_is_io in Hd. discriminate. Qed.

(* ------------------------------------------------------------------------------------ *)
(* take                                                                                 *)
(* ------------------------------------------------------------------------------------ *)

Lemma take_0 d : take d 0 = Some ([], d).
Proof. destruct d; reflexivity. Qed.

Lemma take_nil n : n <> 0 -> take [] n = None.
Proof. intros Hn. cbn [take]. destruct (N.eqb_spec n 0) as [E|E]; [contradiction|reflexivity]. Qed.

Lemma take_cons x r n : n <> 0 ->
  take (x :: r) n = match take r (N.pred n) with Some (a, b) => Some (x :: a, b) | None => None end.
Proof. intros Hn. cbn [take]. destruct (N.eqb_spec n 0) as [E|E]; [contradiction|reflexivity]. Qed.

Lemma take_some : forall d n a b, take d n = Some (a, b) ->
  d = a ++ b /\ len a = n /\ forall d2, take (a ++ d2) n = Some (a, d2).
Proof.
  induction d as [|x r IH]; intros n a b H.
  - destruct (N.eq_dec n 0) as [En|En].
    + subst n. rewrite take_0 in H. inversion H; subst. repeat split. intros d2. apply take_0.
    + rewrite take_nil in H by assumption. discriminate.
  - destruct (N.eq_dec n 0) as [En|En].
    + subst n. rewrite take_0 in H. inversion H; subst. repeat split. intros d2. apply take_0.
    + rewrite take_cons in H by assumption.
      destruct (take r (N.pred n)) as [[a' b']|] eqn:E; [|discriminate].
      inversion H; subst. destruct (IH _ _ _ E) as (-> & Hl & Hx).
      split; [reflexivity|]. split.
      * unfold len in *. cbn [length]. lia.
      * intros d2. cbn [app]. rewrite take_cons by assumption. rewrite Hx. reflexivity.
Qed.

Lemma take_none : forall d n, take d n = None <-> len d < n.
Proof.
  induction d as [|x r IH]; intros n.
  - destruct (N.eq_dec n 0) as [En|En].
    + subst n. rewrite take_0. unfold len. cbn [length]. split; [discriminate|lia].
    + rewrite take_nil by assumption. unfold len. cbn [length]. split; [lia|reflexivity].
  - destruct (N.eq_dec n 0) as [En|En].
    + subst n. rewrite take_0. split; [discriminate|lia].
    + rewrite take_cons by assumption. specialize (IH (N.pred n)).
      destruct (take r (N.pred n)) as [[a b]|] eqn:E.
      * split; [discriminate|]. intros H. unfold len in *. cbn [length] in H.
        assert (Hc : None = None :> option (bytes * bytes)) by reflexivity.
        destruct IH as [_ IH2]. assert (Hlt : N.of_nat (length r) < N.pred n) by lia.
        specialize (IH2 Hlt). discriminate.
      * split; [|reflexivity]. intros _. destruct IH as [IH1 _]. specialize (IH1 eq_refl).
        unfold len in *. cbn [length]. lia.
Qed.

(* ------------------------------------------------------------------------------------ *)
(* Core combinators                                                                     *)
(* ------------------------------------------------------------------------------------ *)

(* stability is extensional (no functional extensionality needed) *)
Lemma stable_ext {A} (m m' : reader A) : (forall t d, m t d = m' t d) -> stable m -> stable m'.
Proof.
  intros E H t d. specialize (H t d). rewrite <- E.
  destruct (m t d) as [a d'|e|s].
  - destruct H as (c & Hd & Hok & Hsh). exists c. split; [assumption|]. split.
    + intros d2 t2. rewrite <- E. apply Hok.
    + intros ys Hs ys' t2 Hp. rewrite <- E. exact (Hsh ys Hs ys' t2 Hp).
  - destruct H as [[Hd Hdet]|[He Hsh]].
    + left. split; [assumption|]. intros d2 t2. rewrite <- E. apply Hdet.
    + right. split; [assumption|]. intros ys t2 Hp. rewrite <- E. exact (Hsh ys t2 Hp).
  - intros d2 t2. rewrite <- E. apply H.
Qed.

Lemma stable_ret {A} (a : A) : stable (ret a).
Proof.
  intros t d. cbn. exists []. split; [reflexivity|]. split.
  - intros d2 t2. reflexivity.
  - intros ys [z [Hz Hn]]. destruct ys; cbn in Hz; [|discriminate]. subst z. congruence.
Qed.

Lemma stable_fail {A} e : is_det e -> stable (@fail A e).
Proof. intros He t d. cbn. left. split; [assumption|]. intros d2 t2. reflexivity. Qed.

Lemma stable_rpanic {A} s : stable (@rpanic A s).
Proof. intros t d. cbn. intros d2 t2. reflexivity. Qed.

Lemma stable_bind {A B} (m : reader A) (f : A -> reader B) :
  stable m -> (forall a, stable (f a)) -> stable (bind m f).
Proof.
  intros Hm Hf t d. unfold bind. specialize (Hm t d). destruct (m t d) as [a d1|e|s] eqn:Em.
  - destruct Hm as (c & -> & Hok & Hsh).
    assert (Hpre : forall x ys z t3, c ++ x = ys ++ z ->
               (m t3 ys = RErr (io_err t3)) \/
               (exists w, ys = c ++ w /\ x = w ++ z /\ m t3 ys = ROk a w)).
    { intros x ys z t3 H. destruct (split_cases _ _ _ _ H) as [[l [Hl Hn]]|[w [Hw Hx]]].
      - left. apply (Hsh ys); [exists l; split; assumption | apply prefix_refl].
      - right. exists w. subst ys. repeat split; [assumption|apply Hok]. }
    specialize (Hf a t d1). destruct (f a t d1) as [b d2|e|s] eqn:Ef.
    + destruct Hf as (c2 & -> & Hok2 & Hsh2). exists (c ++ c2). split; [|split].
      * rewrite app_assoc. reflexivity.
      * intros d3 t3. rewrite <- app_assoc. rewrite Hok. apply Hok2.
      * intros ys [z [Hz Hzn]] ys' t3 [z' ->].
        rewrite <- !app_assoc in Hz.
        destruct (Hpre _ _ _ t3 Hz) as [E|[w [-> [Hx E]]]]; rewrite E; [reflexivity|].
        apply (Hsh2 (w ++ z')); [exists z; split; [rewrite <- app_assoc; assumption|assumption] | exists z'; reflexivity].
    + destruct Hf as [[Hd Hdet]|[-> Hshort]].
      * left. split; [assumption|]. intros d3 t3. rewrite <- app_assoc. rewrite Hok. apply Hdet.
      * right. split; [reflexivity|]. intros ys t3 [z Hz].
        destruct (Hpre _ _ _ t3 Hz) as [E|[w [-> [Hx E]]]]; rewrite E; [reflexivity|].
        apply Hshort. exists z. assumption.
    + intros d3 t3. rewrite <- app_assoc. rewrite Hok. apply Hf.
  - destruct Hm as [[Hd Hdet]|[-> Hshort]].
    + left. split; [assumption|]. intros d2 t2. rewrite Hdet. reflexivity.
    + right. split; [reflexivity|]. intros ys t2 Hp. rewrite (Hshort ys t2 Hp). reflexivity.
  - intros d2 t2. rewrite Hm. reflexivity.
Qed.

(* ------------------------------------------------------------------------------------ *)
(* Read primitives                                                                      *)
(* ------------------------------------------------------------------------------------ *)

Lemma stable_read_exact n : stable (read_exact n).
Proof.
  intros t d. unfold read_exact. destruct (take d n) as [[a b]|] eqn:E.
  - destruct (take_some _ _ _ _ E) as (-> & Hl & Hx). exists a. split; [reflexivity|]. split.
    + intros d2 t2. rewrite Hx. reflexivity.
    + intros ys Hs ys' t2 Hp.
      assert (En : take ys' n = None).
      { apply take_none. apply sprefix_len in Hs. apply prefix_len in Hp. unfold len in *. lia. }
      rewrite En. reflexivity.
  - right. split; [reflexivity|]. intros ys t2 Hp.
    apply take_none in E.
    assert (En : take ys n = None).
    { apply take_none. apply prefix_len in Hp. unfold len in *. lia. }
    rewrite En. reflexivity.
Qed.

Lemma read_u8_short t d : (length d < 1)%nat -> read_u8 t d = RErr (io_err t).
Proof. destruct d as [|a r]; cbn [length]; intros H; [reflexivity|lia]. Qed.
Lemma read_u16_short t d : (length d < 2)%nat -> read_u16 t d = RErr (io_err t).
Proof. destruct d as [|a [|b r]]; cbn [length]; intros H; try reflexivity; lia. Qed.
Lemma read_u32_short t d : (length d < 4)%nat -> read_u32 t d = RErr (io_err t).
Proof. destruct d as [|a [|b [|c [|e r]]]]; cbn [length]; intros H; try reflexivity; lia. Qed.

Lemma stable_read_u8 : stable read_u8.
Proof.
  intros t d. destruct (Nat.lt_ge_cases (length d) 1) as [Hl|Hl].
  - rewrite read_u8_short by assumption. right. split; [reflexivity|]. intros ys t2 Hp.
    apply read_u8_short. apply prefix_len in Hp. lia.
  - destruct d as [|a r]; [cbn [length] in Hl; lia|]. cbn [read_u8].
    exists [a]. split; [reflexivity|]. split.
    + intros d2 t2. reflexivity.
    + intros ys Hs ys' t2 Hp. apply read_u8_short.
      apply sprefix_len in Hs. apply prefix_len in Hp. cbn [length] in Hs. lia.
Qed.

Lemma stable_read_u16 : stable read_u16.
Proof.
  intros t d. destruct (Nat.lt_ge_cases (length d) 2) as [Hl|Hl].
  - rewrite read_u16_short by assumption. right. split; [reflexivity|]. intros ys t2 Hp.
    apply read_u16_short. apply prefix_len in Hp. lia.
  - destruct d as [|a [|b r]]; try (cbn [length] in Hl; lia). cbn [read_u16].
    exists [a; b]. split; [reflexivity|]. split.
    + intros d2 t2. reflexivity.
    + intros ys Hs ys' t2 Hp. apply read_u16_short.
      apply sprefix_len in Hs. apply prefix_len in Hp. cbn [length] in Hs. lia.
Qed.

Lemma stable_read_u32 : stable read_u32.
Proof.
  intros t d. destruct (Nat.lt_ge_cases (length d) 4) as [Hl|Hl].
  - rewrite read_u32_short by assumption. right. split; [reflexivity|]. intros ys t2 Hp.
    apply read_u32_short. apply prefix_len in Hp. lia.
  - destruct d as [|a [|b [|c [|e r]]]]; try (cbn [length] in Hl; lia). cbn [read_u32].
    exists [a; b; c; e]. split; [reflexivity|]. split.
    + intros d2 t2. reflexivity.
    + intros ys Hs ys' t2 Hp. apply read_u32_short.
      apply sprefix_len in Hs. apply prefix_len in Hp. cbn [length] in Hs. lia.
Qed.

Lemma stable_read_bytes : stable read_bytes.
Proof. unfold read_bytes. apply stable_bind; [apply stable_read_u16|intros n; apply stable_read_exact]. Qed.

Lemma stable_read_string : stable read_string.
Proof.
  unfold read_string. apply stable_bind; [apply stable_read_bytes|]. intros s.
  destruct (utf8_valid s); [apply stable_ret|apply stable_fail; reflexivity].
Qed.

Lemma stable_guard b e : is_det e -> stable (guard b e).
Proof. intros He. unfold guard. destruct b; [apply stable_ret|apply stable_fail; assumption]. Qed.

Lemma stable_checked_sub a b : stable (checked_sub a b).
Proof. unfold checked_sub. destruct (b <=? a); [apply stable_ret|apply stable_fail; reflexivity]. Qed.

(* an outcome whose error, if any, is not an I/O error *)
Definition odet {A} (o : outcome A) : Prop := match o with Err e => is_det e | _ => True end.

Lemma odet_not_io {A} (o : outcome A) : odet o <-> forall k, o <> Err (IoError k).
Proof.
  split.
  - intros H k ->. cbn in H. discriminate.
  - intros H. destruct o as [a|e|s]; cbn; try exact I. destruct e; try reflexivity. exfalso. exact (H k eq_refl).
Qed.

Lemma stable_lift_outcome {A} (o : outcome A) : odet o -> stable (lift_outcome o).
Proof.
  intros H. destruct o as [a|e|s]; cbn [lift_outcome].
  - apply stable_ret.
  - apply stable_fail. exact H.
  - apply stable_rpanic.
Qed.

(* the statement with the hypothesis in the "never Err (IoError _)" form *)
Lemma stable_lift_outcome' {A} (o : outcome A) : (forall k, o <> Err (IoError k)) -> stable (lift_outcome o).
Proof. intros H. apply stable_lift_outcome. apply odet_not_io. exact H. Qed.

(* ------------------------------------------------------------------------------------ *)
(* The outcome-valued helpers never produce an I/O error                                *)
(* ------------------------------------------------------------------------------------ *)

Ltac break_match :=
  match goal with
  | |- context [match ?x with _ => _ end] => destruct x eqn:?
  end.
Ltac odet_tac := cbv zeta; repeat break_match; try exact I; try reflexivity.

Lemma odet_qos_of_u8 b : odet (qos_of_u8 b).
Proof. unfold qos_of_u8. odet_tac. Qed.
Lemma odet_name_try s : odet (name_try s).
Proof. unfold name_try. odet_tac. Qed.
Lemma odet_pid_try v : odet (pid_try v).
Proof. unfold pid_try. odet_tac. Qed.
Lemma odet_protocol_new name level : odet (protocol_new name level).
Proof. unfold protocol_new. odet_tac. Qed.
Lemma odet_var_byte_int_try v : odet (var_byte_int_try v).
Proof. unfold var_byte_int_try. odet_tac. Qed.
Lemma odet_subopts_of_u8 b : odet (V5.subopts_of_u8 b).
Proof. unfold V5.subopts_of_u8. odet_tac. Qed.
Lemma odet_connect_return_code_of_u8 b : odet (V3.connect_return_code_of_u8 b).
Proof. unfold V3.connect_return_code_of_u8. odet_tac. Qed.
Lemma odet_subscribe_return_code_of_u8 b : odet (V3.subscribe_return_code_of_u8 b).
Proof. unfold V3.subscribe_return_code_of_u8. odet_tac. Qed.
Lemma odet_props_len allowed p : odet (props_len allowed p).
Proof. unfold props_len, props_len_of_body. odet_tac. Qed.

Lemma filter_is_invalid_no_err prof s e : filter_is_invalid prof s <> Err e.
Proof. unfold filter_is_invalid. repeat break_match; discriminate. Qed.

Lemma odet_filter_try prof s : odet (filter_try prof s).
Proof.
  unfold filter_try. destruct (filter_is_invalid prof s) as [[[|] sep]|e|p] eqn:E; cbn; try exact I; try reflexivity.
  exfalso. exact (filter_is_invalid_no_err _ _ _ E).
Qed.

Lemma odet_v3_header_new_with hd rl : odet (V3.header_new_with hd rl).
Proof.
  unfold V3.header_new_with. cbv zeta.
  pose proof (odet_qos_of_u8 ((hd / 2) mod 4)) as Hq.
  destruct (qos_of_u8 ((hd / 2) mod 4)) as [q|e|s]; repeat break_match; try exact I; try reflexivity; exact Hq.
Qed.

Lemma odet_v5_header_new_with hd rl : odet (V5.header_new_with hd rl).
Proof.
  unfold V5.header_new_with. cbv zeta.
  pose proof (odet_qos_of_u8 ((hd / 2) mod 4)) as Hq.
  destruct (qos_of_u8 ((hd / 2) mod 4)) as [q|e|s]; repeat break_match; try exact I; try reflexivity; exact Hq.
Qed.

Create HintDb odet_db.
#[export] Hint Resolve odet_qos_of_u8 odet_name_try odet_pid_try odet_protocol_new odet_var_byte_int_try
  odet_subopts_of_u8 odet_connect_return_code_of_u8 odet_subscribe_return_code_of_u8 odet_props_len
  odet_filter_try odet_v3_header_new_with odet_v5_header_new_with : odet_db.

(* ------------------------------------------------------------------------------------ *)
(* stable_auto                                                                          *)
(* ------------------------------------------------------------------------------------ *)

Create HintDb stable_db.
#[export] Hint Resolve stable_read_u8 stable_read_u16 stable_read_u32 stable_read_exact stable_read_bytes
  stable_read_string stable_checked_sub : stable_db.

(* Discharges `stable m` for monadic code built from the combinators, the read primitives,
   the lemmas registered in stable_db, hypotheses, and `if` / `match` on already-read values. *)
(* extended below (::=) with one lemma per loop whose fuel is taken from the data *)
Ltac stable_fuel_hook := fail.
Ltac stable_step :=
  first
  [ solve [auto with stable_db]
  | match goal with
    | |- stable (bind _ _) => apply stable_bind; [ | intro ]
    | |- stable (ret _) => apply stable_ret
    | |- stable (fail _) => apply stable_fail; first [exact eq_refl | solve [auto with odet_db]]
    | |- stable (rpanic _) => apply stable_rpanic
    | |- stable (guard _ _) => apply stable_guard; exact eq_refl
    | |- stable (lift_outcome _) => apply stable_lift_outcome; solve [auto with odet_db]
    | |- stable (fun t d => ?m t d) => change (stable m)
    | |- stable (fun t d => bind _ _ t d) => stable_fuel_hook; intro
    | |- stable (match ?x with _ => _ end) => destruct x eqn:?
    end ].
Ltac stable_auto := repeat stable_step.

(* ------------------------------------------------------------------------------------ *)
(* Variable byte integer, raw header                                                    *)
(* ------------------------------------------------------------------------------------ *)

Lemma dvi_loop_eq fuel i acc t d :
  decode_var_int_loop fuel i acc t d =
  bind read_u8 (fun b =>
    if b <? 128 then ret (acc + (b mod 128) * 2 ^ (7 * i), i + 1)
    else match fuel with
         | O => fail InvalidVarByteInt
         | S f => decode_var_int_loop f (i + 1) (acc + (b mod 128) * 2 ^ (7 * i))
         end) t d.
Proof.
  destruct fuel as [|f]; destruct d as [|b r]; unfold bind, read_u8; cbn [decode_var_int_loop];
    try reflexivity; destruct (b <? 128); reflexivity.
Qed.

Lemma stable_decode_var_int_loop : forall fuel i acc, stable (decode_var_int_loop fuel i acc).
Proof.
  induction fuel as [|f IH]; intros i acc;
    (eapply stable_ext; [intros t d; symmetry; apply dvi_loop_eq|]); cbv iota; stable_auto.
Qed.

Lemma stable_decode_var_int : stable decode_var_int.
Proof. apply stable_decode_var_int_loop. Qed.
#[export] Hint Resolve stable_decode_var_int : stable_db.

Lemma stable_decode_raw_header : stable decode_raw_header.
Proof. unfold decode_raw_header. stable_auto. Qed.
#[export] Hint Resolve stable_decode_raw_header : stable_db.

(* ------------------------------------------------------------------------------------ *)
(* Generic corollaries of stability                                                     *)
(* ------------------------------------------------------------------------------------ *)

Section Corollaries.
Context {A : Type} (m : reader A) (Hm : stable m).

(* (a) a success depends only on the consumed bytes: any continuation, any transport *)
Theorem ok_extend t d a d' : m t d = ROk a d' ->
  exists c, d = c ++ d' /\ forall t2 d2, m t2 (c ++ d2) = ROk a d2.
Proof.
  intros H. pose proof (Hm t d) as S. rewrite H in S. destruct S as (c & Hd & Hok & _).
  exists c. split; [assumption|]. intros t2 d2. apply Hok.
Qed.

(* (b) every strict prefix of the consumed bytes gives the transport's error *)
Theorem ok_prefix_eof t c d' a : m t (c ++ d') = ROk a d' ->
  forall k, (k < length c)%nat -> forall t2, m t2 (firstn k c) = RErr (io_err t2).
Proof.
  intros H k Hk t2. pose proof (Hm t (c ++ d')) as S. rewrite H in S.
  destruct S as (c0 & Hd & _ & Hsh). apply app_inv_tail in Hd. subst c0.
  apply (Hsh (firstn k c)); [|apply prefix_refl].
  exists (skipn k c). split; [symmetry; apply firstn_skipn|].
  intros E. apply (f_equal (@length N)) in E. rewrite skipn_length in E. cbn [length] in E. lia.
Qed.

(* (c) a protocol error is insensitive to what follows and to the transport *)
Theorem det_err_extend t d e : m t d = RErr e -> is_io e = false ->
  forall t2 d2, m t2 (d ++ d2) = RErr e.
Proof.
  intros H He t2 d2. pose proof (Hm t d) as S. rewrite H in S. destruct S as [[_ Hdet]|[-> _]].
  - apply Hdet.
  - rewrite io_err_is_io in He. discriminate.
Qed.

(* (d) an I/O error only arises from running out of data and is the transport's *)
Theorem io_err_is_tail t d e : m t d = RErr e -> is_io e = true ->
  e = io_err t /\ forall t2, m t2 d = RErr (io_err t2).
Proof.
  intros H He. pose proof (Hm t d) as S. rewrite H in S. destruct S as [[Hd _]|[-> Hsh]].
  - unfold is_det in Hd. congruence.
  - split; [reflexivity|]. intros t2. apply Hsh. apply prefix_refl.
Qed.

(* ... and then every prefix of the data gives the transport's error too *)
Theorem io_err_prefix t d e : m t d = RErr e -> is_io e = true ->
  forall ys t2, prefix ys d -> m t2 ys = RErr (io_err t2).
Proof.
  intros H He. pose proof (Hm t d) as S. rewrite H in S. destruct S as [[Hd _]|[-> Hsh]].
  - unfold is_det in Hd. congruence.
  - exact Hsh.
Qed.

(* (e) a panic is insensitive to what follows and to the transport *)
Theorem panic_extend t d s : m t d = RPanic s -> forall t2 d2, m t2 (d ++ d2) = RPanic s.
Proof. intros H t2 d2. pose proof (Hm t d) as S. rewrite H in S. apply S. Qed.

(* the remainder is never longer than the input *)
Lemma stable_le t d a d' : m t d = ROk a d' -> (length d' <= length d)%nat.
Proof. intros H. destruct (ok_extend _ _ _ _ H) as (c & -> & _). rewrite app_length. lia. Qed.

(* the verdict does not depend on the transport, except for the kind of the I/O error *)
Theorem tail_indep t t2 d : m t2 d =
  match m t d with
  | RErr e => if is_io e then RErr (io_err t2) else RErr e
  | r => r
  end.
Proof.
  destruct (m t d) as [a d'|e|s] eqn:H.
  - destruct (ok_extend _ _ _ _ H) as (c & -> & Hok). apply Hok.
  - destruct (is_io e) eqn:He.
    + apply (io_err_is_tail _ _ _ H He).
    + rewrite <- (app_nil_r d). apply (det_err_extend _ _ _ H He).
  - rewrite <- (app_nil_r d). apply (panic_extend _ _ _ H).
Qed.

End Corollaries.

(* (f) the consumed prefix and the value are determined (needs no stability at all) *)
Theorem P_ok_unique {A} (m : reader A) c a c' a' x x' :
  P_ok m c a -> P_ok m c' a' -> c ++ x = c' ++ x' -> c = c' /\ a = a'.
Proof.
  intros H1 H2 E. pose proof (H1 x TEof) as E1. pose proof (H2 x' TEof) as E2.
  rewrite E in E1. rewrite E1 in E2. inversion E2; subst. split; [|reflexivity].
  apply app_inv_tail in E. exact E.
Qed.

(* ------------------------------------------------------------------------------------ *)
(* Loops that take their fuel from the data                                             *)
(* ------------------------------------------------------------------------------------ *)

(* once the fuel exceeds the number of available bytes, more fuel changes nothing *)
Definition fuel_ok {A} (L : nat -> reader A) : Prop :=
  forall f f' t d, (length d < f)%nat -> (f <= f')%nat -> L f' t d = L f t d.

Lemma stable_fuel {A} (L : nat -> reader A) :
  (forall f, stable (L f)) -> fuel_ok L -> stable (fun t d => L (S (length d)) t d).
Proof.
  intros HS HM t d. cbv beta. pose proof (HS (S (length d)) t d) as H1.
  destruct (L (S (length d)) t d) as [a d'|e|s] eqn:E.
  - destruct H1 as (c & -> & Hok & Hsh). exists c. split; [reflexivity|]. split.
    + assert (Hc : forall f', (S (length c) <= f')%nat -> P_ok (L f') c a).
      { intros f' Hf'. pose proof (Hok [] TEof) as E0. rewrite app_nil_r in E0.
        rewrite (HM (S (length c)) (S (length (c ++ d'))) TEof c) in E0 by (try rewrite app_length; lia).
        rewrite <- (HM (S (length c)) f' TEof c) in E0 by lia.
        pose proof (HS f' TEof c) as S'. rewrite E0 in S'. destruct S' as (c' & Hc' & Hok' & _).
        rewrite app_nil_r in Hc'. subst c'. exact Hok'. }
      intros d2 t2. cbv beta. apply Hc. rewrite app_length. lia.
    + intros ys Hs ys' t2 Hp. cbv beta.
      rewrite <- (HM (S (length ys')) (S (length (c ++ d'))) t2 ys').
      * exact (Hsh ys Hs ys' t2 Hp).
      * lia.
      * apply sprefix_len in Hs. apply prefix_len in Hp. rewrite app_length. lia.
  - destruct H1 as [[Hd Hdet]|[-> Hsh]].
    + left. split; [assumption|]. intros d2 t2. cbv beta.
      pose proof (HS (S (length (d ++ d2))) t d) as S'.
      rewrite (HM (S (length d)) (S (length (d ++ d2))) t d) in S' by (try rewrite app_length; lia).
      rewrite E in S'. destruct S' as [[_ Hdet']|[He _]].
      * apply Hdet'.
      * exfalso. exact (det_not_io _ _ Hd He).
    + right. split; [reflexivity|]. intros ys t2 Hp. cbv beta.
      rewrite <- (HM (S (length ys)) (S (length d)) t2 ys).
      * exact (Hsh ys t2 Hp).
      * lia.
      * apply prefix_len in Hp. lia.
  - intros d2 t2. cbv beta.
    pose proof (HS (S (length (d ++ d2))) t d) as S'.
    rewrite (HM (S (length d)) (S (length (d ++ d2))) t d) in S' by (try rewrite app_length; lia).
    rewrite E in S'. apply S'.
Qed.

Lemma stable_fuel_bind {A B} (L : nat -> reader A) (k : A -> reader B) :
  (forall f, stable (L f)) -> fuel_ok L -> (forall a, stable (k a)) ->
  stable (fun t d => bind (L (S (length d))) k t d).
Proof.
  intros HS HM Hk.
  apply (stable_ext (bind (fun t d => L (S (length d)) t d) k)); [reflexivity|].
  apply stable_bind; [apply stable_fuel; assumption|assumption].
Qed.

(* tools for proving fuel_ok *)
Lemma bind_cong {A B} (m : reader A) (k k' : A -> reader B) t d :
  (forall a d', m t d = ROk a d' -> k a t d' = k' a t d') -> bind m k t d = bind m k' t d.
Proof. intros H. unfold bind. destruct (m t d) as [a d'|e|s]; [apply H|..]; reflexivity. Qed.

(* a reader that consumes at least one byte when it succeeds *)
Definition consumes {A} (m : reader A) : Prop :=
  forall t d a d', m t d = ROk a d' -> (length d' < length d)%nat.

Lemma consumes_read_u8 : consumes read_u8.
Proof. intros t [|b r] a d' H; cbn in H; inversion H; subst. cbn [length]. lia. Qed.

Lemma consumes_read_u16 : consumes read_u16.
Proof. intros t [|x [|y r]] a d' H; cbn in H; inversion H; subst. cbn [length]. lia. Qed.

Lemma consumes_bind {A B} (m : reader A) (k : A -> reader B) :
  consumes m -> (forall a, stable (k a)) -> consumes (bind m k).
Proof.
  intros Hc Hk t d b d' H. unfold bind in H. destruct (m t d) as [a d1|e|s] eqn:E; try discriminate.
  apply Hc in E. apply (stable_le _ (Hk a)) in H. lia.
Qed.

Lemma consumes_read_string : consumes read_string.
Proof.
  unfold read_string, read_bytes. apply consumes_bind; [|intro; stable_auto].
  apply consumes_bind; [apply consumes_read_u16|intro; stable_auto].
Qed.

(* ------------------------------------------------------------------------------------ *)
(* V3 decoders                                                                          *)
(* ------------------------------------------------------------------------------------ *)

Lemma stable_protocol_decode : stable protocol_decode.
Proof. unfold protocol_decode. stable_auto. Qed.
Lemma stable_pid_read : stable V3.pid_read.
Proof. unfold V3.pid_read. stable_auto. Qed.
Lemma stable_filter_read prof : stable (V3.filter_read prof).
Proof. unfold V3.filter_read. stable_auto. Qed.
#[export] Hint Resolve stable_protocol_decode stable_pid_read stable_filter_read : stable_db.

Lemma consumes_filter_read prof : consumes (V3.filter_read prof).
Proof. unfold V3.filter_read. apply consumes_bind; [apply consumes_read_string|intro; stable_auto]. Qed.

Theorem stable_v3_header_decode : stable V3.header_decode.
Proof. unfold V3.header_decode. stable_auto. Qed.
#[export] Hint Resolve stable_v3_header_decode : stable_db.

Theorem stable_v3_connect_with_protocol p : stable (V3.connect_decode_with_protocol p).
Proof. unfold V3.connect_decode_with_protocol. stable_auto. Qed.
#[export] Hint Resolve stable_v3_connect_with_protocol : stable_db.

Lemma stable_v3_connect_decode : stable V3.connect_decode.
Proof. unfold V3.connect_decode. stable_auto. Qed.
Lemma stable_v3_connack_decode : stable V3.connack_decode.
Proof. unfold V3.connack_decode. stable_auto. Qed.
Lemma stable_v3_publish_decode h : stable (V3.publish_decode h).
Proof. unfold V3.publish_decode. stable_auto. Qed.
#[export] Hint Resolve stable_v3_connect_decode stable_v3_connack_decode stable_v3_publish_decode : stable_db.

(* length bookkeeping for the fuel lemmas: from  E : m t d = ROk a d'  derive the relation
   between length d' and length d *)
Ltac len_le E := let H := fresh "Hle" in
  pose proof E as H; apply stable_le in H; [|solve [stable_auto]].
Ltac len_lt E lem := let H := fresh "Hlt" in pose proof E as H; apply lem in H.

(* -- subscribe -- *)
Lemma stable_v3_subscribe_loop prof : forall f rl acc, stable (V3.subscribe_loop prof f rl acc).
Proof. induction f as [|g IH]; intros rl acc; cbn [V3.subscribe_loop]; stable_auto. Qed.

Lemma fuel_v3_subscribe_loop prof : forall f f' rl acc t d, (length d < f)%nat -> (f <= f')%nat ->
  V3.subscribe_loop prof f' rl acc t d = V3.subscribe_loop prof f rl acc t d.
Proof.
  induction f as [|g IH]; intros f' rl acc t d Hl Hf; [lia|].
  destruct f' as [|g']; [lia|]. cbn [V3.subscribe_loop]. destruct (rl =? 0); [reflexivity|].
  apply bind_cong; intros tf d1 E1. apply bind_cong; intros qb d2 E2.
  apply bind_cong; intros q d3 E3. apply bind_cong; intros rl' d4 E4.
  len_lt E1 (consumes_filter_read prof). len_le E2. len_le E3. len_le E4.
  apply IH; lia.
Qed.

Lemma stable_v3_subscribe_fuel prof rl acc {B} (k : _ -> reader B) : (forall a, stable (k a)) ->
  stable (fun t d => bind (V3.subscribe_loop prof (S (length d)) rl acc) k t d).
Proof.
  apply (stable_fuel_bind (fun f => V3.subscribe_loop prof f rl acc)).
  - intros f. apply stable_v3_subscribe_loop.
  - intros f f' t d. apply fuel_v3_subscribe_loop.
Qed.
Ltac stable_fuel_hook ::= first [ apply stable_v3_subscribe_fuel ].

Lemma stable_v3_subscribe_decode prof rl0 : stable (V3.subscribe_decode prof rl0).
Proof. unfold V3.subscribe_decode. stable_auto. Qed.

(* -- suback -- *)
Lemma stable_v3_suback_loop : forall f rl acc, stable (V3.suback_loop f rl acc).
Proof. induction f as [|g IH]; intros rl acc; cbn [V3.suback_loop]; stable_auto. Qed.

Lemma fuel_v3_suback_loop : forall f f' rl acc t d, (length d < f)%nat -> (f <= f')%nat ->
  V3.suback_loop f' rl acc t d = V3.suback_loop f rl acc t d.
Proof.
  induction f as [|g IH]; intros f' rl acc t d Hl Hf; [lia|].
  destruct f' as [|g']; [lia|]. cbn [V3.suback_loop]. destruct (rl =? 0); [reflexivity|].
  apply bind_cong; intros v d1 E1. apply bind_cong; intros code d2 E2.
  len_lt E1 consumes_read_u8. len_le E2.
  apply IH; lia.
Qed.

Lemma stable_v3_suback_fuel rl acc {B} (k : _ -> reader B) : (forall a, stable (k a)) ->
  stable (fun t d => bind (V3.suback_loop (S (length d)) rl acc) k t d).
Proof.
  apply (stable_fuel_bind (fun f => V3.suback_loop f rl acc)).
  - intros f. apply stable_v3_suback_loop.
  - intros f f' t d. apply fuel_v3_suback_loop.
Qed.

(* -- unsubscribe -- *)
Lemma stable_v3_unsubscribe_loop prof : forall f rl acc, stable (V3.unsubscribe_loop prof f rl acc).
Proof. induction f as [|g IH]; intros rl acc; cbn [V3.unsubscribe_loop]; stable_auto. Qed.

Lemma fuel_v3_unsubscribe_loop prof : forall f f' rl acc t d, (length d < f)%nat -> (f <= f')%nat ->
  V3.unsubscribe_loop prof f' rl acc t d = V3.unsubscribe_loop prof f rl acc t d.
Proof.
  induction f as [|g IH]; intros f' rl acc t d Hl Hf; [lia|].
  destruct f' as [|g']; [lia|]. cbn [V3.unsubscribe_loop]. destruct (rl =? 0); [reflexivity|].
  apply bind_cong; intros tf d1 E1. apply bind_cong; intros rl' d2 E2.
  len_lt E1 (consumes_filter_read prof). len_le E2.
  apply IH; lia.
Qed.

Lemma stable_v3_unsubscribe_fuel prof rl acc {B} (k : _ -> reader B) : (forall a, stable (k a)) ->
  stable (fun t d => bind (V3.unsubscribe_loop prof (S (length d)) rl acc) k t d).
Proof.
  apply (stable_fuel_bind (fun f => V3.unsubscribe_loop prof f rl acc)).
  - intros f. apply stable_v3_unsubscribe_loop.
  - intros f f' t d. apply fuel_v3_unsubscribe_loop.
Qed.
Ltac stable_fuel_hook ::=
  first [ apply stable_v3_subscribe_fuel | apply stable_v3_suback_fuel | apply stable_v3_unsubscribe_fuel ].

Lemma stable_v3_suback_decode rl0 : stable (V3.suback_decode rl0).
Proof. unfold V3.suback_decode. stable_auto. Qed.
Lemma stable_v3_unsubscribe_decode prof rl0 : stable (V3.unsubscribe_decode prof rl0).
Proof. unfold V3.unsubscribe_decode. stable_auto. Qed.
#[export] Hint Resolve stable_v3_subscribe_decode stable_v3_suback_decode stable_v3_unsubscribe_decode : stable_db.

Lemma stable_v3_body_decode_async prof h : stable (V3.body_decode_async prof h).
Proof. unfold V3.body_decode_async. stable_auto. Qed.
#[export] Hint Resolve stable_v3_body_decode_async : stable_db.

Theorem stable_v3_block_decode prof h : stable (V3.block_decode prof h).
Proof. unfold V3.block_decode. stable_auto. Qed.

Theorem stable_v3_decode_async prof : stable (V3.decode_async prof).
Proof. unfold V3.decode_async. stable_auto. Qed.

(* ------------------------------------------------------------------------------------ *)
(* v5 properties                                                                        *)
(* ------------------------------------------------------------------------------------ *)

Lemma is_det_ctx_err c id : is_det (ctx_err c id).
Proof. destruct c; reflexivity. Qed.
#[export] Hint Resolve is_det_ctx_err : odet_db.

Lemma stable_decode_value id : stable (decode_value id).
Proof. unfold decode_value. stable_auto. Qed.
#[export] Hint Resolve stable_decode_value : stable_db.

Lemma stable_decode_props_loop ctx allowed plen :
  forall f n acc, stable (decode_props_loop f ctx allowed plen n acc).
Proof. induction f as [|g IH]; intros n acc; cbn [decode_props_loop]; stable_auto. Qed.

Lemma fuel_decode_props_loop ctx allowed plen : forall f f' n acc t d, (length d < f)%nat -> (f <= f')%nat ->
  decode_props_loop f' ctx allowed plen n acc t d = decode_props_loop f ctx allowed plen n acc t d.
Proof.
  induction f as [|g IH]; intros f' n acc t d Hl Hf; [lia|].
  destruct f' as [|g']; [lia|]. cbn [decode_props_loop]. destruct (plen <=? n); [reflexivity|].
  apply bind_cong; intros b d1 E1. len_lt E1 consumes_read_u8.
  destruct (prop_of_u8 b) as [[|id]|]; [| |reflexivity].
  - apply bind_cong; intros name d2 E2. apply bind_cong; intros value d3 E3.
    len_le E2. len_le E3. apply IH; lia.
  - destruct (prop_mem id allowed); [|reflexivity]. destruct (pget acc id) as [v0|]; [reflexivity|].
    apply bind_cong; intros v d2 E2. len_le E2. apply IH; lia.
Qed.

Lemma stable_decode_props_fuel ctx allowed plen n acc {B} (k : _ -> reader B) : (forall a, stable (k a)) ->
  stable (fun t d => bind (decode_props_loop (S (length d)) ctx allowed plen n acc) k t d).
Proof.
  apply (stable_fuel_bind (fun f => decode_props_loop f ctx allowed plen n acc)).
  - intros f. apply stable_decode_props_loop.
  - intros f f' t d. apply fuel_decode_props_loop.
Qed.
Ltac stable_fuel_hook ::=
  first [ apply stable_v3_subscribe_fuel | apply stable_v3_suback_fuel | apply stable_v3_unsubscribe_fuel
        | apply stable_decode_props_fuel ].

Lemma stable_decode_props_full ctx allowed : stable (decode_props_full ctx allowed).
Proof. unfold decode_props_full. stable_auto. Qed.
#[export] Hint Resolve stable_decode_props_full : stable_db.
Lemma stable_decode_props ctx allowed : stable (decode_props ctx allowed).
Proof. unfold decode_props. stable_auto. Qed.
#[export] Hint Resolve stable_decode_props : stable_db.

(* ------------------------------------------------------------------------------------ *)
(* V5 decoders                                                                          *)
(* ------------------------------------------------------------------------------------ *)

Lemma stable_reason_read table pt : stable (V5.reason_read table pt).
Proof. unfold V5.reason_read. stable_auto. Qed.
#[export] Hint Resolve stable_reason_read : stable_db.

Lemma consumes_reason_read table pt : consumes (V5.reason_read table pt).
Proof. unfold V5.reason_read. apply consumes_bind; [apply consumes_read_u8|intro; stable_auto]. Qed.

Theorem stable_v5_header_decode : stable V5.header_decode.
Proof. unfold V5.header_decode. stable_auto. Qed.
#[export] Hint Resolve stable_v5_header_decode : stable_db.

Lemma stable_v5_will_decode qos retain : stable (V5.will_decode qos retain).
Proof. unfold V5.will_decode. stable_auto. Qed.
#[export] Hint Resolve stable_v5_will_decode : stable_db.

Theorem stable_v5_connect_with_protocol h p : stable (V5.connect_decode_with_protocol h p).
Proof. unfold V5.connect_decode_with_protocol. stable_auto. Qed.
#[export] Hint Resolve stable_v5_connect_with_protocol : stable_db.

Lemma stable_v5_connect_decode h : stable (V5.connect_decode h).
Proof. unfold V5.connect_decode. stable_auto. Qed.
Lemma stable_v5_connack_decode h : stable (V5.connack_decode h).
Proof. unfold V5.connack_decode. stable_auto. Qed.
Lemma stable_v5_publish_decode h : stable (V5.publish_decode h).
Proof. unfold V5.publish_decode. stable_auto. Qed.
Lemma stable_v5_ack_decode table h : stable (V5.ack_decode table h).
Proof. unfold V5.ack_decode. stable_auto. Qed.
Lemma stable_v5_disconnect_decode h : stable (V5.disconnect_decode h).
Proof. unfold V5.disconnect_decode. stable_auto. Qed.
Lemma stable_v5_auth_decode h : stable (V5.auth_decode h).
Proof. unfold V5.auth_decode. stable_auto. Qed.
#[export] Hint Resolve stable_v5_connect_decode stable_v5_connack_decode stable_v5_publish_decode
  stable_v5_ack_decode stable_v5_disconnect_decode stable_v5_auth_decode : stable_db.

(* -- subscribe -- *)
Lemma stable_v5_subscribe_loop prof : forall f rl acc, stable (V5.subscribe_loop prof f rl acc).
Proof. induction f as [|g IH]; intros rl acc; cbn [V5.subscribe_loop]; stable_auto. Qed.

Lemma fuel_v5_subscribe_loop prof : forall f f' rl acc t d, (length d < f)%nat -> (f <= f')%nat ->
  V5.subscribe_loop prof f' rl acc t d = V5.subscribe_loop prof f rl acc t d.
Proof.
  induction f as [|g IH]; intros f' rl acc t d Hl Hf; [lia|].
  destruct f' as [|g']; [lia|]. cbn [V5.subscribe_loop]. destruct (rl =? 0); [reflexivity|].
  apply bind_cong; intros tf d1 E1. apply bind_cong; intros ob d2 E2.
  apply bind_cong; intros o d3 E3. apply bind_cong; intros rl' d4 E4.
  len_lt E1 (consumes_filter_read prof). len_le E2. len_le E3. len_le E4.
  apply IH; lia.
Qed.

Lemma stable_v5_subscribe_fuel prof rl acc {B} (k : _ -> reader B) : (forall a, stable (k a)) ->
  stable (fun t d => bind (V5.subscribe_loop prof (S (length d)) rl acc) k t d).
Proof.
  apply (stable_fuel_bind (fun f => V5.subscribe_loop prof f rl acc)).
  - intros f. apply stable_v5_subscribe_loop.
  - intros f f' t d. apply fuel_v5_subscribe_loop.
Qed.

(* -- suback / unsuback -- *)
Lemma stable_v5_codes_loop table pt : forall f rl acc, stable (V5.codes_loop table pt f rl acc).
Proof. induction f as [|g IH]; intros rl acc; cbn [V5.codes_loop]; stable_auto. Qed.

Lemma fuel_v5_codes_loop table pt : forall f f' rl acc t d, (length d < f)%nat -> (f <= f')%nat ->
  V5.codes_loop table pt f' rl acc t d = V5.codes_loop table pt f rl acc t d.
Proof.
  induction f as [|g IH]; intros f' rl acc t d Hl Hf; [lia|].
  destruct f' as [|g']; [lia|]. cbn [V5.codes_loop]. destruct (rl =? 0); [reflexivity|].
  apply bind_cong; intros code d1 E1. len_lt E1 (consumes_reason_read table pt).
  apply IH; lia.
Qed.

Lemma stable_v5_codes_fuel table pt rl acc {B} (k : _ -> reader B) : (forall a, stable (k a)) ->
  stable (fun t d => bind (V5.codes_loop table pt (S (length d)) rl acc) k t d).
Proof.
  apply (stable_fuel_bind (fun f => V5.codes_loop table pt f rl acc)).
  - intros f. apply stable_v5_codes_loop.
  - intros f f' t d. apply fuel_v5_codes_loop.
Qed.

(* -- unsubscribe -- *)
Lemma stable_v5_unsubscribe_loop prof : forall f rl acc, stable (V5.unsubscribe_loop prof f rl acc).
Proof. induction f as [|g IH]; intros rl acc; cbn [V5.unsubscribe_loop]; stable_auto. Qed.

Lemma fuel_v5_unsubscribe_loop prof : forall f f' rl acc t d, (length d < f)%nat -> (f <= f')%nat ->
  V5.unsubscribe_loop prof f' rl acc t d = V5.unsubscribe_loop prof f rl acc t d.
Proof.
  induction f as [|g IH]; intros f' rl acc t d Hl Hf; [lia|].
  destruct f' as [|g']; [lia|]. cbn [V5.unsubscribe_loop]. destruct (rl =? 0); [reflexivity|].
  apply bind_cong; intros tf d1 E1. apply bind_cong; intros rl' d2 E2.
  len_lt E1 (consumes_filter_read prof). len_le E2.
  apply IH; lia.
Qed.

Lemma stable_v5_unsubscribe_fuel prof rl acc {B} (k : _ -> reader B) : (forall a, stable (k a)) ->
  stable (fun t d => bind (V5.unsubscribe_loop prof (S (length d)) rl acc) k t d).
Proof.
  apply (stable_fuel_bind (fun f => V5.unsubscribe_loop prof f rl acc)).
  - intros f. apply stable_v5_unsubscribe_loop.
  - intros f f' t d. apply fuel_v5_unsubscribe_loop.
Qed.
Ltac stable_fuel_hook ::=
  first [ apply stable_v3_subscribe_fuel | apply stable_v3_suback_fuel | apply stable_v3_unsubscribe_fuel
        | apply stable_decode_props_fuel
        | apply stable_v5_subscribe_fuel | apply stable_v5_codes_fuel | apply stable_v5_unsubscribe_fuel ].

Lemma stable_v5_subscribe_decode prof h : stable (V5.subscribe_decode prof h).
Proof. unfold V5.subscribe_decode. stable_auto. Qed.
Lemma stable_v5_suback_decode table h : stable (V5.suback_decode table h).
Proof. unfold V5.suback_decode. stable_auto. Qed.
Lemma stable_v5_unsubscribe_decode prof h : stable (V5.unsubscribe_decode prof h).
Proof. unfold V5.unsubscribe_decode. stable_auto. Qed.
#[export] Hint Resolve stable_v5_subscribe_decode stable_v5_suback_decode stable_v5_unsubscribe_decode : stable_db.

Lemma stable_v5_body_decode_async prof h : stable (V5.body_decode_async prof h).
Proof. unfold V5.body_decode_async. stable_auto. Qed.
#[export] Hint Resolve stable_v5_body_decode_async : stable_db.

Theorem stable_v5_block_decode prof h : stable (V5.block_decode prof h).
Proof. unfold V5.block_decode. stable_auto. Qed.

Theorem stable_v5_decode_async prof : stable (V5.decode_async prof).
Proof. unfold V5.decode_async. stable_auto. Qed.

(* ------------------------------------------------------------------------------------ *)
(* The fuel taken from the data is always enough: no decoder ever reports SiteFuel.      *)
(* (Not needed for stability; recorded because it is the reason the fuel is invisible:   *)
(* SiteFuel is a model artefact and is unreachable.)                                     *)
(* ------------------------------------------------------------------------------------ *)

Definition nofuel {A} (m : reader A) : Prop := forall t d, m t d <> RPanic SiteFuel.
Definition onf {A} (o : outcome A) : Prop := match o with Panic s => s <> SiteFuel | _ => True end.

Lemma nofuel_ext {A} (m m' : reader A) : (forall t d, m t d = m' t d) -> nofuel m -> nofuel m'.
Proof. intros E H t d. rewrite <- E. apply H. Qed.
Lemma nofuel_ret {A} (a : A) : nofuel (ret a).
Proof. intros t d. discriminate. Qed.
Lemma nofuel_fail {A} e : nofuel (@fail A e).
Proof. intros t d. discriminate. Qed.
Lemma nofuel_rpanic {A} s : s <> SiteFuel -> nofuel (@rpanic A s).
Proof. intros H t d E. inversion E. contradiction. Qed.
Lemma bind_nofuel {A B} (m : reader A) (k : A -> reader B) t d :
  m t d <> RPanic SiteFuel -> (forall a d', m t d = ROk a d' -> k a t d' <> RPanic SiteFuel) ->
  bind m k t d <> RPanic SiteFuel.
Proof.
  intros Hm Hk. unfold bind. destruct (m t d) as [a d'|e|s]; [apply Hk; reflexivity|discriminate|].
  intros E. apply Hm. inversion E. reflexivity.
Qed.
Lemma nofuel_bind {A B} (m : reader A) (k : A -> reader B) :
  nofuel m -> (forall a, nofuel (k a)) -> nofuel (bind m k).
Proof. intros Hm Hk t d. apply bind_nofuel; [apply Hm|intros a d' _; apply Hk]. Qed.
Lemma nofuel_read_exact n : nofuel (read_exact n).
Proof. intros t d. unfold read_exact. destruct (take d n) as [[a b]|]; discriminate. Qed.
Lemma nofuel_read_u8 : nofuel read_u8.
Proof. intros t [|a r]; discriminate. Qed.
Lemma nofuel_read_u16 : nofuel read_u16.
Proof. intros t [|a [|b r]]; discriminate. Qed.
Lemma nofuel_read_u32 : nofuel read_u32.
Proof. intros t [|a [|b [|c [|e r]]]]; discriminate. Qed.
Lemma nofuel_checked_sub a b : nofuel (checked_sub a b).
Proof. unfold checked_sub. destruct (b <=? a); [apply nofuel_ret|apply nofuel_fail]. Qed.
Lemma nofuel_guard b e : nofuel (guard b e).
Proof. unfold guard. destruct b; [apply nofuel_ret|apply nofuel_fail]. Qed.
Lemma nofuel_lift_outcome {A} (o : outcome A) : onf o -> nofuel (lift_outcome o).
Proof.
  intros H. destruct o as [a|e|s]; cbn [lift_outcome];
    [apply nofuel_ret|apply nofuel_fail|apply nofuel_rpanic; exact H].
Qed.

Ltac onf_tac := cbv zeta; repeat break_match; try exact I; try discriminate.
Lemma onf_qos_of_u8 b : onf (qos_of_u8 b).
Proof. unfold qos_of_u8. onf_tac. Qed.
Lemma onf_name_try s : onf (name_try s).
Proof. unfold name_try. onf_tac. Qed.
Lemma onf_pid_try v : onf (pid_try v).
Proof. unfold pid_try. onf_tac. Qed.
Lemma onf_protocol_new name level : onf (protocol_new name level).
Proof. unfold protocol_new. onf_tac. Qed.
Lemma onf_var_byte_int_try v : onf (var_byte_int_try v).
Proof. unfold var_byte_int_try. onf_tac. Qed.
Lemma onf_subopts_of_u8 b : onf (V5.subopts_of_u8 b).
Proof. unfold V5.subopts_of_u8. onf_tac. Qed.
Lemma onf_connect_return_code_of_u8 b : onf (V3.connect_return_code_of_u8 b).
Proof. unfold V3.connect_return_code_of_u8. onf_tac. Qed.
Lemma onf_subscribe_return_code_of_u8 b : onf (V3.subscribe_return_code_of_u8 b).
Proof. unfold V3.subscribe_return_code_of_u8. onf_tac. Qed.
Lemma onf_props_len allowed p : onf (props_len allowed p).
Proof. unfold props_len, props_len_of_body. onf_tac. Qed.
Lemma filter_is_invalid_no_fuel prof s : filter_is_invalid prof s <> Panic SiteFuel.
Proof. unfold filter_is_invalid. repeat break_match; discriminate. Qed.
Lemma onf_filter_try prof s : onf (filter_try prof s).
Proof.
  unfold filter_try. destruct (filter_is_invalid prof s) as [[[|] sep]|e|p] eqn:E; cbn; try exact I.
  intros ->. exact (filter_is_invalid_no_fuel _ _ E).
Qed.
Lemma onf_v3_header_new_with hd rl : onf (V3.header_new_with hd rl).
Proof.
  unfold V3.header_new_with. cbv zeta.
  pose proof (onf_qos_of_u8 ((hd / 2) mod 4)) as Hq.
  destruct (qos_of_u8 ((hd / 2) mod 4)) as [q|e|s]; repeat break_match; try exact I; exact Hq.
Qed.
Lemma onf_v5_header_new_with hd rl : onf (V5.header_new_with hd rl).
Proof.
  unfold V5.header_new_with. cbv zeta.
  pose proof (onf_qos_of_u8 ((hd / 2) mod 4)) as Hq.
  destruct (qos_of_u8 ((hd / 2) mod 4)) as [q|e|s]; repeat break_match; try exact I; exact Hq.
Qed.

Create HintDb onf_db.
#[export] Hint Resolve onf_qos_of_u8 onf_name_try onf_pid_try onf_protocol_new onf_var_byte_int_try
  onf_subopts_of_u8 onf_connect_return_code_of_u8 onf_subscribe_return_code_of_u8 onf_props_len
  onf_filter_try onf_v3_header_new_with onf_v5_header_new_with : onf_db.
Create HintDb nofuel_db.
#[export] Hint Resolve nofuel_read_u8 nofuel_read_u16 nofuel_read_u32 nofuel_read_exact
  nofuel_checked_sub : nofuel_db.

Ltac nofuel_fuel_hook := fail.
Ltac nofuel_step :=
  first
  [ solve [auto with nofuel_db]
  | match goal with
    | |- nofuel (bind _ _) => apply nofuel_bind; [ | intro ]
    | |- nofuel (ret _) => apply nofuel_ret
    | |- nofuel (fail _) => apply nofuel_fail
    | |- nofuel (rpanic _) => apply nofuel_rpanic; discriminate
    | |- nofuel (guard _ _) => apply nofuel_guard
    | |- nofuel (lift_outcome _) => apply nofuel_lift_outcome; solve [auto with onf_db]
    | |- nofuel (fun t d => ?m t d) => change (nofuel m)
    | |- nofuel (fun t d => bind _ _ t d) => nofuel_fuel_hook; intro
    | |- nofuel (match ?x with _ => _ end) => destruct x eqn:?
    end ].
Ltac nofuel_auto := repeat nofuel_step.

Lemma nofuel_fuel_bind {A B} (L : nat -> reader A) (k : A -> reader B) :
  (forall f t d, (length d < f)%nat -> L f t d <> RPanic SiteFuel) -> (forall a, nofuel (k a)) ->
  nofuel (fun t d => bind (L (S (length d))) k t d).
Proof. intros HL Hk t d. apply bind_nofuel; [apply HL; lia|intros a d' _; apply Hk]. Qed.

Lemma nofuel_read_bytes : nofuel read_bytes.
Proof. unfold read_bytes. nofuel_auto. Qed.
#[export] Hint Resolve nofuel_read_bytes : nofuel_db.
Lemma nofuel_read_string : nofuel read_string.
Proof. unfold read_string. nofuel_auto. Qed.
#[export] Hint Resolve nofuel_read_string : nofuel_db.

Lemma nofuel_decode_var_int_loop : forall fuel i acc, nofuel (decode_var_int_loop fuel i acc).
Proof.
  induction fuel as [|f IH]; intros i acc;
    (eapply nofuel_ext; [intros t d; symmetry; apply dvi_loop_eq|]); cbv iota; nofuel_auto.
Qed.
Lemma nofuel_decode_var_int : nofuel decode_var_int.
Proof. apply nofuel_decode_var_int_loop. Qed.
#[export] Hint Resolve nofuel_decode_var_int : nofuel_db.
Lemma nofuel_decode_raw_header : nofuel decode_raw_header.
Proof. unfold decode_raw_header. nofuel_auto. Qed.
Lemma nofuel_protocol_decode : nofuel protocol_decode.
Proof. unfold protocol_decode. nofuel_auto. Qed.
Lemma nofuel_pid_read : nofuel V3.pid_read.
Proof. unfold V3.pid_read. nofuel_auto. Qed.
Lemma nofuel_filter_read prof : nofuel (V3.filter_read prof).
Proof. unfold V3.filter_read. nofuel_auto. Qed.
Lemma nofuel_reason_read table pt : nofuel (V5.reason_read table pt).
Proof. unfold V5.reason_read. nofuel_auto. Qed.
Lemma nofuel_decode_value id : nofuel (decode_value id).
Proof. unfold decode_value. nofuel_auto. Qed.
#[export] Hint Resolve nofuel_decode_raw_header nofuel_protocol_decode nofuel_pid_read nofuel_filter_read
  nofuel_reason_read nofuel_decode_value : nofuel_db.

(* one step of a loop body: peel a bind, remembering how much was consumed *)
Tactic Notation "nf_bind" ident(a) ident(d') ident(E) := apply bind_nofuel; [solve [apply nofuel_read_u8 | apply nofuel_read_string
  | apply nofuel_filter_read | apply nofuel_reason_read | apply nofuel_decode_value
  | apply nofuel_checked_sub | apply nofuel_lift_outcome; auto with onf_db] | intros a d' E].

Lemma nofuel_v3_subscribe_loop prof : forall f rl acc t d, (length d < f)%nat ->
  V3.subscribe_loop prof f rl acc t d <> RPanic SiteFuel.
Proof.
  induction f as [|g IH]; intros rl acc t d Hl; [lia|].
  cbn [V3.subscribe_loop]. destruct (rl =? 0); [discriminate|].
  nf_bind tf d1 E1. nf_bind qb d2 E2. nf_bind q d3 E3. nf_bind rl' d4 E4.
  len_lt E1 (consumes_filter_read prof). len_le E2. len_le E3. len_le E4.
  apply IH; lia.
Qed.
Lemma nofuel_v3_suback_loop : forall f rl acc t d, (length d < f)%nat ->
  V3.suback_loop f rl acc t d <> RPanic SiteFuel.
Proof.
  induction f as [|g IH]; intros rl acc t d Hl; [lia|].
  cbn [V3.suback_loop]. destruct (rl =? 0); [discriminate|].
  nf_bind v d1 E1. nf_bind code d2 E2. len_lt E1 consumes_read_u8. len_le E2.
  apply IH; lia.
Qed.
Lemma nofuel_v3_unsubscribe_loop prof : forall f rl acc t d, (length d < f)%nat ->
  V3.unsubscribe_loop prof f rl acc t d <> RPanic SiteFuel.
Proof.
  induction f as [|g IH]; intros rl acc t d Hl; [lia|].
  cbn [V3.unsubscribe_loop]. destruct (rl =? 0); [discriminate|].
  nf_bind tf d1 E1. nf_bind rl' d2 E2. len_lt E1 (consumes_filter_read prof). len_le E2.
  apply IH; lia.
Qed.
Lemma nofuel_decode_props_loop ctx allowed plen : forall f n acc t d, (length d < f)%nat ->
  decode_props_loop f ctx allowed plen n acc t d <> RPanic SiteFuel.
Proof.
  induction f as [|g IH]; intros n acc t d Hl; [lia|].
  cbn [decode_props_loop]. destruct (plen <=? n); [destruct (plen =? n); discriminate|].
  nf_bind b d1 E1. len_lt E1 consumes_read_u8.
  destruct (prop_of_u8 b) as [[|id]|]; [| |discriminate].
  - nf_bind name d2 E2. nf_bind value d3 E3. len_le E2. len_le E3. apply IH; lia.
  - destruct (prop_mem id allowed); [|discriminate]. destruct (pget acc id) as [v0|]; [discriminate|].
    nf_bind v d2 E2. len_le E2. apply IH; lia.
Qed.
Lemma nofuel_v5_subscribe_loop prof : forall f rl acc t d, (length d < f)%nat ->
  V5.subscribe_loop prof f rl acc t d <> RPanic SiteFuel.
Proof.
  induction f as [|g IH]; intros rl acc t d Hl; [lia|].
  cbn [V5.subscribe_loop]. destruct (rl =? 0); [discriminate|].
  nf_bind tf d1 E1. nf_bind ob d2 E2. nf_bind o d3 E3. nf_bind rl' d4 E4.
  len_lt E1 (consumes_filter_read prof). len_le E2. len_le E3. len_le E4.
  apply IH; lia.
Qed.
Lemma nofuel_v5_codes_loop table pt : forall f rl acc t d, (length d < f)%nat ->
  V5.codes_loop table pt f rl acc t d <> RPanic SiteFuel.
Proof.
  induction f as [|g IH]; intros rl acc t d Hl; [lia|].
  cbn [V5.codes_loop]. destruct (rl =? 0); [discriminate|].
  nf_bind code d1 E1. len_lt E1 (consumes_reason_read table pt).
  apply IH; lia.
Qed.
Lemma nofuel_v5_unsubscribe_loop prof : forall f rl acc t d, (length d < f)%nat ->
  V5.unsubscribe_loop prof f rl acc t d <> RPanic SiteFuel.
Proof.
  induction f as [|g IH]; intros rl acc t d Hl; [lia|].
  cbn [V5.unsubscribe_loop]. destruct (rl =? 0); [discriminate|].
  nf_bind tf d1 E1. nf_bind rl' d2 E2. len_lt E1 (consumes_filter_read prof). len_le E2.
  apply IH; lia.
Qed.

Ltac nofuel_fuel_hook ::=
  first [ apply (nofuel_fuel_bind (fun f => V3.subscribe_loop _ f _ _)); [intros ? ? ?; apply nofuel_v3_subscribe_loop|]
        | apply (nofuel_fuel_bind (fun f => V3.suback_loop f _ _)); [intros ? ? ?; apply nofuel_v3_suback_loop|]
        | apply (nofuel_fuel_bind (fun f => V3.unsubscribe_loop _ f _ _)); [intros ? ? ?; apply nofuel_v3_unsubscribe_loop|]
        | apply (nofuel_fuel_bind (fun f => decode_props_loop f _ _ _ _ _)); [intros ? ? ?; apply nofuel_decode_props_loop|]
        | apply (nofuel_fuel_bind (fun f => V5.subscribe_loop _ f _ _)); [intros ? ? ?; apply nofuel_v5_subscribe_loop|]
        | apply (nofuel_fuel_bind (fun f => V5.codes_loop _ _ f _ _)); [intros ? ? ?; apply nofuel_v5_codes_loop|]
        | apply (nofuel_fuel_bind (fun f => V5.unsubscribe_loop _ f _ _)); [intros ? ? ?; apply nofuel_v5_unsubscribe_loop|] ].

Lemma nofuel_decode_props_full ctx allowed : nofuel (decode_props_full ctx allowed).
Proof. unfold decode_props_full. nofuel_auto. Qed.
#[export] Hint Resolve nofuel_decode_props_full : nofuel_db.
Lemma nofuel_decode_props ctx allowed : nofuel (decode_props ctx allowed).
Proof. unfold decode_props. nofuel_auto. Qed.
#[export] Hint Resolve nofuel_decode_props : nofuel_db.

Theorem nofuel_v3_header_decode : nofuel V3.header_decode.
Proof. unfold V3.header_decode. nofuel_auto. Qed.
Theorem nofuel_v3_connect_with_protocol p : nofuel (V3.connect_decode_with_protocol p).
Proof. unfold V3.connect_decode_with_protocol. nofuel_auto. Qed.
#[export] Hint Resolve nofuel_v3_header_decode nofuel_v3_connect_with_protocol : nofuel_db.
Theorem nofuel_v3_block_decode prof h : nofuel (V3.block_decode prof h).
Proof.
  unfold V3.block_decode, V3.connect_decode, V3.connack_decode, V3.publish_decode, V3.subscribe_decode,
    V3.suback_decode, V3.unsubscribe_decode. nofuel_auto.
Qed.
Theorem nofuel_v3_decode_async prof : nofuel (V3.decode_async prof).
Proof.
  unfold V3.decode_async, V3.body_decode_async, V3.connect_decode, V3.connack_decode, V3.publish_decode,
    V3.subscribe_decode, V3.suback_decode, V3.unsubscribe_decode. nofuel_auto.
Qed.

Theorem nofuel_v5_header_decode : nofuel V5.header_decode.
Proof. unfold V5.header_decode. nofuel_auto. Qed.
Theorem nofuel_v5_connect_with_protocol h p : nofuel (V5.connect_decode_with_protocol h p).
Proof. unfold V5.connect_decode_with_protocol, V5.will_decode. nofuel_auto. Qed.
#[export] Hint Resolve nofuel_v5_header_decode nofuel_v5_connect_with_protocol : nofuel_db.
Theorem nofuel_v5_block_decode prof h : nofuel (V5.block_decode prof h).
Proof.
  unfold V5.block_decode, V5.connect_decode, V5.connack_decode, V5.publish_decode, V5.ack_decode,
    V5.subscribe_decode, V5.suback_decode, V5.unsubscribe_decode, V5.disconnect_decode, V5.auth_decode.
  nofuel_auto.
Qed.
Theorem nofuel_v5_decode_async prof : nofuel (V5.decode_async prof).
Proof.
  unfold V5.decode_async, V5.body_decode_async, V5.connect_decode, V5.connack_decode, V5.publish_decode,
    V5.ack_decode, V5.subscribe_decode, V5.suback_decode, V5.unsubscribe_decode, V5.disconnect_decode,
    V5.auth_decode.
  nofuel_auto.
Qed.

(* ------------------------------------------------------------------------------------ *)
Print Assumptions stable_v3_decode_async.
Print Assumptions stable_v5_decode_async.
Print Assumptions stable_v3_header_decode.
Print Assumptions stable_v5_header_decode.
Print Assumptions stable_v3_block_decode.
Print Assumptions stable_v5_block_decode.
Print Assumptions stable_v3_connect_with_protocol.
Print Assumptions stable_v5_connect_with_protocol.
Print Assumptions ok_extend.
Print Assumptions ok_prefix_eof.
Print Assumptions det_err_extend.
Print Assumptions io_err_is_tail.
Print Assumptions io_err_prefix.
Print Assumptions panic_extend.
Print Assumptions tail_indep.
Print Assumptions P_ok_unique.
Print Assumptions stable_fuel.
Print Assumptions nofuel_v3_decode_async.
Print Assumptions nofuel_v5_decode_async.
Print Assumptions nofuel_v3_block_decode.
Print Assumptions nofuel_v5_block_decode.
