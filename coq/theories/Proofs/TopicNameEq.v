(* Proofs/TopicNameEq.v — C18: TopicName validation is the MQTT rule; accepted names keep their text. *)
From MQ Require Import Proofs.Tactics Proofs.Utf8Facts Model.Props Spec.SpecTopic.
Open Scope N_scope.

Definition forbidden (b : N) : bool := (b =? 43) || (b =? 35) || (b =? 0).

Lemma forbidden_ascii c : 128 <= c -> forbidden c = false.
Proof. unfold forbidden. intros H. repeat dtest; try reflexivity; exfalso; lia. Qed.

(* byte-level statement: too long, or one of the bytes '+', '#', NUL occurs *)
Lemma name_bytes s : utf8_valid s = true ->
  name_is_invalid s = (65535 <? len s) || existsb forbidden s.
Proof.
  intros Hv. unfold name_is_invalid. destruct (65535 <? len s); [reflexivity|]. cbn [orb].
  rewrite <- (existsb_chars forbidden forbidden_ascii s Hv). reflexivity.
Qed.

Lemma mem_chars c (l : list (N * N)) : Spec.mem c (map fst l) = existsb (fun ch => fst ch =? c) l.
Proof.
  unfold Spec.mem. induction l as [|ch l IH]; [reflexivity|].
  cbn [map existsb]. rewrite IH, (N.eqb_sym c). reflexivity.
Qed.

Lemma existsb_or3 {A} (f g h : A -> bool) l :
  existsb (fun x => f x || g x || h x) l = existsb f l || existsb g l || existsb h l.
Proof.
  induction l as [|x l IH]; [reflexivity|]. cbn [existsb]. rewrite IH.
  destruct (f x), (g x), (h x), (existsb f l), (existsb g l), (existsb h l); reflexivity.
Qed.

(* against the declarative spec over characters *)
Lemma name_spec s : name_is_invalid s = negb (Spec.topic_name_ok s).
Proof.
  unfold name_is_invalid, Spec.topic_name_ok, Spec.chars, PL, HS, Spec.PLUS, Spec.HASH.
  rewrite !mem_chars, existsb_or3.
  destruct (N.ltb_spec 65535 (len s)); destruct (N.leb_spec (len s) 65535); try (exfalso; lia).
  - reflexivity.
  - cbn [andb]. destruct (existsb _ _), (existsb _ _), (existsb _ _); reflexivity.
Qed.

(* TryFrom<String>: accepted exactly when valid, and the text is kept *)
Lemma name_try_ok s : name_is_invalid s = false -> name_try s = Ok s.
Proof. unfold name_try. intros ->. reflexivity. Qed.
Lemma name_try_err s : name_is_invalid s = true -> name_try s = Err (InvalidTopicName s).
Proof. unfold name_try. intros ->. reflexivity. Qed.
Lemma name_try_inv s s' : name_try s = Ok s' -> s' = s /\ name_is_invalid s = false.
Proof. unfold name_try. destruct (name_is_invalid s); [discriminate|]. intros H; inversion H; auto. Qed.

(* prefix tests on the accepted text *)
Lemma starts_with_spec p l : starts_with p l = true <-> exists r, l = p ++ r.
Proof.
  revert l. induction p as [|a p IH]; intros l; cbn [starts_with].
  - split; [intros _; exists l; reflexivity|reflexivity].
  - destruct l as [|b l]; [split; [discriminate|intros [r Hr]; discriminate]|].
    rewrite andb_true_iff, IH. split.
    + intros [E [r ->]]. apply N.eqb_eq in E. subst. exists r. reflexivity.
    + intros [r Hr]. inversion Hr; subst. split; [apply N.eqb_refl|exists r; reflexivity].
Qed.

(* Response Topic property: same predicate, its own error *)
Lemma response_topic_value t d : decode_value ResponseTopic t d =
  match read_string t d with
  | ROk s r => if name_is_invalid s then RErr InvalidResponseTopic else ROk (VB s) r
  | RErr e => RErr e
  | RPanic p => RPanic p
  end.
Proof.
  unfold decode_value. cbn [prop_wtype]. unfold bind.
  destruct (read_string t d) as [s r|e|p]; try reflexivity.
  destruct (name_is_invalid s); reflexivity.
Qed.
