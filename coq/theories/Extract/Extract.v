(* Extract/Extract.v — extraction of the executable model and spec to OCaml.
   ExtrOcamlBasic only: bool, option, unit, list, prod, sumbool, sumor map to OCaml's own types;
   N / positive / nat stay the extracted inductive types.
   Run from driver/extracted (coqc writes the .ml files into the current directory). *)
From Coq Require Import Extraction ExtrOcamlBasic.
From MQ Require Import Model.Stream Model.Digest Spec.SpecParse.
Extraction Language OCaml.
Separate Extraction
  Prelude Utf8 Reader VarInt Types Topic V3 Props V5 Poll Frontends Valid Stream Digest SpecTopic SpecParse.
