(* Extract/Extract.v — extraction of the executable model (and spec) to OCaml.
   ExtrOcamlBasic only: bool, option, unit, list, prod, sumbool, sumor map to OCaml's own types;
   N / positive / nat stay the extracted inductive types. *)
From Coq Require Import Extraction ExtrOcamlBasic.
From MQ Require Import Model.Frontends.
Extraction Language OCaml.
Separate Extraction
  Prelude Utf8 Reader VarInt Types Topic V3 Props V5 Poll Frontends.
