From MQ Require Import Proofs.FrontGen.
Check frame. Check frames. Check frames_len.
Check G_async. Check G_block. Check G_poll. Check G_prefix_async. Check G_prefix_block. Check G_prefix_poll.
Check G_stream_async. Check G_stream_block. Check G_stream_poll. Check G_stream_sizes.
