(* Proofs/FrontRT5.v — C01, C07, C14 (read side), C08 for the v5 family on the three decoder
   front-ends of Model/Frontends.v (F5.dec_async, F5.dec_block, F5.poll_drive / F5.poll1).
   Instance of Proofs/FrontGen.v; the async round trip is Proofs/V5RT.v with its filter premise
   discharged by Proofs/TopicFilterEq.v.  No hypotheses remain. *)
From MQ Require Import Proofs.Tactics Proofs.VarIntLaws Proofs.Parses Model.Valid Model.Stream.
From MQ Require Import Proofs.FrontGen.
From MQ Require Proofs.Stable Proofs.PollSched Proofs.V5Len Proofs.V5RT Proofs.TopicFilterEq.
Open Scope N_scope.

(* ---------- the section hypotheses of FrontGen for v5 ---------- *)
Lemma bridge5 (prof : profile) (h : header) : V5.build_empty_packet h = None ->
  forall t d, V5.body_decode_async prof h t d = V5.block_decode prof h t d.
Proof.
  unfold V5.build_empty_packet, V5.body_decode_async, V5.block_decode.
  destruct (h_typ h); intros Hb t d; try reflexivity; discriminate Hb.
Time Qed.

(* DISCONNECT and AUTH with remaining length 0: build_empty_packet returns the default packet,
   which is what disconnect_decode / auth_decode return without reading *)
Lemma empty5 (prof : profile) (h : header) (p : V5.packet) : V5.build_empty_packet h = Some p ->
  forall t d, V5.body_decode_async prof h t d = ROk p d.
Proof.
  unfold V5.build_empty_packet, V5.body_decode_async.
  destruct (h_typ h); intros Hb t d; try discriminate Hb;
    try (inversion Hb; reflexivity);
    destruct (h_rl h =? 0) eqn:E0; try discriminate Hb; inversion Hb;
    unfold V5.disconnect_decode, V5.auth_decode, bind; rewrite E0; reflexivity.
Time Qed.

Lemma cons5 (prof : profile) (h : header) : V5.build_empty_packet h = None ->
  forall t p d', V5.block_decode prof h t [] <> ROk p d'.
Proof.
  unfold V5.build_empty_packet, V5.block_decode.
  destruct (h_typ h); intros Hb t p d' H; try discriminate Hb;
    try (vm_compute in H; discriminate H).
  - (* PDisconnect *)
    destruct (h_rl h =? 0) eqn:E0; [discriminate Hb|].
    unfold V5.disconnect_decode, bind in H. rewrite E0 in H.
    destruct (h_rl h =? 1); vm_compute in H; discriminate H.
  - (* PAuth *)
    destruct (h_rl h =? 0) eqn:E0; [discriminate Hb|].
    unfold V5.auth_decode, bind in H. rewrite E0 in H. vm_compute in H. discriminate H.
Time Qed.

Local Notation frame5 prof :=
  (frame V5.packet V5.header_new_with (V5.body_decode_async prof)).

(* the encoding of a valid packet is a frame *)
Lemma encode_frame5 (prof : profile) (p : V5.packet) (vb : varbytes) :
  I5.valid p = true -> V5.encode prof p = Ok vb -> frame5 prof (V5.control_byte p) p (as_ref vb).
Proof.
  intros Hv He.
  pose proof (V5RT.v5_roundtrip TopicFilterEq.filter_profile_indep prof p vb Hv He) as Hrt.
  destruct (V5.body_enc p) as [[chunks blen]|] eqn:Eb.
  - destruct (V5Len.encode_inv prof p vb chunks blen Eb He) as (n & -> & Hn & Hshape).
    exists n, (concat chunks).
    split; [exact Hshape|]. split; [exact Hn|].
    split; [exact (V5Len.v5_parts_len p chunks n Hv Eb)|exact Hrt].
  - exists 0, [].
    destruct (V5Len.body_enc_none p Eb) as [-> | ->]; cbn [V5.encode] in He; inversion He; subst vb;
      (split; [reflexivity|]); (split; [reflexivity|]); (split; [reflexivity|exact Hrt]).
Time Qed.

