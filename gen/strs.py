"""gen/strs.py — string generators for the topic properties (C16 C17 C18): bounded-exhaustive strings
over the alphabet covering every character class the validators distinguish, behind every relevant
prefix shape; long strings around the 65,535-byte limit; UTF-8 boundary sequences."""
import itertools

ALPHA = [b'/', b'+', b'#', b'$', b'a', b'\x00', 'é'.encode(), '你'.encode(), '\U0001F600'.encode()]
# characters whose code point, truncated to 8 bits, is '/', '#', '+' or NUL; the byte order mark; C0/C1 controls
WIDE = [b'/', b'+', b'#', b'a', '\ufeff'.encode(), '\u012f'.encode(), '\u0123'.encode(), '\u012b'.encode(), '\u0100'.encode(),
        '\u4e2b'.encode(), '\U0001F623'.encode(), b'\t', b'\x7f', '\u0085'.encode()]
PREFIXES = [b'', b'$share/', b'$share/g/', '$share/你/'.encode(), b'$share', b'$shar/', b'$s/', b'$SYS/',
            b'$share//', b'$share/g', b'$Share/g/', b'x$share/g/']


def exhaustive(maxlen, alpha=ALPHA):
    for n in range(0, maxlen + 1):
        for t in itertools.product(alpha, repeat=n):
            yield b''.join(t)


def with_prefixes(strings, prefixes=PREFIXES):
    for s in strings:
        for p in prefixes:
            yield p + s


def sampled(rng, count, maxlen, alpha=ALPHA):
    for _ in range(count):
        n = rng.randint(0, maxlen)
        yield b''.join(rng.choice(alpha) for _ in range(n))


def long_strings(rng):
    """around the 65,535-byte limit, valid and invalid in various ways"""
    out = []
    for n in (65533, 65534, 65535, 65536, 65537):
        out.append(b'a' * n)
        out.append(b'a/' * (n // 2) + b'b' * (n % 2))
        out.append(b'$share/g/' + b'a' * (n - 9))
        out.append(b'a' * (n - 2) + b'/#')
        out.append(b'a' * (n - 2) + b'/+')
        out.append(b'a' * (n - 1) + b'#')
        out.append('你'.encode() * (n // 3) + b'a' * (n % 3))
        out.append(b'$share/' + '你'.encode() * ((n - 9) // 3) + b'/' + b'a' * (2 + (n - 9) % 3 - 1))
        out.append(b'a' * (n - 1) + b'\x00')
    return out


UTF8_EDGE = [
    b'\xc0\x80', b'\xc1\xbf', b'\xc2\x80', b'\xc2\x7f', b'\xdf\xbf', b'\xdf\xc0', b'\xe0\x9f\xbf', b'\xe0\xa0\x80',
    b'\xed\x9f\xbf', b'\xed\xa0\x80', b'\xed\xbf\xbf', b'\xee\x80\x80', b'\xef\xbf\xbf', b'\xf0\x8f\xbf\xbf',
    b'\xf0\x90\x80\x80', b'\xf4\x8f\xbf\xbf', b'\xf4\x90\x80\x80', b'\xf5\x80\x80\x80', b'\xff', b'\xfe', b'\x80',
    b'\xbf', b'\xe4\xbd', b'\xe4', b'\xf0\x9f\x98', b'a\xe4\xbd\xa0', b'\xe4\xbd\xa0a', b'\xc2', b'\xe1\x80', b'\xf1\x80\x80',
    b'\xe1\x80\xc0', b'\xf1\x80\x80\xc0', b'\xf1\xc0\x80\x80', b'\xf8\x88\x80\x80\x80']
