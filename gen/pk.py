"""gen/pk.py — packet values for both families: random generation inside the codec's valid domain,
serialisation to the token format of FORMAT.md, and an independent Python encoder with fault
injection hooks (used only to *produce inputs*: well-formed frames, non-canonical spellings and the
malformations of the C20 catalogue).  Standard library only; every random choice comes from the
random.Random handed in."""

PROP_TYPES = {  # id -> wire type
    1: 'bool', 2: 'u32', 3: 'str', 8: 'topic', 9: 'bin', 11: 'var', 17: 'u32', 18: 'str', 19: 'u16',
    21: 'str', 22: 'bin', 23: 'bool', 24: 'u32', 25: 'bool', 26: 'str', 28: 'str', 31: 'str', 33: 'u16',
    34: 'u16', 35: 'u16', 36: 'qos', 37: 'bool', 39: 'u32', 40: 'bool', 41: 'bool', 42: 'bool'}
# macro order of each properties struct (the order the library writes them in)
PROPS = {
    'connect': [17, 33, 39, 34, 25, 23, 21, 22],
    'will': [24, 1, 2, 3, 8, 9],
    'connack': [17, 33, 36, 37, 39, 18, 34, 31, 40, 41, 42, 19, 26, 28, 21, 22],
    'publish': [1, 2, 35, 8, 9, 11, 3],
    'puback': [31], 'pubrec': [31], 'pubrel': [31], 'pubcomp': [31], 'suback': [31], 'unsuback': [31],
    'subscribe': [11], 'unsubscribe': [], 'disconnect': [17, 31, 28], 'auth': [21, 22, 31]}
CODES5 = {
    'connack': [0, 128, 129, 130, 131, 132, 133, 134, 135, 136, 137, 138, 140, 144, 149, 151, 153, 154, 155, 156, 157, 159],
    'puback': [0, 16, 128, 131, 135, 144, 145, 151, 153], 'pubrec': [0, 16, 128, 131, 135, 144, 145, 151, 153],
    'pubrel': [0, 146], 'pubcomp': [0, 146],
    'suback': [0, 1, 2, 128, 131, 135, 143, 145, 151, 158, 161, 162],
    'unsuback': [0, 17, 128, 131, 135, 143, 145],
    'disconnect': [0, 4, 128, 129, 130, 131, 135, 137, 139, 141, 142, 143, 144, 147, 148, 149, 150, 151, 152,
                   153, 154, 155, 156, 157, 158, 159, 160, 161, 162],
    'auth': [0, 24, 25]}
TYPE_NUM = {'connect': 1, 'connack': 2, 'publish': 3, 'puback': 4, 'pubrec': 5, 'pubrel': 6, 'pubcomp': 7,
            'subscribe': 8, 'suback': 9, 'unsubscribe': 10, 'unsuback': 11, 'pingreq': 12, 'pingresp': 13,
            'disconnect': 14, 'auth': 15}
KINDS3 = ['connect', 'connack', 'publish', 'puback', 'pubrec', 'pubrel', 'pubcomp', 'subscribe', 'suback',
          'unsubscribe', 'unsuback', 'pingreq', 'pingresp', 'disconnect']
KINDS5 = KINDS3 + ['auth']


def hx(b):
    return 'x' + bytes(b).hex()


# ---------------------------------------------------------------- random values
class Gen:
    def __init__(self, rng, big=0.02):
        self.r = rng
        self.big = big            # probability of a boundary-sized field

    def length(self, small=12):
        r = self.r
        if r.random() < self.big:
            return r.choice([127, 128, 129, 300, 16383, 16384, 65534, 65535])
        x = r.random()
        if x < 0.15:
            return 0
        return r.randint(1, small)

    def text(self, n=None):
        """valid UTF-8 of exactly n bytes (n drawn if None)"""
        r = self.r
        if n is None:
            n = self.length()
        out = bytearray()
        if n >= 3 and r.random() < 0.03:
            out += '\ufeff'.encode()          # a leading byte order mark is data, never stripped
        while len(out) < n:
            left = n - len(out)
            k = r.random()
            if left >= 4 and k < 0.03:
                out += '\U0001F600'.encode()
            elif left >= 3 and k < 0.08:
                out += r.choice(['你', '好', '€', '￿', '퟿', '', '\ufeff', '\u4e2b', '\u4e00']).encode()
            elif left >= 2 and k < 0.15:
                out += r.choice(['é', 'ß', '\u0080', '߿', '\u012f', '\u0123', '\u012b', '\u0100']).encode()
            elif k < 0.17:
                out.append(0)              # U+0000 is tolerated outside topics (L5)
            else:
                out.append(r.choice(b'abcdefghijklmnopqrstuvwxyzABCXYZ0123456789 _-.:$'))
        return bytes(out)

    def binary(self, n=None):
        if n is None:
            n = self.length()
        return bytes(self.r.getrandbits(8) for _ in range(n))

    def word(self, n=None):
        """UTF-8 without '/', '+', '#', NUL"""
        t = self.text(n if n is not None else self.r.randint(0, 5))
        return bytes(c if c not in (0, 0x2f, 0x2b, 0x23) else 0x61 for c in t)

    def topic_name(self):
        r = self.r
        if r.random() < self.big:
            n = r.choice([127, 128, 16383, 65535])
            return self.word(n)
        if r.random() < 0.05:
            return b''
        levels = [self.word() for _ in range(r.randint(1, 4))]
        s = b'/'.join(levels)
        if r.random() < 0.1:
            s = r.choice([b'$SYS/', b'$share/', b'/']) + s
        return s

    def topic_filter(self):
        r = self.r
        n = r.randint(1, 4)
        levels = []
        for i in range(n):
            k = r.random()
            if k < 0.2:
                levels.append(b'+')
            elif k < 0.3 and i == n - 1:
                levels.append(b'#')
            else:
                levels.append(self.word())
        s = b'/'.join(levels)
        if s == b'':
            s = b'a'
        if r.random() < 0.25:
            g = self.word(r.randint(1, 6))
            if g == b'':
                g = b'g'
            s = b'$share/' + g + b'/' + s
        elif r.random() < 0.05:
            s = b'$SYS/' + s
        if r.random() < self.big and not s.startswith(b'$'):
            w = self.word(r.choice([125, 16380, 65535 - len(s) - 1]))
            s = (w if w else b'x') + b'/' + s
        return s

    def pid(self):
        r = self.r
        return r.choice([1, 2, 255, 256, 65535, r.randint(1, 65535)])

    def u16(self):
        return self.r.choice([0, 1, 255, 256, 65535, self.r.randint(0, 65535)])

    def u32(self):
        return self.r.choice([0, 1, 65536, 4294967295, self.r.randint(0, 4294967295)])

    def var(self):
        return self.r.choice([0, 1, 127, 128, 16383, 16384, 2097151, 2097152, 268435455,
                              self.r.randint(0, 268435455)])

    def users(self):
        r = self.r
        k = r.choice([0, 0, 0, 1, 1, 2, 3]) if r.random() > 0.03 else r.randint(4, 40)
        return [(self.text(), self.text()) for _ in range(k)]

    def props(self, kind, presence=None):
        """dict id -> value, list of user props.  presence: None random 1/2, 'all', 'none'"""
        r = self.r
        d = {}
        for pid_ in PROPS[kind]:
            if presence == 'none' or (presence is None and r.random() < 0.5):
                continue
            t = PROP_TYPES[pid_]
            if t == 'bool':
                d[pid_] = r.randint(0, 1)
            elif t == 'qos':
                d[pid_] = r.randint(0, 1)
            elif t == 'u16':
                d[pid_] = self.u16()
            elif t == 'u32':
                d[pid_] = self.u32()
            elif t == 'var':
                d[pid_] = self.var()
            elif t == 'str':
                d[pid_] = self.text()
            elif t == 'topic':
                d[pid_] = self.topic_name()
            else:
                d[pid_] = self.binary()
        users = [] if presence == 'none' else self.users()
        return (d, users)

    def payload_for(self, props):
        if props[0].get(1) == 1:
            return self.text()
        return self.binary()

    # ---- packets: tuples ('kind', fields...) ----
    def v3(self, kind=None):
        r = self.r
        kind = kind or r.choice(KINDS3)
        if kind == 'connect':
            will = None
            if r.random() < 0.5:
                will = (r.randint(0, 2), r.randint(0, 1), self.topic_name(), self.binary())
            return ('connect', r.choice([3, 4]), r.randint(0, 1), self.u16(), self.text(), will,
                    self.text() if r.random() < 0.5 else None, self.binary() if r.random() < 0.5 else None)
        if kind == 'connack':
            return ('connack', r.randint(0, 1), r.randint(0, 5))
        if kind == 'publish':
            q = r.randint(0, 2)
            return ('publish', r.randint(0, 1), r.randint(0, 1), q, self.pid() if q else 0, self.topic_name(),
                    self.binary(r.choice([0, 1, 5, 20]) if r.random() > self.big else r.choice([127, 128, 16383, 16384, 70000])))
        if kind in ('puback', 'pubrec', 'pubrel', 'pubcomp', 'unsuback'):
            return (kind, self.pid())
        if kind == 'subscribe':
            return ('subscribe', self.pid(), [(self.topic_filter(), r.randint(0, 2)) for _ in range(r.randint(1, 4))])
        if kind == 'suback':
            return ('suback', self.pid(), [r.choice([0, 1, 2, 128]) for _ in range(r.randint(0, 5))])
        if kind == 'unsubscribe':
            return ('unsubscribe', self.pid(), [self.topic_filter() for _ in range(r.randint(1, 4))])
        return (kind,)

    def v5(self, kind=None, presence=None):
        r = self.r
        kind = kind or r.choice(KINDS5)
        if kind == 'connect':
            will = None
            if r.random() < 0.5:
                wp = self.props('will', presence)
                will = (r.randint(0, 2), r.randint(0, 1), wp, self.topic_name(), self.payload_for(wp))
            return ('connect', 5, r.randint(0, 1), self.u16(), self.props('connect', presence), self.text(), will,
                    self.text() if r.random() < 0.5 else None, self.binary() if r.random() < 0.5 else None)
        if kind == 'connack':
            return ('connack', r.randint(0, 1), r.choice(CODES5['connack']), self.props('connack', presence))
        if kind == 'publish':
            q = r.randint(0, 2)
            pr = self.props('publish', presence)
            return ('publish', r.randint(0, 1), r.randint(0, 1), q, self.pid() if q else 0, self.topic_name(), pr,
                    self.payload_for(pr))
        if kind in ('puback', 'pubrec', 'pubrel', 'pubcomp'):
            pr = self.props(kind, presence if presence else r.choice([None, 'none', 'none']))
            return (kind, self.pid(), r.choice(CODES5[kind]), pr)
        if kind == 'subscribe':
            return ('subscribe', self.pid(), self.props('subscribe', presence),
                    [(self.topic_filter(), r.randint(0, 2), r.randint(0, 1), r.randint(0, 1), r.randint(0, 2))
                     for _ in range(r.randint(1, 4))])
        if kind in ('suback', 'unsuback'):
            return (kind, self.pid(), self.props(kind, presence), [r.choice(CODES5[kind]) for _ in range(r.randint(0, 5))])
        if kind == 'unsubscribe':
            return ('unsubscribe', self.pid(), self.props('unsubscribe', presence),
                    [self.topic_filter() for _ in range(r.randint(1, 4))])
        if kind in ('disconnect', 'auth'):
            pr = self.props(kind, presence if presence else r.choice([None, 'none', 'none']))
            return (kind, r.choice(CODES5[kind]), pr)
        return (kind,)


# ---------------------------------------------------------------- tokens (FORMAT.md §2)
def _opt(v, f):
    return '-' if v is None else '+ ' + f(v)


def _lst(l, f):
    return ' '.join([str(len(l))] + [f(x) for x in l])


def props_tok(p):
    d, users = p
    items = sorted(d.items())
    def val(i, v):
        return str(v) if PROP_TYPES[i] in ('bool', 'qos', 'u16', 'u32', 'var') else hx(v)
    return _lst(items, lambda kv: '%d %s' % (kv[0], val(*kv))) + ' ' + _lst(users, lambda u: hx(u[0]) + ' ' + hx(u[1]))


def tok3(p):
    k = p[0]
    if k == 'connect':
        _, proto, clean, ka, cid, will, user, pw = p
        return ' '.join(['connect', str(proto), str(clean), str(ka), hx(cid),
                         _opt(will, lambda w: '%d %d %s %s' % (w[0], w[1], hx(w[2]), hx(w[3]))),
                         _opt(user, hx), _opt(pw, hx)])
    if k == 'connack':
        return 'connack %d %d' % (p[1], p[2])
    if k == 'publish':
        return 'publish %d %d %d %d %s %s' % (p[1], p[2], p[3], p[4], hx(p[5]), hx(p[6]))
    if k in ('puback', 'pubrec', 'pubrel', 'pubcomp', 'unsuback'):
        return '%s %d' % (k, p[1])
    if k == 'subscribe':
        return 'subscribe %d %s' % (p[1], _lst(p[2], lambda t: '%s %d' % (hx(t[0]), t[1])))
    if k == 'suback':
        return 'suback %d %s' % (p[1], _lst(p[2], str))
    if k == 'unsubscribe':
        return 'unsubscribe %d %s' % (p[1], _lst(p[2], hx))
    return k


def tok5(p):
    k = p[0]
    if k == 'connect':
        _, proto, clean, ka, pr, cid, will, user, pw = p
        return ' '.join(['connect', str(proto), str(clean), str(ka), props_tok(pr), hx(cid),
                         _opt(will, lambda w: '%d %d %s %s %s' % (w[0], w[1], props_tok(w[2]), hx(w[3]), hx(w[4]))),
                         _opt(user, hx), _opt(pw, hx)])
    if k == 'connack':
        return 'connack %d %d %s' % (p[1], p[2], props_tok(p[3]))
    if k == 'publish':
        return 'publish %d %d %d %d %s %s %s' % (p[1], p[2], p[3], p[4], hx(p[5]), props_tok(p[6]), hx(p[7]))
    if k in ('puback', 'pubrec', 'pubrel', 'pubcomp'):
        return '%s %d %d %s' % (k, p[1], p[2], props_tok(p[3]))
    if k == 'subscribe':
        return 'subscribe %d %s %s' % (p[1], props_tok(p[2]),
                                       _lst(p[3], lambda t: '%s %d %d %d %d' % (hx(t[0]), t[1], t[2], t[3], t[4])))
    if k in ('suback', 'unsuback'):
        return '%s %d %s %s' % (k, p[1], props_tok(p[2]), _lst(p[3], str))
    if k == 'unsubscribe':
        return 'unsubscribe %d %s %s' % (p[1], props_tok(p[2]), _lst(p[3], hx))
    if k in ('disconnect', 'auth'):
        return '%s %d %s' % (k, p[1], props_tok(p[2]))
    return k


def tok(fam, p):
    return tok3(p) if fam == 'v3' else tok5(p)


# ---------------------------------------------------------------- Python encoder with hooks
def vbi(n, width=None):
    """variable byte integer; width forces a (possibly non-minimal) number of bytes"""
    out = bytearray()
    if width is None:
        while True:
            b = n % 128
            n //= 128
            if n:
                out.append(b | 128)
            else:
                out.append(b)
                return bytes(out)
    for i in range(width):
        b = n % 128
        n //= 128
        out.append(b | (128 if i < width - 1 else 0))
    return bytes(out)


class W:
    """byte writer; every primitive write announces its kind to the fault hook, which may replace
    the bytes.  fault = (kind, index, fn) : the index-th primitive of that kind is written as
    fn(original_bytes, context) instead.  `seen` records (kind, index, context) of every primitive
    so that generators can enumerate the positions where a fault applies."""

    def __init__(self, fault=None, counts=None, seen=None, spell=None):
        self.out = bytearray()
        self.fault = fault
        self.counts = counts if counts is not None else {}
        self.seen = seen if seen is not None else []
        self.spell = spell or {}
        self.hit = None

    def sub(self):
        w = W(self.fault, self.counts, self.seen, self.spell)
        return w

    def put(self, kind, b, ctx=None):
        i = self.counts.get(kind, 0)
        self.counts[kind] = i + 1
        self.seen.append((kind, i, ctx))
        if self.fault and self.fault[0] == kind and self.fault[1] == i:
            b = self.fault[2](bytes(b), ctx)
        self.out += b

    def u8(self, v, kind='u8', ctx=None):
        self.put(kind, bytes([v]), ctx)

    def u16(self, v, kind='u16', ctx=None):
        self.put(kind, bytes([v >> 8, v & 255]), ctx)

    def u32(self, v, kind='u32', ctx=None):
        self.put(kind, v.to_bytes(4, 'big'), ctx)

    def lp(self, s, kind, ctx=None):
        """length-prefixed field: the fault hook sees prefix+data"""
        self.put(kind, bytes([len(s) >> 8, len(s) & 255]) + bytes(s), ctx)

    def raw(self, s, kind='raw', ctx=None):
        self.put(kind, bytes(s), ctx)

    def section(self, w, kind, ctx=None):
        """a var-int-length-prefixed section (property list)"""
        width = self.spell.get('plen_width')
        self.put(kind, vbi(len(w.out), width) + bytes(w.out), ctx)


def enc_props(w, kind, p, ptype_ctx, order=None):
    d, users = p
    sec = w.sub()
    ids = [i for i in PROPS[kind] if i in d]
    if order is not None:
        ids = order(ids)
    items = [('p', i) for i in ids] + [('u', u) for u in users]
    if w.spell.get('interleave'):
        items = w.spell['interleave'](items)
    for tag, x in items:
        if tag == 'u':
            sec.put('propid', bytes([38]), (kind, 38))
            sec.lp(x[0], 'str', ('user',))
            sec.lp(x[1], 'str', ('user',))
            continue
        i = x
        t = PROP_TYPES[i]
        v = d[i]
        one = sec.sub()
        one.put('propid', bytes([i]), (kind, i))
        if t == 'bool':
            one.u8(v, 'boolprop', (i,))
        elif t == 'qos':
            one.u8(v, 'boolprop', (i,))
        elif t == 'u16':
            one.u16(v, 'u16')
        elif t == 'u32':
            one.u32(v, 'u32')
        elif t == 'var':
            one.put('propvar', vbi(v, w.spell.get('subid_width')), (i,))
        elif t == 'str':
            one.lp(v, 'str', ('prop', i))
        elif t == 'topic':
            one.lp(v, 'resptopic', (i,))
        else:
            one.lp(v, 'bin')
        sec.put('prop', bytes(one.out), (kind, i, ptype_ctx))
    w.section(sec, 'props', (kind,))


def enc_body(fam, p, w):
    """writes the body of packet p into w; returns the control byte"""
    k = p[0]
    v5 = fam == 'v5'
    if k == 'connect':
        if v5:
            _, proto, clean, ka, pr, cid, will, user, pw = p
        else:
            _, proto, clean, ka, cid, will, user, pw = p
            pr = None
        name = b'MQIsdp' if proto == 3 else b'MQTT'
        w.lp(name, 'protoname')
        w.u8(proto, 'protolevel')
        flags = (clean << 1) | (128 if user is not None else 0) | (64 if pw is not None else 0)
        if will is not None:
            flags |= 4 | (will[0] << 3) | (will[1] << 5)
        w.u8(flags, 'connflags', (will is not None,))
        w.u16(ka)
        if v5:
            enc_props(w, 'connect', pr, 'connect')
        w.lp(cid, 'str', ('clientid',))
        if will is not None:
            if v5:
                enc_props(w, 'will', will[2], 'will')
                w.lp(will[3], 'topicname', ('will',))
                w.lp(will[4], 'willpayload', (will[2][0].get(1),))
            else:
                w.lp(will[2], 'topicname', ('will',))
                w.lp(will[3], 'bin')
        if user is not None:
            w.lp(user, 'str', ('username',))
        if pw is not None:
            w.lp(pw, 'bin')
        return 0x10
    if k == 'connack':
        w.u8(p[1], 'connackflags')
        w.u8(p[2], 'code', ('connack',) if v5 else ('crc3',))
        if v5:
            enc_props(w, 'connack', p[3], 'connack')
        return 0x20
    if k == 'publish':
        if v5:
            _, dup, retain, q, pid, topic, pr, payload = p
        else:
            _, dup, retain, q, pid, topic, payload = p
            pr = None
        w.lp(topic, 'topicname', ('publish',))
        if q:
            w.u16(pid, 'pid')
        if v5:
            enc_props(w, 'publish', pr, 'publish')
        w.raw(payload, 'payload', (pr[0].get(1) if pr else None,))
        return 0x30 | (dup << 3) | (q << 1) | retain
    if k in ('puback', 'pubrec', 'pubrel', 'pubcomp'):
        cb = {'puback': 0x40, 'pubrec': 0x50, 'pubrel': 0x62, 'pubcomp': 0x70}[k]
        w.u16(p[1], 'pid')
        if v5:
            code, pr = p[2], p[3]
            short = w.spell.get('short', True)
            default = (pr == ({}, []))
            if default and short:
                if code != 0:
                    w.u8(code, 'code', (k,))
            else:
                w.u8(code, 'code', (k,))
                if not (default and w.spell.get('nolen')):
                    enc_props(w, k, pr, k)
        return cb
    if k == 'unsuback' and not v5:
        w.u16(p[1], 'pid')
        return 0xB0
    if k == 'subscribe':
        w.u16(p[1], 'pid')
        if v5:
            enc_props(w, 'subscribe', p[2], 'subscribe')
            for (f, q, nl, rap, rh) in p[3]:
                w.lp(f, 'filter')
                w.u8(q | (nl << 2) | (rap << 3) | (rh << 4), 'subopts')
        else:
            for (f, q) in p[2]:
                w.lp(f, 'filter')
                w.u8(q, 'subqos')
        return 0x82
    if k in ('suback', 'unsuback'):
        w.u16(p[1], 'pid')
        if v5:
            enc_props(w, k, p[2], k)
            for c in p[3]:
                w.u8(c, 'code', (k,))
        else:
            for c in p[2]:
                w.u8(c, 'code', ('src3',))
        return 0x90 if k == 'suback' else 0xB0
    if k == 'unsubscribe':
        w.u16(p[1], 'pid')
        if v5:
            enc_props(w, 'unsubscribe', p[2], 'unsubscribe')
            for f in p[3]:
                w.lp(f, 'filter')
        else:
            for f in p[2]:
                w.lp(f, 'filter')
        return 0xA2
    if k == 'pingreq':
        return 0xC0
    if k == 'pingresp':
        return 0xD0
    if k == 'disconnect':
        if v5:
            code, pr = p[1], p[2]
            short = w.spell.get('short', True)
            default = (pr == ({}, []))
            if default and short:
                if code != 0:
                    w.u8(code, 'code', ('disconnect',))
            else:
                w.u8(code, 'code', ('disconnect',))
                if not (default and w.spell.get('nolen')):
                    enc_props(w, 'disconnect', pr, 'disconnect')
        return 0xE0
    if k == 'auth':
        code, pr = p[1], p[2]
        short = w.spell.get('short', True)
        if not (code == 0 and pr == ({}, []) and short):
            w.u8(code, 'code', ('auth',))
            enc_props(w, 'auth', pr, 'auth')
        return 0xF0
    raise ValueError(k)


def encode(fam, p, fault=None, spell=None, seen=None, rl_width=None, rl_delta=0, cb_xor=0):
    """bytes of packet p.  fault: see W.  spell: dict of non-canonical spelling switches
    (short=False: spell optional reason code / property length out; plen_width / subid_width /
    rl_width: non-minimal variable byte integers; interleave: permutation of property items)."""
    w = W(fault, seen=seen, spell=spell)
    cb = enc_body(fam, p, w)
    body = bytes(w.out)
    return bytes([cb ^ cb_xor]) + vbi(len(body) + rl_delta, rl_width) + body


def positions(fam, p):
    """the (kind, index, ctx) primitives of the encoding of p"""
    seen = []
    encode(fam, p, seen=seen)
    return seen
