"""gen/pools.py — pools of valid packets (G-pkt): every type, every enumerable field exhaustively,
property presence patterns, size-targeted packets at every length-width boundary."""
import pk
from pk import PROPS, CODES5, KINDS3, KINDS5


def sized_publish(fam, target_rl, g, qos=1):
    """a PUBLISH whose remaining length is exactly target_rl"""
    topic = b't/x'
    if fam == 'v3':
        p = ['publish', 0, 0, qos, 5 if qos else 0, topic, b'']
        base = len(pk.encode(fam, tuple(p))) - 2
        p[6] = g.binary(max(0, target_rl - base))
    else:
        p = ['publish', 0, 0, qos, 5 if qos else 0, topic, ({}, []), b'']
        base = len(pk.encode(fam, tuple(p))) - 2
        p[7] = g.binary(max(0, target_rl - base))
    return tuple(p)


def sized_props(kind, target_plen, g):
    """properties of struct `kind` whose encoded property length is exactly target_plen"""
    users = []
    left = target_plen
    while left > 0:
        if left < 5:
            return None
        take = min(left, 5 + 65535 + 65535)
        body = take - 5
        n = min(body, 65535)
        v = body - n
        if left - take in (1, 2, 3, 4):       # leave room for a last well-formed property
            n -= 5
            take -= 5
        users.append((g.text(n), g.text(v)))
        left -= take
    return ({}, users)


def packets(rng, tier, fam, n_random=None):
    g = pk.Gen(rng)
    out = []
    dist = {}
    kinds = KINDS3 if fam == 'v3' else KINDS5
    n = n_random if n_random is not None else (120 if tier == 'quick' else 3000)
    mk = g.v3 if fam == 'v3' else g.v5
    for k in kinds:
        for _ in range(n if k not in ('pingreq', 'pingresp') and not (fam == 'v3' and k == 'disconnect') else 1):
            out.append(mk(k))
    # exhaustive small domains
    if fam == 'v3':
        for sp in (0, 1):
            for code in range(6):
                out.append(('connack', sp, code))
        for dup in (0, 1):
            for ret in (0, 1):
                for q in (0, 1, 2):
                    out.append(('publish', dup, ret, q, 7 if q else 0, b'a/b', b'xyz'))
        for clean in (0, 1):
            for wq in (None, 0, 1, 2):
                for wr in (0, 1):
                    for u in (None, b'u'):
                        for pw in (None, b'\x00\xff'):
                            for proto in (3, 4):
                                will = None if wq is None else (wq, wr, b'w/t', b'bye')
                                out.append(('connect', proto, clean, 60, b'cid', will, u, pw))
        for codes in ([], [0], [1], [2], [128], [0, 1, 2, 128], [128, 128]):
            out.append(('suback', 9, codes))
        for q in (0, 1, 2):
            out.append(('subscribe', 10, [(b'a/+', q), (b'#', (q + 1) % 3)]))
    else:
        for k in CODES5:
            for code in CODES5[k]:
                for pres in ('none', 'all'):
                    pr = g.props(k, pres)
                    if k == 'connack':
                        for sp in (0, 1):
                            out.append(('connack', sp, code, pr))
                    elif k in ('puback', 'pubrec', 'pubrel', 'pubcomp'):
                        out.append((k, g.pid(), code, pr))
                    elif k in ('suback', 'unsuback'):
                        out.append((k, g.pid(), pr, [code]))
                        out.append((k, g.pid(), pr, [code, CODES5[k][0], code]))
                    else:
                        out.append((k, code, pr))
        for k in ('suback', 'unsuback'):
            out.append((k, 1, ({}, []), []))
        for q in (0, 1, 2):
            for nl in (0, 1):
                for rap in (0, 1):
                    for rh in (0, 1, 2):
                        out.append(('subscribe', 11, g.props('subscribe'), [(b'a/#', q, nl, rap, rh), (b'$share/g/+', rh, rap, nl, q)]))
        for dup in (0, 1):
            for ret in (0, 1):
                for q in (0, 1, 2):
                    out.append(('publish', dup, ret, q, 7 if q else 0, b'a/b', g.props('publish', 'none'), b'xyz'))
        for clean in (0, 1):
            for wq in (None, 0, 1, 2):
                for wr in (0, 1):
                    for u in (None, b'u'):
                        for pw in (None, b'\x00\xff'):
                            will = None if wq is None else (wq, wr, g.props('will'), b'w/t', b'bye' if True else b'')
                            if will and will[2][0].get(1) == 1:
                                will = (wq, wr, will[2], b'w/t', b'bye')
                            out.append(('connect', 5, clean, 60, g.props('connect'), b'cid', will, u, pw))
        # every property alone, all together, none
        for k in PROPS:
            if k == 'will':
                continue
            for pres in ('all', 'none'):
                out.append(mk(k, pres))
            for pid_ in PROPS[k]:
                allp = g.props(k, 'all')
                one = ({pid_: allp[0][pid_]}, [])
                p = list(mk(k, 'none'))
                idx = {'connect': 4, 'connack': 3, 'publish': 6, 'subscribe': 2, 'suback': 2, 'unsuback': 2,
                       'unsubscribe': 2, 'disconnect': 2, 'auth': 2}.get(k, 3)
                p[idx] = one
                if k == 'publish' and pid_ == 1:
                    p[7] = b'utf8 text'
                out.append(tuple(p))
                # the same property alone with its smallest value (empty string / empty binary / 0): present, not absent
                t_ = pk.PROP_TYPES[pid_]
                small = b'' if t_ in ('str', 'bin', 'topic') else 0
                q = list(p)
                q[idx] = ({pid_: small}, [])
                if k == 'publish' and pid_ == 1:
                    q[7] = b'\x80binary'
                out.append(tuple(q))
        for pid_ in PROPS['will']:
            allp = g.props('will', 'all')
            wp = ({pid_: allp[0][pid_]}, [(b'k', b'v')])
            out.append(('connect', 5, 1, 0, ({}, []), b'', (1, 1, wp, b'w', b'text'), None, None))
            t_ = pk.PROP_TYPES[pid_]
            wp0 = ({pid_: (b'' if t_ in ('str', 'bin', 'topic') else 0)}, [])
            out.append(('connect', 5, 0, 0, ({}, []), b'', (0, 0, wp0, b'w', b'\x80binary'), None, None))
        # value boundaries of the subscription identifier
        for v in (0, 1, 127, 128, 16383, 16384, 2097151, 2097152, 268435455):
            out.append(('subscribe', 1, ({11: v}, []), [(b'a', 0, 0, 0, 0)]))
            out.append(('publish', 0, 0, 0, 0, b't', ({11: v}, []), b''))
    # size-targeted remaining lengths
    targets = [127, 128, 129, 16383, 16384, 16385]
    if tier == 'thorough':
        targets += [2097151, 2097152, 2097153]
    for t in targets:
        for q in (0, 1):
            out.append(sized_publish(fam, t, g, q))
    if fam == 'v5':
        ptargets = [127, 128, 16383, 16384] + ([2097151, 2097152] if tier == 'thorough' else [])
        for t in ptargets:
            for k in ('publish', 'puback', 'unsubscribe', 'connack', 'disconnect', 'auth', 'subscribe', 'suback', 'connect'):
                pr = sized_props(k, t, g)
                if pr is None:
                    continue
                if k == 'publish':
                    out.append(('publish', 0, 0, 1, 3, b't', pr, b'p'))
                elif k == 'puback':
                    out.append(('puback', 3, 16, pr))
                    out.append(('pubrel', 3, 0, pr))
                elif k == 'unsubscribe':
                    out.append(('unsubscribe', 3, pr, [b'a/b', b'#']))
                elif k == 'connack':
                    out.append(('connack', 0, 0, pr))
                elif k == 'disconnect':
                    out.append(('disconnect', 0, pr))
                elif k == 'auth':
                    out.append(('auth', 0, pr))
                elif k == 'subscribe':
                    out.append(('subscribe', 3, pr, [(b'a', 1, 0, 0, 0)]))
                elif k == 'suback':
                    out.append(('suback', 3, pr, [0, 128]))
                else:
                    out.append(('connect', 5, 1, 9, pr, b'c', (0, 0, pr, b'w', b'm'), None, None))
    # field length boundaries
    for ln in (0, 1, 127, 128, 16383, 16384, 65535):
        if fam == 'v3':
            out.append(('connect', 4, 1, 1, g.text(ln), (0, 0, g.word(min(ln, 65535)), g.binary(ln)), g.text(ln), g.binary(ln)))
            out.append(('publish', 0, 0, 0, 0, g.word(ln), g.binary(ln)))
        else:
            out.append(('connect', 5, 1, 1, ({21: g.text(ln), 22: g.binary(ln)}, [(g.text(ln), g.text(ln))]), g.text(ln),
                        (0, 0, ({3: g.text(ln), 9: g.binary(ln), 8: g.word(ln)}, []), g.word(ln), g.binary(ln)),
                        g.text(ln), g.binary(ln)))
            out.append(('publish', 0, 0, 0, 0, g.word(ln), ({3: g.text(ln)}, []), g.binary(ln)))
    # one maximal field at a time (65533..65535 bytes) in every length-prefixed position: sums of the form
    # 2 + len (+1, +2) done in 16 bits only go wrong here
    mf = max_field_packets(fam, tier)
    out += mf
    dist['max-field'] = len(mf)
    for p in out:
        dist[p[0]] = dist.get(p[0], 0) + 1
    return out, dist


def max_field_packets(fam, tier='thorough'):
    out = []
    e = ({}, [])
    for ln in (65533, 65534, 65535):
        w = (b'a/' * 32768)[:ln]          # a valid topic name and a valid topic filter
        t = (b'xy' * 32768)[:ln]
        if tier == 'quick' and ln != 65535:
            # quick tier: every position at 65,535 (beyond every 16-bit sum's limit), the shorter ones only where a
            # sum 2 + len (+ 1, + 2) is formed per entry
            if fam == 'v3':
                out += [('publish', 0, 0, 0, 0, w, b'p'), ('subscribe', 3, [(w, 1)]), ('unsubscribe', 3, [w])]
            else:
                out += [('publish', 0, 0, 0, 0, w, e, b'p'), ('subscribe', 3, e, [(w, 1, 0, 0, 0)]), ('unsubscribe', 3, e, [w])]
            continue
        if fam == 'v3':
            out += [('publish', 0, 0, 0, 0, w, b'p'), ('publish', 0, 0, 1, 7, w, b'p'), ('publish', 1, 1, 2, 7, w, b''),
                    ('subscribe', 3, [(w, 1)]), ('subscribe', 3, [(b'a', 0), (w, 2)]),
                    ('unsubscribe', 3, [w]), ('unsubscribe', 3, [b'a', w]),
                    ('connect', 4, 1, 10, t, None, None, None), ('connect', 4, 1, 10, b'c', (1, 0, w, b'm'), None, None),
                    ('connect', 3, 1, 10, b'c', (0, 0, b'w', t), None, None), ('connect', 4, 1, 10, b'c', None, t, None),
                    ('connect', 4, 1, 10, b'c', None, b'u', t)]
        else:
            out += [('publish', 0, 0, 0, 0, w, e, b'p'), ('publish', 0, 0, 1, 7, w, e, b'p'), ('publish', 1, 1, 2, 7, w, e, b''),
                    ('publish', 0, 0, 0, 0, b't', ({8: w}, []), b'p'), ('publish', 0, 0, 0, 0, b't', ({3: t}, []), b'p'),
                    ('publish', 0, 0, 0, 0, b't', ({9: t}, []), b'p'), ('publish', 0, 0, 0, 0, b't', ({}, [(t, b'v')]), b'p'),
                    ('publish', 0, 0, 0, 0, b't', ({}, [(b'k', t)]), b'p'),
                    ('subscribe', 3, e, [(w, 1, 0, 0, 0)]), ('subscribe', 3, e, [(b'a', 0, 1, 1, 2), (w, 2, 0, 0, 0)]),
                    ('unsubscribe', 3, e, [w]), ('unsubscribe', 3, e, [b'a', w]),
                    ('connect', 5, 1, 10, e, t, None, None, None), ('connect', 5, 1, 10, e, b'c', (1, 0, e, w, b'm'), None, None),
                    ('connect', 5, 1, 10, e, b'c', (0, 0, e, b'w', t), None, None), ('connect', 5, 1, 10, e, b'c', None, t, None),
                    ('connect', 5, 1, 10, e, b'c', None, b'u', t)]
            if ln != 65535:
                continue
            out += [('connect', 5, 1, 10, ({21: t}, []), b'c', None, None, None),
                    ('connect', 5, 1, 10, ({21: b'm', 22: t}, []), b'c', None, None, None),
                    ('connack', 0, 0, ({18: t}, [])), ('connack', 0, 0, ({31: t}, [])), ('connack', 0, 0, ({26: t}, [])),
                    ('puback', 3, 16, ({31: t}, [])), ('pubrel', 3, 146, ({31: t}, [])), ('suback', 3, ({31: t}, []), [0]),
                    ('unsuback', 3, ({31: t}, []), [0]), ('disconnect', 0, ({28: t}, [])), ('auth', 24, ({21: t}, []))]
    return out
