"""gen/frames.py — byte-level inputs for the decoding properties: legal non-canonical spellings
(G-spell), structure-aware corruptions (G-mut) and the C20 fault catalogue (G-fault)."""
import pk
from pk import PROPS, PROP_TYPES, CODES5, TYPE_NUM

BADUTF8 = [b'\xff', b'\xc0\x80', b'\xed\xa0\x80', b'\xf4\x90\x80\x80', b'\xe4\xbd', b'\x80']


def spellings(fam, p, rng):
    """legal encodings of p other than the canonical one; returns list of (bytes, minimal_varints)"""
    out = []
    canon = pk.encode(fam, p)
    def add(b, minimal=True):
        if b != canon:
            out.append((b, minimal))
    if fam == 'v5':
        add(pk.encode(fam, p, spell={'short': False}))
        perm = lambda items: rng.sample(items, len(items))
        add(pk.encode(fam, p, spell={'interleave': perm}))
        add(pk.encode(fam, p, spell={'interleave': perm, 'short': False}))
        for w in (2, 3, 4):
            add(pk.encode(fam, p, spell={'plen_width': w, 'short': False}), False)
        add(pk.encode(fam, p, spell={'subid_width': 4}), False)
    body_len = len(canon) - pk_header_len(canon)
    for w in (2, 3, 4):
        if len(pk.vbi(body_len)) < w:
            add(pk.encode(fam, p, rl_width=w), False)
    return out


def pk_header_len(b):
    j = 1
    while b[j] & 0x80:
        j += 1
    return j + 1


def mutations(b, rng, n=6):
    """structure-aware and random corruptions of the frame b"""
    out = []
    L = len(b)
    hl = pk_header_len(b)
    for _ in range(n):
        k = rng.random()
        m = bytearray(b)
        if k < 0.2 and L > 0:                       # bit flip
            i = rng.randrange(L)
            m[i] ^= 1 << rng.randrange(8)
        elif k < 0.35 and L > 0:                    # byte replace
            m[rng.randrange(L)] = rng.choice([0, 1, 2, 3, 0x7f, 0x80, 0xff, rng.getrandbits(8)])
        elif k < 0.5:                               # truncate
            m = m[:rng.randrange(L + 1)]
        elif k < 0.6:                               # extend
            m += bytes(rng.getrandbits(8) for _ in range(rng.randint(1, 4)))
        elif k < 0.75:                              # remaining length +-1 / 0 / max, body kept
            rl = L - hl
            new = rng.choice([max(0, rl - 1), rl + 1, 0, 127, 128, 268435455, rl + rng.randint(2, 300)])
            m = bytearray(b[:1]) + pk.vbi(new) + b[hl:]
        elif k < 0.85 and L > hl + 2:               # inner 16-bit length edit
            i = rng.randrange(hl, L - 1)
            v = (m[i] << 8 | m[i + 1]) + rng.choice([-1, 1, 255, 65535])
            v %= 65536
            m[i], m[i + 1] = v >> 8, v & 255
        elif k < 0.93 and L > 2:                    # delete / duplicate a slice
            i = rng.randrange(hl, L)
            j = min(L, i + rng.randint(1, 4))
            m = m[:i] + (m[i:j] * 2 if rng.random() < 0.5 else b'') + m[j:]
        else:                                       # control byte
            m[0] = rng.getrandbits(8)
        out.append(bytes(m))
    return out


# ------------------------------------------------------------------ C20 fault catalogue
def _bad_utf8(orig, ctx):
    """same length-prefixed field, content replaced by ill-formed UTF-8 of the same length"""
    n = len(orig) - 2
    if n == 0:
        return bytes([0, 1]) + b'\xff'
    bad = (BADUTF8[n % len(BADUTF8)] * n)[:n]
    if n >= 1:
        bad = bad[:-1] + b'\xff'
    return orig[:2] + bad


def _lp(s):
    return bytes([len(s) >> 8, len(s) & 255]) + s


def original(fam, p, k, i):
    """the bytes primitive (k, i) writes in the canonical encoding"""
    box = []
    pk.encode(fam, p, fault=(k, i, lambda o, c: (box.append(o), o)[1]))
    return box[0]


def catalogue(fam, p, rng):
    """all single, localised malformations applicable to valid packet p.
    yields (row, bytes, expect) where expect maps front-end -> expected result string or None (not judged);
    key 'all' applies to block, async and poll."""
    kind = p[0]
    v5 = fam == 'v5'
    seen = pk.positions(fam, p)
    canon = pk.encode(fam, p)
    hl = pk_header_len(canon)
    res = []

    def inj(row, k, i, fn, expect):
        b = pk.encode(fam, p, fault=(k, i, fn))
        if b != canon:
            res.append((row, b, expect))

    # --- header rows
    typ = TYPE_NUM[kind]
    if kind != 'publish':
        for x in (1, 2, 4, 8):
            cb = canon[0] ^ x
            res.append(('flags', bytes([cb]) + canon[1:], {'all': 'err InvalidHeader'}))
    else:
        cb = canon[0] | 0x06
        res.append(('publish-qos3', bytes([cb]) + canon[1:], {'all': 'err InvalidQos 3'}))
    res.append(('type0', bytes([canon[0] & 0x0f]) + canon[1:], {'all': 'err InvalidHeader'}))
    if not v5:
        res.append(('type15', bytes([0xf0]) + canon[1:], {'all': 'err InvalidHeader'}))
    if kind in ('pingreq', 'pingresp') or (kind == 'disconnect' and not v5):
        res.append(('empty-with-body', bytes([canon[0], 3, 1, 2, 3]), {'all': 'err InvalidHeader'}))
    res.append(('rl-5-bytes', canon[:1] + b'\xff\xff\xff\xff\x7f' + canon[hl:], {'all': 'err InvalidVarByteInt'}))

    for (k, i, ctx) in seen:
        if k == 'pid':
            inj('pid0', k, i, lambda o, c: b'\x00\x00', {'all': 'err ZeroPid'})
        elif k == 'subqos':
            for q in (3, 4, 255):
                inj('subqos', k, i, lambda o, c, q=q: bytes([q]), {'all': 'err InvalidQos %d' % q})
        elif k == 'code':
            tbl = ctx[0]
            if tbl == 'src3':
                for v in (3, 4, 127, 129, 255):
                    inj('v3-suback-code', k, i, lambda o, c, v=v: bytes([v]), {'all': 'err InvalidQos %d' % v})
            elif tbl == 'crc3':
                for v in (6, 128, 255):
                    inj('v3-connack-code', k, i, lambda o, c, v=v: bytes([v]), {'all': 'err InvalidConnectReturnCode %d' % v})
            else:
                bad = [v for v in (1, 3, 5, 15, 23, 26, 127, 139 if tbl == 'connack' else 140, 163, 255) if v not in CODES5[tbl]]
                for v in bad:
                    inj('reason-code', k, i, lambda o, c, v=v: bytes([v]), {'all': 'err InvalidReasonCode %s %d' % (tbl, v)})
        elif k == 'connackflags':
            for v in (2, 3, 128, 255):
                inj('connack-flags', k, i, lambda o, c, v=v: bytes([v]), {'all': 'err InvalidConnackFlags %d' % v})
        elif k == 'connflags':
            fl = original(fam, p, k, i)[0]
            has_will = ctx[0]
            inj('connect-reserved', k, i, lambda o, c: bytes([o[0] | 1]), {'all': 'err InvalidConnectFlags %d' % (fl | 1)})
            if not has_will:
                for bits in (0x08, 0x10, 0x18):
                    inj('willqos-without-will', k, i, lambda o, c, bits=bits: bytes([o[0] | bits]),
                        {'all': 'err InvalidConnectFlags %d' % (fl | bits)})
            else:
                inj('will-qos3', k, i, lambda o, c: bytes([o[0] | 0x18]), {'all': 'err InvalidQos 3'})
        elif k == 'subopts':
            ob = original(fam, p, k, i)[0]
            for v in sorted({ob | 0x40, ob | 0x80, ob | 0x03, ob | 0x30}):
                inj('subopts', k, i, lambda o, c, v=v: bytes([v]), {'all': 'err InvalidSubscriptionOption %d' % v})
        elif k in ('str', 'topicname', 'filter', 'resptopic', 'protoname'):
            inj('non-utf8:' + k, k, i, _bad_utf8, {'all': 'err InvalidString'})
            # ill-formed only at the very end: a lead byte / truncated sequence closing the field
            inj('non-utf8-truncated:' + k, k, i, lambda o, c: o[:-1] + b'\xc3' if len(o) > 2 else o, {'all': 'err InvalidString'})
            inj('non-utf8-truncated:' + k, k, i, lambda o, c: o[:-2] + b'\xe4\xbd' if len(o) > 3 else o, {'all': 'err InvalidString'})
            # inner length past the end of the frame
            if len(canon) < 60000:
                inj('inner-length-overrun', k, i, lambda o, c: b'\xff\xff' + o[2:],
                    {'poll': 'err InvalidRemainingLength', 'block': 'none', 'async': 'err IoError UnexpectedEof'})
            if k == 'topicname':
                for bad in (b'a/+', b'#', b'x\x00y'):
                    inj('topic-wildcard', k, i, lambda o, c, bad=bad: _lp(bad), {'all': 'err InvalidTopicName ' + pk.hx(bad)})
            if k == 'resptopic':
                for bad in (b'a/+', b'#', b'x\x00y'):
                    inj('response-topic-wildcard', k, i, lambda o, c, bad=bad: _lp(bad), {'all': 'err InvalidResponseTopic'})
            if k == 'filter':
                for bad in (b'a/#/b', b'a+', b'', b'$share//x', b'$share/g', b'x\x00'):
                    inj('invalid-filter', k, i, lambda o, c, bad=bad: _lp(bad), {'all': 'err InvalidTopicFilter ' + pk.hx(bad)})
            if k == 'protoname':
                for bad in (b'MQTX', b'mqtt', b'', b'MQTTT', b'MQIsdp' if p[1] != 3 else b'MQTT'):
                    lvl = p[1]
                    inj('protocol-name', k, i, lambda o, c, bad=bad: _lp(bad),
                        {'all': 'err InvalidProtocol %s %d' % (pk.hx(bad), lvl)})
        elif k == 'protolevel':
            for lvl in (0, 1, 2, 6, 9, 255):
                nm = b'MQIsdp' if p[1] == 3 else b'MQTT'
                inj('protocol-level', k, i, lambda o, c, lvl=lvl: bytes([lvl]),
                    {'all': 'err InvalidProtocol %s %d' % (pk.hx(nm), lvl)})
            if v5:
                inj('other-family-level', k, i, lambda o, c: bytes([4]), {'all': 'err UnexpectedProtocol 4'})
            elif p[1] == 4:
                inj('other-family-level', k, i, lambda o, c: bytes([5]), {'all': 'err UnexpectedProtocol 5'})
        elif k == 'propid' and ctx[1] != 38:
            for bad in (0, 4, 10, 20, 43, 127, 255):
                inj('unknown-property', k, i, lambda o, c, bad=bad: bytes([bad]), {'all': 'err InvalidPropertyId %d' % bad})
        elif k == 'prop':
            struct, pid_, ptype = ctx
            inj('duplicated-property', k, i, lambda o, c: o + o, {'all': 'err DuplicatedProperty %d' % pid_})
            others = [x for x in PROP_TYPES if x not in PROPS[struct]]
            for other in rng.sample(others, min(3, len(others))):
                enc = bytes([other]) + {'bool': b'\x01', 'qos': b'\x01', 'u16': b'\x00\x01', 'u32': b'\x00\x00\x00\x01',
                                        'var': b'\x01', 'str': b'\x00\x01a', 'topic': b'\x00\x01a', 'bin': b'\x00\x01a'}[PROP_TYPES[other]]
                exp = 'err InvalidWillProperty %d' % other if struct == 'will' else 'err InvalidProperty %s %d' % (ptype, other)
                inj('disallowed-property', k, i, lambda o, c, enc=enc: enc, {'all': exp})
        elif k == 'boolprop':
            for v in (2, 3, 255):
                inj('bad-byte-property', k, i, lambda o, c, v=v: bytes([v]), {'all': 'err InvalidByteProperty %d %d' % (ctx[0], v)})
        elif k == 'propvar':
            inj('subid-5-bytes', k, i, lambda o, c: b'\xff\xff\xff\xff\x01', {'all': 'err InvalidVarByteInt'})
        elif k == 'props':
            o0 = original(fam, p, k, i)
            n, j = 0, 0
            while True:
                n |= (o0[j] & 0x7f) << (7 * j)
                j += 1
                if not o0[j - 1] & 0x80:
                    break
            if n > 0 and len(pk.vbi(n - 1)) == j:
                inj('property-length-1', k, i, lambda o, c, n=n, j=j: pk.vbi(n - 1) + o[j:],
                    {'all': 'err InvalidPropertyLength %d' % (n - 1)})
            inj('property-length-5-bytes', k, i, lambda o, c, j=j: b'\x80\x80\x80\x80\x01' + o[j:], {'all': 'err InvalidVarByteInt'})
        elif k in ('payload', 'willpayload') and ctx[0] == 1:
            if k == 'payload':
                inj('payload-format', k, i, lambda o, c: (o[:-1] + b'\xff') if o else o, {'all': 'err InvalidPayloadFormat'})
                inj('payload-format-truncated', k, i, lambda o, c: (o[:-1] + b'\xc3') if o else o, {'all': 'err InvalidPayloadFormat'})
                inj('payload-format-truncated', k, i, lambda o, c: (o[:-2] + b'\xe4\xbd') if len(o) > 1 else o, {'all': 'err InvalidPayloadFormat'})
                inj('payload-format-truncated', k, i, lambda o, c: (o[:-3] + b'\xf0\x9f\x98') if len(o) > 2 else o, {'all': 'err InvalidPayloadFormat'})
            else:
                inj('payload-format', k, i, lambda o, c: (o[:-1] + b'\xff') if len(o) > 2 else o, {'all': 'err InvalidPayloadFormat'})
                inj('payload-format-truncated', k, i, lambda o, c: (o[:-1] + b'\xc3') if len(o) > 2 else o, {'all': 'err InvalidPayloadFormat'})
                inj('payload-format-truncated', k, i, lambda o, c: (o[:-2] + b'\xe4\xbd') if len(o) > 3 else o, {'all': 'err InvalidPayloadFormat'})
    # --- empty subscription list
    if kind in ('subscribe', 'unsubscribe'):
        q = list(p)
        q[-1] = []
        res.append(('empty-subscription', pk.encode(fam, tuple(q)), {'all': 'err EmptySubscription'}))
    # --- remaining length too small for the mandatory fields (declared length shrunk, bytes kept)
    if kind in ('subscribe', 'unsubscribe', 'suback') or (kind == 'publish' and p[3] > 0):
        res.append(('remaining-length-too-small', canon[:1] + b'\x01' + canon[hl:], {'poll': 'err InvalidRemainingLength'}))
    # --- remaining length 0 (also spelled 80 00) on a type that must have a body; alone and with a packet behind it
    if kind not in ('pingreq', 'pingresp', 'disconnect', 'auth'):
        for sp in (b'\x00', b'\x80\x00'):
            for tail_ in (b'', b'\xc0\x00'):
                res.append(('remaining-length-zero', canon[:1] + sp + tail_, {'poll': 'err InvalidRemainingLength'}))
    # --- remaining length 1 on the packets whose body starts with a two-byte field
    if kind in ('connack', 'puback', 'pubrec', 'pubrel', 'pubcomp', 'unsuback', 'suback', 'subscribe', 'unsubscribe') or \
            (kind == 'auth' and len(canon) > hl + 1):
        res.append(('remaining-length-one', canon[:1] + b'\x01' + canon[hl:hl + 1], {'poll': 'err InvalidRemainingLength'}))
    # --- the declared remaining length ends inside the last subscription entry while the stream goes on with
    #     bytes a decoder could mistake for the rest of the entry (a legal options byte / filter byte, then more)
    if kind in ('subscribe', 'unsubscribe') and len(pk.vbi(len(canon) - hl - 1)) == hl - 1 and \
            (kind == 'subscribe' or canon[-1:].isalnum()):
        cut = canon[:1] + pk.vbi(len(canon) - hl - 1) + canon[hl:-1]
        follow = (b'\x20\x03\x00\x00\x00' if v5 else b'\x01\x00\x00') if kind == 'subscribe' else b'\x61\xc0\x00'
        res.append(('entry-overruns-frame', cut + follow, {'all': 'err InvalidRemainingLength'}))
    # --- QoS 1/2 PUBLISH whose remaining length ends before or inside the packet identifier (the stream goes on)
    if kind == 'publish' and p[3] > 0:
        tl = len(p[5])
        for d in (0, 1):
            if len(pk.vbi(2 + tl + d)) == hl - 1:
                res.append(('publish-no-room-for-pid', canon[:1] + pk.vbi(2 + tl + d) + canon[hl:], {'all': 'err InvalidRemainingLength'}))
    # --- remaining length + 1 with one extra byte (fixed-structure packets)
    if (not v5 and kind in ('connect', 'connack', 'puback', 'pubrec', 'pubrel', 'pubcomp', 'unsuback')) or \
            (v5 and kind in ('connect', 'connack')):
        b = pk.encode(fam, p, rl_delta=1) + b'\x00'
        if len(pk.vbi(len(canon) - hl)) == len(pk.vbi(len(canon) - hl + 1)):
            res.append(('remaining-length+1', b, {'poll': 'err InvalidRemainingLength'}))
    return res
