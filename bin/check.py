#!/usr/bin/env python3
"""bin/check.py — run the check of one property.

  check.py Cxx [--tier quick|thorough]        exit 0 held / 1 VIOLATION / 2 machinery broken
  check.py replay <replay.json>               re-run the cases of a replay file

What a run does (DESIGN.md §6): hygiene grep over the Coq development; make; recompile
Properties/Cxx.v and audit its Print Assumptions; rebuild the harness against /repo's working tree;
generate cases; run the extracted model (driver) and the implementation (harness) on them in the
build profiles the property needs; judge the implementation's output with the property's own
predicate; compare model and implementation under the property's projection; write evidence."""
import sys, os, json, time, random, argparse, traceback, faulthandler, signal
faulthandler.register(signal.SIGUSR1, all_threads=True)
sys.path.insert(0, os.path.dirname(os.path.abspath(__file__)))
sys.path.insert(0, os.path.join(os.path.dirname(os.path.dirname(os.path.abspath(__file__))), 'gen'))
import lib
from lib import Broken
import props as P

TRUSTED = [
    'Coq 8.16.1 kernel (coqc); vm_compute used for finite sweeps; no native_compute',
    'axioms: none (every theorem in Properties/ is "Closed under the global context")',
    'hand-written Gallina model coq/theories/Model tied to /repo by this differential run (generator coverage bounds it)',
    'extraction: Coq.extraction + ExtrOcamlBasic only (bool/option/unit/list/prod/sumbool/sumor -> OCaml types, andb/orb inlined); OCaml 4.13.1 ocamlopt; cross-checked on every run: Model/Digest.v evaluated by vm_compute inside Coq and by the extracted code on a sample of this run\'s inputs',
    'driver/main.ml token reader/printer; harness/ (Rust) constructors, printers, scripted reader/sinks; bin/*.py generators, comparison and judges',
    'library contracts modelled, not verified: tokio read_exact/write_all, std write_all, simdutf8::from_utf8, str::chars/slicing, block_on; usize = 64 bit',
]


def load_known():
    return json.load(open(os.path.join(lib.ROOT, 'known-findings.json')))


def run_cases(chk, cases, bins, workdir, tag):
    """returns {profile: (expected_lines, actual_lines)}"""
    out = {}
    for prof in chk.profiles:
        exp = lib.run_sharded('driver', prof, cases, workdir, '%s.exp.%s' % (tag, prof))
        act = lib.run_sharded('harness', bins[prof], cases, workdir, '%s.act.%s' % (tag, prof))
        out[prof] = (exp, act)
    return out


def evaluate(chk, cases, results, workdir):
    """judge + compare.  returns (violations, known, mismatches, stats)"""
    violations, known, mismatches = [], [], []
    distinct = set()
    for prof, (exp, act) in results.items():
        try:
            spec = chk.spec_phase(cases, act, workdir, prof) if hasattr(chk, 'spec_phase') else [None] * len(cases)
            ctx = chk.context(cases, act) if hasattr(chk, 'context') else None
        except Broken:
            raise
        except Exception as ex:
            violations.append(dict(case=cases[0] if cases else '', profile=prof, impl='', model='',
                                   reason='the implementation\'s output could not be interpreted (%s: %s)' % (type(ex).__name__, ex)))
            continue
        for i, (c, e, a) in enumerate(zip(cases, exp, act)):
            if ';ALLOC=' in a:
                # a single allocation request of >= 512 MB while handling this case (FORMAT.md); C03's business only
                a, req = a.rsplit(';ALLOC=', 1)
                if chk.id == 'C03':
                    violations.append(dict(case=c, profile=prof, impl=a, model=e,
                                           reason='a single allocation of %s bytes was requested while handling this input; the largest '
                                                  'legitimate buffer is the declared remaining length (< 2^28)' % req))
            an = lib.normalize(a)
            en = lib.normalize(e)
            if a == 'TIMEOUT-SKIPPED':
                continue
            if a.startswith('TIMEOUT') or a.startswith('CRASH'):
                violations.append(dict(case=c, profile=prof, impl=a, model=e, reason='implementation did not return: ' + a.split()[0]))
                continue
            if an == 'BADCASE' and en == 'BADCASE':
                raise Broken('generator produced a case neither side can build: ' + c[:200])
            try:
                verdict = chk.judge(c, an, spec[i], ctx, i)
            except Broken:
                raise
            except Exception as ex:      # output of an unexpected shape (only possible on a changed tree)
                verdict = 'the implementation\'s output has an unexpected shape (%s: %s): %s' % (type(ex).__name__, ex, an[:200])
            if verdict is not None:
                if isinstance(verdict, tuple) and verdict[0] == 'KF':
                    known.append((verdict[1], verdict[2], c))
                else:
                    violations.append(dict(case=c, profile=prof, impl=a, model=e, reason=verdict))
            try:
                pe, pa = chk.project(c, en), chk.project(c, an)
            except Exception as ex:
                pe, pa = 'model', 'unprojectable: %s' % ex
            if pe != pa:
                mismatches.append(dict(case=c, profile=prof, impl=a, model=e,
                                       reason='model and implementation differ under the projection of %s' % chk.id))
            if chk.nontrivial(c, an):
                distinct.add(c)
    if getattr(chk, 'cross_profile', False) and len(results) == 2:
        (pa, (_, aa)), (pb, (_, ab)) = sorted(results.items())
        for c, x, y in zip(cases, aa, ab):
            if lib.normalize(x) != lib.normalize(y):
                violations.append(dict(case=c, profile=pa + '/' + pb, impl=x, model=y,
                                       reason='the two build profiles produce different results'))
    return violations, known, mismatches, len(distinct)


def write_replay(chk, tier, items, kind, note=''):
    d = os.path.join(lib.ROOT, 'work', 'replay')
    os.makedirs(d, exist_ok=True)
    path = os.path.join(d, '%s-%s-%d.json' % (chk.id, tier, int(time.time())))
    json.dump(dict(property=chk.id, kind=kind, note=note, items=items[:20]), open(path, 'w'), indent=1)
    return path


def main():
    ap = argparse.ArgumentParser()
    ap.add_argument('prop')
    ap.add_argument('path', nargs='?')
    ap.add_argument('--tier', default=os.environ.get('VERIF_TIER', 'quick'))
    args = ap.parse_args()
    if args.prop == 'replay':
        return replay(args.path)
    pid = args.prop
    tier = args.tier if args.tier in ('quick', 'thorough') else 'quick'
    seed = int(os.environ.get('VERIF_SEED', '20260926'))
    t0 = time.time()
    chk = P.get(pid)
    workdir = os.path.join(lib.WORK, pid)
    import shutil
    shutil.rmtree(workdir, ignore_errors=True)
    os.makedirs(workdir, exist_ok=True)
    ev = dict(property_id=pid, tier=tier, seed=seed, level='proof', wall_s=0.0, violations=0,
              coverage=dict(trusted_base=TRUSTED, checker_cmd='make -C coq && coqc -Q theories MQ theories/Properties/%s.v (Print Assumptions audited); differential run bin/check.py %s' % (pid, pid)),
              assumptions=chk.assumptions)
    proof_problems = []
    try:
        # 1. hygiene + proofs
        bad = lib.hygiene()
        if bad:
            proof_problems.append('hygiene: ' + '; '.join(bad[:10]))
        rc, out = lib.coq_make()
        if rc != 0:
            proof_problems.append('coq build failed:\n' + out[-2000:])
            theorems = []
        else:
            ok, theorems, probs = lib.check_property_file(pid)
            proof_problems += probs
        if tier == 'thorough' and not proof_problems:
            rc, out = lib.sh('coqchk -silent -o -Q theories MQ MQ.Properties.%s' % pid, cwd=lib.COQ, timeout=3000)
            ev['coverage']['coqchk'] = out.strip()[-600:]
            if rc != 0:
                proof_problems.append('coqchk failed: ' + out[-1500:])
        n_thm = len(theorems)
        n_closed = sum(1 for _, c in theorems if c)
        # 2. harness
        lib.ensure_driver()
        bins, berr = lib.build_harness(chk.profiles)
        if bins is None:
            if '/repo' in berr and 'harness/src' not in berr.split('error')[1] if 'error' in berr else False:
                pass
            path = write_replay(chk, tier, [dict(reason='harness does not compile against /repo', output=berr[-3000:])], 'build')
            print('harness build failed:\n' + berr[-1500:])
            print('VIOLATION property=%s replay=%s no-failing-input-found' % (pid, path))
            finish(ev, t0, pid, 1, 1 + n_thm, n_closed)
            return 1
        # 3. cases
        rng = random.Random(seed)
        cases, dist = chk.cases(rng, tier)
        cases, dropped = lib.budget(cases, 300e6 if tier == 'quick' else 700e6, random.Random(seed + 17))
        if dropped:
            dist['long_cases_dropped_over_size_budget'] = dropped
        results = run_cases(chk, cases, bins, workdir, 'main')
        ev['coverage']['extraction_crosscheck_inputs'] = lib.extraction_crosscheck(cases, workdir)
        violations, known, mismatches, distinct = evaluate(chk, cases, results, workdir)
        evaluations = len(cases) * len(chk.profiles)
        # 4. correspondence broken but no judged failure: search
        searched = 0
        if (mismatches or proof_problems) and not violations:
            # the property is no longer shown to hold: look for a concrete failing input with fresh
            # seeds (judge on the implementation's output), for at most ~2 minutes
            t_search = time.time()
            for k in range(1, 4):
                if time.time() - t_search > 120:
                    break
                extra, _ = chk.cases(random.Random(seed + k), 'quick')
                extra = extra[:60000]
                res2 = run_cases(chk, extra, bins, workdir, 'search')
                v2, k2, m2, _ = evaluate(chk, extra, res2, workdir)
                searched += len(extra)
                violations += v2
                known += k2
                if violations:
                    break
        # 5. verdict
        obligations = n_thm + len(chk.ops)
        discharged = n_closed + (len(chk.ops) if not mismatches else 0)
        if proof_problems:
            discharged = min(discharged, obligations - 1)
        cov = ev['coverage']
        cov.update(obligations=obligations, discharged=discharged, evaluations=evaluations,
                   distinct_nontrivial=distinct, rule=chk.rule, samples=sample(cases, results),
                   theorems=[n for n, _ in theorems], correspondence_ops=chk.ops, input_distribution=dist,
                   profiles=list(chk.profiles), mismatches=len(mismatches), searched_after_mismatch=searched,
                   known_findings_seen=sorted(set(k for k, _, _ in known)),
                   partial_theorems=[n for n, _ in theorems if n.endswith('_partial')],
                   exhaustive=bool(getattr(chk, 'exhaustive', {}).get(tier)))
        for kid, msg in sorted(set((k, m) for k, m, _ in known)):
            print('KNOWN-FINDING: property=%s %s %s' % (pid, kid, msg))
        if violations:
            path = write_replay(chk, tier, violations, 'violation')
            v = violations[0]
            print('failing case: %s\n  profile: %s\n  implementation: %s\n  model:          %s\n  reason: %s'
                  % (v['case'][:300], v.get('profile'), str(v.get('impl'))[:400], str(v.get('model'))[:400], v['reason']))
            print('VIOLATION property=%s replay=%s' % (pid, path))
            ev['violations'] = len(violations)
            finish(ev, t0, pid, 1)
            return 1
        if mismatches or proof_problems:
            items = mismatches[:10] + [dict(reason=p) for p in proof_problems]
            names = 'correspondence ops ' + ','.join(chk.ops) if mismatches else ''
            path = write_replay(chk, tier, items, 'unproved',
                                note='no longer checks: ' + names + ' ' + ' | '.join(p[:200] for p in proof_problems))
            for it in items[:3]:
                print('no longer checks: %s' % json.dumps(it)[:700])
            print('VIOLATION property=%s replay=%s no-failing-input-found' % (pid, path))
            ev['violations'] = 1
            finish(ev, t0, pid, 1)
            return 1
        finish(ev, t0, pid, 0)
        print('OK %s tier=%s theorems=%d cases=%d profiles=%s wall=%.1fs' % (pid, tier, n_thm, len(cases), ','.join(chk.profiles), time.time() - t0))
        return 0
    except Broken as b:
        print('BROKEN: %s' % b)
        return 2


def sample(cases, results):
    out = []
    prof = sorted(results)[0]
    exp, act = results[prof]
    n = len(cases)
    for i in sorted(set([0, n // 7, n // 3, n // 2, (2 * n) // 3, n - 1])):
        if 0 <= i < n:
            out.append(dict(case=cases[i][:300], implementation=act[i][:300]))
    return out


def finish(ev, t0, pid, rc, obligations=None, discharged=None):
    ev['wall_s'] = round(time.time() - t0, 2)
    cov = ev['coverage']
    if obligations is not None:
        cov.setdefault('obligations', obligations)
        cov.setdefault('discharged', discharged)
    cov.setdefault('obligations', 1)
    cov.setdefault('discharged', 0)
    evdir = os.environ.get('VERIF_EVIDENCE_DIR') or os.path.join(lib.ROOT, 'evidence')
    os.makedirs(evdir, exist_ok=True)
    json.dump(ev, open(os.path.join(evdir, pid + '.json'), 'w'), indent=1)
    # shard files are large; keep them only when something went wrong
    if rc == 0:
        import shutil
        shutil.rmtree(os.path.join(lib.WORK, pid), ignore_errors=True)


def replay(path):
    r = json.load(open(path))
    chk = P.get(r['property'])
    cases = [it['case'] for it in r['items'] if 'case' in it]
    if not cases:
        print(json.dumps(r, indent=1)[:3000])
        return 1
    lib.ensure_driver()
    bins, berr = lib.build_harness(chk.profiles)
    if bins is None:
        print(berr[-2000:])
        return 1
    workdir = os.path.join(lib.WORK, 'replay-' + r['property'])
    results = run_cases(chk, cases, bins, workdir, 'replay')
    violations, known, mismatches, _ = evaluate(chk, cases, results, workdir)
    for prof, (exp, act) in results.items():
        for c, e, a in zip(cases, exp, act):
            print('[%s] %s\n   impl : %s\n   model: %s' % (prof, c[:300], a[:500], e[:500]))
    for v in violations:
        print('FAILS: %s -- %s' % (v['case'][:200], v['reason']))
    for m in mismatches:
        print('DIFFERS: %s' % m['case'][:200])
    return 1 if (violations or mismatches) else 0


if __name__ == '__main__':
    try:
        sys.exit(main())
    except Broken as b:
        print('BROKEN: %s' % b)
        sys.exit(2)
