#!/bin/sh
# One-time build after a fresh restore (offline): Coq development, extracted driver, harness.
set -e
cd "$(dirname "$0")/.."
export CARGO_NET_OFFLINE=true
( cd coq && coq_makefile -f _CoqProject -o Makefile >/dev/null 2>&1 && timeout 3000 make -j16 >/dev/null )
./driver/build.sh
[ -f harness/Cargo.lock ] || cp /repo/Cargo.lock harness/Cargo.lock
( cd harness && cargo build --offline -q && cargo build --offline -q --release )
echo setup-ok
