"""bin/props2.py — checks for C04 C05 C07 C08 C13 C14 C20 (DESIGN.md §9): generators, projections,
judges.  Imported by props.py (same registry)."""
import itertools
import lib
from lib import fields
import pk
import frames as FR
import props
from props import (register, Base, DecBase, hist, both_pools, frame_pool, frame_info, driver_run, enc_bytes,
                   random_schedule, utf8_ok)

KINDS = ['UnexpectedEof', 'InvalidData', 'WriteZero', 'Interrupted', 'ConnectionReset', 'BrokenPipe', 'TimedOut', 'Other',
         'ConnectionAborted', 'NotConnected', 'PermissionDenied', 'WouldBlock', 'InvalidInput', 'NotFound',
         'ConnectionRefused', 'AddrInUse', 'AddrNotAvailable', 'AlreadyExists', 'Unsupported', 'OutOfMemory']


def small_valid(rng, tier, n_random, maxlen):
    ps, dist = both_pools(rng, tier, n_random=n_random)
    out = []
    for fam, p in ps:
        b = pk.encode(fam, p)
        if len(b) <= maxlen:
            out.append((fam, p, b))
    return out, dist


CODE_TABLES = {
    'qos': [0, 1, 2], 'crc3': [0, 1, 2, 3, 4, 5], 'src3': [0, 1, 2, 128], 'rh5': [0, 1, 2],
    'connect5': pk.CODES5['connack'], 'disconnect5': pk.CODES5['disconnect'], 'auth5': pk.CODES5['auth'],
    'puback5': pk.CODES5['puback'], 'pubrec5': pk.CODES5['pubrec'], 'pubrel5': pk.CODES5['pubrel'],
    'pubcomp5': pk.CODES5['pubcomp'], 'subscribe5': pk.CODES5['suback'], 'unsubscribe5': pk.CODES5['unsuback'],
    'propid5': sorted(list(pk.PROP_TYPES) + [38]),
}


def code_cases():
    return ['code %s %d' % (t, b) for t in sorted(CODE_TABLES) for b in range(256)]


def judge_code(case, line):
    """every from_u8 table accepts exactly the numbers of the standard's table, and `variant as u8` of the
    value it returns is the number it was given (so the decode and encode sides of an enum agree)"""
    _, t, b = case.split()
    b = int(b)
    if b in CODE_TABLES[t]:
        if line != 'ok %d' % b:
            return 'table %s: from_u8(%d) -> %s; the standard assigns this number, and `as u8` must give it back' % (t, b, line[:60])
    elif line.startswith('ok'):
        return 'table %s accepts %d, which the standard does not assign' % (t, b)
    return None


PVAL = {'bool': b'\x01', 'qos': b'\x01', 'u16': b'\x00\x07', 'u32': b'\x00\x00\x00\x07', 'var': b'\x07', 'str': b'\x00\x01a',
        'topic': b'\x00\x01a', 'bin': b'\x00\x01a'}


def carrier_matrix():
    """every property identifier (the 26 assigned ones, User Property, and unassigned numbers) as the only
    property of every property section of every v5 packet type: (bytes, kind, id, expected) where expected is
    'ok' / the documented error.  The finite table 'which packet may carry which property', exhaustively."""
    base = {
        'connect': ('connect', 5, 1, 10, ({}, []), b'c', None, None, None),
        'will': ('connect', 5, 1, 10, ({}, []), b'c', (0, 0, ({}, []), b'w', b'm'), None, None),
        'connack': ('connack', 0, 0, ({}, [])),
        'publish': ('publish', 0, 0, 0, 0, b't', ({}, []), b'p'),
        'puback': ('puback', 3, 0, ({}, [])), 'pubrec': ('pubrec', 3, 0, ({}, [])),
        'pubrel': ('pubrel', 3, 0, ({}, [])), 'pubcomp': ('pubcomp', 3, 0, ({}, [])),
        'subscribe': ('subscribe', 3, ({}, []), [(b'a', 0, 0, 0, 0)]),
        'suback': ('suback', 3, ({}, []), [0]), 'unsuback': ('unsuback', 3, ({}, []), [0]),
        'unsubscribe': ('unsubscribe', 3, ({}, []), [b'a']),
        'disconnect': ('disconnect', 0, ({}, [])), 'auth': ('auth', 0, ({}, [])),
    }
    out = []
    for kind, p in base.items():
        seen = []
        pk.encode('v5', p, seen=seen, spell={'short': False})
        which = [(k, i) for (k, i, ctx) in seen if k == 'props']
        k, i = which[-1] if kind == 'will' else which[0]
        for pid_ in sorted(pk.PROP_TYPES) + [38, 0, 4, 10, 20, 27, 43, 127, 255]:
            if pid_ == 38:
                body = b'\x26\x00\x01k\x00\x01v'
            elif pid_ in pk.PROP_TYPES:
                body = bytes([pid_]) + PVAL[pk.PROP_TYPES[pid_]]
            else:
                body = bytes([pid_, 0])
            b = pk.encode('v5', p, fault=(k, i, lambda o, c, body=body: pk.vbi(len(body)) + body), spell={'short': False})
            if pid_ == 38 or pid_ in pk.PROPS[kind]:
                exp = 'ok'
            elif pid_ not in pk.PROP_TYPES:
                exp = 'err InvalidPropertyId %d' % pid_
            elif kind == 'will':
                exp = 'err InvalidWillProperty %d' % pid_
            else:
                exp = 'err InvalidProperty %s %d' % (kind, pid_)
            out.append((b, kind, pid_, exp))
    return out


# ====================================================================== C05
def compositions(n):
    """all ways to cut n bytes into consecutive chunks: tuples of cut positions (subset of 1..n-1)"""
    for mask in range(1 << max(0, n - 1)):
        yield [i + 1 for i in range(n - 1) if mask >> i & 1]


def atoms_of(b, cuts, pends):
    """atoms string: bytes b, a cut after positions in `cuts`, a Pend before the read starting at positions in `pends`
    (position len(b) = a Pend after the last byte)"""
    out = []
    cuts = set(cuts)
    pends = set(pends)
    for i, x in enumerate(b):
        if i in pends:
            out.append('p')
        out.append('b%02x' % x)
        if i + 1 in cuts:
            out.append('c')
    if len(b) in pends:
        out.append('p')
    return '.'.join(out) if out else '-'


@register
class C05(Base):
    id = 'C05'
    ops = ['sched', 'schedi']
    rule = ('G-sched: for every valid packet of <= 8 bytes (thorough: <= 11) of every type (both families): every composition of the stream '
            'into chunks x Pending placed nowhere / before every read / at random; for longer packets (2-4 byte headers, '
            'property sections, payloads) and for malformed streams (corruptions, fault-catalogue frames, truncations, '
            'trailing bytes): random schedules; transports ending in EOF or an I/O error. The harness drops and re-creates '
            'the PollPacket future and clones the state at every Pending. Judge: result, total and body equal the '
            'uninterrupted one-shot run on the same bytes; Pending count = transport Pending count; every requested '
            'capacity stays inside the current frame (1 while in the header); consumed = reported total. '
            'Non-trivial: schedule with >= 2 reads or a Pending.')

    def cases(self, rng, tier):
        cs = self.corpus()
        dist = {}
        self.ref = {}
        self.loose = set()      # corrupted frames: several faults may be present, compare the error by class only
        smalls, _ = small_valid(rng, tier, 6 if tier == 'quick' else 40, 8 if tier == 'quick' else 11)
        seen = set()
        for fam, p, b in smalls:
            if (fam, b) in seen:
                continue
            seen.add((fam, b))
            if len(seen) > (90 if tier == 'quick' else 1500):
                break
            for tail in (('eof', 'k11') if len(seen) % 4 == 0 and len(b) <= 6 else ('eof',)):
                self.add(cs, fam, b, [], [], tail, dist, 'exh')
                for cuts in compositions(len(b)):
                    starts = [0] + cuts
                    self.add(cs, fam, b, cuts, [], tail, dist, 'exh')
                    self.add(cs, fam, b, cuts, starts + [len(b)], tail, dist, 'exh+pend')
                    self.add(cs, fam, b, cuts, [s for s in starts if rng.random() < 0.4], tail, dist, 'exh+pend')
        pool, _ = frame_pool(rng, tier, n_random=25 if tier == 'quick' else 300)
        for fam, b, tag, _ in pool:
            if len(b) > 70000 or (len(b) > 3000 and rng.random() < 0.7):
                continue
            nsch = 3 if tier == 'quick' else 8
            variants = [b]
            if tag == 'valid' and len(b) < 400:
                variants.append(b[:rng.randrange(len(b))])                       # truncated stream
                variants.append(b + bytes(rng.getrandbits(8) for _ in range(3)))  # next packet's bytes follow
            for v in variants:
                for _ in range(nsch):
                    # (a transport error is a result like any other: WouldBlock and Interrupted are not "not ready")
                    tail = rng.choice(['eof', 'eof', 'k4', 'k6', 'k11', 'k3', 'o5'])
                    fi = frame_info(v)
                    huge = fi is not None and fi[1] > 200000     # the harness clones the state (buffer) at every Pending
                    if len(v) < 300:
                        at = random_schedule(v, rng, pend=0 if huge else rng.choice([0, 0.1, 0.5]), cut=rng.choice([0.05, 0.3, 0.9]))
                    else:
                        # long: a few cuts only
                        k = rng.randint(1, 6)
                        cuts = sorted(rng.sample(range(1, len(v)), min(k, len(v) - 1)))
                        at = atoms_of(v, cuts, [] if huge else [0] + [c for c in cuts if rng.random() < 0.5])
                    c = '%s %s %s %s' % (rng.choice(['sched', 'sched', 'schedi']), fam, at, tail)
                    cs.append(c)
                    if tag == 'mut':
                        self.loose.add(c)
                    hist(dist, 'rand:' + tag.split(':')[0])
                    self.want_ref(cs, fam, v, tail)
        return cs, dist

    def add(self, cs, fam, b, cuts, pends, tail, dist, tag):
        # every third schedule goes through the transport that fills the window by initialize_unfilled() + advance()
        self.n_add = getattr(self, 'n_add', 0) + 1
        cs.append('%s %s %s %s' % ('schedi' if self.n_add % 3 == 0 else 'sched', fam, atoms_of(b, cuts, pends), tail))
        hist(dist, tag)
        self.want_ref(cs, fam, b, tail)

    def want_ref(self, cs, fam, b, tail):
        key = (fam, b, tail)
        if key not in self.ref:
            c = 'sched %s %s %s' % (fam, atoms_of(b, [], []), tail)
            self.ref[key] = c
            cs.append(c)

    @staticmethod
    def parse(case):
        _, fam, atoms, tail = case.split()
        b = bytes(int(a[1:], 16) for a in atoms.split('.') if a.startswith('b')) if atoms != '-' else b''
        return fam, atoms, tail, b

    def context(self, cases, act):
        return {c: lib.normalize(a) for c, a in zip(cases, act)}

    def judge(self, case, line, spec, ctx, i):
        fam, atoms, tail, b = self.parse(case)
        f = fields(line)
        refc = self.ref.get((fam, b, tail))
        if refc is not None and refc in ctx:
            rf = fields(ctx[refc])
            for k in ('res', 'total', 'body'):
                if f.get(k) != rf.get(k):
                    return ('%s differs from the uninterrupted read of the same bytes: %s vs %s'
                            % (k, f.get(k, '')[:100], rf.get(k, '')[:100]))
            if f.get('used') != rf.get('used'):
                return 'consumed %s bytes, the uninterrupted read consumed %s' % (f.get('used'), rf.get('used'))
        if f.get('pend') != f.get('rpend'):
            return 'decoder returned Pending %s times, the transport %s times' % (f.get('pend'), f.get('rpend'))
        if f.get('wake') == 'lost':
            return ('decoder returned Pending without the caller\'s waker having been handed to the transport (the transport '
                    'wakes the waker it is given; the caller\'s was never woken): the task would never be polled again')
        caps = [int(x) for x in f.get('caps', '-').split(',')] if f.get('caps', '-') != '-' else []
        sizes = f.get('sizes', '-').split(',') if f.get('sizes', '-') != '-' else []
        if len(caps) != len(sizes):
            return 'trace length mismatch'
        pos = 0
        fi = None
        for cap, sz in zip(caps, sizes):
            fi = frame_info(b[:pos]) if fi is None else fi
            if fi is None:
                if cap != 1:
                    return 'asks for %d bytes while the fixed header is incomplete (position %d)' % (cap, pos)
            else:
                end = fi[0] + fi[1]
                if cap < 1 or pos + cap > end:
                    return 'asks for %d bytes at position %d, the frame ends at %d' % (cap, pos, end)
            if sz not in ('P', 'T'):
                pos += int(sz)
        if f.get('res', '').startswith('ok '):
            if f.get('used') != f.get('total'):
                return 'reports total %s after consuming %s bytes' % (f.get('total'), f.get('used'))
            fi = frame_info(b)
            if fi is None or int(f['total']) != fi[0] + fi[1]:
                return 'reported total %s is not the frame length' % f.get('total')
            if f.get('body') != pk.hx(b[fi[0]:fi[0] + fi[1]]):
                return 'returned body is not the raw body bytes'
        return None

    def project(self, case, line):
        if case in self.loose:
            f = fields(line)
            r = f.get('res', '')
            return 'res=%s;' % r.split(' ')[0] + ';'.join('%s=%s' % (k, f.get(k, '')) for k in ('total', 'body', 'pend', 'rpend'))
        return line

    def nontrivial(self, case, line):
        a = case.split()[2]
        return '.c.' in a or 'p' in a.split('.')


# ====================================================================== C07
@register
class C07(Base):
    id = 'C07'
    ops = ['dec', 'faultr']
    rule = ('every valid packet of the C01 pool: every strict prefix of its encoding (all cut positions for encodings <= 300 '
            'bytes, 48 cuts incl. all positions in the first 24 bytes and the last 4 for longer ones) through the blocking '
            '(Ok(None)), async and poll decoders (error with is_eof()), and the encoding followed by random further bytes '
            '(same packet). Non-trivial: cut position >= 1.')

    def cases(self, rng, tier):
        cs = self.corpus()
        self.meta = {}
        ps, dist = both_pools(rng, tier, n_random=30 if tier == 'quick' else 400)
        spelled = []
        for fam, p in ps:
            b = pk.encode(fam, p)
            maxfield = 65530 < len(b) < 65700        # one maximal field: always kept
            if len(b) > 70000 or (len(b) > 2000 and rng.random() < 0.6 and not maxfield):
                continue
            n = len(b)
            if n <= 300:
                cuts = list(range(n))
            else:
                cuts = sorted(set(list(range(24)) + [n - 1, n - 2, n - 3, n - 4] + [rng.randrange(n) for _ in range(20)]))
            if tier == 'quick' and n > 40:
                cuts = sorted(set(cuts[:12] + cuts[-4:] + rng.sample(cuts, min(len(cuts), 10))))
            if maxfield:
                cuts = [2, n - 1] if tier == 'quick' else [2, n - 2, n - 1]
            for k in cuts:
                c = 'dec %s %s' % (fam, pk.hx(b[:k]))
                self.meta[c] = ('prefix', None)
                cs.append(c)
                cs.append('faultr %s async %s %d eof' % (fam, pk.hx(b), k))
                cs.append('faultr %s poll %s %d eof' % (fam, pk.hx(b), k))
                hist(dist, 'cut')
            sfx = bytes(rng.getrandbits(8) for _ in range(rng.randint(1, 9)))
            c = 'dec %s %s' % (fam, pk.hx(b + sfx))
            self.meta[c] = ('suffix', 'ok ' + pk.tok(fam, p))
            cs.append(c)
            hist(dist, 'suffix')
            # legal spellings the library's own encoder never emits (short forms spelled out, explicit empty property
            # sections, permuted properties): their strict prefixes are incomplete too, and a suffix changes nothing
            if n <= 200 and rng.random() < (0.35 if tier == 'quick' else 1.0):
                for sb, _minimal in FR.spellings(fam, p, rng):
                    if sb != b:
                        spelled.append((fam, p, sb))
        for fam, p, sb in props.same_packet_spellings(spelled, 'C07'):
            m = len(sb)
            sfx = bytes(rng.getrandbits(8) for _ in range(rng.randint(1, 9)))
            for k in (list(range(m)) if m <= 24 else sorted(set(list(range(8)) + [m - 1, m - 2, m - 3] + [rng.randrange(m) for _ in range(4)]))):
                c = 'dec %s %s' % (fam, pk.hx(sb[:k]))
                self.meta.setdefault(c, ('prefix', None))
                cs.append(c)
                hist(dist, 'cut:spelling')
            c = 'dec %s %s' % (fam, pk.hx(sb + sfx))
            self.meta.setdefault(c, ('suffix', 'ok ' + pk.tok(fam, p)))
            cs.append(c)
            hist(dist, 'suffix:spelling')
        # prefixes of packets too large to materialise: the first bytes of a PUBLISH / CONNECT / SUBSCRIBE whose remaining
        # length is the maximum (or just below): incomplete, whatever the declared size
        for fam in ('v3', 'v5'):
            for cb, body in ((0x30, b'\x00\x01a'), (0x32, b'\x00\x01a\x00\x07'), (0x10, b'\x00\x04MQTT'), (0x82, b'\x00\x07')):
                for rlb in (b'\xff\xff\xff\x7f', b'\xfe\xff\xff\x7f', b'\x80\x80\x80\x01'):
                    fr = bytes([cb]) + rlb + body
                    for k in range(1, len(fr) + 1):
                        c = 'dec %s %s' % (fam, pk.hx(fr[:k]))
                        self.meta.setdefault(c, ('prefix', None))
                        cs.append(c)
                        hist(dist, 'cut:huge-declared')
        return cs, dist

    def judge(self, case, line, spec, ctx, i):
        t = case.split()
        f = fields(line)
        if t[0] == 'faultr':
            k = int(t[4])
            if not f.get('res', '').startswith('err IoError UnexpectedEof') or f.get('iseof') != '1':
                return ('%s decoder on the first %d bytes of a valid packet then EOF: %s (is_eof=%s), expected an error '
                        'recognised by is_eof()' % (t[2], k, f.get('res', '')[:100], f.get('iseof')))
            return None
        kind, want = self.meta.get(case, (None, None))
        if kind == 'prefix':
            b = bytes.fromhex(t[2][1:])
            if frame_info(b) is None and not (len(b) >= 5 and all(x & 0x80 for x in b[1:5])) and f.get('hdr') != 'err IoError UnexpectedEof':
                return ('Header::decode on %d byte(s) of a fixed header that is not complete yet: %s, expected an end-of-input error'
                        % (len(b), f.get('hdr', '')[:80]))
            if f.get('block') != 'none':
                return 'blocking decoder on a strict prefix of a valid packet: %s, expected Ok(None)' % f.get('block', '')[:100]
            for fe in ('async', 'poll'):
                if f.get(fe) != 'err IoError UnexpectedEof':
                    return '%s decoder on a strict prefix of a valid packet: %s' % (fe, f.get(fe, '')[:100])
        elif kind == 'suffix':
            for fe in ('block', 'async', 'poll'):
                if f.get(fe) != want:
                    return '%s decoder on encoding + trailing bytes: %s' % (fe, f.get(fe, '')[:120])
        return None

    def project(self, case, line):
        f = fields(line)
        return ';'.join('%s=%s' % (k, f.get(k, '')) for k in ('block', 'async', 'poll', 'res', 'iseof'))

    def nontrivial(self, case, line):
        t = case.split()
        return (t[0] == 'faultr' and int(t[4]) >= 1) or (t[0] == 'dec' and len(t[2]) > 3)


# ====================================================================== C08
@register
class C08(Base):
    id = 'C08'
    ops = ['stream']
    rule = ('random sequences of 1..40 valid packets of mixed types (incl. zero-length-body packets, 2-4 byte headers), '
            'concatenated and decoded packet by packet with the blocking (advance by encode_len), async (one reader) and '
            'poll (fresh state per packet, advance by reported total) front-ends under chunk sizes 1, 2, 3, 7, 64, 100000 with '
            'Pending before every second read. Judge: exactly the sequence, sizes = encoding lengths, sum = stream length, '
            'clean end-of-input afterwards. Non-trivial: >= 2 packets.')

    def cases(self, rng, tier):
        cs = self.corpus()
        self.meta = {}
        ps, dist = both_pools(rng, tier, n_random=40 if tier == 'quick' else 300)
        by = {'v3': [], 'v5': []}
        for fam, p in ps:
            b = pk.encode(fam, p)
            if len(b) <= 20000:
                by[fam].append((p, b))
        # legal spellings (of exactly the same packet) the library's own encoder never emits
        cand = []
        for fam in by:
            for p, b in rng.sample(by[fam], min(len(by[fam]), 150 if tier == 'quick' else 1500)):
                if len(b) < 300:
                    cand += [(fam, p, x) for x, _m in FR.spellings(fam, p, rng) if x != b]
        respell = {}
        for fam, p, x in props.same_packet_spellings(cand, 'C08'):
            respell.setdefault((fam, pk.tok(fam, p)), []).append(x)
        nseq = 250 if tier == 'quick' else 4000
        for _ in range(nseq):
            fam = rng.choice(['v3', 'v5'])
            k = rng.choice([1, 2, 3, 5, 8, 13, 40])
            seq = []
            total = 0
            spelled = False
            for _ in range(k):
                p, b = rng.choice(by[fam])
                if total + len(b) > 60000:
                    continue
                sp = respell.get((fam, pk.tok(fam, p)))
                if sp and rng.random() < 0.5:
                    b = rng.choice(sp)
                    spelled = True
                seq.append((p, b))
                total += len(b)
            if rng.random() < 0.3:       # sprinkle empty-body packets
                e = ('pingreq',) if rng.random() < 0.5 else ('pingresp',)
                for _ in range(rng.randint(1, 3)):
                    seq.insert(rng.randrange(len(seq) + 1), (e, pk.encode(fam, e)))
            if not seq:
                continue
            stream = b''.join(b for _, b in seq)
            # (the blocking loop of the harness advances by encode_len() of what it decoded, which is the canonical length)
            for fe in (('block', 'async', 'poll') if not spelled else ('async', 'poll')):
                for chunk in rng.sample([1, 2, 3, 7, 64, 100000], 2 if tier == 'quick' else 4):
                    if fe == 'block' and chunk != 1 and rng.random() < 0.7:
                        continue
                    if chunk <= 3 and len(stream) > 6000:
                        continue
                    c = 'stream %s %s %s %d' % (fam, fe, pk.hx(stream), chunk)
                    self.meta[c] = (fam, fe, [pk.tok(fam, p) for p, _ in seq], [len(b) for _, b in seq])
                    cs.append(c)
                    hist(dist, 'seq:%s:%d' % (fe, len(seq)))
        # a packet with one maximal (65,533..65,535-byte) field between two small ones: framing must survive
        for fam, p in ps:
            b = pk.encode(fam, p)
            if not 65530 < len(b) < 65700 or (tier == 'quick' and rng.random() < 0.5):
                continue
            q = ('pingreq',)
            seq = [(q, pk.encode(fam, q)), (p, b), (q, pk.encode(fam, q))]
            stream = b''.join(x for _, x in seq)
            for fe in ('block', 'async', 'poll'):
                c = 'stream %s %s %s %d' % (fam, fe, pk.hx(stream), 100000 if fe != 'async' else rng.choice([4096, 100000]))
                self.meta[c] = (fam, fe, [pk.tok(fam, x) for x, _ in seq], [len(x) for _, x in seq])
                cs.append(c)
                hist(dist, 'seq:max-field:%s' % fe)
        return cs, dist

    def judge(self, case, line, spec, ctx, i):
        m = self.meta.get(case)
        if m is None:
            return None
        fam, fe, toks, lens = m
        f = fields(line)
        want_pk = '|'.join(toks)
        if f.get('pkts') != want_pk:
            got = f.get('pkts', '').split('|')
            for j, (a, b) in enumerate(itertools.zip_longest(got, toks)):
                if a != b:
                    return '%s front-end: packet #%d of %d differs: got %s expected %s' % (fe, j, len(toks), str(a)[:100], str(b)[:100])
        if f.get('sizes') != ','.join(map(str, lens)):
            return '%s front-end: byte counts %s, encodings are %s' % (fe, f.get('sizes', '')[:80], ','.join(map(str, lens))[:80])
        if f.get('n') != str(len(toks)):
            return 'decoded %s packets of %d' % (f.get('n'), len(toks))
        want_final = 'none' if fe == 'block' else 'err IoError UnexpectedEof'
        if f.get('final') != want_final:
            return '%s front-end after the last packet: %s, expected clean end of input' % (fe, f.get('final', '')[:100])
        return None

    def nontrivial(self, case, line):
        m = self.meta.get(case)
        return bool(m) and len(m[2]) >= 2


# ====================================================================== C13
@register
class C13(Base):
    id = 'C13'
    ops = ['cross', 'proto', 'dec']
    rule = ('every CONNECT of the C01 pool (v3.1, v3.1.1, v5.0; with/without will, credentials, properties) given to the '
            'other family\'s blocking, async and poll decoders, alone and followed by further bytes, then resumed with '
            'decode_with_protocol of the matching family; Protocol::new on all 256 levels x {MQTT, MQIsdp, empty, truncated, '
            'case-changed, extended, non-UTF-8, long} names; CONNECT frames carrying every level 0..255 with both names. '
            'Non-trivial: a CONNECT with at least one optional part.')

    NAMES = [b'MQTT', b'MQIsdp', b'', b'MQT', b'MQTTT', b'mqtt', b'MQIsd', b'MQisdp', b'MQTT\x00', b'\xff\xfe', b'MQ\xc3',
             b'M' * 300, 'MQTTé'.encode()]

    def cases(self, rng, tier):
        cs = self.corpus()
        self.meta = {}
        dist = {}
        ps, _ = both_pools(rng, tier, n_random=60 if tier == 'quick' else 600)
        for fam, p in ps:
            if p[0] != 'connect':
                continue
            b = pk.encode(fam, p)
            if len(b) > 70000:
                continue
            other = 'v5' if fam == 'v3' else 'v3'
            for sfx in (b'', bytes(rng.getrandbits(8) for _ in range(rng.randint(1, 5)))):
                c = 'cross %s %s' % (other, pk.hx(b + sfx))
                self.meta[c] = (fam, p, len(b))
                cs.append(c)
                hist(dist, 'cross:%s->%s' % (fam, other))
        t = (b'xy' * 32768)[:65535]
        huge = ('connect', 5, 1, 10, ({21: t, 22: t}, [(t, t)]), t, (1, 0, ({}, []), (b'a/' * 32768)[:65535], t), t, t)
        hb = pk.encode('v5', huge)
        for sfx in (b'', b'\xc0\x00'):
            c = 'cross v3 %s' % pk.hx(hb + sfx)
            self.meta[c] = ('v5', huge, len(hb))
            cs.append(c)
            hist(dist, 'cross:v5->v3:larger-than-any-v3-connect')
        for nm in self.NAMES:
            for lvl in range(256):
                cs.append('proto %s %d' % (pk.hx(nm), lvl))
                hist(dist, 'proto')
        # whole CONNECT frames with every level / both names, through every front-end of both families
        for lvl in range(256):
            for nm in (b'MQTT', b'MQIsdp'):
                body = bytes([0, len(nm)]) + nm + bytes([lvl, 2, 0, 10, 0, 1, 99])
                if lvl == 5:
                    body = bytes([0, len(nm)]) + nm + bytes([lvl, 2, 0, 10, 0, 0, 1, 99])
                for fam in ('v3', 'v5'):
                    c = 'dec %s %s' % (fam, pk.hx(bytes([0x10, len(body)]) + body))
                    self.meta[c] = ('frame', nm, lvl)
                    cs.append(c)
                    hist(dist, 'connect-level')
        # CONNECT frames with corrupted names of every length (shorter than "MQTT", empty, 65,535 bytes), followed by more bytes
        long_names = [b'', b'M', b'MQ', b'MQT', b'MQTTT', b'mqtt', 'MQT\u0166'.encode(), b'N' * 65535, b'MQTT' + b'x' * 65531, b'MQIsd', b'MQIsdpp']
        for nm in long_names:
            for lvl in (0, 3, 4, 5, 6, 255):
                body = bytes([len(nm) >> 8, len(nm) & 255]) + nm + bytes([lvl, 2, 0, 10, 0, 0, 0, 1, 99, 0, 0])
                tiny = body[:2 + len(nm) + 1]            # the frame ends right after the level byte
                for fam in ('v3', 'v5'):
                    for sfx in (b'', b'\xc0\x00\xd0\x00'):
                        for bd in (body, tiny):
                            c = 'dec %s %s' % (fam, pk.hx(bytes([0x10]) + pk.vbi(len(bd)) + bd + sfx))
                            self.meta[c] = ('frame', nm, lvl)
                            cs.append(c)
                            hist(dist, 'connect-bad-name')
        # the refusal needs the protocol name and level only: a CONNECT of the other family cut anywhere after the level
        for c0, (fam, p, n) in list(self.meta.items()):
            if not c0.startswith('cross ') or n > 400 or rng.random() < 0.5:
                continue
            b = pk.encode(fam, p)
            hl = frame_info(b)[0]
            end = hl + 2 + (6 if p[1] == 3 else 4) + 1
            for k in sorted(set([end, end + 1, end + 2, (end + n) // 2, n - 1])):
                if end <= k < n:
                    c = 'dec %s %s' % (c0.split()[1], pk.hx(b[:k]))
                    self.meta[c] = ('cut', fam, p[1])
                    cs.append(c)
                    hist(dist, 'cross-truncated')
        return cs, dist

    @staticmethod
    def proto_rule(nm, lvl):
        if (nm, lvl) == (b'MQIsdp', 3):
            return 'ok 3'
        if (nm, lvl) == (b'MQTT', 4):
            return 'ok 4'
        if (nm, lvl) == (b'MQTT', 5):
            return 'ok 5'
        if utf8_ok(nm):
            return 'err InvalidProtocol %s %d' % (pk.hx(nm), lvl)
        return 'err InvalidString'

    def judge(self, case, line, spec, ctx, i):
        t = case.split()
        f = fields(line)
        if t[0] == 'proto':
            want = self.proto_rule(bytes.fromhex(t[1][1:]), int(t[2]))
            if line != want:
                return 'Protocol::new(%s, %s) = %s, expected %s' % (t[1], t[2], line[:80], want[:80])
            return None
        m = self.meta.get(case)
        if m is None:
            return None
        if t[0] == 'dec' and m[0] == 'cut':
            want = 'err UnexpectedProtocol %d' % m[2]
            for fe in ('block', 'async', 'poll'):
                r = f.get(fe, '')
                # (the poll decoder needs the whole frame before it looks at the body: it may still report end of input)
                if r != want and not (fe == 'poll' and r == 'err IoError UnexpectedEof'):
                    return ('%s decoder on a %s CONNECT cut after the protocol level: %s, expected %s (name and level are there)'
                            % (fe, m[1], r[:100], want))
            return None
        if t[0] == 'dec':
            _, nm, lvl = m
            fam = t[1]
            pr = self.proto_rule(nm, lvl)
            if pr.startswith('ok '):
                v = int(pr[3:])
                native = (fam == 'v3' and v in (3, 4)) or (fam == 'v5' and v == 5)
                want = None if native else 'err UnexpectedProtocol %d' % v
            else:
                want = pr
            for fe in ('block', 'async', 'poll'):
                r = f.get(fe, '')
                if want is None:
                    if not r.startswith('ok connect %d ' % lvl):
                        return '%s %s decoder on a native CONNECT (level %d): %s' % (fam, fe, lvl, r[:100])
                elif r != want:
                    return '%s %s decoder on CONNECT %s/%d: %s, expected %s' % (fam, fe, nm[:20], lvl, r[:100], want[:100])
            if want is not None and f.get('aused', '').isdigit():
                b = bytes.fromhex(t[2][1:])
                end = frame_info(b)[0] + 2 + len(nm) + 1
                if int(f['aused']) > end:
                    return ('%s async decoder consumed %s bytes before refusing the protocol; name and level end at byte %d'
                            % (fam, f['aused'], end))
            return None
        src, p, n = m
        lvl = p[1]
        want = 'err UnexpectedProtocol %d' % lvl
        for fe in ('block', 'async', 'poll'):
            if f.get(fe) != want:
                return ('%s decoder of the other family on a %s CONNECT: %s, expected %s'
                        % (fe, src, f.get(fe, '')[:100], want))
        b = bytes.fromhex(t[2][1:])
        hl = frame_info(b)[0]
        nmlen = 6 if lvl == 3 else 4
        if f.get('aused', '').isdigit() and int(f['aused']) > hl + 2 + nmlen + 1:
            return 'async decoder consumed %s bytes before refusing; protocol name and level end at %d' % (f['aused'], hl + 2 + nmlen + 1)
        if f.get('resume') != 'ok %s %s' % (src, pk.tok(src, p)):
            return 'resuming with decode_with_protocol gives %s' % f.get('resume', '')[:160]
        if f.get('rused') != str(n):
            return 'resumed decode consumed %s bytes of a %d-byte CONNECT' % (f.get('rused'), n)
        if f.get('wrong') != want:
            return ('the other family\'s decode_with_protocol entry point, given the protocol found, returns %s, expected %s'
                    % (f.get('wrong', '')[:100], want))
        if f.get('presume') != 'ok %s %s' % (src, pk.tok(src, p)):
            return ('after the poll decoder refused, the body it retained in the caller-owned state resumes to %s, not the '
                    'original CONNECT' % f.get('presume', '')[:120])
        return None

    def project(self, case, line):
        f = fields(line)
        if case.startswith('cross'):
            return ';'.join('%s=%s' % (k, f.get(k, '')) for k in ('block', 'async', 'poll', 'resume', 'rused', 'wrong', 'presume'))
        if case.startswith('dec'):
            return ';'.join('%s=%s' % (k, f.get(k, '')) for k in ('block', 'async', 'poll'))
        return line

    def nontrivial(self, case, line):
        m = self.meta.get(case) if hasattr(self, 'meta') else None
        if case.startswith('cross') and m:
            p = m[1]
            return any(x is not None for x in p[-3:])
        return case.startswith('proto')


# ====================================================================== C14
@register
class C14(Base):
    id = 'C14'
    ops = ['faultr', 'wr', 'errconv', 'sched']
    rule = ('valid packets of every type: a read error of each of 6 kinds and EOF injected at every byte position 0..len-1 '
            '(all positions up to 300 bytes, sampled beyond) for the async and poll decoders; a write error of each kind '
            'or a zero-length write after every accepted-byte budget for encode_async and the streaming body encoder; the '
            'From conversions for 20 io::ErrorKinds and every error variant. Non-trivial: fault position >= 1.')
    RKINDS = [1, 4, 5, 6, 7, 11]          # InvalidData ConnectionReset BrokenPipe TimedOut Other WouldBlock
    OKINDS = [4, 5, 6, 8, 9, 10, 14]      # kinds with a Linux errno: ECONNRESET EPIPE ETIMEDOUT ECONNABORTED ENOTCONN EACCES ECONNREFUSED

    def cases(self, rng, tier):
        cs = self.corpus()
        self.meta = {}
        ps, dist = both_pools(rng, tier, n_random=14 if tier == 'quick' else 200)
        for fam, p in ps:
            b = pk.encode(fam, p)
            n = len(b)
            if n > 20000 or (n > 1500 and rng.random() < 0.7):
                continue
            pos = list(range(n)) if n <= 300 else sorted(set(list(range(16)) + [n - 1, n - 2] + [rng.randrange(n) for _ in range(24)]))
            if tier == 'quick' and n > 24:
                pos = sorted(set(pos[:8] + pos[-3:] + rng.sample(pos, min(len(pos), 6))))
            tok = pk.tok(fam, p)
            for k in pos:
                kinds = self.RKINDS if (tier == 'thorough' or n <= 12) else rng.sample(self.RKINDS, 2)
                for fe in ('async', 'poll'):
                    for kd in kinds:
                        cs.append('faultr %s %s %s %d k%d' % (fam, fe, pk.hx(b), k, kd))
                        hist(dist, 'read-fault')
                    cs.append('faultr %s %s %s %d eof' % (fam, fe, pk.hx(b), k))
                    # the kind as a socket reports it (an io::Error built from a raw OS error code)
                    if rng.random() < 0.5:
                        cs.append('faultr %s %s %s %d o%d' % (fam, fe, pk.hx(b), k, rng.choice(self.OKINDS)))
                        hist(dist, 'read-fault:raw-os-error')
                # the fault arriving in the same poll call as earlier bytes, after Pendings, after a re-created future:
                # the error must come out at once (no extra Pending), with its kind
                if n <= 300 and k >= 1 and rng.random() < 0.25:
                    kd = rng.choice(self.RKINDS)
                    c = 'sched %s %s k%d' % (fam, random_schedule(b[:k], rng), kd)
                    self.meta[c] = ('sched', kd)
                    cs.append(c)
                    hist(dist, 'read-fault:scheduled')
            # complete delivery then the fault is never reached
            cs.append('faultr %s async %s %d k4' % (fam, pk.hx(b), n))
            cs.append('faultr %s poll %s %d k4' % (fam, pk.hx(b), n))
            # write faults
            wpos = pos if n <= 40 else rng.sample(pos, min(len(pos), 6))
            for k in wpos:
                for step in ['f%d' % kd for kd in (rng.sample(self.RKINDS, 2) + [3])] + ['z']:
                    sc = ('a%d.' % k if k > 0 else '') + step
                    c = 'wr %s async %s %s' % (fam, tok, sc)
                    self.meta[c] = (b, k, step)
                    cs.append(c)
                    hist(dist, 'write-fault:async')
                    if k > 1 and rng.random() < 0.5:        # budget delivered in two accepted writes
                        sc2 = 'a1.a%d.%s' % (k - 1, step)
                        c = 'wr %s async %s %s' % (fam, tok, sc2)
                        self.meta[c] = (b, k, step)
                        cs.append(c)
            body = self.body_of(fam, p, b)
            if body is not None:
                for k in sorted(set([0, 1, 2, len(body) - 1] + [rng.randrange(max(1, len(body))) for _ in range(3)])):
                    if 0 <= k < len(body):
                        for step in ['f%d' % kd for kd in rng.sample(self.RKINDS, 2)] + ['z', 'f3']:
                            c = 'wr %s stream %s %s' % (fam, tok, self.stream_script(fam, p, body, k, step))
                            self.meta[c] = (body, k, step)
                            cs.append(c)
                            hist(dist, 'write-fault:stream')
        for i in range(20):
            cs.append('errconv from_io %d' % i)
        for i in range(34):
            cs.append('errconv to_io %d' % i)
        for i in range(34):
            cs.append('errconv v5_common %d' % i)
        return cs, dist

    @staticmethod
    def body_of(fam, p, b):
        if p[0] in ('pingreq', 'pingresp'):
            return None
        if fam == 'v3' and p[0] in ('connack', 'puback', 'pubrec', 'pubrel', 'pubcomp', 'unsuback', 'disconnect'):
            return None
        return b[frame_info(b)[0]:]

    @staticmethod
    def stream_script(fam, p, body, k, step):
        # the streaming encoder issues one write_all per chunk; a1 steps accept one byte per write call
        return '.'.join(['a1'] * k + [step])

    def judge(self, case, line, spec, ctx, i):
        t = case.split()
        f = fields(line)
        if t[0] == 'faultr':
            fam, fe, hx_, k, tail = t[1], t[2], t[3], int(t[4]), t[5]
            n = (len(hx_) - 1) // 2
            r = f.get('res', '')
            if k >= n:
                if not r.startswith('ok '):
                    return 'complete packet delivered before the fault, decoder returns %s' % r[:100]
                return None
            if tail == 'eof':
                if r != 'err IoError UnexpectedEof' or f.get('iseof') != '1':
                    return '%s decoder, EOF after %d bytes: %s is_eof=%s' % (fe, k, r[:100], f.get('iseof'))
            else:
                kind = KINDS[int(tail[1:])]
                if r != 'err IoError ' + kind:
                    return '%s decoder, read error %s after %d bytes: %s' % (fe, kind, k, r[:100])
                if f.get('iseof') != '0':
                    return 'is_eof() true for an I/O error of kind %s' % kind
            return None
        if t[0] == 'sched':
            m = self.meta.get(case)
            if m is None:
                return None
            kind = KINDS[m[1]]
            if f.get('res') != 'err IoError ' + kind:
                return 'poll decoder under a schedule ending in a read error %s: %s' % (kind, f.get('res', '')[:100])
            if f.get('pend') != f.get('rpend'):
                return ('poll decoder returned Pending %s times, the transport %s times, on a schedule ending in a read error %s'
                        % (f.get('pend'), f.get('rpend'), kind))
            return None
        if t[0] == 'wr':
            m = self.meta.get(case)
            if m is None:
                return None
            data, k, step = m
            r = f.get('res', '')
            w = bytes.fromhex(f.get('written', 'x')[1:])
            if t[2] == 'stream' and step == 'f3':
                # std::io::Write::write_all retries ErrorKind::Interrupted (documented exception)
                if r != 'ok' or w != data:
                    return 'streaming encoder: Interrupted must be retried by write_all, got %s' % r[:80]
                return None
            want = 'err IoError WriteZero' if step == 'z' else 'err IoError ' + KINDS[int(step[1:])]
            if r != want:
                return '%s encoder, sink fault %s after %d bytes: %s, expected %s' % (t[2], step, k, r[:80], want)
            if w != data[:k]:
                return '%s encoder wrote %d bytes before the fault; they are not the first %d bytes of the encoding' % (t[2], len(w), k)
            return None
        if t[1] == 'from_io':
            kind = KINDS[int(t[2])]
            iseof = '1' if kind == 'UnexpectedEof' else '0'
            if f.get('v3') != 'IoError ' + kind or f.get('v5') != 'IoError ' + kind:
                return 'From<io::Error> loses the kind %s: %s' % (kind, line[:100])
            if f.get('eof3') != iseof or f.get('eof5') != iseof:
                return 'is_eof() wrong for kind %s: %s' % (kind, line[:100])
            return None
        idx = int(t[2])
        if t[1] == 'to_io':
            want = 'InvalidData' if idx < 14 else KINDS[idx - 14]
            k0 = line.split(';')[0]
            if k0 != want:
                return 'From<Error> for io::Error maps table entry %d to %s, expected %s' % (idx, k0, want)
            iseof = '1' if idx == 14 else '0'
            if f.get('eof') != iseof:
                return 'is_eof() wrong for table entry %d' % idx
            return None
        if t[1] == 'v5_common':
            iseof = '1' if idx == 14 else '0'
            if f.get('eof') != iseof:
                return 'ErrorV5::is_eof() wrong for table entry %d' % idx
            if idx >= 14 and line.split(';')[0] != 'IoError ' + KINDS[idx - 14]:
                return 'ErrorV5::from(Error::IoError) loses the kind: %s' % line[:80]
        return None

    def nontrivial(self, case, line):
        t = case.split()
        return (t[0] == 'faultr' and int(t[4]) >= 1) or (t[0] == 'wr' and '.' in t[-1]) or t[0] == 'sched'


# ====================================================================== C20
@register
class C20(Base):
    id = 'C20'
    ops = ['dec', 'stream', 'sched']
    rule = ('G-fault: the C20 catalogue (gen/frames.py: illegal flags, type 0/15, body on an empty packet, pid 0, QoS 3, bad '
            'return/reason codes, CONNACK flags, reserved connect bits, will QoS without will, subscription-option bits, '
            'non-UTF-8 in every text field, wildcard topic names and response topics, invalid filters, unknown / duplicated / '
            'disallowed properties, property length - 1, bad boolean property, 5-byte variable byte integers, protocol '
            'name/level, empty subscription, payload format, remaining length too small / + 1, inner length overrun) applied '
            'at every position where it applies in valid packets of every type; all three front-ends. The expected error '
            'comes from the catalogue (written from the library documentation), independent of the model. '
            'Non-trivial: every case (each is one malformation of one valid packet).')

    def cases(self, rng, tier):
        cs = self.corpus()
        self.meta = {}
        dist = {}
        ps, _ = both_pools(rng, tier, n_random=18 if tier == 'quick' else 300)
        for fam, p in ps:
            b = pk.encode(fam, p)
            if len(b) > 4000 and rng.random() < 0.8:
                continue
            cat = FR.catalogue(fam, p, rng)
            if tier == 'quick' and len(cat) > 40:
                keep = {}
                for row in cat:
                    keep.setdefault(row[0], []).append(row)
                cat = [r for rows in keep.values() for r in rng.sample(rows, min(len(rows), 3))]
            for row, fb, exp in cat:
                c = 'dec %s %s' % (fam, pk.hx(fb))
                if c in self.meta:
                    continue
                self.meta[c] = (row, exp)
                cs.append(c)
                hist(dist, row)
                # the classification must not depend on how the transport chunks the frame
                want = exp.get('all')
                if want and want.startswith('err ') and len(fb) < 200 and row != 'entry-overruns-frame' and rng.random() < 0.3:
                    if rng.random() < 0.5:
                        sc = 'stream %s async %s %d' % (fam, pk.hx(fb), rng.choice([1, 1, 2]))
                    else:
                        sc = 'sched %s %s eof' % (fam, props.pend_atoms(fb))
                    self.meta[sc] = (row, {'chunked': want})
                    cs.append(sc)
                    hist(dist, 'chunked:' + row)
        for b, kind, pid_, exp in carrier_matrix():
            c = 'dec v5 ' + pk.hx(b)
            if c not in self.meta:
                self.meta[c] = ('carrier-matrix:%s:%d' % (kind, pid_), {'all': exp})
                cs.append(c)
                hist(dist, 'carrier-matrix')
        return cs, dist

    def judge(self, case, line, spec, ctx, i):
        m = self.meta.get(case)
        if m is None:
            return None
        row, exp = m
        f = fields(line)
        if 'chunked' in exp:
            got = f.get('res') if case.startswith('sched ') else (f.get('final') if f.get('n') == '0' else 'ok ' + f.get('pkts', ''))
            if got != exp['chunked']:
                return ('catalogue row %s: %s decoder over a transport delivering the frame in pieces returns %s, documented: %s'
                        % (row, 'poll' if case.startswith('sched ') else 'async', str(got)[:120], exp['chunked'][:120]))
            return None
        for fe in ('block', 'async', 'poll'):
            want = exp.get(fe, exp.get('all'))
            if want is None:
                continue
            if want == 'ok':
                if not f.get(fe, '').startswith('ok '):
                    return 'catalogue row %s: %s decoder rejects a permitted property: %s' % (row, fe, f.get(fe, '')[:120])
                continue
            if f.get(fe) != want:
                return 'catalogue row %s: %s decoder returns %s, documented: %s' % (row, fe, f.get(fe, '')[:120], want[:120])
        return None

    def project(self, case, line):
        f = fields(line)
        if case.startswith('sched '):
            return 'res=' + f.get('res', '')
        if case.startswith('stream '):
            return ';'.join('%s=%s' % (k, f.get(k, '')) for k in ('n', 'final', 'pkts'))
        return ';'.join('%s=%s' % (k, f.get(k, '')) for k in ('hdr', 'block', 'async', 'poll'))


# ====================================================================== C04
@register
class C04(Base):
    id = 'C04'
    ops = ['dec', 'hdr', 'code', 'sched']
    rule = ('complete frames (header + exactly the declared body) of both families: grammar-generated valid packets, legal '
            'non-canonical spellings (short forms spelled out, permuted and interleaved properties), the same frames with '
            'one injected violation (fault catalogue), byte-level mutations re-framed to be complete, random bodies under '
            'every control byte; Header::new_with on all 256 control bytes x {0, 1, 2, 5, 127, 128}. The judge is the '
            'extracted reference parser Spec.parse (strict; pinned leniencies of DESIGN.md section 4): the poll decoder '
            'accepts iff Spec.parse does, and then returns the same packet. Frames containing a non-minimal variable byte '
            'integer (strict and lenient reference parse differ) are outside the quantifier and only compared with the '
            'model. Non-trivial: frame with a body.')

    def cases(self, rng, tier):
        cs = self.corpus()
        dist = {}
        pool, _ = frame_pool(rng, tier, n_random=30 if tier == 'quick' else 500)
        seen = set()
        for fam, b, tag, minimal in pool:
            fi = frame_info(b)
            if fi is None:
                continue
            hl, rl = fi
            frames = []
            if len(b) == hl + rl:
                frames.append(b)
            elif tag == 'mut' and len(b) > hl and len(b) - hl < 268435456:
                frames.append(b[:1] + pk.vbi(len(b) - hl) + b[hl:])       # re-frame: keep the corrupted body, fix the length
                if len(b) > hl + rl:
                    frames.append(b[:hl + rl])
            for fr in frames:
                if (fam, fr) in seen or len(fr) > 70000:
                    continue
                seen.add((fam, fr))
                cs.append('dec %s %s' % (fam, pk.hx(fr)))
                hist(dist, tag.split(':')[0])
        for _ in range(6000 if tier == 'quick' else 150000):
            fam = rng.choice(['v3', 'v5'])
            a = rng.choice([0x10, 0x20, 0x30, 0x32, 0x34, 0x3b, 0x40, 0x50, 0x62, 0x70, 0x82, 0x90, 0xa2, 0xb0, 0xc0, 0xd0, 0xe0,
                            0xf0, rng.getrandbits(8)])
            rl = rng.randint(0, 20)
            body = bytes(rng.choice([0, 0, 0, 1, 2, 3, 4, 5, 0x26, 0x1f, 0x0b, 0x80, rng.getrandbits(8)]) for _ in range(rl))
            cs.append('dec %s %s' % (fam, pk.hx(bytes([a, rl]) + body)))
            hist(dist, 'random-frame')
        for fam in ('v3', 'v5'):
            for cb in range(256):
                for rl in (0, 1, 2, 5, 127, 128):
                    cs.append('hdr %s %d %d' % (fam, cb, rl))
                    hist(dist, 'hdr')
        for c in code_cases():
            cs.append(c)
            hist(dist, 'code-table')
        for b, kind, pid_, exp in carrier_matrix():
            cs.append('dec v5 ' + pk.hx(b))
            hist(dist, 'property-carrier-matrix')
        # topic filters and topic names of every shape inside the packets that carry them
        sp = [x for x in props.string_pool(rng, tier) if len(x) < 40 and utf8_ok(x)]
        for flt in props.NASTY_FILTERS + rng.sample(sp, min(len(sp), 1200 if tier == 'quick' else 30000)):
            for fam, p in (('v3', ('subscribe', 5, [(b'ok/+', 0), (flt, 1)])), ('v3', ('unsubscribe', 5, [flt])),
                           ('v5', ('subscribe', 5, ({}, []), [(flt, 1, 0, 0, 0)])), ('v5', ('unsubscribe', 5, ({}, []), [b'a', flt])),
                           ('v3', ('publish', 0, 0, 1, 9, flt, b'pl')), ('v5', ('publish', 0, 0, 0, 0, flt, ({35: 1}, []), b'pl')),
                           ('v5', ('connect', 5, 1, 10, ({}, []), b'c', (1, 0, ({8: flt}, []), flt, b'm'), None, None))):
                if rng.random() < 0.6 and flt not in props.NASTY_FILTERS:
                    continue
                cs.append('dec %s %s' % (fam, pk.hx(pk.encode(fam, p))))
                hist(dist, 'topic-shapes:' + p[0])
        # acceptance is a function of the frame, not of how the transport delivers it: one byte per read with a Pending
        # before every byte (in particular inside the remaining-length field of frames with bodies >= 128 bytes)
        fr = [(c.split()[1], bytes.fromhex(c.split()[2][1:])) for c in cs if c.startswith('dec ') and len(c) < 2000]
        props.pend_sched_cases(self, cs, dist, fr, rng, 500 if tier == 'quick' else 8000)
        return cs, dist

    def context(self, cases, act):
        return {c: lib.normalize(a) for c, a in zip(cases, act) if c.startswith('dec ') and len(c) < 2000}

    def spec_phase(self, cases, act, workdir, prof):
        idx = [i for i, c in enumerate(cases) if c.startswith('dec ')]
        strict = driver_run(['specparse %s %s' % tuple(cases[i].split()[1:3]) for i in idx], workdir, 'specs.' + prof)
        lenient = driver_run(['specparse_lenient %s %s' % tuple(cases[i].split()[1:3]) for i in idx], workdir, 'specl.' + prof)
        res = [None] * len(cases)
        for i, s, l in zip(idx, strict, lenient):
            res[i] = (s, l)
        return res

    @staticmethod
    def hdr_rule(fam, cb, rl):
        typ, fl = cb >> 4, cb & 15
        names = {1: 'connect', 2: 'connack', 3: 'publish', 4: 'puback', 5: 'pubrec', 6: 'pubrel', 7: 'pubcomp', 8: 'subscribe',
                 9: 'suback', 10: 'unsubscribe', 11: 'unsuback', 12: 'pingreq', 13: 'pingresp', 14: 'disconnect', 15: 'auth'}
        if typ == 0 or (typ == 15 and fam == 'v3'):
            return 'err InvalidHeader'
        if typ == 3:
            q = (fl >> 1) & 3
            if q == 3:
                return 'err InvalidQos 3'
            return 'ok publish %d %d %d %d' % (fl >> 3, q, fl & 1, rl)
        want_fl = 2 if typ in (6, 8, 10) else 0
        if fl != want_fl:
            return 'err InvalidHeader'
        if rl != 0 and (typ in (12, 13) or (typ == 14 and fam == 'v3')):
            return 'err InvalidHeader'
        return 'ok %s 0 0 0 %d' % (names[typ], rl)

    def judge(self, case, line, spec, ctx, i):
        t = case.split()
        if t[0] == 'code':
            return judge_code(case, line)
        if t[0] == 'hdr':
            want = self.hdr_rule(t[1], int(t[2]), int(t[3]))
            if line != want:
                return 'Header::new_with(%s, %s) = %s, MQTT 2.2 flag table says %s' % (t[2], t[3], line[:80], want)
            return None
        if t[0] == 'sched':
            return props.judge_pend_sched(self, case, line, ctx)
        if spec is None:
            return None
        s, l = spec
        if s != l:
            return None          # a non-minimal variable byte integer somewhere: outside C04's quantifier
        f = fields(line)
        b = bytes.fromhex(t[2][1:])
        fi = frame_info(b)
        if fi is None or len(b) != fi[0] + fi[1]:
            return None
        pol = f.get('poll', '')
        if s.startswith('ok '):
            if pol != s:
                return 'well-formed frame (per the reference grammar: %s) but the strict decoder returns %s' % (s[:120], pol[:120])
        else:
            if pol.startswith('ok '):
                return 'frame rejected by the reference grammar is accepted by the strict decoder as %s' % pol[:160]
            if not pol.startswith('err '):
                return 'malformed frame is not reported as an error: %s' % pol[:100]
        return None

    def project(self, case, line):
        if case.startswith('hdr') or case.startswith('code'):
            return line
        f = fields(line)
        pol = f.get('res', '') if case.startswith('sched ') else f.get('poll', '')
        return 'poll=' + (pol if pol.startswith('ok ') else pol.split(' ')[0])

    def nontrivial(self, case, line):
        return case.startswith('dec') and len(case.split()[2]) > 5
