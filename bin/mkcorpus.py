#!/usr/bin/env python3
"""bin/mkcorpus.py — collect the failing cases of the seeded-change rehearsal (work/replay/*.json) into
corpus/Cxx.txt: inputs that distinguished some changed tree from the unchanged one; they run first in every
check of that property (regression corpus).  Only cases that pass on the unchanged tree are kept — that is
verified by the next ordinary run of the check."""
import json, os, glob, collections
ROOT = os.path.dirname(os.path.dirname(os.path.abspath(__file__)))
import re
per = collections.OrderedDict()
# only the replay files produced by the rehearsal runs recorded in seeded/*/results.json
wanted = []
for rj in sorted(glob.glob(os.path.join(ROOT, 'seeded', '*', 'results.json'))):
    if 'harmless' in rj:
        continue
    for v in json.load(open(rj)).values():
        for l in v.get('lines', []):
            m = re.search(r'replay=(\S+)', l)
            if m and os.path.exists(m.group(1)):
                wanted.append(m.group(1))
for f in wanted:
    try:
        r = json.load(open(f))
    except Exception:
        continue
    p = r.get('property')
    n = 0
    for it in r.get('items', []):
        c = it.get('case')
        if not c or len(c) > 4000:
            continue
        per.setdefault(p, collections.OrderedDict())[c] = 1
        n += 1
        if n >= 3:
            break
for p, cs in per.items():
    path = os.path.join(ROOT, 'corpus', p + '.txt')
    old = []
    keep = [l for l in old if l.startswith('#') or not l.strip()]
    have = set(l for l in old if l and not l.startswith('#'))
    allc = list(have) + [c for c in cs if c not in have]
    allc = allc[:300]
    with open(path, 'w') as fh:
        fh.write('# regression corpus for %s: cases on which some seeded change differed from the unchanged tree\n' % p)
        for c in allc:
            fh.write(c + '\n')
    print(p, len(allc))
