"""bin/lib.py — orchestration shared by all property checks: hygiene, Coq build and assumption
audit, harness build, sharded runs of driver (extracted model) and harness (implementation),
normalisation, evidence and verdicts.  Standard library only."""
import json, os, re, subprocess, sys, time, hashlib, shutil
from concurrent.futures import ThreadPoolExecutor

ROOT = os.path.dirname(os.path.dirname(os.path.abspath(__file__)))
COQ = os.path.join(ROOT, 'coq')
DRIVER = os.path.join(ROOT, 'driver', 'driver')
HARNESS = os.path.join(ROOT, 'harness')
WORK = os.path.join(ROOT, 'work')
REPO = '/repo'
NCPU = 16

ENV = dict(os.environ, CARGO_NET_OFFLINE='true')


class Broken(Exception):
    """the machinery itself failed (exit 2, never a VIOLATION)"""


def sh(cmd, cwd=None, timeout=3600, env=None, check=False):
    p = subprocess.run(cmd, shell=isinstance(cmd, str), cwd=cwd, env=env or ENV, timeout=timeout,
                       stdout=subprocess.PIPE, stderr=subprocess.STDOUT, text=True)
    if check and p.returncode != 0:
        raise Broken('command failed: %s\n%s' % (cmd, p.stdout[-4000:]))
    return p.returncode, p.stdout


# ------------------------------------------------------------------ hygiene + proofs
FORBIDDEN = re.compile(r'\b(Admitted|admit|Axiom|Axioms|Parameter|Parameters|Conjecture|Conjectures|'
                       r'Hypothesis|Hypotheses|Variable|Variables|Admit Obligations|bypass_check|'
                       r'Unset Guard Checking|Unset Positivity Checking|Unset Universe Checking|'
                       r'type-in-type|impredicative-set|native_compute)\b')


def strip_comments(src):
    out, depth, i = [], 0, 0
    while i < len(src):
        if src.startswith('(*', i):
            depth += 1
            i += 2
        elif src.startswith('*)', i) and depth:
            depth -= 1
            i += 2
        else:
            if depth == 0:
                out.append(src[i])
            i += 1
    return ''.join(out)


def hygiene():
    """no Admitted/Axiom/... anywhere in the development; Variable/Hypothesis only inside Sections"""
    bad = []
    for dp, _, fs in os.walk(os.path.join(COQ, 'theories')):
        for f in fs:
            if not f.endswith('.v'):
                continue
            path = os.path.join(dp, f)
            src = strip_comments(open(path).read())
            depth = 0
            for ln, line in enumerate(src.split('\n'), 1):
                if re.match(r'\s*Section\b', line):
                    depth += 1
                if re.match(r'\s*End\b', line) and depth:
                    depth -= 1
                for m in FORBIDDEN.finditer(line):
                    w = m.group(1)
                    if w in ('Variable', 'Variables', 'Hypothesis', 'Hypotheses') and depth > 0:
                        continue
                    bad.append('%s:%d: %s' % (os.path.relpath(path, ROOT), ln, w))
    for f in ('_CoqProject',):
        s = open(os.path.join(COQ, f)).read()
        if 'type-in-type' in s or 'impredicative' in s:
            bad.append('_CoqProject: forbidden flag')
    return bad


def coq_make():
    if not os.path.exists(os.path.join(COQ, 'Makefile')):
        sh('coq_makefile -f _CoqProject -o Makefile', cwd=COQ, check=True)
    rc, out = sh('make -j%d' % NCPU, cwd=COQ, timeout=3000)
    return rc, out


def check_property_file(pid):
    """compile Properties/<pid>.v afresh; returns (ok, theorems, problems)
    theorems: list of (name, closed) from the Print Assumptions output."""
    path = os.path.join(COQ, 'theories', 'Properties', pid + '.v')
    if not os.path.exists(path):
        return False, [], ['no property file ' + path]
    rc, out = sh(['coqc', '-Q', 'theories', 'MQ', '-w', '-notation-overridden', path], cwd=COQ, timeout=1200)
    problems = []
    if rc != 0:
        problems.append('coqc failed on Properties/%s.v:\n%s' % (pid, out[-3000:]))
        return False, [], problems
    src = strip_comments(open(path).read())
    names = re.findall(r'Print Assumptions\s+([A-Za-z0-9_\.\']+)\s*\.', src)
    stated = re.findall(r'^\s*(?:Theorem|Lemma|Corollary)\s+([A-Za-z0-9_\']+)', src, re.M)
    blocks = re.split(r'\n(?=Closed under the global context|Axioms:|Section Variables:)', '\n' + out)
    blocks = [b for b in blocks if b.startswith(('Closed', 'Axioms', 'Section'))]
    theorems = []
    if len(blocks) != len(names):
        problems.append('Print Assumptions output (%d blocks) does not match %d commands' % (len(blocks), len(names)))
    for n, b in zip(names, blocks):
        closed = b.startswith('Closed under the global context')
        theorems.append((n, closed))
        if not closed:
            problems.append('theorem %s depends on axioms:\n%s' % (n, b.strip()[:600]))
    for s in stated:
        if s not in names and not s.startswith('ex_'):
            problems.append('theorem %s has no Print Assumptions' % s)
    return not problems, theorems, problems


# ------------------------------------------------------------------ harness / driver
def ensure_driver():
    if not os.path.exists(DRIVER):
        rc, out = sh('./build.sh', cwd=os.path.join(ROOT, 'driver'), timeout=1200)
        if rc != 0 or not os.path.exists(DRIVER):
            raise Broken('driver build failed:\n' + out[-3000:])


def build_harness(profiles):
    """cargo build against /repo's working tree.  Returns {profile: binary}.  A compile error caused
    by /repo is reported to the caller as ('repo', text)."""
    lock = os.path.join(HARNESS, 'Cargo.lock')
    if not os.path.exists(lock):
        shutil.copy(os.path.join(REPO, 'Cargo.lock'), lock)
    bins = {}
    for prof in profiles:
        cmd = 'cargo build --offline -q' + (' --release' if prof == 'release' else '')
        rc, out = sh(cmd, cwd=HARNESS, timeout=1800)
        if rc != 0:
            return None, out
        bins[prof] = os.path.join(HARNESS, 'target', 'release' if prof == 'release' else 'debug', 'harness')
    return bins, ''


def _split(lines, n):
    """round-robin shards (expensive cases tend to cluster); returns list of (indices, lines)"""
    k = max(1, min(n, (len(lines) + 199) // 200))
    return [(list(range(i, len(lines), k)), lines[i::k]) for i in range(k)]


def _run_driver_shard(args):
    prof, path, out = args
    rc, o = sh('ulimit -s unlimited 2>/dev/null; exec %s %s %s %s' % (DRIVER, prof, path, out), timeout=7200)
    if rc != 0:
        raise Broken('driver failed on %s: %s' % (path, o[-2000:]))
    return open(out).read().split('\n')[:-1]


def _run_harness_shard(args):
    binary, path, out, ncases = args
    skip = 0
    stuck = 0
    if os.path.exists(out):
        os.remove(out)
    for _ in range(200):
        rc, o = sh([binary, path, out, str(skip)], timeout=7200)
        lines = open(out).read().split('\n')[:-1] if os.path.exists(out) else []
        if rc == 0 and len(lines) == ncases:
            return lines
        if rc == 3:
            stuck += 1
            if stuck >= 3:
                # the implementation hangs on case after case (each costs the 20 s watchdog): three witnesses are
                # enough; the remaining cases of this shard are not run
                lines += ['TIMEOUT-SKIPPED'] * (ncases - len(lines))
                return lines
        if rc == 3 or len(lines) < ncases:
            # TIMEOUT (status 3) or a hard crash: the last line belongs to the case that died
            if rc != 3:
                with open(out, 'a') as f:
                    f.write('CRASH status=%d\n' % rc)
                lines.append('CRASH')
            skip = len(lines)
            if skip >= ncases:
                return lines
            continue
        raise Broken('harness produced %d lines for %d cases (%s)' % (len(lines), ncases, o[-500:]))
    raise Broken('harness kept dying on ' + path)


def run_sharded(kind, which, cases, workdir, tag):
    """kind: 'driver' (which = profile) or 'harness' (which = binary path)"""
    os.makedirs(workdir, exist_ok=True)
    shards = _split(cases, NCPU)
    jobs = []
    for i, (_, sh_) in enumerate(shards):
        p = os.path.join(workdir, '%s.%d.cases' % (tag, i))
        with open(p, 'w') as f:
            f.write(''.join(l + '\n' for l in sh_))
        o = os.path.join(workdir, '%s.%d.out' % (tag, i))
        jobs.append((which, p, o) if kind == 'driver' else (which, p, o, len(sh_)))
    fn = _run_driver_shard if kind == 'driver' else _run_harness_shard
    with ThreadPoolExecutor(max_workers=NCPU) as ex:
        parts = list(ex.map(fn, jobs))
    res = [None] * len(cases)
    for (idx, _), part in zip(shards, parts):
        if len(part) != len(idx):
            raise Broken('%s returned %d lines for %d cases' % (kind, len(part), len(idx)))
        for j, l in zip(idx, part):
            res[j] = l
    return res


# ------------------------------------------------------------------ normalisation
_PANIC = re.compile(r'PANIC[^;,|]*')


def fields(line):
    d = {}
    for kv in line.split(';'):
        if '=' in kv:
            k, v = kv.split('=', 1)
            d[k] = v
        else:
            d.setdefault('_', kv)
    return d


def normalize(line):
    if line.startswith('BADCASE'):
        return 'BADCASE'
    line = _PANIC.sub('PANIC', line)
    if ('aused=' in line or 'rused=' in line) and 'resume=' not in line:
        f = fields(line)
        if 'aused' in f and not f.get('async', '').startswith('ok'):
            line = re.sub(r'aused=[^;]*', 'aused=?', line)
        if 'rused' in f and not f.get('resume', '').startswith('ok'):
            line = re.sub(r'rused=[^;]*', 'rused=?', line)
    return line


def sha(path):
    return hashlib.sha256(open(path, 'rb').read()).hexdigest()[:16]


# ------------------------------------------------------------------ extraction cross-check (DESIGN.md 5.5)
FIXED_SAMPLE = ['x', 'xc000', 'xe000', 'x300700016161626364', 'x3209000161000778797a', 'x100c00044d5154540402000a0000',
                'x100d00044d5154540502000a000000', 'x2002000005', 'x40020000', 'x4004000110001f', 'x8206000100016100',
                'x82080001000001610001', 'x900400010080', 'xa2050001000161', 'xb00400010011', 'xe0020000', 'xf0021800',
                'x30ffffff7f0001', 'x300a0001610626000161000162', 'x82', 'x8280', 'x20020100']


def extraction_crosscheck(cases, workdir, limit=120):
    """evaluate Model/Digest.v on a sample of byte strings inside Coq (vm_compute) and with the extracted
    OCaml driver; any difference means extraction / driver glue is broken -> Broken"""
    seen, sample = set(), []
    for c in list(FIXED_SAMPLE) + [tok for line in cases[:: max(1, len(cases) // 400)] for tok in line.split()]:
        if re.fullmatch(r'x(?:[0-9a-f]{2}){0,160}', c) and c not in seen:
            seen.add(c)
            sample.append(c)
        if len(sample) >= limit:
            break
    lines, vs = [], ['From MQ Require Import Model.Digest.']
    for i, hx in enumerate(sample):
        fam = 'v3' if i % 2 == 0 else 'v5'
        prof = 'Debug' if i % 4 < 2 else 'Release'
        bs = '; '.join(str(int(hx[j:j + 2], 16)) for j in range(1, len(hx), 2))
        vs.append('Eval vm_compute in (digest%s %s [%s]%%N).' % (fam[1], prof, bs))
        lines.append((prof.lower(), 'digest %s %s' % (fam, hx)))
    vpath = os.path.join(workdir, 'cases.v')
    open(vpath, 'w').write('\n'.join(vs) + '\n')
    rc, out = sh(['coqc', '-noglob', '-Q', os.path.join(COQ, 'theories'), 'MQ', vpath], cwd=workdir, timeout=900)
    if rc != 0:
        raise Broken('cases.v does not evaluate: ' + out[-1500:])
    coq = [re.sub(r'\s+', '', m).replace('%N', '').replace(';', ',') for m in re.findall(r'=\s*\[(.*?)\]\s*:\s*list N', out, re.S)]
    ocaml = []
    for prof in ('debug', 'release'):
        idx = [i for i, (p_, _) in enumerate(lines) if p_ == prof]
        cp = os.path.join(workdir, 'xcheck.%s.cases' % prof)
        op = os.path.join(workdir, 'xcheck.%s.out' % prof)
        open(cp, 'w').write(''.join(lines[i][1] + '\n' for i in idx))
        rc, o = sh([DRIVER, prof, cp, op], timeout=900)
        if rc != 0:
            raise Broken('driver failed on the cross-check cases: ' + o[-500:])
        res = open(op).read().split('\n')[:-1]
        ocaml += list(zip(idx, res))
    ocaml = [r for _, r in sorted(ocaml)]
    if len(coq) != len(sample) or len(ocaml) != len(sample):
        raise Broken('extraction cross-check: %d Coq results, %d OCaml results for %d inputs' % (len(coq), len(ocaml), len(sample)))
    for hx, a, b in zip(sample, coq, ocaml):
        if a != b:
            raise Broken('extraction cross-check: Coq vm_compute and the extracted OCaml disagree on %s: %s vs %s' % (hx, a, b))
    return len(sample)


def budget(cases, limit_bytes, rng):
    """keep the total size of the case file under limit_bytes: all cases of up to 4000 characters stay, the longer ones are
    thinned out at random (a dropped case is simply not run; judges look their cases up by text). Returns (cases, dropped)."""
    total = sum(len(c) for c in cases)
    if total <= limit_bytes:
        return cases, 0
    small = sum(len(c) for c in cases if len(c) <= 4000)
    room = max(0, limit_bytes - small)
    big_total = total - small
    keep_p = room / big_total if big_total else 1.0
    out, dropped = [], 0
    for c in cases:
        if len(c) <= 4000 or rng.random() < keep_p:
            out.append(c)
        else:
            dropped += 1
    return out, dropped
