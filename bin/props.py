"""bin/props.py — per-property generators, projections and judges (DESIGN.md §9).
A judge looks only at the implementation's (normalised) output line."""
import os, sys, itertools
import lib
from lib import fields
import pk

REG = {}


def register(cls):
    REG[cls.id] = cls
    return cls


def get(pid):
    if pid not in REG:
        raise lib.Broken('no check for property ' + pid)
    return REG[pid]()


class Base:
    profiles = ('debug', 'release')
    assumptions = ['the model (coq/theories/Model) is the code: established by the differential run of this check, on the cases it generated',
                   'usize is 64 bit']
    exhaustive = {}

    def project(self, case, line):
        return line

    def nontrivial(self, case, line):
        return True

    def corpus(self):
        path = os.path.join(lib.ROOT, 'corpus', self.id + '.txt')
        if os.path.exists(path):
            return [l.rstrip('\n') for l in open(path) if l.strip() and not l.startswith('#')]
        return []


def hist(d, k):
    d[k] = d.get(k, 0) + 1


# ====================================================================== C19
@register
class C19(Base):
    id = 'C19'
    ops = ['pid_add', 'pid_sub', 'pid_addassign', 'pid_subassign', 'pid_try', 'pid_range']
    rule = ('quick: every p in 1..65535 with u in {0,1,2,65534,65535,p-1,p,p+1,65535-p,65536-p}, every u with '
            'p in {1,2,32767,32768,65534,65535}, random pairs, as blocks hashed on both sides plus explicit '
            'single cases; thorough: all 65535 x 65536 pairs x 4 operators. A case is non-trivial if u != 0.')
    exhaustive = {'thorough': True}

    def cases(self, rng, tier):
        cs = self.corpus()
        dist = {}
        ps = [1, 2, 3, 255, 256, 32767, 32768, 65533, 65534, 65535]
        for p in ps + [rng.randint(1, 65535) for _ in range(40)]:
            us = {0, 1, 2, 65534, 65535, p - 1, p, (p + 1) % 65536, 65535 - p, (65536 - p) % 65536}
            for u in sorted(us):
                for op in ('pid_add', 'pid_sub', 'pid_addassign', 'pid_subassign'):
                    cs.append('%s %d %d' % (op, p, u))
                    hist(dist, op)
        for n in [0, 1, 2, 65535] + [rng.randint(0, 65535) for _ in range(20)]:
            cs.append('pid_try %d' % n)
            hist(dist, 'pid_try')
        if tier == 'quick':
            blocks = [(1, 8), (32764, 32771), (65528, 65535)] + [(p, p) for p in rng.sample(range(1, 65536), 40)]
        else:
            blocks = [(p, min(p + 127, 65535)) for p in range(1, 65536, 128)]
        for a, b in blocks:
            cs.append('pid_range %d %d' % (a, b))
            hist(dist, 'pid_range')
        dist['pairs_in_ranges'] = sum((b - a + 1) * 65536 for a, b in blocks)
        return cs, dist

    def judge(self, case, line, spec, ctx, i):
        t = case.split()
        if t[0] in ('pid_add', 'pid_sub', 'pid_addassign', 'pid_subassign'):
            p, u = int(t[1]), int(t[2])
            want = ((p - 1 + u) % 65535) + 1 if 'add' in t[0] else ((p - 1 - u) % 65535) + 1
            if line != str(want):
                return '%s: got %s, the cycle 1..65535 gives %d' % (t[0], line, want)
        elif t[0] == 'pid_try':
            n = int(t[1])
            want = 'err ZeroPid' if n == 0 else 'ok %d' % n
            if line != want:
                return 'Pid::try_from(%d) = %s, expected %s' % (n, line, want)
        return None

    def nontrivial(self, case, line):
        t = case.split()
        return t[0] == 'pid_range' or (len(t) > 2 and t[2] != '0')


# ====================================================================== C15
BOUNDS = [0, 1, 127, 128, 129, 16383, 16384, 16385, 2097151, 2097152, 2097153, 268435455, 268435456,
          268435457, 4294967295, 4294967296, 2 ** 40, 2 ** 62 - 1]


@register
class C15(Base):
    id = 'C15'
    ops = ['vi_len', 'vi_total', 'vi_hlen', 'vi_rlen', 'vi_try', 'vi_write', 'vi_read', 'vi_poll', 'vi_range', 'sched', 'dec', 'big', 'wr']
    rule = ('boundaries +-2 of every width, powers of 128 +-2, first invalid values, all continuation-bit patterns of '
            'up to five bytes with extreme payload bits (standalone reader and poll header machine, both families), '
            'random values, and hashed ranges (quick: windows around each boundary + random windows; thorough: all 2^28 '
            'values). Non-trivial: value >= 128 or an encoding of >= 2 bytes.')
    exhaustive = {'thorough': True}

    def cases(self, rng, tier):
        cs = self.corpus()
        dist = {}
        vals = set()
        for b in BOUNDS:
            for d in (-2, -1, 0, 1, 2):
                if 0 <= b + d < 2 ** 62:
                    vals.add(b + d)
        for k in range(1, 9):
            for d in (-2, -1, 0, 1, 2):
                vals.add(max(0, 128 ** k + d))
        vals |= {rng.randint(0, 268435455) for _ in range(300)}
        vals |= {rng.randint(0, 2 ** 40) for _ in range(50)}
        for v in sorted(vals):
            for op in ('vi_len', 'vi_total', 'vi_hlen'):
                cs.append('%s %d' % (op, v))
                hist(dist, op)
            if v >= 2:
                cs.append('vi_rlen %d' % v)
            if v < 2 ** 32:
                cs.append('vi_try %d' % v)
            if v < 268435456:
                cs.append('vi_write %d' % v)
        # continuation-bit patterns
        pats = []
        for n in range(1, 6):
            for cont in itertools.product([0, 1], repeat=n):
                for lo in (0x00, 0x01, 0x7f):
                    pats.append(bytes((0x80 if c else 0) | lo for c in cont))
        pats += [bytes(rng.getrandbits(8) for _ in range(rng.randint(0, 6))) for _ in range(300)]
        pats += [b'', b'\x80', b'\xff\xff\xff', b'\xff\xff\xff\x7f', b'\x80\x80\x80\x80', b'\x80\x80\x80\x80\x01']
        for p in pats:
            cs.append('vi_read ' + pk.hx(p))
            hist(dist, 'vi_read')
            for fam in ('v3', 'v5'):
                for tail in ('eof', 'k4'):
                    cs.append('vi_poll %s %s %s' % (fam, pk.hx(p), tail))
                    hist(dist, 'vi_poll')
                # the same header bytes delivered one per read with a Pending before each (the limit on the number
                # of length bytes must live in the caller-owned state, not in one poll call)
                if len(p) >= 1:
                    cs.append('sched %s %s eof' % (fam, '.'.join('p.b%02x.c' % x for x in b'\x30' + p)))
                    hist(dist, 'sched-header')
        # the byte count reported by decode_var_int is observable where the library uses it: the property length of a
        # v5 UNSUBSCRIBE (spelled minimally and non-minimally; the library accepts both and must frame the topics after it)
        self.unsub = {}
        for users in ([], [(b'k', b'v')], [(b'k' * 60, b'v' * 70)]):
            pkt = ('unsubscribe', 7, ({}, users), [b'a/b', b'#'])
            for w in (None, 2, 3, 4):
                b = pk.encode('v5', pkt, spell={'plen_width': w, 'short': False}) if w else pk.encode('v5', pkt)
                c = 'dec v5 ' + pk.hx(b)
                self.unsub[c] = 'ok ' + pk.tok('v5', pkt)
                cs.append(c)
                hist(dist, 'unsubscribe-plen-width')
        # the poll header machine's byte count for a body-less packet whose zero length is spelled in 1..4 bytes
        self.zero = {}
        for fam, cbs in (('v3', (0xc0, 0xd0, 0xe0)), ('v5', (0xc0, 0xd0, 0xe0, 0xf0))):
            for cb in cbs:
                for sp in (b'\x00', b'\x80\x00', b'\x80\x80\x00', b'\x80\x80\x80\x00'):
                    for sfx in (b'', b'\xc0\x00'):
                        c = 'dec %s %s' % (fam, pk.hx(bytes([cb]) + sp + sfx))
                        self.zero[c] = 1 + len(sp)
                        cs.append(c)
                        hist(dist, 'zero-length-spellings')
        # the var-int writer towards a caller-supplied sink: Interrupted is retried, a full sink is an error, whichever byte
        # of the integer it hits (v5 SUBSCRIBE body: pid, property length, 0x0B, Subscription Identifier)
        self.sinkw = {}
        for v in (0, 127, 128, 300, 16383, 16384, 2097151, 2097152, 268435455):
            p = ('subscribe', 7, ({11: v}, []), [(b'a', 1, 0, 0, 0)])
            b = pk.encode('v5', p)
            body = b[frame_info(b)[0]:]
            for j in range(0, 9):
                for step in ('f3', 'z'):
                    c = 'wr v5 stream %s %s' % (pk.tok('v5', p), '.'.join(['a1'] * j + [step]))
                    self.sinkw[c] = (body, j, step)
                    cs.append(c)
                    hist(dist, 'var-int-writer-sink')
        # the encoder side of "values of 268,435,456 and above are rejected": packets around the limit (shape only)
        for fam in ('v3', 'v5'):
            extra = 0 if fam == 'v3' else 1
            for rl in (2097151, 2097152, 268435454, 268435455, 268435456, 268435457, 300000000):
                for q in (0, 1):
                    cs.append('big %s publish %d %d %d' % (fam, 3, q, rl - 2 - 3 - (2 if q else 0) - extra))
                    hist(dist, 'big')
        if tier == 'quick':
            wins = []
            for b in (128, 16384, 2097152, 268435456):
                wins.append((max(0, b - 3000), min(268435456, b + 3000)))
            wins.append((0, 3000))
            for _ in range(24):
                a = rng.randint(0, 268435456 - 20000)
                wins.append((a, a + 20000))
        else:
            step = 1 << 20
            wins = [(a, a + step) for a in range(0, 1 << 28, step)]
        for a, b in wins:
            cs.append('vi_range %d %d' % (a, b))
            hist(dist, 'vi_range')
        dist['values_in_ranges'] = sum(b - a for a, b in wins)
        return cs, dist

    def project(self, case, line):
        if case.startswith('dec '):
            f = fields(line)
            return ';'.join('%s=%s' % (k, f.get(k, '')) for k in ('block', 'async', 'poll', 'ptotal'))
        return line

    @staticmethod
    def vlen(n):
        return 1 if n < 128 else 2 if n < 16384 else 3 if n < 2097152 else 4 if n < 268435456 else None

    def judge(self, case, line, spec, ctx, i):
        t = case.split()
        op = t[0]
        if op in ('vi_len', 'vi_total', 'vi_try', 'vi_write', 'vi_hlen', 'vi_rlen'):
            n = int(t[1])
            k = self.vlen(n)
            if op == 'vi_len':
                want = 'ok %d' % k if k else 'err InvalidVarByteInt'
            elif op == 'vi_total':
                want = 'ok %d' % (n + 1 + k) if k else 'err InvalidVarByteInt'
            elif op == 'vi_try':
                want = 'ok %d' % n if k else 'err InvalidVarByteInt'
            elif op == 'vi_write':
                want = pk.hx(pk.vbi(n))
            elif op == 'vi_hlen':
                # defined (by the property) on valid totals only
                r = None
                for kk, lo in ((1, 0), (2, 128), (3, 16384), (4, 2097152)):
                    hi = {1: 127, 2: 16383, 3: 2097151, 4: 268435455}[kk]
                    if lo + 1 + kk <= n <= hi + 1 + kk:
                        r = kk
                if r is None:
                    return None
                want = str(1 + r)
            else:
                r = None
                for kk, lo in ((1, 0), (2, 128), (3, 16384), (4, 2097152)):
                    hi = {1: 127, 2: 16383, 3: 2097151, 4: 268435455}[kk]
                    if lo + 1 + kk <= n <= hi + 1 + kk:
                        r = kk
                if r is None:
                    return None
                want = str(n - 1 - r)
            if line != want:
                return '%s(%d) = %s, the law gives %s' % (op, n, line, want)
        elif op == 'wr':
            m = self.sinkw.get(case)
            if m is not None:
                body, j, step = m
                f = fields(line)
                w = bytes.fromhex(f.get('written', 'x')[1:])
                if step == 'f3':
                    if f.get('res') != 'ok' or w != body:
                        return ('body encoder into a sink that reports Interrupted once after %d bytes: %s, wrote %d of %d bytes '
                                '(write_all retries Interrupted)' % (j, f.get('res'), len(w), len(body)))
                elif j < len(body):
                    if f.get('res') != 'err IoError WriteZero' or w != body[:j]:
                        return ('body encoder into a sink that is full after %d bytes: %s, wrote %d bytes; expected WriteZero after '
                                'the first %d bytes' % (j, f.get('res'), len(w), j))
        elif op == 'big':
            fam, tl, q, pl = t[1], int(t[3]), int(t[4]), int(t[5])
            rl = 2 + tl + (2 if q else 0) + pl + (1 if fam == 'v5' else 0)
            f = fields(line)
            if rl >= 268435456:
                if f.get('len') != 'err InvalidVarByteInt' or f.get('enc') != 'err InvalidVarByteInt':
                    return 'packet with remaining length %d is not refused: len=%s enc=%s' % (rl, f.get('len'), f.get('enc'))
            else:
                want = 'ok %d' % (rl + 1 + self.vlen(rl))
                if f.get('len') != want or f.get('enc') != want:
                    return 'packet with remaining length %d: len=%s enc=%s, total_len law gives %s' % (rl, f.get('len'), f.get('enc'), want)
        elif op == 'dec' and case in self.zero:
            f = fields(line)
            n = self.zero[case]
            if not f.get('poll', '').startswith('ok ') or f.get('ptotal') != str(n) or f.get('pused') != str(n):
                return ('body-less packet whose zero remaining length is spelled in %d byte(s): poll decoder returns %s, reports %s '
                        'bytes and consumed %s; the header is %d bytes' % (n - 1, f.get('poll', '')[:60], f.get('ptotal'), f.get('pused'), n))
        elif op == 'dec':
            want = self.unsub.get(case)
            if want is not None:
                f = fields(line)
                for fe in ('block', 'async', 'poll'):
                    if f.get(fe) != want:
                        return ('v5 UNSUBSCRIBE whose property length uses a (legal, possibly non-minimal) variable byte integer: '
                                '%s decoder returns %s — the byte count reported by the reader is wrong' % (fe, f.get(fe, '')[:100]))
        elif op == 'sched':
            b = bytes(int(a[1:], 16) for a in t[2].split('.') if a.startswith('b'))[1:]
            if len(b) >= 4 and all(x & 0x80 for x in b[:4]):
                f = fields(line)
                if f.get('res') != 'err InvalidVarByteInt':
                    return ('poll header machine fed %s one byte per read with Pendings: %s, expected InvalidVarByteInt'
                            % (pk.hx(b), f.get('res')))
        elif op in ('vi_read', 'vi_poll'):
            b = bytes.fromhex(t[2 if op == 'vi_poll' else 1][1:])
            # reference reading: little-endian base 128, at most 4 bytes
            val, used, res = 0, 0, None
            for j, x in enumerate(b[:4]):
                val |= (x & 0x7f) << (7 * j)
                used = j + 1
                if not x & 0x80:
                    res = ('ok', val, used)
                    break
            else:
                res = ('long',) if len(b) >= 4 else ('short',)
            if op == 'vi_read':
                want = {'ok': lambda: 'ok %d %d' % (res[1], res[2]), 'long': lambda: 'err InvalidVarByteInt',
                        'short': lambda: 'err IoError UnexpectedEof'}[res[0]]()
                if line != want:
                    return 'decode_var_int(%s) = %s, expected %s' % (t[1], line, want)
            else:
                f = fields(line)
                st = f.get('state', '').split()
                if res[0] == 'long':
                    if f.get('res') != 'err InvalidVarByteInt':
                        return 'poll header machine on %s: %s, expected InvalidVarByteInt' % (t[2], f.get('res'))
                elif res[0] == 'ok' and res[1] > 0:
                    if not (st and st[0] == 'body' and int(st[1]) == res[1] and int(st[2]) == res[1] + 1 + res[2]):
                        return 'poll header machine on %s: state %s, expected remaining length %d total %d' % (
                            t[2], f.get('state'), res[1], res[1] + 1 + res[2])
        return None

    def nontrivial(self, case, line):
        t = case.split()
        if t[0] == 'vi_range':
            return True
        if t[0] in ('vi_read',):
            return len(t[1]) > 3
        if t[0] == 'vi_poll':
            return len(t[2]) > 3
        if t[0] in ('sched', 'dec', 'big', 'wr'):
            return True
        return int(t[1]) >= 128


# ====================================================================== helpers for derived spec runs
def driver_run(lines, workdir, tag):
    """run the extracted model/spec on derived lines (profile-independent functions)"""
    if not lines:
        return []
    return lib.run_sharded('driver', 'release', lines, workdir, tag)


def same_packet_spellings(items, tag):
    """items: (fam, p, spelled_bytes). Keeps those the strict reference parser reads as exactly packet p — gen/frames.py also
    produces re-spellings that denote another packet (permuted user properties), none (a payload no longer matching its
    format indicator), or use non-minimal variable byte integers inside the body (pinned leniency L-class / known finding
    KF2: the blocking decoders then frame by the canonical length)."""
    if not items:
        return []
    import shutil
    wd = os.path.join(lib.WORK, 'gen-' + tag)
    os.makedirs(wd, exist_ok=True)
    lib.ensure_driver()
    out = driver_run(['specparse %s %s' % (fam, pk.hx(sb)) for fam, p, sb in items], wd, 'spell')
    keep = [it for it, o in zip(items, out) if lib.normalize(o) == 'ok ' + pk.tok(it[0], it[1])]
    shutil.rmtree(wd, ignore_errors=True)
    return keep


def utf8_ok(b):
    try:
        b.decode('utf-8')
        return True
    except UnicodeDecodeError:
        return False


def frame_info(b):
    """(header_len, remaining_len) of the fixed header at the start of b, or None"""
    if len(b) < 2:
        return None
    val = 0
    for j in range(4):
        if 1 + j >= len(b):
            return None
        x = b[1 + j]
        val |= (x & 0x7f) << (7 * j)
        if not x & 0x80:
            return (2 + j, val)
    return None


import strs


def string_pool(rng, tier, valid_utf8_only=True):
    n_ex = 4 if tier == 'quick' else 6
    pool = list(strs.with_prefixes(strs.exhaustive(n_ex)))
    pool += list(strs.with_prefixes(strs.sampled(rng, 3000 if tier == 'quick' else 60000, 9)))
    pool += list(strs.with_prefixes(strs.exhaustive(2 if tier == 'quick' else 3, strs.WIDE)))
    pool += list(strs.with_prefixes(strs.sampled(rng, 600 if tier == 'quick' else 20000, 7, strs.ALPHA + strs.WIDE)))
    # shared filters with more than 256 levels
    pool += [b'$share/g/' + b'a/' * 300 + b'#', b'$share/g' + b'/' * 300, b'$share/' + b'/'.join([b'x'] * 300), b'/' * 300]
    pool += strs.long_strings(rng)
    pool += strs.UTF8_EDGE + [b'a/' + e for e in strs.UTF8_EDGE] + [b'$share/' + e + b'/x' for e in strs.UTF8_EDGE]
    g = pk.Gen(rng)
    pool += [g.topic_filter() for _ in range(2000)] + [g.topic_name() for _ in range(1000)]
    seen, out = set(), []
    for s in pool:
        if s not in seen:
            seen.add(s)
            out.append(s)
    return out


# ====================================================================== C18
@register
class C18(Base):
    id = 'C18'
    ops = ['tn', 'dec', 'stream']
    rule = ('bounded-exhaustive strings over {/,+,#,$,a,NUL,2-,3-,4-byte chars} (quick: length <= 4, thorough <= 6) behind 12 '
            'prefix shapes, random strings up to length 9, long strings at 65,533..65,537 bytes, UTF-8 boundary sequences; '
            'the same strings as PUBLISH topic, will topic (v3, v5) and Response Topic (PUBLISH and will properties), each also '
            'under one random flag combination; the eight shortest strings under every level / clean-session / will-QoS / '
            'will-retain / PUBLISH dup-retain-QoS combination. Non-trivial: non-empty string.')

    def cases(self, rng, tier):
        cs = self.corpus()
        dist = {}
        self.meta = {}
        self.chunked = {}
        pool = string_pool(rng, tier)
        for s in pool:
            cs.append('tn ' + pk.hx(s))
            hist(dist, 'tn')
        sub = [s for s in pool if len(s) <= 65535 and utf8_ok(s)]
        step = max(1, len(sub) // (4000 if tier == 'quick' else 60000))
        # the shortest strings (the empty one first) additionally under every will QoS / will-retain / PUBLISH flag combination
        # (C18-r6-1: an empty will topic refused only when the will-retain bit is set)
        short = [b'', b'/', b'a', b'$SYS/', b'$share/', b'a+', b'#', b'\x00']
        for s in short:
            combos = [('v3', 'name', ('connect', lvl, cl, 10, b'c', (wq, wr, s, b'm'), None, None))
                      for lvl in (3, 4) for cl in (0, 1) for wq in (0, 1, 2) for wr in (0, 1)]
            combos += [('v5', 'name', ('connect', 5, cl, 10, ({}, []), b'c', (wq, wr, ({}, []), s, b'm'), None, None))
                       for cl in (0, 1) for wq in (0, 1, 2) for wr in (0, 1)]
            combos += [(fam, 'name', ('publish', dup, ret, q, 9 if q else 0, s) + (() if fam == 'v3' else (({}, []),)) + (b'pl',))
                       for fam in ('v3', 'v5') for dup in (0, 1) for ret in (0, 1) for q in (0, 1, 2)]
            for fam, where, p in combos:
                c = 'dec %s %s' % (fam, pk.hx(pk.encode(fam, p)))
                self.meta[c] = (where, s)
                cs.append(c)
                hist(dist, 'dec-flags:%s:%s' % (p[0], where))
        for s in sub[::step] + [s for s in sub if len(s) > 60000]:
            wq, wr, cl = rng.randint(0, 2), rng.randint(0, 1), rng.randint(0, 1)
            dup, ret, q = rng.randint(0, 1), rng.randint(0, 1), rng.randint(0, 2)
            frames = [
                ('v3', 'name', ('publish', 0, 0, 1, 9, s, b'pl')),
                ('v5', 'name', ('publish', 0, 1, 0, 0, s, ({}, []), b'pl')),
                ('v3', 'name', ('connect', 4, 1, 10, b'c', (1, 0, s, b'm'), None, None)),
                ('v5', 'name', ('connect', 5, 1, 10, ({}, []), b'c', (1, 0, ({}, []), s, b'm'), None, None)),
                ('v3', 'name', ('publish', dup, ret, q, 9 if q else 0, s, b'pl')),
                ('v5', 'name', ('publish', dup, ret, q, 9 if q else 0, s, ({}, []), b'pl')),
                ('v3', 'name', ('connect', rng.choice([3, 4]), cl, 10, b'c', (wq, wr, s, b'm'), b'u', b'p')),
                ('v5', 'name', ('connect', 5, cl, 10, ({}, []), b'c', (wq, wr, ({}, []), s, b'm'), b'u', b'p')),
            ]
            if len(s) < 65000:
                frames += [('v5', 'name', ('publish', 0, 0, 0, 0, s, ({35: 7}, [(b'k', b'v')]), b'pl')),
                           ('v5', 'name', ('publish', 0, 0, 0, 0, s, ({35: 0}, []), b'pl')),
                           ('v5', 'resp', ('publish', 0, 0, 0, 0, b't', ({8: s}, []), b'pl')),
                           ('v5', 'resp', ('connect', 5, 1, 10, ({}, []), b'c', (0, 0, ({8: s}, []), b'w', b'm'), None, None))]
            for fam, where, p in frames:
                c = 'dec %s %s' % (fam, pk.hx(pk.encode(fam, p)))
                self.meta[c] = (where, s)
                cs.append(c)
                hist(dist, 'dec:%s:%s' % (p[0], where))
                # the same frame over a transport that splits every field across reads (async decode path)
                if len(s) < 200 and (len(s) > 1 or where == 'name') and rng.random() < 0.25:
                    sc = 'stream %s async %s %d' % (fam, c.split()[2], rng.choice([1, 1, 2, 3]))
                    self.chunked[sc] = c
                    cs.append(sc)
                    hist(dist, 'stream-chunked:%s:%s' % (p[0], where))
        return cs, dist

    def context(self, cases, act):
        return {c: lib.normalize(a) for c, a in zip(cases, act) if c.startswith('dec ')}

    @staticmethod
    def name_ok(s):
        return len(s) <= 65535 and not any(c in s for c in (b'+', b'#', b'\x00'))

    def judge(self, case, line, spec, ctx, i):
        t = case.split()
        if t[0] == 'tn':
            s = bytes.fromhex(t[1][1:])
            if not utf8_ok(s):
                return None if line == 'notutf8' else 'harness utf8 pre-check differs'
            f = fields(line)
            ok = self.name_ok(s)
            want_inv = '0' if ok else '1'
            if f.get('inv') != want_inv:
                return 'TopicName::is_invalid = %s but the rule (<=65535 bytes, no + # NUL) says %s' % (f.get('inv'), want_inv)
            if f.get('try') != ('ok' if ok else 'err'):
                return 'TopicName::try_from: %s' % f.get('try')
            if ok:
                if f.get('deref') != '1' or f.get('str') != '1':
                    return 'accepted name does not read back as the original string'
                if f.get('cf') not in ('1', None):
                    return 'a TopicName overwritten in place (clone_from) with this name does not read back as this name: cf=%s' % f.get('cf')
                if f.get('shared') != ('1' if s.startswith(b'$share/') else '0'):
                    return 'is_shared wrong'
                if f.get('sys') != ('1' if s.startswith(b'$SYS/') else '0'):
                    return 'is_sys wrong'
            return None
        if t[0] == 'stream':
            ref = ctx.get(self.chunked.get(case, '')) if ctx else None
            if ref is None:
                return None
            f, r = fields(line), fields(ref).get('async', '')
            got = ('ok ' + f.get('pkts', '').split('|')[0]) if f.get('n') != '0' else f.get('final', '')
            if got != r:
                return ('async decoder over a transport delivering %s byte(s) per read: %s; over a contiguous reader: %s'
                        % (t[4], got[:90], r[:90]))
            return None
        where, s = self.meta.get(case, (None, None))
        if where is None:
            return None
        f = fields(line)
        ok = self.name_ok(s)
        for fe in ('block', 'async', 'poll'):
            r = f.get(fe, '')
            if ok and not r.startswith('ok '):
                return '%s decoder rejects a packet whose topic %s is a valid topic name: %s' % (fe, pk.hx(s)[:60], r[:80])
            if not ok:
                want = 'err InvalidTopicName ' + pk.hx(s) if where == 'name' else 'err InvalidResponseTopic'
                if r != want:
                    return '%s decoder on invalid topic name %s: %s, expected %s' % (fe, pk.hx(s)[:60], r[:80], want[:80])
        return None

    def nontrivial(self, case, line):
        return len(case.split()[-1]) > 1


# ====================================================================== C16 / C17
def filter_rule(s):
    """MQTT 4.7 / 4.8 written directly over the decoded characters.  Returns (ok, sep)"""
    try:
        t = s.decode('utf-8')
    except UnicodeDecodeError:
        return None
    if t == '' or len(s) > 65535 or '\x00' in t:
        return (False, 0)
    levels = t.split('/')
    for i, l in enumerate(levels):
        if '#' in l and (l != '#' or i != len(levels) - 1):
            return (False, 0)
        if '+' in l and l != '+':
            return (False, 0)
    if t.startswith('$share/'):
        rest = t[7:]
        if '/' not in rest:
            return (False, 0)
        name, flt = rest.split('/', 1)
        if name == '' or '+' in name or '#' in name or flt == '':
            return (False, 0)
        return (True, 7 + len(name.encode()))
    return (True, 0)


@register
class C16(Base):
    id = 'C16'
    ops = ['tf', 'dec']
    rule = ('same string pool as C18 (bounded-exhaustive over the 9-letter alphabet x 12 prefix shapes, long strings around '
            '65,535 bytes, UTF-8 boundary sequences, grammar-generated filters); every string through TopicFilter::is_invalid / '
            'try_from and a sample inside SUBSCRIBE and UNSUBSCRIBE of both families.  The judge is the extracted '
            'Spec.topic_filter_ok / share_sep and an independent Python rendering of MQTT 4.7/4.8. Non-trivial: non-empty string.')

    def cases(self, rng, tier):
        cs = self.corpus()
        dist = {}
        self.meta = {}
        pool = string_pool(rng, tier)
        for s in pool:
            cs.append('tf ' + pk.hx(s))
            hist(dist, 'tf')
        sub = [s for s in pool if len(s) <= 65535 and utf8_ok(s)]
        step = max(1, len(sub) // (5000 if tier == 'quick' else 80000))
        g = pk.Gen(rng)
        longs = [s for s in sub if len(s) > 60000]
        # valid filters at the very top of the length range (the per-entry length arithmetic must not wrap)
        longs += [b'a/' * 32765 + b'abc'[:k] for k in (1, 2, 3)] + [b'x' * n for n in (65532, 65533, 65534, 65535)]
        for s in sub[::step] + longs:
            # (every option combination; the same filter twice in one packet: neither changes whether the filter is acceptable)
            frames = [('v3', ('subscribe', 3, [(b'ok/#', 1), (s, 2)])),
                      ('v5', ('subscribe', 3, ({}, []), [(s, rng.randint(0, 2), rng.randint(0, 1), rng.randint(0, 1), rng.randint(0, 2))])),
                      ('v3', ('unsubscribe', 4, [s, b'x', s] if len(s) < 30000 else [s, b'x'])),
                      ('v5', ('unsubscribe', 4, ({}, [(b'k', b'v')]), [b'y', s]))]
            if len(s) < 200 and rng.random() < 0.3:
                frames += [('v5', ('subscribe', 3, ({}, []), [(s, 0, 1, 0, 0), (s, 2, 1, 1, 2)])),
                           ('v3', ('subscribe', 3, [(s, 0), (s, 0)])),
                           ('v5', ('unsubscribe', 4, ({}, []), [s, s]))]
            for fam, p in frames:
                c = 'dec %s %s' % (fam, pk.hx(pk.encode(fam, p)))
                self.meta[c] = s
                cs.append(c)
                hist(dist, 'dec:' + p[0])
        return cs, dist

    def spec_phase(self, cases, act, workdir, prof):
        idx = [i for i, c in enumerate(cases) if c.startswith('tf ')]
        out = driver_run(['spec_tf ' + cases[i].split()[1] for i in idx], workdir, 'spec.' + prof)
        res = [None] * len(cases)
        for i, o in zip(idx, out):
            res[i] = o
        return res

    def judge(self, case, line, spec, ctx, i):
        t = case.split()
        if t[0] == 'tf':
            s = bytes.fromhex(t[1][1:])
            rule = filter_rule(s)
            if rule is None:
                return None if line == 'notutf8' else 'harness utf8 pre-check differs'
            f = fields(line)
            want = '%d,%d' % (0 if rule[0] else 1, rule[1] if rule[0] else 0)
            if spec is not None and spec != '%d,%d' % (1 if rule[0] else 0, rule[1] if rule[0] else 0):
                raise lib.Broken('Spec.topic_filter_ok and the Python rule disagree on %s: %s vs %s' % (t[1][:80], spec, rule))
            if f.get('inv') != want:
                return 'TopicFilter::is_invalid(%s) = (%s), MQTT 4.7/4.8 gives (%s)' % (t[1][:80], f.get('inv'), want)
            if f.get('try') != ('ok' if rule[0] else 'err'):
                return 'TopicFilter::try_from: %s' % f.get('try')
            return None
        s = self.meta.get(case)
        if s is None:
            return None
        ok = filter_rule(s)[0]
        f = fields(line)
        for fe in ('block', 'async', 'poll'):
            r = f.get(fe, '')
            if ok and not r.startswith('ok '):
                return '%s decoder rejects a SUBSCRIBE/UNSUBSCRIBE whose filter %s is valid: %s' % (fe, pk.hx(s)[:60], r[:80])
            if not ok and r != 'err InvalidTopicFilter ' + pk.hx(s):
                return '%s decoder on invalid filter %s: %s' % (fe, pk.hx(s)[:60], r[:100])
        return None

    def nontrivial(self, case, line):
        return len(case.split()[-1]) > 1


@register
class C17(Base):
    id = 'C17'
    ops = ['tf', 'tfcmp']
    rule = ('all valid filters of the C16 pool (multi-byte share names, filters beginning with "/", long ones) through the '
            'accessors; pairwise ==, cmp and hash-of-filter = hash-of-text on random pairs including equal texts built '
            'separately. Non-trivial: shared filter, or a pair of distinct texts.')

    def cases(self, rng, tier):
        cs = self.corpus()
        dist = {}
        pool = [s for s in string_pool(rng, tier) if (filter_rule(s) or (False,))[0]]
        g = pk.Gen(rng)
        pool += [g.topic_filter() for _ in range(3000)]
        pool += [b'$share/' + n + b'/' + f for n in (b'g', '你好'.encode(), b'a b', b'$share', '\U0001F600'.encode())
                 for f in (b'/', b'//', b'/a', b'#', b'+', b'+/#', b'a/+/b', '你'.encode(), b'/#')]
        for s in pool:
            cs.append('tf ' + pk.hx(s))
            hist(dist, 'tf:shared' if s.startswith(b'$share/') else 'tf:plain')
        # pairs of shared filters that differ ONLY in the share name (same length) or ONLY in the filter part
        for s in [x for x in pool if x.startswith(b'$share/') and len(x) < 120][:800]:
            name, flt = s[7:].split(b'/', 1)
            if name and name[-1:] != b'x':
                other = b'$share/' + name[:-1] + (b'x' if name[-1] < 0x80 else name[-1:]) + b'/' + flt
                if other != s and (filter_rule(other) or (False,))[0]:
                    cs.append('tfcmp %s %s' % (pk.hx(s), pk.hx(other)))
                    hist(dist, 'tfcmp:share-name-only')
            other = b'$share/' + name + b'/' + flt + b'/y'
            if (filter_rule(other) or (False,))[0]:
                cs.append('tfcmp %s %s' % (pk.hx(s), pk.hx(other)))
                hist(dist, 'tfcmp:filter-only')
        n = 6000 if tier == 'quick' else 200000
        small = [s for s in pool if len(s) < 200]
        for _ in range(n):
            a = rng.choice(small)
            k = rng.random()
            b = a if k < 0.2 else (a[:-1] if k < 0.3 and len(a) > 1 else rng.choice(small))
            cs.append('tfcmp %s %s' % (pk.hx(a), pk.hx(b)))
            hist(dist, 'tfcmp')
        return cs, dist

    def judge(self, case, line, spec, ctx, i):
        t = case.split()
        if t[0] == 'tf':
            s = bytes.fromhex(t[1][1:])
            rule = filter_rule(s)
            if rule is None or not rule[0]:
                return None
            f = fields(line)
            if f.get('try') != 'ok':
                return None        # C16's business
            if f.get('deref') != '1' or f.get('str') != '1':
                return 'converting the filter back to text does not return the original string'
            if s.startswith(b'$share/'):
                name, flt = s[7:].split(b'/', 1)
                want = dict(shared='1', group=pk.hx(name), filter=pk.hx(flt), info=pk.hx(name) + ',' + pk.hx(flt))
            else:
                want = dict(shared='0', group='-', filter='-', info='-')
            want['d3'] = want['d5'] = '1%s,%s,%s' % (want['shared'], want['group'], want['filter'])
            for k, v in want.items():
                if f.get(k) != v:
                    if k in ('d3', 'd5'):
                        return ('the filter %s decoded from a %s (same text?, is_shared, group, filter): %s, the unique split gives %s'
                                % (t[1][:80], 'v3 SUBSCRIBE' if k == 'd3' else 'v5 UNSUBSCRIBE', f.get(k), v))
                    return 'accessor %s on %s: %s, the unique split gives %s' % (k, t[1][:80], f.get(k), v)
            if f.get('sys') != ('1' if s.startswith(b'$SYS/') else '0'):
                return 'is_sys wrong'
            return None
        a, b = bytes.fromhex(t[1][1:]), bytes.fromhex(t[2][1:])
        ra, rb = filter_rule(a), filter_rule(b)
        if not (ra and rb and ra[0] and rb[0]):
            return None
        f = fields(line)
        want = dict(eq='1' if a == b else '0', cmp='lt' if a < b else 'gt' if a > b else 'eq', hasheq='1')
        lt, gt = a < b, a > b
        want['ne'] = '0' if a == b else '1'
        want['pcmp'] = want['cmp']
        want['rel'] = ''.join('1' if x else '0' for x in (lt, not gt, gt, not lt))
        if b.startswith(b'$share/'):
            name, flt = b[7:].split(b'/', 1)
            want['cf'] = '111,%s,%s' % (pk.hx(name), pk.hx(flt))
        else:
            want['cf'] = '110,-,-'
        for k, v in want.items():
            if f.get(k) != v:
                what = {'ne': '!=', 'pcmp': 'partial_cmp', 'rel': '<,<=,>,>=',
                        'cf': 'a.clone_from(&b) then (a == b, same text, is_shared, group, filter)'}.get(k, k)
                return '%s of filters %s / %s: %s, from the text alone: %s' % (what, t[1][:40], t[2][:40], f.get(k), v)
        return None

    def nontrivial(self, case, line):
        t = case.split()
        return (t[0] == 'tf' and t[1].startswith('x2473686172652f')) or (t[0] == 'tfcmp' and t[1] != t[2])


# ====================================================================== packet pools
import pools


def both_pools(rng, tier, n_random=None):
    out = []
    dist = {}
    for fam in ('v3', 'v5'):
        ps, d = pools.packets(rng, tier, fam, n_random)
        out += [(fam, p) for p in ps]
        for k, v in d.items():
            dist[fam + ':' + k] = v
    return out, dist


def enc_bytes(f):
    """bytes of an `enc=ok VB HEX` field, or None"""
    e = f.get('enc', '')
    if not e.startswith('ok '):
        return None
    return bytes.fromhex(e.split()[2][1:])


# ====================================================================== C01
@register
class C01(Base):
    id = 'C01'
    ops = ['rt', 'stream', 'sched']
    rule = ('G-pkt: random valid packets of all 14 v3 + 15 v5 types, every return/reason code x property presence (all/none), '
            'every flag / subscription-option combination, every property alone, user-property lists of length 0..40, '
            'text/binary lengths from {0,1,127,128,16383,16384,65535}, size-targeted remaining lengths and property '
            'lengths at 127/128, 16383/16384 (thorough: 2097151/2097152). Non-trivial: a packet with a body.')

    def cases(self, rng, tier):
        cs = self.corpus()
        ps, dist = both_pools(rng, tier)
        cs += ['rt %s %s' % (fam, pk.tok(fam, p)) for fam, p in ps]
        # the same encodings handed to the async and poll decoders in small chunks with Pending in between (a real
        # transport): the decoded packet must still be the original
        self.chunked = {}
        for fam, p in ps:
            b = pk.encode(fam, p)
            if len(b) > 1200 or (len(b) > 140 and rng.random() < 0.6) or rng.random() < 0.4:
                continue
            for k in ((1,) if (len(b) > 300 or rng.random() < 0.6) else (1, 3)):
                c = 'stream %s async %s %d' % (fam, pk.hx(b), k)
                self.chunked[c] = (pk.tok(fam, p), len(b))
                cs.append(c)
                hist(dist, 'chunked:async')
            # poll decoder: one byte per read, a Pending before every byte (so every header byte arrives in its own poll call)
            c = 'sched %s %s eof' % (fam, '.'.join('p.b%02x.c' % x for x in b))
            self.chunked[c] = (pk.tok(fam, p), len(b))
            cs.append(c)
            hist(dist, 'chunked:poll')
        return cs, dist

    def judge(self, case, line, spec, ctx, i):
        if line == 'BADCASE':
            return 'harness could not build the packet (generator bug?)'
        if case.startswith('sched '):
            m = self.chunked.get(case)
            if m is None:
                return None
            f = fields(line)
            if f.get('res') != 'ok ' + m[0] or f.get('total') != str(m[1]) or f.get('used') != str(m[1]):
                return ('poll decoder fed the encoding one byte per read with a Pending before each returns %s (total %s), not the '
                        'original packet' % (f.get('res', '')[:120], f.get('total')))
            return None
        if case.startswith('stream '):
            m = self.chunked.get(case)
            if m is None:
                return None
            f = fields(line)
            if f.get('pkts') != m[0] or f.get('sizes') != str(m[1]):
                return ('%s decoder fed the encoding in chunks of %s bytes with Pending in between returns %s (sizes %s), not the '
                        'original packet' % (case.split()[2], case.split()[4], f.get('pkts', '')[:120], f.get('sizes')))
            return None
        want = 'ok ' + case.split(' ', 2)[2]
        f = fields(line)
        b = enc_bytes(f)
        if b is None:
            return 'encode of a valid packet failed: ' + f.get('enc', '')[:100]
        n = len(b)
        if f.get('len') != 'ok %d' % n:
            return 'encode_len %s but %d bytes were produced' % (f.get('len'), n)
        for fe in ('block', 'async', 'poll'):
            if f.get(fe) != want:
                return '%s decoder does not return the original packet: %s' % (fe, f.get(fe, '')[:160])
        hl = frame_info(b)[0]
        if f.get('ptotal') != str(n):
            return 'poll decoder reports total %s for a %d-byte packet' % (f.get('ptotal'), n)
        if f.get('pbody') != pk.hx(b[hl:]):
            return 'poll decoder does not hand back the raw body bytes'
        if f.get('aused') != str(n) or f.get('pused') != str(n):
            return 'decoder consumed %s (async) / %s (poll) bytes of a %d-byte packet' % (f.get('aused'), f.get('pused'), n)
        return None

    def nontrivial(self, case, line):
        if case.startswith('stream ') or case.startswith('sched '):
            return True
        return case.split()[2] not in ('pingreq', 'pingresp', 'disconnect') or case.split()[1] == 'v5'


# ====================================================================== C02
@register
class C02(Base):
    id = 'C02'
    ops = ['enc', 'big', 'kf1', 'wr', 'kf3']
    cross_profile = True
    rule = ('the C01 packet pool through Packet::encode, Packet::encode_len, every body and every separately encodable '
            'part (protocol, will, each property set), in both build profiles (outputs must be identical); shape-only '
            'PUBLISH packets with remaining length 268435455 / 268435456 and beyond; the KF1 witness. '
            'Non-trivial: a packet with at least one part or a body of >= 128 bytes.')

    def cases(self, rng, tier):
        cs = self.corpus()
        ps, dist = both_pools(rng, tier)
        cs += ['enc %s %s' % (fam, pk.tok(fam, p)) for fam, p in ps]
        # "the number of bytes the encoder emits": also through encode_async into sinks that accept only part of a write
        self.sinks = {}
        for fam, p in ps:
            b = pk.encode(fam, p)
            if len(b) > 600 or rng.random() < 0.75:
                continue
            for sc in ('a1', '.'.join(['a1'] * min(len(b), 40)), 'a3.p.a2', 'p.a%d' % max(1, len(b) - 1)):
                c = 'wr %s async %s %s' % (fam, pk.tok(fam, p), sc)
                self.sinks[c] = b
                cs.append(c)
                hist(dist, 'async-partial-sink')
        for fam in ('v3', 'v5'):
            extra = 0 if fam == 'v3' else 1
            for rl in (126, 127, 128, 129, 16382, 16383, 16384, 16385, 2097150, 2097151, 2097152, 2097153,
                       268435454, 268435455, 268435456, 268435457, 300000000):
                for q in (0, 1):
                    tl = 3
                    pl = rl - 2 - tl - (2 if q else 0) - extra
                    cs.append('big %s publish %d %d %d' % (fam, tl, q, pl))
                    hist(dist, 'big')
        cs.append('kf1 2100')
        cs.append('kf1 2047')
        # bodies beyond 2^32 bytes (a length carried in 32 bits somewhere would wrap below the limit)
        for n in (1, 2, 200, 4096, 4097, 65535, 65536, 70000):
            cs.append('kf3 %d' % n)
            hist(dist, 'kf3')
        return cs, dist

    def judge(self, case, line, spec, ctx, i):
        t = case.split()
        if t[0] == 'wr':
            b = self.sinks.get(case)
            if b is None:
                return None
            f = fields(line)
            if f.get('res') != 'ok' or f.get('written') != pk.hx(b):
                return ('encode_async into a sink accepting part of each write emitted %d bytes (%s), the packet reports %d'
                        % ((len(f.get('written', 'x')) - 1) // 2, f.get('res'), len(b)))
            return None
        if t[0] == 'kf1':
            f = fields(line)
            n = int(t[1]) * (5 + 2 * 65535)
            if n >= 268435456 and 'PANIC' in f.get('len', ''):
                return ('KF', 'KF1', 'encode_len of a v5 packet whose property section is %d bytes panics instead of returning an error' % n)
            if n >= 268435456 and not f.get('len', '').startswith('err'):
                return 'oversize property section: encode_len = %s' % f.get('len')
            return None
        if t[0] in ('big', 'kf3'):
            if t[0] == 'kf3':
                rl = 2 + int(t[1]) * 65538
            else:
                fam, tl, q, pl = t[1], int(t[3]), int(t[4]), int(t[5])
                rl = 2 + tl + (2 if q else 0) + pl + (1 if fam == 'v5' else 0)
            f = fields(line)
            if rl >= 268435456:
                if f.get('len') != 'err InvalidVarByteInt' or f.get('enc') != 'err InvalidVarByteInt':
                    return 'packet with remaining length %d is not refused: len=%s enc=%s' % (rl, f.get('len'), f.get('enc'))
            else:
                want = 'ok %d' % (rl + 1 + len(pk.vbi(rl)))
                if f.get('len') != want or f.get('enc') != want:
                    return 'packet with remaining length %d: len=%s enc=%s' % (rl, f.get('len'), f.get('enc'))
            return None
        if line == 'BADCASE':
            return 'harness could not build the packet (generator bug?)'
        f = fields(line)
        b = enc_bytes(f)
        if b is None:
            return 'encode of a valid packet failed: ' + f.get('enc', '')[:100]
        if f.get('len') != 'ok %d' % len(b):
            return 'encode_len %s but %d bytes were emitted' % (f.get('len'), len(b))
        hl, rl = frame_info(b)
        if rl != len(b) - hl:
            return 'remaining-length field says %d, %d bytes follow the header' % (rl, len(b) - hl)
        if pk.vbi(rl) != b[1:hl]:
            return 'remaining length is not minimally encoded'
        if f.get('body') not in ('-', None):
            if f['body'] != pk.hx(b[hl:]):
                return 'the body encoder writes bytes different from the packet body'
            if f.get('blen') != str(len(b) - hl):
                return 'body.encode_len() = %s but the body encoder wrote %d bytes' % (f.get('blen'), len(b) - hl)
        if f.get('parts', '-') != '-':
            for part in f['parts'].split(','):
                nm, hx_, ln = part.split(':')
                if hx_ == 'PANIC' or ln == 'PANIC':
                    return 'part %s panics' % nm
                if (len(hx_) - 1) // 2 != int(ln):
                    return 'part %s writes %d bytes but reports %s' % (nm, (len(hx_) - 1) // 2, ln)
        if f.get('async') != 'ok ' + pk.hx(b):
            return 'encode_async emits different bytes'
        return None

    def nontrivial(self, case, line):
        return case.startswith('wr ') or 'parts=-' not in line or len(line) > 400


# ====================================================================== C10
@register
class C10(Base):
    id = 'C10'
    ops = ['enc', 'code', 'wr']
    rule = ('the C01 packet pool (every enum variant written as a wire number, every property) encoded by the implementation; '
            'the judge feeds the implementation\'s bytes to the extracted reference parser Spec.parse (independent tables, '
            'slicing structure) and compares the recovered packet with the original. Non-trivial: packet with a body.')

    def cases(self, rng, tier):
        cs = self.corpus()
        ps, dist = both_pools(rng, tier)
        cs += ['enc %s %s' % (fam, pk.tok(fam, p)) for fam, p in ps]
        import props2
        cs += props2.code_cases()
        # the bytes that reach the wire through encode_async when the sink takes only part of each write
        for fam, p in ps:
            if rng.random() < 0.85:
                continue
            tok = pk.tok(fam, p)
            if len(tok) > 1500:
                continue
            cs.append('wr %s async %s %s' % (fam, tok, rng.choice(['a1', 'a2.p.a3', 'a5'])))
            hist(dist, 'async-partial-sink')
        return cs, dist

    def spec_phase(self, cases, act, workdir, prof):
        lines, idx = [], []
        for i, (c, a) in enumerate(zip(cases, act)):
            if c.startswith('wr '):
                w = fields(lib.normalize(a)).get('written')
                if w and w != 'x':
                    idx.append(i)
                    lines.append('specparse %s %s' % (c.split()[1], w))
                continue
            if not c.startswith('enc '):
                continue
            b = enc_bytes(fields(lib.normalize(a)))
            if b is not None:
                idx.append(i)
                lines.append('specparse %s %s' % (c.split()[1], pk.hx(b)))
        out = driver_run(lines, workdir, 'spec.' + prof)
        res = [None] * len(cases)
        for i, o in zip(idx, out):
            res[i] = o
        return res

    def judge(self, case, line, spec, ctx, i):
        if case.startswith('code '):
            import props2
            return props2.judge_code(case, line)
        if case.startswith('wr '):
            want = 'ok ' + case.split(' ', 3)[3].rsplit(' ', 1)[0]
            if spec != want:
                return ('the bytes encode_async put on a sink that accepts part of each write are read by the independent MQTT '
                        'parser as: %s' % str(spec)[:160])
            return None
        if spec is None:
            return 'encode failed: ' + line[:100]
        want = 'ok ' + case.split(' ', 2)[2]
        if spec != want:
            return 'the independent MQTT parser reads the emitted bytes as: %s' % spec[:200]
        return None

    def nontrivial(self, case, line):
        return case.startswith('code ') or case.startswith('wr ') or case.split()[2] not in ('pingreq', 'pingresp')


# ====================================================================== C09
def accept_scripts(rng, n):
    out = ['-', 'a1', '.'.join(['a1'] * min(n, 48)), '.'.join(['a2'] * min(n // 2 + 1, 32)), '.'.join(['a3'] * 20),
           '.'.join(['a7'] * 10), 'p', 'p.p.a1.p.a2.p', '.'.join(['p', 'a1'] * min(n, 24)), 'a%d' % max(1, n - 1), 'a%d' % n,
           'a%d' % (n + 5)]
    steps = []
    for _ in range(rng.randint(1, 30)):
        steps.append(rng.choice(['p', 'a1', 'a2', 'a5', 'a13', 'a100']))
    out.append('.'.join(steps))
    return out


@register
class C09(Base):
    id = 'C09'
    ops = ['enc', 'wr', 'big']
    rule = ('a sample of the C01 packet pool: Packet::encode twice (repeated invocation), the VarBytes container, '
            'encode_async and the streaming body encoder into scripted sinks accepting 1, 2, 3, 7, n-1, n, n+5 or random '
            'bytes per write with Pending before any write (async).  Non-trivial: a sink script with >= 2 steps.')

    def cases(self, rng, tier):
        cs = self.corpus()
        ps, dist = both_pools(rng, tier, n_random=25 if tier == 'quick' else 400)
        self.pkts = {}
        prev = None
        for fam, p in ps:
            tok = pk.tok(fam, p)
            n = len(pk.encode(fam, p))
            maxfield = 65530 < n < 65700
            if n > 3000 and rng.random() < 0.8 and not maxfield:
                continue
            cs.append('enc %s %s' % (fam, tok))
            cs.append('enc %s %s' % (fam, tok))
            for sc in (accept_scripts(rng, n) if not maxfield else ['-', 'a65536.a1']):
                cs.append('wr %s async %s %s' % (fam, tok, sc))
                if 'p' not in sc.split('.') and p[0] not in ('pingreq', 'pingresp') and not (
                        fam == 'v3' and p[0] in ('connack', 'puback', 'pubrec', 'pubrel', 'pubcomp', 'unsuback', 'disconnect')):
                    cs.append('wr %s stream %s %s' % (fam, tok, sc))
            # an encode that failed half-way (sink error after j bytes) must leave nothing behind: the next encodes of the
            # same and of another packet are still the encoding
            if n < 400 and p[0] not in ('pingreq', 'pingresp') and rng.random() < 0.12:
                for j in rng.sample(range(0, min(n, 24)), min(n, 4)):
                    sc = '.'.join(['a1'] * j + ['f5'])
                    if not (fam == 'v3' and p[0] in ('connack', 'puback', 'pubrec', 'pubrel', 'pubcomp', 'unsuback', 'disconnect')):
                        cs.append('wr %s stream %s %s' % (fam, tok, sc))
                    cs.append('wr %s async %s %s' % (fam, tok, sc))
                    cs.append('enc %s %s' % (fam, tok))
                    if prev is not None and prev[0] == fam:
                        cs.append('enc %s %s' % prev)
                    hist(dist, 'after-failed-encode')
            prev = (fam, tok)
        # near the top of the size range the entry points must still agree (shape only)
        for fam in ('v3', 'v5'):
            for rl in (268435450, 268435451, 268435455):
                cs.append('big %s publish 3 0 %d' % (fam, rl - 5 - (1 if fam == 'v5' else 0)))
        return cs, dist

    def context(self, cases, act):
        m = {}
        for c, a in zip(cases, act):
            if c.startswith('enc '):
                fam, tok = c.split(' ', 2)[1:]
                m.setdefault((fam, tok), []).append(lib.normalize(a))
        return m

    def judge(self, case, line, spec, ctx, i):
        t = case.split(' ', 2)
        if t[0] == 'big':
            f = fields(line)
            if f.get('len') != f.get('enc') or not f.get('len', '').startswith('ok '):
                return ('a valid PUBLISH just below the size limit: encode_len = %s, encode = %s (the streaming body encoder '
                        'has no such limit)' % (f.get('len'), f.get('enc')))
            return None
        if t[0] == 'enc':
            f = fields(line)
            b = enc_bytes(f)
            if b is None:
                return 'encode failed'
            vb = f['enc'].split()[1]
            if vb == 'fixed2' and len(b) != 2 or vb == 'fixed4' and len(b) != 4:
                return 'VarBytes::%s exposes %d bytes' % (vb, len(b))
            if f.get('async') != 'ok ' + pk.hx(b):
                return 'encode_async emits different bytes than encode'
            if f.get('vbcf') not in ('1', None):
                return ('the VarBytes container overwritten in place (clone_from) from the encoding exposes different bytes than '
                        'the encoding')
            if len(set(ctx[(t[1], t[2])])) != 1:
                return 'repeated invocations of encode differ'
            hl = frame_info(b)[0]
            if f.get('body') not in ('-', None) and pk.hx(b[hl:]) != f['body']:
                return 'packet encoding is not fixed header + streaming body encoding'
            return None
        fam = t[1]
        entry, rest = t[2].split(' ', 1)
        tok, script = rest.rsplit(' ', 1)
        ref = ctx.get((fam, tok))
        if not ref:
            return None
        rf = fields(ref[0])
        b = enc_bytes(rf)
        f = fields(line)
        if any(st[:1] in ('f', 'z') for st in script.split('.')):
            return None          # a failing sink: only there to leave a failed encode behind (C14 judges the failure itself)
        if entry == 'async':
            want = pk.hx(b)
        else:
            want = rf.get('body')
            if want in ('-', None):
                return None
        if f.get('res') != 'ok':
            return '%s encoder into an accepting sink (%s): %s' % (entry, script[:40], f.get('res'))
        if f.get('written') != want:
            return '%s encoder wrote different bytes under sink script %s' % (entry, script[:40])
        return None

    def nontrivial(self, case, line):
        return case.startswith('wr ') and '.' in case.rsplit(' ', 1)[1]


# ====================================================================== frame pools
import frames as FR


def frame_pool(rng, tier, n_random=None, with_mut=True, with_faults=True, with_spell=True):
    """list of (fam, bytes, tag, minimal) ; tag in valid/spell/mut/fault"""
    out = []
    ps, dist = both_pools(rng, tier, n_random=n_random if n_random is not None else (40 if tier == 'quick' else 600))
    for fam, p in ps:
        b = pk.encode(fam, p)
        big = len(b) > 4000
        out.append((fam, b, 'valid', True))
        if big and rng.random() < 0.7:
            continue
        if with_spell:
            for sb, minimal in FR.spellings(fam, p, rng):
                out.append((fam, sb, 'spell', minimal))
        if with_mut:
            for m in FR.mutations(b, rng, 4 if tier == 'quick' else 10):
                out.append((fam, m, 'mut', None))
        if with_faults and rng.random() < (0.25 if tier == 'quick' else 0.6):
            cat = FR.catalogue(fam, p, rng)
            for row, fb, exp in rng.sample(cat, min(len(cat), 12)):
                out.append((fam, fb, 'fault:' + row, row not in ('rl-5-bytes', 'property-length-5-bytes', 'subid-5-bytes')))
    return out, dist


def poll_packet(f):
    r = f.get('poll', '')
    return r[3:] if r.startswith('ok ') else None


# ====================================================================== C03
REP3 = [0, 1, 2, 3, 4, 5, 8, 16, 31, 38, 47, 64, 127, 128, 129, 192, 224, 255]


@register
class C03(Base):
    id = 'C03'
    ops = ['dec', 'sched']
    rule = ('every decoder entry point (Header::decode, blocking, async, poll; v3 and v5) in both build profiles on: all byte '
            'strings of length <= 2 (exhaustive), all 3-byte strings with the third byte from 18 representative values '
            '(thorough: plus every 2-byte header followed by short random bodies), structure-aware corruptions of valid packets '
            '(bit flips, length edits, truncation, extension, splicing, maximal remaining lengths), random strings, and random '
            'delivery schedules for the poll decoder. The judge rejects PANIC, TIMEOUT and crashes. '
            'Non-trivial: input of >= 2 bytes.')
    exhaustive = {}

    def cases(self, rng, tier):
        cs = self.corpus()
        dist = {}
        for fam in ('v3', 'v5'):
            cs.append('dec %s x' % fam)
            for a in range(256):
                cs.append('dec %s x%02x' % (fam, a))
                for b in range(256):
                    cs.append('dec %s x%02x%02x' % (fam, a, b))
                    hist(dist, 'len2')
                    if tier == 'thorough' or a % 16 in (0, 2) or b < 6:
                        for c in REP3:
                            cs.append('dec %s x%02x%02x%02x' % (fam, a, b, c))
                            hist(dist, 'len3')
            # every 2-byte header with short bodies
            for a in range(256):
                for rl in (1, 2, 3, 4, 5, 7, 12):
                    for _ in range(1 if tier == 'quick' else 6):
                        body = bytes(rng.choice([0, 0, 1, 2, 4, 0x7f, 0x80, 0xff, rng.getrandbits(8)]) for _ in range(rl))
                        cs.append('dec %s %s' % (fam, pk.hx(bytes([a, rl]) + body)))
                        hist(dist, 'hdr+body')
            # maximal remaining lengths
            for a in (0x10, 0x20, 0x30, 0x32, 0x40, 0x82, 0x90, 0xa2, 0xe0, 0xf0):
                for rlb in (b'\xff\xff\xff\x7f', b'\xff\xff\x7f', b'\x80\x80\x80\x01',
                            # five and more length bytes (must be refused before any allocation)
                            b'\x80\x80\x80\x80\x00', b'\x80\x80\x80\x80\x01', b'\xff\xff\xff\xff\x0f', b'\x80\x80\x80\x80\x80\x00'):
                    cs.append('dec %s %s' % (fam, pk.hx(bytes([a]) + rlb + b'\x00\x04MQTT\x04\x02')))
                    hist(dist, 'maxlen')
        pool, _ = frame_pool(rng, tier)
        for fam, b, tag, _ in pool:
            if tag != 'valid':
                cs.append('dec %s %s' % (fam, pk.hx(b)))
                hist(dist, tag.split(':')[0])
        for _ in range(3000 if tier == 'quick' else 100000):
            b = bytes(rng.getrandbits(8) for _ in range(rng.randint(3, 40)))
            cs.append('dec %s %s' % (rng.choice(['v3', 'v5']), pk.hx(b)))
            hist(dist, 'random')
        # rejected strings of every length up to 300 bytes made of 1-4-byte characters at every alignment, in every position
        # whose error carries the string (topic names, filters): building the error must not fail either
        for n in range(1, 301 if tier == 'quick' else 1200):
            ch = ['a', '\u00e9', '\u4f60', '\U0001F600'][n % 4]
            for bad in ('#x', '+x'):
                body = ('a' * (n % 5) + ch * (n // len(ch.encode()) + 1)).encode()[:n]
                try:
                    body.decode()
                except UnicodeDecodeError:
                    body = body[:-1] if body[:-1] and utf8_ok(body[:-1]) else (body[:-2] if utf8_ok(body[:-2]) else body[:-3])
                s_ = body + bad.encode()
                for fam, p in (('v3', ('publish', 0, 0, 0, 0, s_, b'p')), ('v5', ('publish', 0, 0, 0, 0, s_, ({}, []), b'p')),
                               ('v3', ('subscribe', 5, [(s_, 1)])), ('v5', ('unsubscribe', 5, ({}, []), [s_])),
                               ('v5', ('publish', 0, 0, 0, 0, b't', ({8: s_}, []), b'p'))):
                    if (n + len(bad)) % 2 and p[0] != 'publish':
                        continue
                    cs.append('dec %s %s' % (fam, pk.hx(pk.encode(fam, p))))
                    hist(dist, 'rejected-string-lengths')
        # schedules on corrupted frames
        muts = [(fam, b) for fam, b, tag, _ in pool if tag == 'mut' and 0 < len(b) < 60]
        for fam, b in rng.sample(muts, min(len(muts), 1500 if tier == 'quick' else 20000)):
            cs.append('sched %s %s %s' % (fam, random_schedule(b, rng), rng.choice(['eof', 'k4'])))
            hist(dist, 'sched')
        return cs, dist

    def judge(self, case, line, spec, ctx, i):
        if 'PANIC' in line:
            return 'a decoder entry point panicked'
        return None

    def project(self, case, line):
        # outcome classes only
        f = fields(line)
        def cls(v):
            return v.split(' ')[0] if v else v
        return ';'.join('%s=%s' % (k, cls(f.get(k, ''))) for k in ('hdr', 'block', 'async', 'poll', 'res'))

    def nontrivial(self, case, line):
        return len(case.split()[2]) >= 5


def random_schedule(b, rng, pend=0.2, cut=0.4):
    atoms = []
    for x in b:
        if rng.random() < pend:
            atoms.append('p')
        atoms.append('b%02x' % x)
        if rng.random() < cut:
            atoms.append('c')
    if rng.random() < pend:
        atoms.append('p')
    return '.'.join(atoms) if atoms else '-'


# ====================================================================== C12 / C11 / C06
def pend_atoms(b):
    """one byte per read, a Pending before every byte: every header byte arrives in its own poll call"""
    return '.'.join('p.b%02x.c' % x for x in b) if b else '-'


def huge_decl(b):
    """the frame declares a body of more than 1 MB (the decoder allocates it up front; a byte-per-read schedule over it
    only measures the allocator, and in the debug profile exceeds the per-case watchdog)"""
    fi = frame_info(b)
    return fi is not None and fi[1] > (1 << 20)


def pend_sched_cases(owner, cs, dist, frames, rng, n):
    """for a sample of (fam, bytes) frames — biased towards bodies of >= 128 bytes, whose remaining length spans several
    header bytes — add a poll run under the pend_atoms schedule; judged against the one-shot poll result of `dec`"""
    owner.pend_ref = {}
    frames = [(f, b) for f, b in frames if not huge_decl(b)]
    big = [(f, b) for f, b in frames if 130 <= len(b) <= 900]
    small = [(f, b) for f, b in frames if 2 <= len(b) < 130]
    pick = rng.sample(big, min(len(big), n // 2)) + rng.sample(small, min(len(small), n // 2))
    for fam, b in pick:
        sc = 'sched %s %s eof' % (fam, pend_atoms(b))
        owner.pend_ref[sc] = 'dec %s %s' % (fam, pk.hx(b))
        cs.append(sc)
        hist(dist, 'pend-every-byte')


def judge_pend_sched(owner, case, line, ctx):
    ref = ctx.get(owner.pend_ref.get(case, '')) if ctx else None
    if ref is None:
        return None
    f, rf = fields(line), fields(ref)
    if f.get('res') != rf.get('poll'):
        return ('poll decoder fed one byte per read with a Pending before each returns %s, fed at once %s'
                % (f.get('res', '')[:100], rf.get('poll', '')[:100]))
    return None


NASTY_FILTERS = [b'#/#', b'a/#/#', b'+/#/#', b'#/a/#', b'$share/g/#/#', b'##', b'a#', b'#a', b'a/#/b', b'++', b'a+', b'+a', b'a/+b',
                 b'a/b+/c', b'$share//a', b'$share/g', b'$share/g/', b'$share/g+/a', b'$share/g#/a', b'', b'a\x00b',
                 '$share/\u00e9/'.encode(), '$share/\u4f60\u597d/'.encode(), '$share/\u00e9/a'.encode(), b'$SHARE/+/x', b'$Share/a',
                 b'a\tb', b'\x7f', '\u0085/#'.encode(), b'$share/$share/x', b'$share/$share/#', b'#', b'+', b'/', b'//', b'+/+/#',
                 b'$share/a\x00b/t', b'$share/\x00/t', b'sensor/+', b'sensor/#', b'building/floor/+', b'abcdefg+', b'0123456789abcde#',
                 b'1234567\x00', '\ufeffa/b'.encode(), '\ufeff$share/g/t'.encode(), 'a\u012b'.encode(), '+\u012f'.encode()]


def chunked_async_cases(owner, cs, dist, frames, rng, n, maxlen=400):
    """a sample of (fam, bytes) frames through the async decoder over a transport that delivers 1..3 bytes per read with
    Pendings in between; judged against the async result of the one-shot `dec` of the same bytes"""
    if not hasattr(owner, 'chunk_ref'):
        owner.chunk_ref = {}
    pick = [(f, b) for f, b in frames if 2 <= len(b) <= maxlen and not huge_decl(b)]
    for fam, b in rng.sample(pick, min(len(pick), n)):
        sc = 'stream %s async %s %d' % (fam, pk.hx(b), rng.choice([1, 1, 2, 3]))
        owner.chunk_ref[sc] = 'dec %s %s' % (fam, pk.hx(b))
        cs.append(sc)
        hist(dist, 'chunked-async')


def chunked_first(line):
    f = fields(line)
    return ('ok ' + f.get('pkts', '').split('|')[0]) if f.get('n') not in ('0', None) else f.get('final', '')


def judge_chunked_async(owner, case, line, ctx):
    ref = ctx.get(owner.chunk_ref.get(case, '')) if ctx else None
    if ref is None:
        return None
    got, want = chunked_first(line), fields(ref).get('async', '')
    if got != want:
        return ('async decoder over a transport delivering %s byte(s) per read returns %s; over a contiguous reader %s'
                % (case.split()[4], got[:100], want[:100]))
    return None


def res_class(v):
    """ok / err / none / PANIC ... without the payload"""
    return v.split(' ')[0] if v else v


class DecBase(Base):
    """Which error wins when a frame carries SEVERAL faults (corrupted and random frames) is an implementation detail
    no property speaks about; on such inputs model and implementation are compared by outcome class only, so that a
    harmless reordering of independent checks does not raise an alarm.  On valid, re-spelled and single-fault
    (catalogue) frames the comparison is exact."""

    def dec_cases(self, rng, tier, suffix=False):
        cs = self.corpus()
        self.exact = set(cs)
        pool, dist = frame_pool(rng, tier)
        for fam, b, tag, _ in pool:
            if suffix and rng.random() < 0.5:
                b = b + bytes(rng.getrandbits(8) for _ in range(rng.randint(1, 6)))
            c = 'dec %s %s' % (fam, pk.hx(b))
            cs.append(c)
            if tag != 'mut':
                self.exact.add(c)
            hist(dist, 'frames:' + tag.split(':')[0])
        return cs, dist, pool

    def front_ends(self, case, f, keys=('hdr', 'block', 'async', 'poll')):
        if case in getattr(self, 'exact', ()):
            return ';'.join('%s=%s' % (k, f.get(k, '')) for k in keys)
        return ';'.join('%s=%s' % (k, res_class(f.get(k, ''))) for k in keys)


@register
class C12(DecBase):
    id = 'C12'
    ops = ['dec', 'stream', 'willdec']
    rule = ('everything a front-end accepts from: valid packets (multi-byte share names, boundary sizes), legal non-canonical '
            'spellings, corrupted frames, fault-catalogue frames; the harness walks every field of every returned packet '
            '(std::str::from_utf8 on each String, the library\'s own is_invalid predicates, every shared-subscription accessor '
            'under catch_unwind, pid != 0, VarByteInt < 2^28, flagged payload UTF-8). Non-trivial: an accepted input.')

    def cases(self, rng, tier):
        cs, dist, _ = self.dec_cases(rng, tier)
        g = pk.Gen(rng)
        for _ in range(300 if tier == 'quick' else 5000):
            flt = rng.choice(['$share/你好/+'.encode(), '$share/\U0001F600/a/#'.encode(), b'$share/g//', b'$share/a b/#', g.topic_filter(),
                              b'$share/$share/x', b'$share/$share/abcdefgh', b'$share/$share/$share/a', b'$share/$SYS/#',
                              '$share/é/é'.encode(), '你好/x/#'.encode(), '😀/a'.encode()])
            for fam, p in (('v3', ('subscribe', 5, [(flt, 1), (g.topic_filter(), 0)])),
                           ('v5', ('unsubscribe', 5, g.props('unsubscribe'), [g.topic_filter(), flt]))):
                cs.append('dec %s %s' % (fam, pk.hx(pk.encode(fam, p))))
                hist(dist, 'shared-filters')
        # ill-formed UTF-8 of every kind (truncated at the end, overlong, surrogate, > U+10FFFF, lone
        # continuation) in every kind of text position and in flagged payloads: same-length replacement of a placeholder
        single = []
        bad = [b'\xc3', b'\xe4\xbd', b'\xf0\x9f\x98', b'\xc0\x80', b'\xed\xa0\x80', b'\xf4\x90\x80\x80', b'\x80', b'\xff',
               b'\xe0\x9f\xbf', b'\xf0\x8f\xbf\xbf']
        for pat in bad:
            ph = (b'QZJXKWVY')[:len(pat)]
            for pre in (b'', b'hi'):
                x = pre + ph
                frames = [
                    ('v5', ('publish', 0, 0, 1, 9, b't', ({1: 1}, []), x)),
                    ('v5', ('publish', 0, 0, 0, 0, b't', ({3: x}, [(b'k', b'v')]), b'p')),
                    ('v5', ('publish', 0, 0, 0, 0, b't', ({}, [(x, b'v')]), b'p')),
                    ('v5', ('publish', 0, 0, 0, 0, b't', ({}, [(b'k', x)]), b'p')),
                    ('v5', ('publish', 0, 0, 0, 0, b't', ({8: x}, []), b'p')),
                    ('v5', ('publish', 0, 0, 0, 0, x, ({}, []), b'p')),
                    ('v5', ('connect', 5, 1, 10, ({21: x}, [(b'a', x)]), b'c', (1, 0, ({1: 1}, [(x, b'b')]), b'w', x), x, None)),
                    ('v5', ('connect', 5, 1, 10, ({}, []), x, (0, 0, ({3: x}, []), x, b'm'), None, None)),
                    ('v5', ('connack', 0, 0, ({31: x, 18: x, 26: x, 28: x}, [(b'k', x)]))),
                    ('v5', ('puback', 3, 16, ({31: x}, [(x, x)]))),
                    ('v5', ('suback', 3, ({31: x}, [(b'k', x)]), [0])),
                    ('v5', ('subscribe', 3, ({}, [(b'k', x)]), [(b'a/' + x, 1, 0, 0, 0)])),
                    ('v5', ('unsubscribe', 3, ({}, [(x, b'v')]), [x])),
                    ('v5', ('disconnect', 0, ({31: x, 28: x}, [(b'k', x)]))),
                    ('v5', ('auth', 24, ({21: x, 31: x}, [(x, b'v')]))),
                    ('v3', ('publish', 0, 0, 0, 0, b'a/' + x, b'p')),
                    ('v3', ('connect', 4, 1, 10, x, (1, 0, x, b'm'), x, b'pw')),
                    ('v3', ('subscribe', 3, [(x, 1)])),
                    ('v3', ('unsubscribe', 3, [b'ok', x])),
                ]
                for fam, p in frames:
                    b0 = pk.encode(fam, p)
                    b = b0.replace(x, pre + pat)
                    cs.append('dec %s %s' % (fam, pk.hx(b)))
                    hist(dist, 'bad-utf8-everywhere')
                    # and exactly one ill-formed field per frame, so that no earlier field masks a later one
                    at = -1
                    while True:
                        at = b0.find(x, at + 1)
                        if at < 0:
                            break
                        c1 = 'dec %s %s' % (fam, pk.hx(b0[:at] + pre + pat + b0[at + len(x):]))
                        cs.append(c1)
                        single.append((fam, bytes.fromhex(c1.split()[2][1:])))
                        hist(dist, 'bad-utf8-single-field')
        # filters of every shape (valid and not) inside SUBSCRIBE / UNSUBSCRIBE: whatever comes back must hold valid filters
        self.filters = {}
        self.names = {}
        nasty = NASTY_FILTERS
        _unused = [b'#/#', b'a/#/#', b'+/#/#', b'#/a/#', b'$share/g/#/#', b'##', b'a#', b'#a', b'a/#/b', b'++', b'a+', b'+a', b'a/+b',
                 b'a/b+/c', b'$share//a', b'$share/g', b'$share/g/', b'$share/g+/a', b'$share/g#/a', b'', b'a\x00b',
                 '$share/é/'.encode(), '$share/你好/'.encode(), '$share/é/a'.encode(), b'$SHARE/+/x', b'$Share/a', b'a\tb', b'\x7f',
                 '\u0085/#'.encode()]
        sp = [x for x in string_pool(rng, tier) if len(x) < 40 and utf8_ok(x)]
        for flt in nasty + rng.sample(sp, min(len(sp), 1500 if tier == 'quick' else 30000)):
            for fam, p in (('v3', ('subscribe', 5, [(b'ok/+', 0), (flt, 1)])), ('v3', ('unsubscribe', 5, [flt])),
                           ('v5', ('subscribe', 5, ({}, []), [(flt, 1, 0, 0, 0)])), ('v5', ('unsubscribe', 5, ({}, []), [b'a', flt])),
                           ('v3', ('publish', 0, 0, 0, 0, flt, b'p')), ('v5', ('publish', 0, 0, 1, 4, flt, ({}, []), b'p')),
                           ('v3', ('connect', 4, 1, 10, b'c', (1, 0, flt, b'm'), None, None)),
                           ('v5', ('connect', 5, 1, 10, ({}, []), b'c', (0, 0, ({8: flt}, []), flt, b'm'), None, None))):
                if rng.random() < 0.5 and flt not in nasty:
                    continue
                c = 'dec %s %s' % (fam, pk.hx(pk.encode(fam, p)))
                if p[0] in ('publish', 'connect'):
                    self.names[c] = flt
                    self.exact.add(c)
                    cs.append(c)
                    hist(dist, 'name-shapes')
                    continue
                self.filters[c] = flt
                self.exact.add(c)
                cs.append(c)
                hist(dist, 'filter-shapes')
        # the per-part decoder of a will called directly (it is public): what it returns satisfies the will's invariants too
        for pat in bad + [b'ok', b'', 'h\u00e9'.encode()]:
            for pfi in (None, 0, 1):
                for topic in (b't', b'a/+', 'd\u00e9/x'.encode()):
                    wp = ({} if pfi is None else {1: pfi}, [])
                    ph = b'QZJXKWVY'[:max(1, len(pat))]
                    b0 = pk.encode('v5', ('connect', 5, 1, 10, ({}, []), b'c', (1, 0, wp, topic, ph), None, None))
                    will = b0[frame_info(b0)[0] + 14:]
                    cs.append('willdec ' + pk.hx(will.replace(bytes([0, len(ph)]) + ph, bytes([0, len(pat)]) + pat)))
                    hist(dist, 'will-direct')
        # the async decoder validates what it returns also when a field arrives in several reads
        chunked_async_cases(self, cs, dist, single, rng, 600 if tier == 'quick' else 6000)
        chunked_async_cases(self, cs, dist, [(c.split()[1], bytes.fromhex(c.split()[2][1:])) for c in cs if c.startswith('dec ')],
                            rng, 600 if tier == 'quick' else 6000)
        return cs, dist

    def context(self, cases, act):
        need = set(self.chunk_ref.values())
        return {c: lib.normalize(a) for c, a in zip(cases, act) if c in need}

    def judge(self, case, line, spec, ctx, i):
        f = fields(line)
        if case.startswith('stream '):
            return judge_chunked_async(self, case, line, ctx)
        if case.startswith('willdec '):
            if f.get('res') == 'ok' and f.get('inv') != 'ok':
                return 'the will returned by LastWill::decode_async violates a type invariant: %s' % f.get('inv')
            return None
        nm = self.names.get(case)
        if nm is not None and not C18.name_ok(nm):
            for fe in ('block', 'async', 'poll'):
                if f.get(fe, '').startswith('ok '):
                    return ('%s decoder returns a packet holding the topic name %s, which MQTT 4.7 does not allow in a topic name'
                            % (fe, pk.hx(nm)))
        flt = self.filters.get(case)
        if flt is not None and not (filter_rule(flt) or (False,))[0]:
            for fe in ('block', 'async', 'poll'):
                if f.get(fe, '').startswith('ok '):
                    return ('%s decoder returns a packet holding the topic filter %s, which MQTT 4.7/4.8 does not allow'
                            % (fe, pk.hx(flt)))
        for x in 'bap':
            v = f.get(x + 'inv', '-')
            if v not in ('-', 'ok'):
                return 'packet returned by the %s decoder violates a type invariant: %s' % ({'b': 'blocking', 'a': 'async', 'p': 'poll'}[x], v)
        return None

    def project(self, case, line):
        f = fields(line)
        if case.startswith('stream '):
            got = chunked_first(line)
            return 'first=' + (got if self.chunk_ref.get(case) in self.exact else res_class(got))
        if case.startswith('willdec '):
            return 'res=%s;inv=%s' % (f.get('res', ''), f.get('inv', '').split(':')[0])
        return self.front_ends(case, f, ('block', 'async', 'poll')) + ';' + ';'.join(
            '%s=%s' % (k, f.get(k, '').split(':')[0]) for k in ('binv', 'ainv', 'pinv'))

    def nontrivial(self, case, line):
        if case.startswith('stream '):
            return True
        if case.startswith('willdec '):
            return 'res=ok' in line
        return '=ok ' in line


@register
class C11(DecBase):
    id = 'C11'
    ops = ['dec', 'sched', 'wr']
    rule = ('everything any front-end accepts from: valid packets, short forms spelled out, permuted / interleaved properties, '
            'non-minimal variable byte integers (remaining length, property length, subscription identifier), corrupted frames '
            'that survive, and lenient framing (declared remaining length shorter or longer than the body, for the blocking '
            'and async front-ends). Judge: re-encode succeeds, decodes to the same packet on all front-ends, is no longer than '
            'the bytes consumed; failures inside the KF2 class (blocking/async, consumed > declared frame) are the known finding. '
            'Non-trivial: an accepted non-canonical input.')

    def cases(self, rng, tier):
        cs, dist, pool = self.dec_cases(rng, tier)
        # lenient framing: declared length shorter / longer than the body
        for fam, b, tag, _ in pool:
            if tag != 'valid' or len(b) > 2000 or rng.random() < 0.5:
                continue
            hl = FR.pk_header_len(b)
            rl = len(b) - hl
            for new in {max(0, rl - 1), rl + 1, 0, rl + 130, 2}:
                if new != rl:
                    cs.append('dec %s %s' % (fam, pk.hx(b[:1] + pk.vbi(new) + b[hl:] + b'\x00\x00')))
                    hist(dist, 'lenient-framing')
        cs.append('dec v3 ' + pk.hx(b'\x10\x00\x00\x04MQTT\x04\x02\x00\x0a\x00\x96' + b'c' * 150))    # KF2 witness (a)
        # acceptance must not depend on the delivery schedule either
        pend_sched_cases(self, cs, dist, [(fam, b) for fam, b, tag, _ in pool if tag in ('valid', 'spell')], rng,
                         400 if tier == 'quick' else 6000)
        # re-encoding through the async entry point into a sink that takes part of each write
        self.sinks = {}
        ps, _ = both_pools(rng, tier, n_random=6 if tier == 'quick' else 80)
        for fam, p in ps:
            b = pk.encode(fam, p)
            if len(b) > 400:
                continue
            for sc in ('a1', 'a3.p.a2', '.'.join(['a2'] * min(len(b), 30))):
                c = 'wr %s async %s %s' % (fam, pk.tok(fam, p), sc)
                self.sinks[c] = b
                cs.append(c)
                hist(dist, 'async-partial-sink')
        return cs, dist

    def context(self, cases, act):
        return {c: lib.normalize(a) for c, a in zip(cases, act) if c.startswith('dec ')}

    def judge(self, case, line, spec, ctx, i):
        f = fields(line)
        if case.startswith('sched '):
            return judge_pend_sched(self, case, line, ctx)
        if case.startswith('wr '):
            b = self.sinks.get(case)
            if b is not None and (f.get('res') != 'ok' or f.get('written') != pk.hx(b)):
                return ('re-encoding through encode_async into a sink that accepts part of each write emitted %s (%d bytes), '
                        'not the %d-byte encoding' % (f.get('res'), (len(f.get('written', 'x')) - 1) // 2, len(b)))
            return None
        b = bytes.fromhex(case.split()[2][1:])
        fi = frame_info(b)
        for x, fe, used in (('b', 'block', 'aused'), ('a', 'async', 'aused'), ('p', 'poll', 'pused')):
            re_ = f.get(x + 're', '-')
            if re_ == '-' or not f.get(fe, '').startswith('ok '):
                continue
            consumed = int(f.get(used)) if f.get(used, '?').isdigit() else None
            in_kf2 = x in 'ba' and fi is not None and consumed is not None and consumed > fi[0] + fi[1]
            parts = re_.split(',')
            bad = None
            if not parts[0].startswith('ok '):
                bad = 're-encoding the packet accepted by the %s decoder fails: %s' % (fe, parts[0][:60])
            else:
                n = (len(parts[0]) - 4) // 2
                if parts[1] != 'ok %d' % n:
                    bad = 'encode_len of the accepted packet is %s, encode produced %d bytes' % (parts[1], n)
                elif parts[2] != '1':
                    bad = 'the re-encoding does not decode to the same packet on every front-end'
                elif consumed is not None and n > consumed:
                    bad = 're-encoding has %d bytes, the %s decoder consumed %d' % (n, fe, consumed)
            if bad:
                if in_kf2 and ('fails' in bad or 'consumed' in bad):
                    return ('KF', 'KF2', 'frame overrun accepted by the %s front-end: %s' % (fe, bad))
                return bad
        return None

    def project(self, case, line):
        f = fields(line)
        if not case.startswith('dec '):
            return line
        return self.front_ends(case, f, ('block', 'async', 'poll')) + ';' + ';'.join(
            '%s=%s' % (k, f.get(k, '')) for k in ('aused', 'pused', 'ptotal', 'bre', 'are', 'pre'))

    def nontrivial(self, case, line):
        return '=ok ' in line


@register
class C06(DecBase):
    id = 'C06'
    ops = ['dec', 'sched', 'stream', 'hdrdec']
    rule = ('byte strings that start with a complete frame: valid encodings, spellings, fault-catalogue frames, corruptions, '
            'random bytes, with and without random suffixes; all error variants. Judge on the implementation\'s three answers: '
            'poll accepts P => blocking and async return P; poll rejects with E != InvalidRemainingLength => both return E; '
            'blocking == async with EOF mapped to incomplete. Non-trivial: complete frame.')

    def cases(self, rng, tier):
        cs, dist, _ = self.dec_cases(rng, tier, suffix=True)
        for _ in range(4000 if tier == 'quick' else 100000):
            fam = rng.choice(['v3', 'v5'])
            a = rng.choice([0x10, 0x20, 0x30, 0x32, 0x3d, 0x40, 0x50, 0x62, 0x70, 0x82, 0x90, 0xa2, 0xb0, 0xc0, 0xd0, 0xe0, 0xf0, rng.getrandbits(8)])
            rl = rng.randint(0, 24)
            body = bytes(rng.choice([0, 0, 0, 1, 2, 3, 4, 5, 0x26, 0x1f, rng.getrandbits(8)]) for _ in range(rl))
            cs.append('dec %s %s' % (fam, pk.hx(bytes([a, rl]) + body + bytes(rng.getrandbits(8) for _ in range(rng.randint(0, 3))))))
            hist(dist, 'random-frame')
        # the agreement must not depend on the transport handing the poll decoder everything at once: the same
        # frames delivered in small chunks (no Pending) must give the poll result of the one-shot `dec`
        self.chunked = {}
        small = [c for c in cs if c.startswith('dec ') and 4 < len(c.split()[2]) < 200
                 and not huge_decl(bytes.fromhex(c.split()[2][1:]))]
        big = [c for c in cs if c.startswith('dec ') and 270 < len(c.split()[2]) < 900
               and not huge_decl(bytes.fromhex(c.split()[2][1:]))]
        for c in (rng.sample(small, min(len(small), 1500 if tier == 'quick' else 20000))
                  + rng.sample(big, min(len(big), 300 if tier == 'quick' else 4000))):
            _, fam, hx_ = c.split()
            b = bytes.fromhex(hx_[1:])
            k = rng.choice([1, 1, 2, 3])
            pend = rng.random() < 0.5
            atoms = []
            for j, x in enumerate(b):
                if pend and j % k == 0:
                    atoms.append('p')
                atoms.append('b%02x' % x)
                if (j + 1) % k == 0:
                    atoms.append('c')
            sc = 'sched %s %s eof' % (fam, '.'.join(atoms))
            self.chunked[sc] = c
            cs.append(sc)
            hist(dist, 'chunked-poll')
        # ... nor on the transport handing the async decoder every field in one read
        chunked_async_cases(self, cs, dist, [(c.split()[1], bytes.fromhex(c.split()[2][1:])) for c in small + big], rng,
                            1500 if tier == 'quick' else 20000)
        # bare fixed headers: Header::decode (blocking) against Header::decode_async on every prefix of up to 6 bytes
        seen = set()
        for c in small[:3000]:
            fam, b = c.split()[1], bytes.fromhex(c.split()[2][1:])
            for k in range(0, min(len(b), 6) + 1):
                hc = 'hdrdec %s %s' % (fam, pk.hx(b[:k]))
                if hc not in seen:
                    seen.add(hc)
                    cs.append(hc)
                    hist(dist, 'bare-header')
        for fam in ('v3', 'v5'):
            for cb in range(256):
                for rest in (b'', b'\x00', b'\x02', b'\x80', b'\x80\x01', b'\xff\xff\xff\x7f', b'\xff\xff\xff\xff\x01'):
                    hc = 'hdrdec %s %s' % (fam, pk.hx(bytes([cb]) + rest))
                    if hc not in seen:
                        seen.add(hc)
                        cs.append(hc)
                        hist(dist, 'bare-header')
        return cs, dist

    def context(self, cases, act):
        return {c: lib.normalize(a) for c, a in zip(cases, act) if c.startswith('dec ')}

    def judge(self, case, line, spec, ctx, i):
        f = fields(line)
        if case.startswith('stream '):
            return judge_chunked_async(self, case, line, ctx)
        if case.startswith('hdrdec '):
            if f.get('block') != f.get('async'):
                return ('bare fixed header: Header::decode returns %s, Header::decode_async %s'
                        % (f.get('block', '')[:80], f.get('async', '')[:80]))
            hb = bytes.fromhex(case.split()[2][1:])
            fi = frame_info(hb)
            if fi is not None:
                # a complete fixed header: both must say what the flag table of MQTT 2.2 says (the same table C04 uses)
                want = props2.C04.hdr_rule(case.split()[1], hb[0], fi[1])
                if f.get('block') != want:
                    return 'bare fixed header %s: both decoders return %s, MQTT 2.2 gives %s' % (pk.hx(hb[:fi[0]]), f.get('block', '')[:80], want)
            return None
        if case.startswith('sched '):
            ref = ctx.get(self.chunked.get(case, ''))
            if ref is not None:
                want = fields(ref).get('poll', '')
                if f.get('res') != want:
                    return ('poll decoder fed in small chunks returns %s, fed at once %s (and the other decoders agree with the latter)'
                            % (f.get('res', '')[:100], want[:100]))
            return None
        blk, asy, pol = f.get('block', ''), f.get('async', ''), f.get('poll', '')
        # blocking = async with EOF mapped to incomplete
        want = 'none' if asy == 'err IoError UnexpectedEof' else asy
        if blk != want:
            return 'blocking decoder (%s) is not the async decoder (%s) with EOF mapped to incomplete' % (blk[:80], asy[:80])
        b = bytes.fromhex(case.split()[2][1:])
        fi = frame_info(b)
        if fi is None or len(b) < fi[0] + fi[1]:
            return None
        if pol.startswith('ok '):
            if asy != pol:
                return 'poll decoder accepts %s but the async decoder returns %s' % (pol[:100], asy[:100])
        elif pol.startswith('err ') and pol != 'err InvalidRemainingLength':
            if asy != pol:
                return 'poll decoder rejects with %s but the async decoder returns %s' % (pol[:100], asy[:100])
        return None

    def project(self, case, line):
        f = fields(line)
        if case.startswith('sched '):
            return 'res=' + (f.get('res', '') if self.chunked.get(case) in self.exact else res_class(f.get('res', '')))
        if case.startswith('stream '):
            got = chunked_first(line)
            return 'first=' + (got if self.chunk_ref.get(case) in self.exact else res_class(got))
        if case.startswith('hdrdec '):
            return line
        return self.front_ends(case, f)

    def nontrivial(self, case, line):
        if case.startswith('hdrdec '):
            return len(case.split()[2]) > 3
        if case.startswith('sched ') or case.startswith('stream '):
            return True
        b = bytes.fromhex(case.split()[2][1:])
        fi = frame_info(b)
        return fi is not None and len(b) >= fi[0] + fi[1]


import props2  # noqa: E402,F401  (registers C04 C05 C07 C08 C13 C14 C20)
