"""bin/props.py — per-property generators, projections and judges (DESIGN.md §9).
A judge looks only at the implementation's (normalised) output line."""
import os, sys, itertools
import lib
from lib import fields
import pk

REG = {}


def register(cls):
    REG[cls.id] = cls
    return cls


def get(pid):
    if pid not in REG:
        raise lib.Broken('no check for property ' + pid)
    return REG[pid]()


class Base:
    profiles = ('debug', 'release')
    assumptions = ['the model (coq/theories/Model) is the code: established by the differential run of this check, on the cases it generated',
                   'usize is 64 bit']
    exhaustive = {}

    def project(self, case, line):
        return line

    def nontrivial(self, case, line):
        return True

    def corpus(self):
        path = os.path.join(lib.ROOT, 'corpus', self.id + '.txt')
        if os.path.exists(path):
            return [l.rstrip('\n') for l in open(path) if l.strip() and not l.startswith('#')]
        return []


def hist(d, k):
    d[k] = d.get(k, 0) + 1


# ====================================================================== C19
@register
class C19(Base):
    id = 'C19'
    ops = ['pid_add', 'pid_sub', 'pid_addassign', 'pid_subassign', 'pid_try', 'pid_range']
    rule = ('quick: every p in 1..65535 with u in {0,1,2,65534,65535,p-1,p,p+1,65535-p,65536-p}, every u with '
            'p in {1,2,32767,32768,65534,65535}, random pairs, as blocks hashed on both sides plus explicit '
            'single cases; thorough: all 65535 x 65536 pairs x 4 operators. A case is non-trivial if u != 0.')
    exhaustive = {'thorough': True}

    def cases(self, rng, tier):
        cs = self.corpus()
        dist = {}
        ps = [1, 2, 3, 255, 256, 32767, 32768, 65533, 65534, 65535]
        for p in ps + [rng.randint(1, 65535) for _ in range(40)]:
            us = {0, 1, 2, 65534, 65535, p - 1, p, (p + 1) % 65536, 65535 - p, (65536 - p) % 65536}
            for u in sorted(us):
                for op in ('pid_add', 'pid_sub', 'pid_addassign', 'pid_subassign'):
                    cs.append('%s %d %d' % (op, p, u))
                    hist(dist, op)
        for n in [0, 1, 2, 65535] + [rng.randint(0, 65535) for _ in range(20)]:
            cs.append('pid_try %d' % n)
            hist(dist, 'pid_try')
        if tier == 'quick':
            blocks = [(1, 8), (32764, 32771), (65528, 65535)] + [(p, p) for p in rng.sample(range(1, 65536), 40)]
        else:
            blocks = [(p, min(p + 127, 65535)) for p in range(1, 65536, 128)]
        for a, b in blocks:
            cs.append('pid_range %d %d' % (a, b))
            hist(dist, 'pid_range')
        dist['pairs_in_ranges'] = sum((b - a + 1) * 65536 for a, b in blocks)
        return cs, dist

    def judge(self, case, line, spec, ctx, i):
        t = case.split()
        if t[0] in ('pid_add', 'pid_sub', 'pid_addassign', 'pid_subassign'):
            p, u = int(t[1]), int(t[2])
            want = ((p - 1 + u) % 65535) + 1 if 'add' in t[0] else ((p - 1 - u) % 65535) + 1
            if line != str(want):
                return '%s: got %s, the cycle 1..65535 gives %d' % (t[0], line, want)
        elif t[0] == 'pid_try':
            n = int(t[1])
            want = 'err ZeroPid' if n == 0 else 'ok %d' % n
            if line != want:
                return 'Pid::try_from(%d) = %s, expected %s' % (n, line, want)
        return None

    def nontrivial(self, case, line):
        t = case.split()
        return t[0] == 'pid_range' or (len(t) > 2 and t[2] != '0')


# ====================================================================== C15
BOUNDS = [0, 1, 127, 128, 129, 16383, 16384, 16385, 2097151, 2097152, 2097153, 268435455, 268435456,
          268435457, 4294967295, 4294967296, 2 ** 40, 2 ** 62 - 1]


@register
class C15(Base):
    id = 'C15'
    ops = ['vi_len', 'vi_total', 'vi_hlen', 'vi_rlen', 'vi_try', 'vi_write', 'vi_read', 'vi_poll', 'vi_range']
    rule = ('boundaries +-2 of every width, powers of 128 +-2, first invalid values, all continuation-bit patterns of '
            'up to five bytes with extreme payload bits (standalone reader and poll header machine, both families), '
            'random values, and hashed ranges (quick: windows around each boundary + random windows; thorough: all 2^28 '
            'values). Non-trivial: value >= 128 or an encoding of >= 2 bytes.')
    exhaustive = {'thorough': True}

    def cases(self, rng, tier):
        cs = self.corpus()
        dist = {}
        vals = set()
        for b in BOUNDS:
            for d in (-2, -1, 0, 1, 2):
                if 0 <= b + d < 2 ** 62:
                    vals.add(b + d)
        for k in range(1, 9):
            for d in (-2, -1, 0, 1, 2):
                vals.add(max(0, 128 ** k + d))
        vals |= {rng.randint(0, 268435455) for _ in range(300)}
        vals |= {rng.randint(0, 2 ** 40) for _ in range(50)}
        for v in sorted(vals):
            for op in ('vi_len', 'vi_total', 'vi_hlen'):
                cs.append('%s %d' % (op, v))
                hist(dist, op)
            if v >= 2:
                cs.append('vi_rlen %d' % v)
            if v < 2 ** 32:
                cs.append('vi_try %d' % v)
            if v < 268435456:
                cs.append('vi_write %d' % v)
        # continuation-bit patterns
        pats = []
        for n in range(1, 6):
            for cont in itertools.product([0, 1], repeat=n):
                for lo in (0x00, 0x01, 0x7f):
                    pats.append(bytes((0x80 if c else 0) | lo for c in cont))
        pats += [bytes(rng.getrandbits(8) for _ in range(rng.randint(0, 6))) for _ in range(300)]
        pats += [b'', b'\x80', b'\xff\xff\xff', b'\xff\xff\xff\x7f', b'\x80\x80\x80\x80', b'\x80\x80\x80\x80\x01']
        for p in pats:
            cs.append('vi_read ' + pk.hx(p))
            hist(dist, 'vi_read')
            for fam in ('v3', 'v5'):
                for tail in ('eof', 'k4'):
                    cs.append('vi_poll %s %s %s' % (fam, pk.hx(p), tail))
                    hist(dist, 'vi_poll')
        if tier == 'quick':
            wins = []
            for b in (128, 16384, 2097152, 268435456):
                wins.append((max(0, b - 3000), min(268435456, b + 3000)))
            wins.append((0, 3000))
            for _ in range(24):
                a = rng.randint(0, 268435456 - 20000)
                wins.append((a, a + 20000))
        else:
            step = 1 << 20
            wins = [(a, a + step) for a in range(0, 1 << 28, step)]
        for a, b in wins:
            cs.append('vi_range %d %d' % (a, b))
            hist(dist, 'vi_range')
        dist['values_in_ranges'] = sum(b - a for a, b in wins)
        return cs, dist

    @staticmethod
    def vlen(n):
        return 1 if n < 128 else 2 if n < 16384 else 3 if n < 2097152 else 4 if n < 268435456 else None

    def judge(self, case, line, spec, ctx, i):
        t = case.split()
        op = t[0]
        if op in ('vi_len', 'vi_total', 'vi_try', 'vi_write', 'vi_hlen', 'vi_rlen'):
            n = int(t[1])
            k = self.vlen(n)
            if op == 'vi_len':
                want = 'ok %d' % k if k else 'err InvalidVarByteInt'
            elif op == 'vi_total':
                want = 'ok %d' % (n + 1 + k) if k else 'err InvalidVarByteInt'
            elif op == 'vi_try':
                want = 'ok %d' % n if k else 'err InvalidVarByteInt'
            elif op == 'vi_write':
                want = pk.hx(pk.vbi(n))
            elif op == 'vi_hlen':
                # defined (by the property) on valid totals only
                r = None
                for kk, lo in ((1, 0), (2, 128), (3, 16384), (4, 2097152)):
                    hi = {1: 127, 2: 16383, 3: 2097151, 4: 268435455}[kk]
                    if lo + 1 + kk <= n <= hi + 1 + kk:
                        r = kk
                if r is None:
                    return None
                want = str(1 + r)
            else:
                r = None
                for kk, lo in ((1, 0), (2, 128), (3, 16384), (4, 2097152)):
                    hi = {1: 127, 2: 16383, 3: 2097151, 4: 268435455}[kk]
                    if lo + 1 + kk <= n <= hi + 1 + kk:
                        r = kk
                if r is None:
                    return None
                want = str(n - 1 - r)
            if line != want:
                return '%s(%d) = %s, the law gives %s' % (op, n, line, want)
        elif op in ('vi_read', 'vi_poll'):
            b = bytes.fromhex(t[2 if op == 'vi_poll' else 1][1:])
            # reference reading: little-endian base 128, at most 4 bytes
            val, used, res = 0, 0, None
            for j, x in enumerate(b[:4]):
                val |= (x & 0x7f) << (7 * j)
                used = j + 1
                if not x & 0x80:
                    res = ('ok', val, used)
                    break
            else:
                res = ('long',) if len(b) >= 4 else ('short',)
            if op == 'vi_read':
                want = {'ok': lambda: 'ok %d %d' % (res[1], res[2]), 'long': lambda: 'err InvalidVarByteInt',
                        'short': lambda: 'err IoError UnexpectedEof'}[res[0]]()
                if line != want:
                    return 'decode_var_int(%s) = %s, expected %s' % (t[1], line, want)
            else:
                f = fields(line)
                st = f.get('state', '').split()
                if res[0] == 'long':
                    if f.get('res') != 'err InvalidVarByteInt':
                        return 'poll header machine on %s: %s, expected InvalidVarByteInt' % (t[2], f.get('res'))
                elif res[0] == 'ok' and res[1] > 0:
                    if not (st and st[0] == 'body' and int(st[1]) == res[1] and int(st[2]) == res[1] + 1 + res[2]):
                        return 'poll header machine on %s: state %s, expected remaining length %d total %d' % (
                            t[2], f.get('state'), res[1], res[1] + 1 + res[2])
        return None

    def nontrivial(self, case, line):
        t = case.split()
        if t[0] == 'vi_range':
            return True
        if t[0] in ('vi_read',):
            return len(t[1]) > 3
        if t[0] == 'vi_poll':
            return len(t[2]) > 3
        return int(t[1]) >= 128
