#!/usr/bin/env python3
"""bin/seedtest.py — rehearse the checks against a seeded change (DESIGN.md section 14).

  seedtest.py <seeded-dir> [Cxx ...]      apply <seeded-dir>/patch.diff to /repo, run the quick checks of the
                                          named properties (default: the one in meta.json), undo the patch.
Evidence of these runs goes to work/seed-evidence (never to evidence/).  Prints one line per check:
  Cxx  rc=<0|1|2>  <first VIOLATION / KNOWN-FINDING / OK line>   and stores results.json in <seeded-dir>."""
import json, os, subprocess, sys, time
ROOT = os.path.dirname(os.path.dirname(os.path.abspath(__file__)))


def main():
    d = os.path.abspath(sys.argv[1])
    props = sys.argv[2:]
    meta = json.load(open(os.path.join(d, 'meta.json'))) if os.path.exists(os.path.join(d, 'meta.json')) else {}
    if not props:
        props = [meta.get('property')]
    patch = os.path.join(d, 'patch.diff')
    st = subprocess.run(['git', '-C', '/repo', 'status', '--porcelain'], capture_output=True, text=True).stdout.strip()
    if st:
        sys.exit('/repo is not clean:\n' + st)
    r = subprocess.run(['git', '-C', '/repo', 'apply', patch], capture_output=True, text=True)
    if r.returncode != 0:
        sys.exit('patch does not apply: ' + r.stderr)
    res = {}
    try:
        env = dict(os.environ, VERIF_EVIDENCE_DIR=os.path.join(ROOT, 'work', 'seed-evidence'))
        for p in props:
            t0 = time.time()
            r = subprocess.run(['python3', 'bin/check.py', p, '--tier', 'quick'], cwd=ROOT, env=env, capture_output=True, text=True)
            lines = [l for l in r.stdout.split('\n') if l.startswith(('VIOLATION', 'OK ', 'BROKEN', 'KNOWN-FINDING'))]
            why = [l for l in r.stdout.split('\n') if l.startswith(('failing case', '  reason', 'no longer checks'))][:3]
            res[p] = dict(rc=r.returncode, lines=lines[:4], why=why, wall=round(time.time() - t0, 1))
            print('%s rc=%d %s %s' % (p, r.returncode, ' | '.join(lines[:2])[:200], ' || '.join(why)[:400]))
    finally:
        subprocess.run(['git', '-C', '/repo', 'checkout', '--', '.'])
    json.dump(res, open(os.path.join(d, 'results.json'), 'w'), indent=1)


if __name__ == '__main__':
    main()
