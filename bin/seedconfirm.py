#!/usr/bin/env python3
"""bin/seedconfirm.py <src-seeded-dir> <name> [extra props...] — confirm a seeded change in a scratch worktree
(suite passes with it, demo fails with it, demo passes without it), copy it to seeded/<name>/ and run the checks."""
import json, os, shutil, subprocess, sys
ROOT = os.path.dirname(os.path.dirname(os.path.abspath(__file__)))
WT = os.environ.get('SEED_CONFIRM_WT', '/tmp/confirm-wt')
ENV = dict(os.environ, CARGO_NET_OFFLINE='true')


def sh(cmd, cwd=None):
    p = subprocess.run(cmd, shell=True, cwd=cwd, env=ENV, capture_output=True, text=True)
    return p.returncode, p.stdout + p.stderr


def main():
    src, name = sys.argv[1], sys.argv[2]
    extra = sys.argv[3:]
    if not os.path.exists(WT):
        rc, o = sh('git -C /repo worktree add -q --detach %s HEAD' % WT)
        if rc:
            sys.exit(o)
    sh('git checkout -q -- . && git clean -fdq tests', cwd=WT)
    meta = json.load(open(os.path.join(src, 'meta.json')))
    conf = {}
    rc, o = sh('git apply %s' % os.path.join(src, 'patch.diff'), cwd=WT)
    if rc:
        print(name, 'PATCH DOES NOT APPLY', o[:300]); return
    rc, o = sh('cargo test --workspace --no-fail-fast --offline 2>&1 | grep "^test result" | head -3', cwd=WT)
    conf['suite_with_patch'] = o.strip()
    suite_ok = 'test result: ok. 73 passed' in o
    if meta.get('harmless'):
        sh('git checkout -q -- .', cwd=WT)
        print(name, 'CONFIRMED (harmless refactor: suite passes)' if suite_ok else 'NOT CONFIRMED', conf['suite_with_patch'][:200])
        if not suite_ok:
            return
        dst = os.path.join(ROOT, 'seeded', name)
        os.makedirs(dst, exist_ok=True)
        shutil.copy(os.path.join(src, 'patch.diff'), os.path.join(dst, 'patch.diff'))
        meta['confirmed'] = conf
        json.dump(meta, open(os.path.join(dst, 'meta.json'), 'w'), indent=1)
        return
    os.makedirs(os.path.join(WT, 'tests'), exist_ok=True)
    shutil.copy(os.path.join(src, 'demo.rs'), os.path.join(WT, 'tests', 'demo_x.rs'))
    rc1, o1 = sh('cargo test --offline --test demo_x 2>&1 | tail -5', cwd=WT)
    conf['demo_with_patch'] = o1.strip()[-300:]
    demo_fails = 'test result: FAILED' in o1 or 'panicked' in o1 or 'aborting' in o1 or "didn't exit successfully" in o1
    sh('git checkout -q -- src', cwd=WT)
    rc2, o2 = sh('cargo test --offline --test demo_x 2>&1 | tail -3', cwd=WT)
    conf['demo_without_patch'] = o2.strip()[-300:]
    demo_passes = 'test result: ok' in o2
    sh('git clean -fdq tests; git checkout -q -- .', cwd=WT)
    ok = suite_ok and demo_fails and demo_passes
    print(name, 'CONFIRMED' if ok else 'NOT CONFIRMED', 'suite_ok=%s demo_fails_with=%s demo_passes_without=%s' % (suite_ok, demo_fails, demo_passes))
    if not ok:
        print(json.dumps(conf, indent=1)[:1500]); return
    dst = os.path.join(ROOT, 'seeded', name)
    os.makedirs(dst, exist_ok=True)
    for f in ('patch.diff', 'demo.rs'):
        shutil.copy(os.path.join(src, f), os.path.join(dst, f))
    meta['confirmed'] = conf
    json.dump(meta, open(os.path.join(dst, 'meta.json'), 'w'), indent=1)
    if os.environ.get('SEED_CONFIRM_ONLY'):
        return
    props = [meta['property']] + extra
    subprocess.run(['python3', 'bin/seedtest.py', dst] + props, cwd=ROOT)


if __name__ == '__main__':
    main()
