#!/usr/bin/env python3
"""bin/mkdesign.py — assemble DESIGN.md from doc/*.md (hand-written sections) and the seeded-change results
(seeded/*/meta.json, results.json): section 14 is generated so that it always reflects what was actually run."""
import json, os, re, glob
ROOT = os.path.dirname(os.path.dirname(os.path.abspath(__file__)))
D = os.path.join(ROOT, 'doc')


def rd(n):
    return open(os.path.join(D, n)).read().rstrip('\n') + '\n'


def seeded_section():
    rows = []
    names = sorted(os.listdir(os.path.join(ROOT, 'seeded')), key=lambda n: (n.startswith('revert'), n))
    caught = missed = 0
    for n in names:
        d = os.path.join(ROOT, 'seeded', n)
        if not os.path.exists(os.path.join(d, 'meta.json')):
            continue
        m = json.load(open(os.path.join(d, 'meta.json')))
        r = json.load(open(os.path.join(d, 'results.json'))) if os.path.exists(os.path.join(d, 'results.json')) else {}
        cells = []
        anyc = False
        for p, v in sorted(r.items()):
            if v['rc'] == 1:
                tag = 'no-failing-input-found' if any('no-failing-input-found' in l for l in v['lines']) else 'VIOLATION'
                why = (v['why'][1] if len(v['why']) > 1 else (v['why'][0] if v['why'] else '')).replace('|', '/').strip()
                why = re.sub(r'x[0-9a-f]{40,}', lambda mm: mm.group(0)[:24] + '…', why)
                cells.append('**%s** %s%s' % (p, tag, (': ' + why[:150]) if why else ''))
                anyc = True
            else:
                cells.append('%s quiet (rc=%d)' % (p, v['rc']))
        if m.get('harmless'):
            cells = ['all %d checks quiet, as required' % len(r)] if (r and not anyc) else cells
        else:
            caught += anyc
            missed += (not anyc and bool(r))
        summ = m.get('summary', '').replace('|', '/').replace('\n', ' ')
        need = m.get('needs', '').replace('|', '/').replace('\n', ' ')
        rows.append('| `%s` | %s | %s | %s |' % (n, summ[:260], need[:200], '; '.join(cells) or 'not run'))
    head = ('| seeded change | what was changed | what it needs to manifest | checks run against it (quick tier) |\n'
            '|---|---|---|---|\n')
    return head + '\n'.join(rows) + '\n', caught, missed


def main():
    table, caught, missed = seeded_section()
    s14 = rd('design_s14.md').replace('@TABLE@', table).replace('@CAUGHT@', str(caught)).replace('@MISSED@', str(missed))
    old = open(os.path.join(D, 'design_old_sections.md')).read()
    out = (rd('design_head.md') + '\n\n' + old.split('@@S1@@')[1].strip('\n') + '\n\n\n' + old.split('@@S2@@')[1].strip('\n') + '\n\n\n'
           + rd('design_s3.md') + '\n\n' + old.split('@@S4@@')[1].strip('\n') + '\n\n\n' + rd('design_s5.md') + '\n\n'
           + rd('design_s7.md') + '\n\n' + rd('design_s9.md') + '\n\n' + rd('design_s10.md') + '\n\n' + s14 + '\n\n'
           + old.split('@@SA@@')[1].strip('\n') + '\n')
    open(os.path.join(ROOT, 'DESIGN.md'), 'w').write(out)
    print('DESIGN.md written: %d lines; seeded caught %d missed %d' % (out.count('\n'), caught, missed))


if __name__ == '__main__':
    main()
