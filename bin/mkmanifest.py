#!/usr/bin/env python3
"""bin/mkmanifest.py — (re)generate MANIFEST.json from the table below.  A property is claimed when
coq/theories/Properties/<id>.v exists; otherwise it is listed under not_applicable with the reason
given here."""
import json, os, sys
ROOT = os.path.dirname(os.path.dirname(os.path.abspath(__file__)))

NOTE = ("Trusted: Coq 8.16.1 kernel (vm_compute used for finite sweeps and examples; no native_compute); no axioms "
        "(Print Assumptions of every theorem in Properties/ is audited on every run: all 'Closed under the global context'); "
        "the hand-written model coq/theories/Model is tied to /repo by the differential run of this check (generator "
        "coverage bounds that tie); extraction (ExtrOcamlBasic only), OCaml driver glue, Rust harness, Python generators and "
        "judges; library contracts modelled, not verified: tokio read_exact/write_all, std write_all, simdutf8::from_utf8, "
        "str::chars/slicing, block_on; usize = 64 bit.")

T = {
 'C01': ("Theorems for every valid packet value of all 14 v3 and 15 v5 types (unbounded list lengths and field sizes), "
         "both build profiles: encoding succeeds below 2^28 and decoding the bytes followed by anything returns the packet on "
         "the async and blocking front-ends and, under EVERY delivery schedule, on the poll front-end with total = length "
         "and the raw body handed back (Properties/C01.v). Correspondence: G-pkt pool through op rt, judge on the "
         "implementation's own three decodes.", "section 9, C01", "Coq proof (induction over property/topic/user-property lists, reader round-trip rewriting) + correspondence"),
 'C02': ("Theorems: bytes emitted = encode_len; remaining-length field = bytes that follow, minimal width; every separately "
         "encodable part (35 impls incl. will, protocol, every property set) writes exactly what it reports; Debug = Release "
         "(debug_assert unreachable); >= 2^28 refused with InvalidVarByteInt, everything smaller encoded; KF1 class characterised "
         "exactly (Properties/C02.v). Correspondence: op enc with all parts in both profiles, shape-only packets at the 2^28 "
         "boundary, KF1 witness re-confirmed on every run.", "section 9, C02", "Coq proof (length algebra over chunk lists) + correspondence"),
 'C03': ("PARTIAL by nature. Theorems: for every list of numbers, tail, profile: async/blocking/header/poll (every schedule) entry "
         "points of both families never reach any of the 13 panic sites and never run out of fuel (all loops terminate); strings "
         "are validated before from_utf8_unchecked; the body buffer is decoded only when full (Properties/C03.v). Not provable in "
         "Gallina: undefined behaviour of the unsafe blocks as such, allocation failure — covered only by running both profiles "
         "(exhaustive <= 2-byte inputs, structured corruptions, maximal lengths); judge rejects PANIC/TIMEOUT/crash.",
         "section 9, C03 and section 12", "Coq proof (panic-freedom + termination of the model) + differential/robustness run"),
 'C04': ("Theorems: on every complete frame the strict (poll) decoder's verdict and packet equal the independent reference "
         "parser Spec.parse (written from the OASIS texts, slicing structure, own tables, pinned leniencies L1-L12/D1-D3), "
         "v3 unconditionally, v5 as sound/complete/equal-when-integers-minimal (Properties/C04.v). Correspondence: judge = extracted "
         "Spec.parse on valid, re-spelled, faulty, mutated and random frames; Header::new_with on all 256 control bytes.",
         "section 9, C04 and section 4", "Coq proof (decoder = reference grammar on frames) + correspondence with the extracted spec as judge"),
 'C05': ("Theorems for every atom list (schedule), tail, profile, well-formed or malformed stream: result and leftover equal the "
         "one-uninterrupted-read run and every other schedule; Pending count = transport Pending count; consumed = reported "
         "total; every read asks >= 1 byte and never beyond the frame; stopping after any number of polls and resuming from the "
         "caller-held state gives the same result (Properties/C05.v). Correspondence: exhaustive compositions x Pending "
         "placements for short packets, random schedules for long/malformed ones, harness really drops/re-creates/clones.",
         "section 9, C05", "Coq proof (refinement of the poll loop to a one-byte-at-a-time semantics, induction over schedules) + correspondence"),
 'C06': ("Theorems for any byte string: poll accepts P => async and blocking return P; poll rejects with a non-I/O error other "
         "than InvalidRemainingLength => both return it; a complete frame never gives an I/O error; blocking = async with EOF "
         "mapped to incomplete (packets and headers); Debug = Release (Properties/C06.v). Correspondence: judge on the "
         "implementation's three answers over valid/spelled/faulty/mutated/random frames with suffixes.",
         "section 9, C06", "Coq proof (reader stability metatheory + poll frame characterisation) + correspondence"),
 'C07': ("Theorems for every valid packet and every cut position: blocking Ok(None), async and poll (every schedule) an error "
         "recognised by is_eof; encoding + arbitrary suffix decodes to the same packet (Properties/C07.v). Correspondence: all cut "
         "positions of the pool's encodings, random suffixes.", "section 9, C07", "Coq proof (stability: a successful run fails with the tail's error on every strict prefix) + correspondence"),
 'C08': ("Theorems for every finite sequence of valid packets: each front-end's packet-by-packet loop returns exactly the sequence "
         "with sizes = encoding lengths and then clean end of input; the poll loop on one scripted transport does so under EVERY "
         "delivery schedule of the stream; read_exact's chunk-independence derived from its loop (Properties/C08.v). "
         "Correspondence: random sequences of 1..40 packets under chunked delivery.", "section 9, C08", "Coq proof (induction over the packet list from C01 + stability) + correspondence"),
 'C09': ("Theorems: packet encoding = control byte + minimal length + streamed body chunks for all 29 types incl. the fixed-array "
         "fast paths; VarBytes exposes its bytes; encode_async under any benign sink script (partial writes, Pending) and the "
         "streaming encoder into any io::Write emit exactly those bytes (Properties/C09.v). Determinism of repeated calls is by "
         "construction in the model: carried by correspondence (op enc twice, op wr).", "section 9, C09",
         "Coq proof (write_all laws over scripted sinks) + correspondence"),
 'C10': ("Theorem: for every valid packet the independent reference parser (own tables: property ids/wire types/carriers, reason "
         "codes, flag nibbles, option layouts) recovers exactly the original from the encoder's bytes, both families "
         "(Properties/C10.v). Correspondence: the implementation's bytes are fed to the extracted Spec.parse.",
         "section 9, C10", "Coq proof (model tables = specification tables, via C04 + C01) + correspondence with the extracted spec as judge"),
 'C11': ("Theorems: every accepted packet is in the encoder's valid domain (all front-ends); a re-encoding decodes to itself; outside "
         "the KF2 class (frame overrun) the packet is encodable and no longer than the bytes consumed — always so for the poll "
         "front-end; KF2 witness proved (Properties/C11.v). Correspondence: decode, re-encode, re-decode on everything accepted from "
         "spellings, mutations, lenient framing; failures in the KF2 class reported as KNOWN-FINDING.", "section 9, C11 and section 8",
         "Coq proof (measured post-conditions: canonical length <= bytes consumed) + correspondence"),
 'C12': ("Theorems: every packet returned by any decoder of either family from any byte string satisfies types_inv (UTF-8 text, "
         "valid topic names, valid filters with the correct cached separator, non-zero pids, table-member codes, var-ints < 2^28, "
         "flagged payload UTF-8), and every decoded filter's shared-subscription accessors return the unique split without "
         "panic (Properties/C12.v). Correspondence: the harness walks every field of "
         "every decoded packet.", "section 9, C12", "Coq proof (post-condition calculus over the reader monad) + correspondence"),
 'C13': ("Theorems for every valid CONNECT of v3.1/v3.1.1/v5.0: the other family's three front-ends return UnexpectedProtocol(version) "
         "(poll: every schedule); async/blocking do so even if the transport fails right after the level byte; resuming with the "
         "matching decode_with_protocol yields the native CONNECT and consumes the rest; protocol_new accepts exactly the three "
         "pairs (Properties/C13.v). Correspondence: op cross, op proto on all 256 levels x 13 names, CONNECT frames of every level.",
         "section 9, C13", "Coq proof + correspondence"),
 'C14': ("Theorems: for every valid packet, cut position and io kind the async and poll (every schedule) decoders return IoError of "
         "that kind, EOF gives is_eof; a failing sink yields IoError of its kind after writing a prefix of the correct encoding, "
         "zero-length write gives WriteZero, Interrupted is retried by std write_all; conversions preserve the kind / map to "
         "InvalidData (Properties/C14.v). Correspondence: faults at every position, errconv tables.", "section 9, C14",
         "Coq proof (stability + sink laws) + correspondence"),
 'C15': ("Theorems over unbounded N: writer emits the minimal 1-4 byte form of the reported size, reader inverts it and reports bytes "
         "consumed, total/header/remaining length laws, rejection of >= 2^28 and of 5-byte encodings, poll header machine = standalone "
         "reader (Properties/C15.v). Correspondence: thorough = all 2^28 values hashed on both sides.", "section 9, C15",
         "Coq proof (lia over N) + correspondence"),
 'C16': ("Theorem for every UTF-8 string: TopicFilter::is_invalid = (not Spec.topic_filter_ok, Spec.share_sep) where the spec is the "
         "declarative MQTT 4.7/4.8 rule over characters; no debug-assert panic; the same function inside SUBSCRIBE/UNSUBSCRIBE "
         "(Properties/C16.v). Correspondence: bounded-exhaustive strings x prefix shapes, long strings, packets; judge = extracted "
         "spec and an independent Python rule.", "section 9, C16", "Coq proof (simulation of the 7-variable validator by the level/share grammar) + correspondence"),
 'C17': ("Theorems: accessors return the unique '$share/'+name+'/'+filter split without slicing panic, None for non-shared; "
         "re-parsing the text is the identity; eq/cmp are functions of the text (Properties/C17.v). Hash = hash of text: carried "
         "by correspondence (op tfcmp).", "section 9, C17", "Coq proof + correspondence"),
 'C18': ("Theorems: TopicName::is_invalid <=> longer than 65535 bytes or contains '+', '#', NUL (byte level and character level), "
         "try_from keeps the text, prefix tests, Response Topic uses the same predicate (Properties/C18.v). Correspondence: string "
         "pool alone and inside PUBLISH / will / Response Topic.", "section 9, C18", "Coq proof + correspondence"),
 'C19': ("Theorems for all p in 1..65535, u in 0..65535: closed form ((p-1+-u) mod 65535)+1, never 0, no panic/wrap in either "
         "profile, sub undoes add, assign operators agree, try_from fails exactly for 0 (Properties/C19.v). Correspondence: thorough "
         "= all 65535x65536 pairs x 4 operators.", "section 9, C19", "Coq proof (lia) + correspondence"),
 'C20': ("Theorems (98, Properties/C20.v generated from Proofs/Faults*.v): every catalogue row at component level (exact error "
         "variant with payload for all inputs of the row's shape; Header::new_with characterised totally) AND at whole-frame "
         "level for every valid packet of the row's shape with arbitrary trailing bytes: async, blocking and poll (every "
         "schedule) return that same error, except the documented InvalidRemainingLength / incomplete exception, which is "
         "proved too. Correspondence: the fault catalogue (gen/frames.py, expectation written from the documentation) at "
         "every applicable position, plus the complete property x packet-type carrier matrix.", "section 9, C20",
         "Coq proof (per-row classification lemmas) + fault-catalogue correspondence"),
}


def main():
    have = {p for p in T if os.path.exists(os.path.join(ROOT, 'coq', 'theories', 'Properties', p + '.v'))}
    checks, na = [], []
    for p in sorted(T):
        text, ref, tech = T[p]
        if p in have:
            checks.append({
                'property_id': p,
                'quick_cmd': 'python3 bin/check.py %s --tier quick' % p,
                'thorough_cmd': 'python3 bin/check.py %s --tier thorough' % p,
                'evidence_file': 'evidence/%s.json' % p,
                'replay_cmd_template': 'python3 bin/check.py replay {path}',
                'engine': 'coq-model-proofs',
                'level_claimed': {'category': 'proof', 'text': text, 'design_ref': 'DESIGN.md ' + ref},
                'level_note': NOTE,
                'technique': tech,
            })
        else:
            na.append({'property_id': p, 'reason': 'not claimed yet: theorem file Properties/%s.v is still being written in this session '
                                                   '(the correspondence check exists and passes)' % p})
    served = sorted(have)
    m = {
        'version': 1,
        'setup_cmd': 'sh bin/setup.sh',
        'hooks': {
            'guard': '--cfg mqtt_proto_verif (declared; no hook was needed: every observable the properties speak about is reachable through the public API)',
            'enable': 'none needed; the harness crate /verif/harness links /repo\'s working tree as a path dependency and is rebuilt by every check',
            'baseline_off_cmd': 'cd /repo && cargo test --workspace --no-fail-fast --offline',
            'source_commits': [],
            'add_only': True,
        },
        'engines': [
            {'name': 'coq-model-proofs', 'path': 'coq/',
             'kind_free_text': 'Coq 8.16.1 development: hand-written executable Gallina model of the codec (Model/), independent specification (Spec/), proofs (Proofs/), one theorem file per property (Properties/)',
             'serves_properties': served},
            {'name': 'correspondence', 'path': 'bin/check.py',
             'kind_free_text': 'differential execution: extracted model (driver/, OCaml via ExtrOcamlBasic) vs implementation (harness/, Rust crate linked against /repo) on generated cases; per-property judges',
             'serves_properties': served},
        ],
        'checks': checks,
        'not_applicable': na,
        'notes': 'See DESIGN.md. Fix commits in /repo: F1-F5 (known-findings.json "fixed"); known findings KF1 (C02), KF2 (C11).',
    }
    json.dump(m, open(os.path.join(ROOT, 'MANIFEST.json'), 'w'), indent=1)
    print('claimed:', ' '.join(served))
    print('not claimed:', ' '.join(x['property_id'] for x in na))


if __name__ == '__main__':
    main()
