#!/bin/sh
# Extract the Coq model to OCaml and build the driver.  Run after `make` in ../coq.
set -e
cd "$(dirname "$0")"
rm -rf extracted && mkdir -p extracted
( cd extracted && coqc -Q ../../coq/theories MQ ../../coq/theories/Extract/Extract.v >/dev/null )
rm -rf _build && mkdir -p _build
cp extracted/*.ml extracted/*.mli main.ml _build/
cd _build
ORDER=$(ocamlfind ocamldep -sort *.mli *.ml)
ocamlfind ocamlopt -O3 -w -a -o ../driver $ORDER 2>/dev/null || ocamlfind ocamlopt -w -a -o ../driver $ORDER
