(* driver/main.ml — runs the extracted Coq model / spec on case lines (format: /verif/FORMAT.md).
   usage: driver <debug|release> <cases> <out>
   Everything that decides behaviour is an extracted definition; this file only parses tokens,
   dispatches ops and prints results. *)
open BinNums
open Prelude
open Reader
module L = Stdlib.List
module M3 = V3.V3
module M5 = V5.V5

exception Bad of string
let bad s = raise (Bad s)

(* ---------- numbers ---------- *)
let rec pos_of_int n =
  if n = 1 then Coq_xH
  else if n land 1 = 0 then Coq_xO (pos_of_int (n lsr 1))
  else Coq_xI (pos_of_int (n lsr 1))
let n_of_int n = if n < 0 then bad "negative" else if n = 0 then N0 else Npos (pos_of_int n)
let rec int_of_pos = function
  | Coq_xH -> 1 | Coq_xO p -> 2 * int_of_pos p | Coq_xI p -> 2 * int_of_pos p + 1
let int_of_n = function N0 -> 0 | Npos p -> int_of_pos p
let byte_tab = Array.init 256 n_of_int
let rec nat_of_int n = if n = 0 then Datatypes.O else Datatypes.S (nat_of_int (n - 1))
let sn n = string_of_int (int_of_n n)
(* exact decimal for values up to 2^64 - 1 (digests) *)
let rec i64_of_pos = function
  | Coq_xH -> 1L | Coq_xO p -> Int64.shift_left (i64_of_pos p) 1 | Coq_xI p -> Int64.logor (Int64.shift_left (i64_of_pos p) 1) 1L
let n_to_string = function N0 -> "0" | Npos p -> Printf.sprintf "%Lu" (i64_of_pos p)

(* ---------- hex ---------- *)
let hexval c = match c with
  | '0'..'9' -> Char.code c - 48 | 'a'..'f' -> Char.code c - 87 | 'A'..'F' -> Char.code c - 55
  | _ -> bad "hex digit"
let bytes_of_hex (s : string) : bytes =
  let n = String.length s in
  if n = 0 || s.[0] <> 'x' || (n - 1) land 1 = 1 then bad ("hex token: " ^ s);
  let k = (n - 1) / 2 in
  let rec go i acc = if i < 0 then acc
    else go (i - 1) (byte_tab.(hexval s.[1 + 2*i] * 16 + hexval s.[2 + 2*i]) :: acc) in
  go (k - 1) []
let hexdig = "0123456789abcdef"
let hex_of_bytes (b : bytes) : string =
  let buf = Buffer.create 64 in
  Buffer.add_char buf 'x';
  L.iter (fun x -> let v = int_of_n x land 255 in
           Buffer.add_char buf hexdig.[v lsr 4]; Buffer.add_char buf hexdig.[v land 15]) b;
  Buffer.contents buf

(* ---------- token stream ---------- *)
type ts = { mutable toks : string list }
let next t = match t.toks with [] -> bad "eof" | x :: r -> t.toks <- r; x
let num t = let s = next t in (try n_of_int (int_of_string s) with Failure _ -> bad ("num: " ^ s))
let inum t = let s = next t in (try int_of_string s with Failure _ -> bad ("num: " ^ s))
let hex t = bytes_of_hex (next t)
let boolean t = match next t with "0" -> false | "1" -> true | s -> bad ("bool: " ^ s)
let opt t f = match next t with "-" -> None | "+" -> Some (f t) | s -> bad ("opt: " ^ s)
let list t f = let n = inum t in let rec go i acc = if i = 0 then L.rev acc else go (i-1) (f t :: acc) in go n []

(* ---------- building values (BADCASE when the public API could not build it) ---------- *)
let text t = let b = hex t in if Utf8.utf8_valid b then b else bad "notutf8"
let pid t = let v = num t in if int_of_n v = 0 || int_of_n v > 65535 then bad "pid" else v
let u16 t = let v = num t in if int_of_n v > 65535 then bad "u16" else v
let name t = let b = text t in (match Topic.name_try b with Ok s -> s | _ -> bad "topicname")
let filter t = let b = text t in (match Topic.filter_try Release b with Ok f -> f | _ -> bad "topicfilter")
let qos t = let v = num t in if int_of_n v > 2 then bad "qos" else v
let qospid t = let q = inum t in let p = num t in
  match q with
  | 0 -> V3.QP0
  | 1 -> if int_of_n p = 0 || int_of_n p > 65535 then bad "pid" else V3.QP1 p
  | 2 -> if int_of_n p = 0 || int_of_n p > 65535 then bad "pid" else V3.QP2 p
  | _ -> bad "qos"
let proto t = match inum t with 3 -> V310 | 4 -> V311 | 5 -> V500 | _ -> bad "proto"
let code_in tbl t = let v = num t in if L.exists (fun x -> x = v) tbl then v else bad "code"

let parse3 t : M3.packet =
  match next t with
  | "connect" ->
    let p = proto t in let cs = boolean t in let ka = u16 t in let cid = text t in
    let w = opt t (fun t -> let q = qos t in let r = boolean t in let tn = name t in let m = hex t in
                    { M3.w_qos = q; w_retain = r; w_topic = tn; w_message = m }) in
    let u = opt t text in let pw = opt t hex in
    M3.Connect { M3.c_protocol = p; c_clean = cs; c_keep_alive = ka; c_client_id = cid; c_will = w;
                 c_username = u; c_password = pw }
  | "connack" -> let sp = boolean t in let c = num t in if int_of_n c > 5 then bad "code";
    M3.Connack { M3.ca_sp = sp; ca_code = c }
  | "publish" -> let d = boolean t in let r = boolean t in let qp = qospid t in let tn = name t in let pl = hex t in
    M3.Publish { M3.p_dup = d; p_retain = r; p_qospid = qp; p_topic = tn; p_payload = pl }
  | "puback" -> M3.Puback (pid t) | "pubrec" -> M3.Pubrec (pid t) | "pubrel" -> M3.Pubrel (pid t)
  | "pubcomp" -> M3.Pubcomp (pid t) | "unsuback" -> M3.Unsuback (pid t)
  | "subscribe" -> let p = pid t in let l = list t (fun t -> let f = filter t in let q = qos t in (f, q)) in
    M3.Subscribe { M3.s_pid = p; s_topics = l }
  | "suback" -> let p = pid t in
    let l = list t (fun t -> let c = inum t in if c = 0 || c = 1 || c = 2 || c = 128 then n_of_int c else bad "code") in
    M3.Suback { M3.sa_pid = p; sa_codes = l }
  | "unsubscribe" -> let p = pid t in let l = list t filter in M3.Unsubscribe { M3.u_pid = p; u_topics = l }
  | "pingreq" -> M3.Pingreq | "pingresp" -> M3.Pingresp | "disconnect" -> M3.Disconnect
  | s -> bad ("packet: " ^ s)

let id_of_num (n : int) : Props.prop_id =
  match Props.prop_of_u8 (n_of_int n) with Some (Props.KProp id) -> id | _ -> bad "propid"

let props allowed t : Props.props =
  let fixed = list t (fun t ->
      let idn = inum t in
      let id = id_of_num idn in
      if not (Props.prop_mem id allowed) then bad "prop not in struct";
      let v = match Props.prop_wtype id with
        | Props.WBool -> let v = inum t in if v > 1 then bad "bool" else Props.VN (n_of_int v)
        | Props.WQos -> let v = inum t in if v > 2 then bad "qos" else Props.VN (n_of_int v)
        | Props.WU16 -> let v = inum t in if v > 65535 then bad "u16" else Props.VN (n_of_int v)
        | Props.WU32 -> let v = inum t in if v > 4294967295 then bad "u32" else Props.VN (n_of_int v)
        | Props.WVar -> let v = inum t in if v >= 268435456 then bad "varint" else Props.VN (n_of_int v)
        | Props.WStr -> Props.VB (text t)
        | Props.WTopic -> Props.VB (name t)
        | Props.WBin -> Props.VB (hex t) in
      (id, v)) in
  let users = list t (fun t -> let n = text t in let v = text t in (n, v)) in
  let p = L.fold_left (fun p (id, v) -> Props.pset p id (Some v)) Props.props_empty fixed in
  Props.pset_user p users

let parse5 t : M5.packet =
  let ack tbl t = let p = pid t in let c = code_in tbl t in let pr = props Props.coq_ACK_PROPS t in
    { M5.a_pid = p; a_code = c; a_props = pr } in
  let codes tbl t = let p = pid t in let pr = props Props.coq_ACK_PROPS t in let l = list t (code_in tbl) in
    { M5.sa_pid = p; sa_props = pr; sa_codes = l } in
  match next t with
  | "connect" ->
    let p = proto t in let cs = boolean t in let ka = u16 t in let pr = props Props.coq_CONNECT_PROPS t in
    let cid = text t in
    let w = opt t (fun t -> let q = qos t in let r = boolean t in let wp = props Props.coq_WILL_PROPS t in
                    let tn = name t in let m = hex t in
                    { M5.w_qos = q; w_retain = r; w_props = wp; w_topic = tn; w_payload = m }) in
    let u = opt t text in let pw = opt t hex in
    M5.Connect { M5.c_protocol = p; c_clean = cs; c_keep_alive = ka; c_props = pr; c_client_id = cid;
                 c_will = w; c_username = u; c_password = pw }
  | "connack" -> let sp = boolean t in let c = code_in M5.coq_CONNECT_CODES t in let pr = props Props.coq_CONNACK_PROPS t in
    M5.Connack { M5.ca_sp = sp; ca_code = c; ca_props = pr }
  | "publish" -> let d = boolean t in let r = boolean t in let qp = qospid t in let tn = name t in
    let pr = props Props.coq_PUBLISH_PROPS t in let pl = hex t in
    M5.Publish { M5.p_dup = d; p_retain = r; p_qospid = qp; p_topic = tn; p_props = pr; p_payload = pl }
  | "puback" -> M5.Puback (ack M5.coq_PUBACK_CODES t) | "pubrec" -> M5.Pubrec (ack M5.coq_PUBACK_CODES t)
  | "pubrel" -> M5.Pubrel (ack M5.coq_PUBREL_CODES t) | "pubcomp" -> M5.Pubcomp (ack M5.coq_PUBREL_CODES t)
  | "subscribe" -> let p = pid t in let pr = props Props.coq_SUBSCRIBE_PROPS t in
    let l = list t (fun t -> let f = filter t in let q = qos t in let nl = boolean t in let rap = boolean t in
                     let rh = inum t in if rh > 2 then bad "rh";
                     (f, { M5.o_qos = q; o_nl = nl; o_rap = rap; o_rh = n_of_int rh })) in
    M5.Subscribe { M5.s_pid = p; s_props = pr; s_topics = l }
  | "suback" -> M5.Suback (codes M5.coq_SUBACK_CODES t)
  | "unsubscribe" -> let p = pid t in let pr = props Props.coq_UNSUBSCRIBE_PROPS t in let l = list t filter in
    M5.Unsubscribe { M5.u_pid = p; u_props = pr; u_topics = l }
  | "unsuback" -> M5.Unsuback (codes M5.coq_UNSUBACK_CODES t)
  | "pingreq" -> M5.Pingreq | "pingresp" -> M5.Pingresp
  | "disconnect" -> let c = code_in M5.coq_DISCONNECT_CODES t in let pr = props Props.coq_DISCONNECT_PROPS t in
    M5.Disconnect { M5.d_code = c; d_props = pr }
  | "auth" -> let c = code_in M5.coq_AUTH_CODES t in let pr = props Props.coq_AUTH_PROPS t in
    M5.Auth { M5.d_code = c; d_props = pr }
  | s -> bad ("packet: " ^ s)

(* ---------- printing ---------- *)
let sb b = if b then "1" else "0"
let sopt f = function None -> "-" | Some x -> "+ " ^ f x
let slist f l = String.concat " " (string_of_int (L.length l) :: L.map f l)
let sqp = function V3.QP0 -> "0 0" | V3.QP1 p -> "1 " ^ sn p | V3.QP2 p -> "2 " ^ sn p
let sproto = function V310 -> "3" | V311 -> "4" | V500 -> "5"
let hx = hex_of_bytes

let show3 (p : M3.packet) : string =
  match p with
  | M3.Connect c ->
    String.concat " " ["connect"; sproto c.M3.c_protocol; sb c.M3.c_clean; sn c.M3.c_keep_alive; hx c.M3.c_client_id;
      sopt (fun w -> String.concat " " [sn w.M3.w_qos; sb w.M3.w_retain; hx w.M3.w_topic; hx w.M3.w_message]) c.M3.c_will;
      sopt hx c.M3.c_username; sopt hx c.M3.c_password]
  | M3.Connack c -> String.concat " " ["connack"; sb c.M3.ca_sp; sn c.M3.ca_code]
  | M3.Publish p -> String.concat " " ["publish"; sb p.M3.p_dup; sb p.M3.p_retain; sqp p.M3.p_qospid; hx p.M3.p_topic; hx p.M3.p_payload]
  | M3.Puback p -> "puback " ^ sn p | M3.Pubrec p -> "pubrec " ^ sn p | M3.Pubrel p -> "pubrel " ^ sn p
  | M3.Pubcomp p -> "pubcomp " ^ sn p | M3.Unsuback p -> "unsuback " ^ sn p
  | M3.Subscribe s -> String.concat " " ["subscribe"; sn s.M3.s_pid; slist (fun (f, q) -> hx f.Topic.ftext ^ " " ^ sn q) s.M3.s_topics]
  | M3.Suback s -> String.concat " " ["suback"; sn s.M3.sa_pid; slist sn s.M3.sa_codes]
  | M3.Unsubscribe u -> String.concat " " ["unsubscribe"; sn u.M3.u_pid; slist (fun f -> hx f.Topic.ftext) u.M3.u_topics]
  | M3.Pingreq -> "pingreq" | M3.Pingresp -> "pingresp" | M3.Disconnect -> "disconnect"

let sprops (p : Props.props) : string =
  let ids = L.sort (fun a b -> compare (int_of_n (Props.prop_num a)) (int_of_n (Props.prop_num b))) Props.all_prop_ids in
  let present = L.filter_map (fun id -> match Props.pget p id with
      | Some v -> Some (sn (Props.prop_num id) ^ " " ^ (match v with Props.VN n -> sn n | Props.VB b -> hx b))
      | None -> None) ids in
  slist (fun s -> s) present ^ " " ^ slist (fun (n, v) -> hx n ^ " " ^ hx v) p.Props.pr_user

let show5 (p : M5.packet) : string =
  let ack nm a = String.concat " " [nm; sn a.M5.a_pid; sn a.M5.a_code; sprops a.M5.a_props] in
  let codes nm s = String.concat " " [nm; sn s.M5.sa_pid; sprops s.M5.sa_props; slist sn s.M5.sa_codes] in
  match p with
  | M5.Connect c ->
    String.concat " " ["connect"; sproto c.M5.c_protocol; sb c.M5.c_clean; sn c.M5.c_keep_alive; sprops c.M5.c_props;
      hx c.M5.c_client_id;
      sopt (fun w -> String.concat " " [sn w.M5.w_qos; sb w.M5.w_retain; sprops w.M5.w_props; hx w.M5.w_topic; hx w.M5.w_payload]) c.M5.c_will;
      sopt hx c.M5.c_username; sopt hx c.M5.c_password]
  | M5.Connack c -> String.concat " " ["connack"; sb c.M5.ca_sp; sn c.M5.ca_code; sprops c.M5.ca_props]
  | M5.Publish p -> String.concat " " ["publish"; sb p.M5.p_dup; sb p.M5.p_retain; sqp p.M5.p_qospid; hx p.M5.p_topic;
                                        sprops p.M5.p_props; hx p.M5.p_payload]
  | M5.Puback a -> ack "puback" a | M5.Pubrec a -> ack "pubrec" a | M5.Pubrel a -> ack "pubrel" a | M5.Pubcomp a -> ack "pubcomp" a
  | M5.Subscribe s -> String.concat " " ["subscribe"; sn s.M5.s_pid; sprops s.M5.s_props;
      slist (fun (f, o) -> String.concat " " [hx f.Topic.ftext; sn o.M5.o_qos; sb o.M5.o_nl; sb o.M5.o_rap; sn o.M5.o_rh]) s.M5.s_topics]
  | M5.Suback s -> codes "suback" s | M5.Unsuback s -> codes "unsuback" s
  | M5.Unsubscribe u -> String.concat " " ["unsubscribe"; sn u.M5.u_pid; sprops u.M5.u_props; slist (fun f -> hx f.Topic.ftext) u.M5.u_topics]
  | M5.Pingreq -> "pingreq" | M5.Pingresp -> "pingresp"
  | M5.Disconnect d -> String.concat " " ["disconnect"; sn d.M5.d_code; sprops d.M5.d_props]
  | M5.Auth d -> String.concat " " ["auth"; sn d.M5.d_code; sprops d.M5.d_props]

let kinds = [| "UnexpectedEof"; "InvalidData"; "WriteZero"; "Interrupted"; "ConnectionReset"; "BrokenPipe";
               "TimedOut"; "Other"; "ConnectionAborted"; "NotConnected"; "PermissionDenied"; "WouldBlock";
               "InvalidInput"; "NotFound"; "ConnectionRefused"; "AddrInUse"; "AddrNotAvailable"; "AlreadyExists";
               "Unsupported"; "OutOfMemory" |]
let skind k = let i = int_of_n k in if i < Array.length kinds then kinds.(i) else "Unknown"
let sptype = function
  | PConnect -> "connect" | PConnack -> "connack" | PPublish -> "publish" | PPuback -> "puback"
  | PPubrec -> "pubrec" | PPubrel -> "pubrel" | PPubcomp -> "pubcomp" | PSubscribe -> "subscribe"
  | PSuback -> "suback" | PUnsubscribe -> "unsubscribe" | PUnsuback -> "unsuback" | PPingreq -> "pingreq"
  | PPingresp -> "pingresp" | PDisconnect -> "disconnect" | PAuth -> "auth"

let serr (e : err) : string =
  match e with
  | InvalidRemainingLength -> "InvalidRemainingLength" | EmptySubscription -> "EmptySubscription"
  | ZeroPid -> "ZeroPid" | InvalidQos n -> "InvalidQos " ^ sn n | InvalidConnectFlags n -> "InvalidConnectFlags " ^ sn n
  | InvalidConnackFlags n -> "InvalidConnackFlags " ^ sn n
  | InvalidConnectReturnCode n -> "InvalidConnectReturnCode " ^ sn n
  | InvalidProtocol (b, l) -> "InvalidProtocol " ^ hx b ^ " " ^ sn l
  | UnexpectedProtocol p -> "UnexpectedProtocol " ^ sproto p
  | InvalidHeader -> "InvalidHeader" | InvalidVarByteInt -> "InvalidVarByteInt"
  | InvalidTopicName b -> "InvalidTopicName " ^ hx b | InvalidTopicFilter b -> "InvalidTopicFilter " ^ hx b
  | InvalidString -> "InvalidString" | IoError k -> "IoError " ^ skind k
  | InvalidReasonCode (pt, n) -> "InvalidReasonCode " ^ sptype pt ^ " " ^ sn n
  | InvalidSubscriptionOption n -> "InvalidSubscriptionOption " ^ sn n
  | InvalidPayloadFormat -> "InvalidPayloadFormat" | InvalidResponseTopic -> "InvalidResponseTopic"
  | InvalidPropertyId n -> "InvalidPropertyId " ^ sn n | InvalidPropertyLength n -> "InvalidPropertyLength " ^ sn n
  | InvalidByteProperty (i, v) -> "InvalidByteProperty " ^ sn i ^ " " ^ sn v
  | DuplicatedProperty i -> "DuplicatedProperty " ^ sn i
  | InvalidProperty (pt, i) -> "InvalidProperty " ^ sptype pt ^ " " ^ sn i
  | InvalidWillProperty i -> "InvalidWillProperty " ^ sn i

let ssite = function
  | SiteFuel -> "fuel" | SiteQos01Expect -> "qos01" | SiteUserPropExpect -> "userprop" | SiteSubIdExpect -> "subid"
  | SitePropsLenExpect -> "propslen" | SiteControlByteUnwrap -> "cbunwrap" | SiteHeaderVarIntExpect -> "hdrvarint"
  | SiteEncodeAssert -> "encassert" | SitePollIdxAssert -> "pollidx" | SiteFilterAssert -> "filterassert"
  | SiteUnreachable -> "unreachable" | SiteSlice -> "slice" | SiteArith -> "arith"

let sout f = function Ok a -> "ok " ^ f a | Err e -> "err " ^ serr e | Panic s -> "PANIC " ^ ssite s
let sres f = function ROk (a, _) -> "ok " ^ f a | RErr e -> "err " ^ serr e | RPanic s -> "PANIC " ^ ssite s
let sbres f = function
  | Frontends.BOk a -> "ok " ^ f a | Frontends.BNone -> "none" | Frontends.BErr e -> "err " ^ serr e
  | Frontends.BPanic s -> "PANIC " ^ ssite s
let shdr (h : V3.header) = String.concat " " [sptype h.V3.h_typ; sb h.V3.h_dup; sn h.V3.h_qos; sb h.V3.h_retain; sn h.V3.h_rl]
let svb = function Types.Dynamic _ -> "dynamic" | Types.Fixed2 _ -> "fixed2" | Types.Fixed4 _ -> "fixed4"
let blen (b : bytes) = L.length b
let csv l = if l = [] then "-" else String.concat "," l

(* ---------- FNV-1a 64 ---------- *)
let fnv_off = 0xcbf29ce484222325L
let fnv_prime = 0x100000001b3L
let fnv_add (h : int64 ref) (s : string) =
  String.iter (fun c -> h := Int64.mul (Int64.logxor !h (Int64.of_int (Char.code c))) fnv_prime) s

(* ---------- a family as a first-class record ---------- *)
type 'p fam = {
  tag : string;
  parse : ts -> 'p;
  show : 'p -> string;
  hdr_new : coq_N -> coq_N -> V3.header outcome;
  hdr_dec : bytes -> V3.header res;
  dec_async : tail -> bytes -> 'p res;
  dec_block : bytes -> 'p Frontends.bres;
  poll1 : bytes -> tail -> 'p Poll.runres;
  poll_drive : Poll.atom list -> tail -> 'p Poll.runres;
  encode : 'p -> Types.varbytes outcome;
  encode_len : 'p -> coq_N outcome;
  body : 'p -> (bytes list * coq_N outcome) option;
  parts : 'p -> (string * bytes list * coq_N outcome) list;
  inv : 'p -> bool;
  valid : 'p -> bool;
  specparse : bool -> bytes -> 'p option;
}

let fam3 prof : M3.packet fam = {
  tag = "v3"; parse = parse3; show = show3;
  hdr_new = M3.header_new_with; hdr_dec = Frontends.F3.header_dec;
  dec_async = M3.decode_async prof; dec_block = Frontends.F3.dec_block prof;
  poll1 = Frontends.F3.poll1 prof; poll_drive = Frontends.F3.poll_drive prof;
  encode = M3.encode prof; encode_len = M3.encode_len;
  body = (fun p -> match M3.body_enc p with Some (c, n) -> Some (c, Ok n) | None -> None);
  parts = (fun p -> match p with
      | M3.Connect c ->
        [("proto", Types.protocol_enc c.M3.c_protocol, Ok (Types.protocol_len c.M3.c_protocol))]
        @ (match c.M3.c_will with Some w -> [("will", M3.will_enc w, Ok (M3.will_len w))] | None -> [])
      | _ -> []);
  inv = Valid.I3.types_inv; valid = Valid.I3.valid; specparse = SpecParse.SP.parse3;
}

let fam5 prof : M5.packet fam = {
  tag = "v5"; parse = parse5; show = show5;
  hdr_new = M5.header_new_with; hdr_dec = Frontends.F5.header_dec;
  dec_async = M5.decode_async prof; dec_block = Frontends.F5.dec_block prof;
  poll1 = Frontends.F5.poll1 prof; poll_drive = Frontends.F5.poll_drive prof;
  encode = M5.encode prof; encode_len = M5.encode_len;
  body = M5.body_enc;
  parts = (fun p ->
      let pr allowed ps = ("props", Props.props_enc allowed ps, Props.props_len allowed ps) in
      match p with
      | M5.Connect c ->
        [("proto", Types.protocol_enc c.M5.c_protocol, Ok (Types.protocol_len c.M5.c_protocol));
         pr Props.coq_CONNECT_PROPS c.M5.c_props]
        @ (match c.M5.c_will with
            | Some w -> [("will", M5.will_enc w, M5.will_len w);
                         ("willprops", Props.props_enc Props.coq_WILL_PROPS w.M5.w_props, Props.props_len Props.coq_WILL_PROPS w.M5.w_props)]
            | None -> [])
      | M5.Connack c -> [pr Props.coq_CONNACK_PROPS c.M5.ca_props]
      | M5.Publish p -> [pr Props.coq_PUBLISH_PROPS p.M5.p_props]
      | M5.Puback a | M5.Pubrec a | M5.Pubrel a | M5.Pubcomp a -> [pr Props.coq_ACK_PROPS a.M5.a_props]
      | M5.Subscribe s -> [pr Props.coq_SUBSCRIBE_PROPS s.M5.s_props]
      | M5.Suback s | M5.Unsuback s -> [pr Props.coq_ACK_PROPS s.M5.sa_props]
      | M5.Unsubscribe u -> [pr Props.coq_UNSUBSCRIBE_PROPS u.M5.u_props]
      | M5.Disconnect d -> [pr Props.coq_DISCONNECT_PROPS d.M5.d_props]
      | M5.Auth d -> [pr Props.coq_AUTH_PROPS d.M5.d_props]
      | _ -> []);
  inv = Valid.I5.types_inv; valid = Valid.I5.valid; specparse = SpecParse.SP.parse5;
}

let tail_of s = if s = "eof" then TEof
  else if String.length s > 1 && (s.[0] = 'k' || s.[0] = 'o') then TFail (n_of_int (int_of_string (String.sub s 1 (String.length s - 1))))
  else bad "tail"

let atoms_of s : Poll.atom list =
  if s = "-" then [] else
  L.map (fun a ->
      if a = "c" then Poll.ACut else if a = "p" then Poll.APend
      else if String.length a = 3 && a.[0] = 'b' then Poll.AB (byte_tab.(hexval a.[1] * 16 + hexval a.[2]))
      else bad "atom") (String.split_on_char '.' s)

let script_of s : Frontends.wstep list =
  if s = "-" then [] else
  L.map (fun a ->
      let arg () = int_of_string (String.sub a 1 (String.length a - 1)) in
      match a.[0] with
      | 'a' -> Frontends.WAccept (n_of_int (arg ()))
      | 'p' -> Frontends.WPend
      | 'z' -> Frontends.WZero
      | 'f' -> Frontends.WFail (n_of_int (arg ()))
      | _ -> bad "script") (String.split_on_char '.' s)

(* poll result fields: poll=RES(PKT);ptotal;pbody;pused *)
let poll_fields (f : 'p fam) (d : bytes) (r : 'p Poll.runres) : string * string * string * string =
  let used = blen d - blen (Poll.bytes_of r.Poll.rr_rest) in
  match r.Poll.rr_res with
  | None -> ("PANIC fuel", "-", "-", string_of_int used)
  | Some (Ok ((total, body), p)) -> ("ok " ^ f.show p, sn total, hx body, string_of_int used)
  | Some (Err e) -> ("err " ^ serr e, "-", "-", string_of_int used)
  | Some (Panic s) -> ("PANIC " ^ ssite s, "-", "-", string_of_int used)

let async_fields (f : 'p fam) (d : bytes) (t : tail) : string * string * 'p option =
  match f.dec_async t d with
  | ROk (p, rest) -> ("ok " ^ f.show p, string_of_int (blen d - blen rest), Some p)
  | RErr e -> ("err " ^ serr e, (match e with IoError _ -> string_of_int (blen d) | _ -> "?"), None)
  | RPanic s -> ("PANIC " ^ ssite s, "?", None)

(* all three decoders accept `d` and return p (poll: total = length) *)
let redecodes (f : 'p fam) (d : bytes) (p : 'p) : bool =
  (match f.dec_block d with Frontends.BOk q -> q = p | _ -> false)
  && (match f.dec_async TEof d with ROk (q, _) -> q = p | _ -> false)
  && (match (f.poll1 d TEof).Poll.rr_res with
      | Some (Ok ((total, _), q)) -> q = p && int_of_n total = blen d | _ -> false)

let reenc (f : 'p fam) (p : 'p) : string =
  let e = f.encode p in
  let l = sout sn (f.encode_len p) in
  match e with
  | Ok vb -> let b = Types.as_ref vb in
    Printf.sprintf "ok %s,%s,%s" (hx b) l (if redecodes f b p then "1" else "0")
  | Err e -> Printf.sprintf "err %s,%s,-" (serr e) l
  | Panic s -> Printf.sprintf "PANIC %s,%s,-" (ssite s) l

let enc_fields (f : 'p fam) (p : 'p) : string * string * bytes option =
  let e = f.encode p in
  let es = sout (fun vb -> svb vb ^ " " ^ hx (Types.as_ref vb)) e in
  let ls = sout sn (f.encode_len p) in
  (es, ls, (match e with Ok vb -> Some (Types.as_ref vb) | _ -> None))

let sfinal = function Stream.FNone -> "none" | Stream.FErr e -> "err " ^ serr e | Stream.FPanic s -> "PANIC " ^ ssite s

let fam_ops : 'p. 'p fam -> profile -> string -> ts -> string = fun f prof op t ->
  match op with
  | "hdr" -> let b = num t in let rl = num t in sout shdr (f.hdr_new b rl)
  | "enc" ->
    let p = f.parse t in
    let (es, ls, eb) = enc_fields f p in
    let (bs, bl) = match f.body p with
      | Some (chunks, n) -> (hx (L.concat chunks), (match n with Ok n -> sn n | Err e -> "err " ^ serr e | Panic _ -> "PANIC"))
      | None -> ("-", "-") in
    let parts = f.parts p in
    let ps = if parts = [] then "-" else
        String.concat "," (L.map (fun (nm, chunks, n) ->
            nm ^ ":" ^ hx (L.concat chunks) ^ ":" ^ (match n with Ok n -> sn n | _ -> "PANIC")) parts) in
    let asy = match eb with Some b -> "ok " ^ hx b
                          | None -> (match f.encode p with Err e -> "err " ^ serr e | Panic s -> "PANIC " ^ ssite s | Ok _ -> "?") in
    (* vbcf: a VarBytes overwritten in place by clone_from is the source — a value, in the model *)
    Printf.sprintf "enc=%s;len=%s;body=%s;blen=%s;parts=%s;async=%s;vbcf=%s" es ls bs bl ps asy (match eb with Some _ -> "1" | None -> "-")
  | "rt" ->
    let p = f.parse t in
    let (es, ls, eb) = enc_fields f p in
    (match eb with
     | None -> Printf.sprintf "enc=%s;len=%s;block=-;async=-;aused=-;poll=-;ptotal=-;pbody=-;pused=-" es ls
     | Some d ->
       let (a, au, _) = async_fields f d TEof in
       let (pr, pt, pb, pu) = poll_fields f d (f.poll1 d TEof) in
       Printf.sprintf "enc=%s;len=%s;block=%s;async=%s;aused=%s;poll=%s;ptotal=%s;pbody=%s;pused=%s"
         es ls (sbres f.show (f.dec_block d)) a au pr pt pb pu)
  | "hdrdec" ->
    (* Header::decode is block_on(Header::decode_async) over the slice: one model function *)
    let d = hex t in
    let h = sres shdr (f.hdr_dec d) in
    Printf.sprintf "block=%s;async=%s" h h
  | "dec" ->
    let d = hex t in
    let h = sres shdr (f.hdr_dec d) in
    let b = f.dec_block d in
    let (a, au, ap) = async_fields f d TEof in
    let r = f.poll1 d TEof in
    let (pr, pt, pb, pu) = poll_fields f d r in
    let ext = function
      | Some p -> ((if f.inv p then "ok" else "fail:model"), reenc f p)
      | None -> ("-", "-") in
    let (bi, bre) = ext (match b with Frontends.BOk p -> Some p | _ -> None) in
    let (ai, are) = ext ap in
    let (pi, pre) = ext (match r.Poll.rr_res with Some (Ok (_, p)) -> Some p | _ -> None) in
    Printf.sprintf "hdr=%s;block=%s;async=%s;aused=%s;poll=%s;ptotal=%s;pbody=%s;pused=%s;binv=%s;bre=%s;ainv=%s;are=%s;pinv=%s;pre=%s"
      h (sbres f.show b) a au pr pt pb pu bi bre ai are pi pre
  | "sched" | "schedi" ->
    let atoms = atoms_of (next t) in
    let tl = tail_of (next t) in
    let r = f.poll_drive atoms tl in
    let total_bytes = blen (Poll.bytes_of atoms) in
    let used = total_bytes - blen (Poll.bytes_of r.Poll.rr_rest) in
    let (res, tot, body) = match r.Poll.rr_res with
      | None -> ("PANIC fuel", "-", "-")
      | Some (Ok ((total, body), p)) -> ("ok " ^ f.show p, sn total, hx body)
      | Some (Err e) -> ("err " ^ serr e, "-", "-")
      | Some (Panic s) -> ("PANIC " ^ ssite s, "-", "-") in
    let caps = L.map (function Poll.EvData (c, _) | Poll.EvPend c | Poll.EvTail c -> sn c) r.Poll.rr_trace in
    let sizes = L.map (function Poll.EvData (_, s) -> sn s | Poll.EvPend _ -> "P" | Poll.EvTail _ -> "T") r.Poll.rr_trace in
    Printf.sprintf "res=%s;total=%s;body=%s;used=%d;pend=%s;rpend=%s;caps=%s;sizes=%s;wake=ok"
      res tot body used (sn r.Poll.rr_pend) (sn r.Poll.rr_pend) (csv caps) (csv sizes)
  | "stream" ->
    let fe = next t in
    let d = hex t in
    let _chunk = inum t in
    let fuel = nat_of_int (blen d + 1) in
    let (l, fin) = match fe with
      | "async" -> Stream.stream_async f.dec_async fuel TEof d []
      | "block" -> Stream.stream_block f.dec_async f.encode_len fuel d []
      | "poll" -> Stream.stream_poll f.poll1 fuel TEof d []
      | _ -> bad "fe" in
    Printf.sprintf "n=%d;sizes=%s;final=%s;pkts=%s" (L.length l) (csv (L.map (fun (_, n) -> sn n) l)) (sfinal fin)
      (if l = [] then "-" else String.concat "|" (L.map (fun (p, _) -> f.show p) l))
  | "faultr" ->
    let fe = next t in
    let d = hex t in
    let k = inum t in
    let tl = tail_of (next t) in
    let pre = L.filteri (fun i _ -> i < k) d in
    let (res, e) = match fe with
      | "async" -> (match f.dec_async tl pre with
          | ROk (p, _) -> ("ok " ^ f.show p, None) | RErr e -> ("err " ^ serr e, Some e) | RPanic s -> ("PANIC " ^ ssite s, None))
      | "poll" -> (match (f.poll1 pre tl).Poll.rr_res with
          | Some (Ok (_, p)) -> ("ok " ^ f.show p, None) | Some (Err e) -> ("err " ^ serr e, Some e)
          | Some (Panic s) -> ("PANIC " ^ ssite s, None) | None -> ("PANIC fuel", None))
      | _ -> bad "fe" in
    Printf.sprintf "res=%s;iseof=%s" res (match e with Some e -> sb (is_eof e) | None -> "-")
  | "wr" ->
    let entry = next t in
    let p = f.parse t in
    let script = script_of (next t) in
    let r = match entry with
      | "async" -> Frontends.encode_async_with (f.encode p) script
      | "stream" -> (match f.body p with Some (chunks, _) -> Frontends.encode_stream_with chunks script | None -> bad "bodiless")
      | _ -> bad "entry" in
    Printf.sprintf "res=%s;written=%s;calls=%s"
      (match r.Frontends.w_ok with Ok () -> "ok" | Err e -> "err " ^ serr e | Panic s -> "PANIC " ^ ssite s)
      (hx r.Frontends.w_written) (sn r.Frontends.w_calls)
  | "vi_poll" ->
    let d = byte_tab.(0x30) :: hex t in
    let tl = tail_of (next t) in
    let r = f.poll1 d tl in
    let res = match r.Poll.rr_res with
      | Some (Ok ((total, _), _)) -> "ok " ^ sn total | Some (Err e) -> "err " ^ serr e
      | Some (Panic s) -> "PANIC " ^ ssite s | None -> "PANIC fuel" in
    let st = match r.Poll.rr_state with
      | Poll.SHeader (cb, vidx, vint) -> Printf.sprintf "header %s %s %s" (match cb with None -> "-" | Some b -> sn b) (sn vidx) (sn vint)
      | Poll.SBody (h, total, idx, _) ->
        let ok = (match r.Poll.rr_res with Some (Ok _) -> true | _ -> false) in
        Printf.sprintf "body %s %s %s %s" (sn h.V3.h_rl) (sn total) (sn idx) (if ok then "0" else sn h.V3.h_rl) in
    Printf.sprintf "res=%s;state=%s" res st
  | "specparse" ->
    let d = hex t in
    (match f.specparse true d with Some p -> "ok " ^ f.show p | None -> "reject")
  | "specparse_lenient" ->
    let d = hex t in
    (match f.specparse false d with Some p -> "ok " ^ f.show p | None -> "reject")
  | "valid" ->
    let p = f.parse t in
    Printf.sprintf "valid=%s;inv=%s" (sb (f.valid p)) (sb (f.inv p))
  | _ -> bad ("op: " ^ op)

(* the fixed error table of errconv *)
let err_table : err array =
  Array.append
    [| InvalidRemainingLength; EmptySubscription; ZeroPid; InvalidQos (n_of_int 3); InvalidConnectFlags (n_of_int 1);
       InvalidConnackFlags (n_of_int 2); InvalidConnectReturnCode (n_of_int 6);
       InvalidProtocol ([n_of_int 120], n_of_int 9); UnexpectedProtocol V500; InvalidHeader; InvalidVarByteInt;
       InvalidTopicName [n_of_int 43]; InvalidTopicFilter []; InvalidString |]
    (Array.init 20 (fun i -> IoError (n_of_int i)))

let run_case (prof : profile) (line : string) : string =
  let t = { toks = L.filter (fun s -> s <> "") (String.split_on_char ' ' line) } in
  let op = next t in
  let pnum o = match o with Ok n -> sn n | Err e -> "err " ^ serr e | Panic _ -> "PANIC" in
  match op with
  | "pid_add" -> let p = num t in let u = num t in pnum (Types.pid_add prof p u)
  | "pid_sub" -> let p = num t in let u = num t in pnum (Types.pid_sub prof p u)
  | "pid_addassign" -> let p = num t in let u = num t in pnum (Types.pid_add_assign prof p u)
  | "pid_subassign" -> let p = num t in let u = num t in pnum (Types.pid_sub_assign prof p u)
  | "pid_try" -> sout sn (Types.pid_try (num t))
  | "pid_range" ->
    let p0 = inum t in let p1 = inum t in
    let h = ref fnv_off in
    let us = Array.init 65536 n_of_int in
    for p = p0 to p1 do
      if p <> 0 then begin
        let pn = n_of_int p in
        for u = 0 to 65535 do
          let un = us.(u) in
          fnv_add h (Printf.sprintf "%d %d %s %s %s %s\n" p u
                       (pnum (Types.pid_add prof pn un)) (pnum (Types.pid_sub prof pn un))
                       (pnum (Types.pid_add_assign prof pn un)) (pnum (Types.pid_sub_assign prof pn un)))
        done
      end
    done;
    Printf.sprintf "%016Lx" !h
  | "vi_len" -> sout sn (VarInt.var_int_len (num t))
  | "vi_total" -> sout sn (VarInt.total_len (num t))
  | "vi_hlen" -> sn (VarInt.header_len (num t))
  | "vi_rlen" -> pnum (VarInt.remaining_len prof (num t))
  | "vi_try" -> sout sn (VarInt.var_byte_int_try (num t))
  | "vi_write" -> let n = num t in if int_of_n n >= 268435456 then "BADCASE varint" else hx (VarInt.write_var_int n)
  | "vi_read" ->
    let d = hex t in
    (match VarInt.decode_var_int TEof d with
     | ROk ((v, k), _) -> "ok " ^ sn v ^ " " ^ sn k | RErr e -> "err " ^ serr e | RPanic s -> "PANIC " ^ ssite s)
  | "vi_range" ->
    let lo = inum t in let hi = inum t in
    let h = ref fnv_off in
    for n = lo to hi - 1 do
      let nn = n_of_int n in
      let total = match VarInt.total_len nn with Ok x -> x | _ -> N0 in
      let w = VarInt.write_var_int nn in
      let (rv, rc) = match VarInt.decode_var_int TEof w with ROk ((v, k), _) -> (sn v, sn k) | _ -> ("err", "err") in
      fnv_add h (Printf.sprintf "%d %s %s %s %s %s %s %s\n" n (pnum (VarInt.var_int_len nn)) (sn total)
                   (sn (VarInt.header_len total)) (pnum (VarInt.remaining_len prof total)) (hx w) rv rc)
    done;
    Printf.sprintf "%016Lx" !h
  | "tn" ->
    let s = hex t in
    if not (Utf8.utf8_valid s) then "notutf8" else
      let inv = Topic.name_is_invalid s in
      (match Topic.name_try s with
       | Ok s' -> Printf.sprintf "inv=%s;try=ok;deref=%s;str=%s;shared=%s;sys=%s;cf=1" (sb inv) (sb (s' = s)) (sb (s' = s))
                    (sb (Topic.name_is_shared s')) (sb (Topic.name_is_sys s'))
       | Err (InvalidTopicName s') when s' = s -> Printf.sprintf "inv=%s;try=err;deref=-;str=-;shared=-;sys=-;cf=-" (sb inv)
       | _ -> Printf.sprintf "inv=%s;try=bad;deref=-;str=-;shared=-;sys=-;cf=-" (sb inv))
  | "tf" ->
    let s = hex t in
    if not (Utf8.utf8_valid s) then "notutf8" else
      let inv = match Topic.filter_is_invalid prof s with
        | Ok (b, n) -> sb b ^ "," ^ sn n | Err e -> "err " ^ serr e | Panic _ -> "PANIC" in
      let oh = function Ok None -> "-" | Ok (Some b) -> hx b | Err _ -> "ERR" | Panic _ -> "PANIC" in
      (match Topic.filter_try prof s with
       | Ok f ->
         (* d3/d5: the filter decoded from a SUBSCRIBE / UNSUBSCRIBE is filter_try of the same text (V3/V5 decode) *)
         let d = Printf.sprintf "1%s,%s,%s" (sb (Topic.filter_is_shared f)) (oh (Topic.shared_group_name f)) (oh (Topic.shared_filter f)) in
         Printf.sprintf "inv=%s;try=ok;deref=%s;str=%s;shared=%s;sys=%s;group=%s;filter=%s;info=%s;d3=%s;d5=%s" inv
           (sb (f.Topic.ftext = s)) (sb (f.Topic.ftext = s)) (sb (Topic.filter_is_shared f)) (sb (Topic.filter_is_sys f))
           (oh (Topic.shared_group_name f)) (oh (Topic.shared_filter f))
           (match Topic.shared_info f with Ok None -> "-" | Ok (Some (a, b)) -> hx a ^ "," ^ hx b | Err _ -> "ERR" | Panic _ -> "PANIC") d d
       | Err (InvalidTopicFilter s') when s' = s ->
         Printf.sprintf "inv=%s;try=err;deref=-;str=-;shared=-;sys=-;group=-;filter=-;info=-;d3=-;d5=-" inv
       | Panic _ -> Printf.sprintf "inv=%s;try=PANIC;deref=-;str=-;shared=-;sys=-;group=-;filter=-;info=-;d3=-;d5=-" inv
       | _ -> Printf.sprintf "inv=%s;try=bad;deref=-;str=-;shared=-;sys=-;group=-;filter=-;info=-;d3=-;d5=-" inv)
  | "tfcmp" ->
    let a = hex t in let b = hex t in
    if not (Utf8.utf8_valid a && Utf8.utf8_valid b) then "invalid" else
      (match Topic.filter_try prof a, Topic.filter_try prof b with
       | Ok fa, Ok fb ->
         let oh = function Ok None -> "-" | Ok (Some b) -> hx b | Err _ -> "ERR" | Panic _ -> "PANIC" in
         let c = Topic.filter_cmp fa fb in
         let cs = (match c with Datatypes.Lt -> "lt" | Datatypes.Eq -> "eq" | Datatypes.Gt -> "gt") in
         let e = Topic.filter_eq fa fb in
         (* != , partial_cmp and < <= > >= are by definition those of eq / cmp; clone_from yields the source *)
         Printf.sprintf "eq=%s;cmp=%s;hasheq=1;ne=%s;pcmp=%s;rel=%s%s%s%s;cf=11%s,%s,%s" (sb e) cs (sb (not e)) cs
           (sb (c = Datatypes.Lt)) (sb (c <> Datatypes.Gt)) (sb (c = Datatypes.Gt)) (sb (c <> Datatypes.Lt))
           (sb (Topic.filter_is_shared fb)) (oh (Topic.shared_group_name fb)) (oh (Topic.shared_filter fb))
       | _ -> "invalid")
  | "spec_tn" -> let s = hex t in if not (Utf8.utf8_valid s) then "notutf8" else sb (SpecTopic.Spec.topic_name_ok s)
  | "spec_tf" -> let s = hex t in if not (Utf8.utf8_valid s) then "notutf8" else
      Printf.sprintf "%s,%s" (sb (SpecTopic.Spec.topic_filter_ok s)) (sn (SpecTopic.Spec.share_sep s))
  | "willdec" ->
    let d = hex t in
    (match M5.will_decode (n_of_int 1) false TEof d with
     | ROk (w, rest) -> Printf.sprintf "res=ok;inv=%s;used=%d" (if Valid.I5.will_inv w then "ok" else "fail:model") (blen d - blen rest)
     | RErr e -> Printf.sprintf "res=err %s;inv=-;used=?" (serr e)
     | RPanic _ -> "res=PANIC;inv=-;used=?")
  | "proto" -> let nm = hex t in let lvl = num t in sout sproto (Types.protocol_new nm lvl)
  | "protoenc" -> let p = proto t in hx (L.concat (Types.protocol_enc p)) ^ " " ^ sn (Types.protocol_len p)
  | "code" ->
    let tbl = next t in let b = num t in
    let opt_tbl l = if M5.mem_n b l then "ok " ^ sn b else "none" in
    (match tbl with
     | "qos" -> sout sn (Types.qos_of_u8 b)
     | "crc3" -> sout sn (M3.connect_return_code_of_u8 b)
     | "src3" -> sout sn (M3.subscribe_return_code_of_u8 b)
     | "connect5" -> opt_tbl M5.coq_CONNECT_CODES | "disconnect5" -> opt_tbl M5.coq_DISCONNECT_CODES
     | "auth5" -> opt_tbl M5.coq_AUTH_CODES | "puback5" | "pubrec5" -> opt_tbl M5.coq_PUBACK_CODES
     | "pubrel5" | "pubcomp5" -> opt_tbl M5.coq_PUBREL_CODES | "subscribe5" -> opt_tbl M5.coq_SUBACK_CODES
     | "unsubscribe5" -> opt_tbl M5.coq_UNSUBACK_CODES
     | "rh5" -> if int_of_n b < 3 then "ok " ^ sn b else "none"
     | "propid5" -> (match Props.prop_of_u8 b with Some _ -> "ok " ^ sn b | None -> "err InvalidPropertyId " ^ sn b)
     | _ -> bad "table")
  | "errconv" ->
    (match next t with
     | "from_io" -> let k = num t in let e = from_io k in
       Printf.sprintf "v3=%s;v5=%s;eof3=%s;eof5=%s" (serr e) (serr e) (sb (is_eof e)) (sb (is_eof e))
     | "to_io" -> let i = inum t in let e = err_table.(i) in Printf.sprintf "%s;eof=%s" (skind (to_io e)) (sb (is_eof e))
     | "v5_common" -> let i = inum t in let e = err_table.(i) in Printf.sprintf "%s;eof=%s" (serr e) (sb (is_eof e))
     | _ -> bad "errconv")
  | "big" ->
    let fam = next t in
    (match next t with "publish" -> () | _ -> bad "big-kind");
    let tl = num t in let q = num t in let pl = num t in
    let r = if fam = "v3" then M3.encode_shape (M3.publish_shape_len tl q pl)
      else M5.encode_shape (M5.publish_shape_len tl q N0 pl) in
    Printf.sprintf "len=%s;enc=%s" (sout sn r) (sout sn r)
  | "kf3" ->
    (* v3 SUBSCRIBE with n entries sharing one 65535-byte filter: body = pid + n * (2 + 65535 + 1) *)
    let n = inum t in
    let body = BinNat.N.add (n_of_int 2) (BinNat.N.mul (n_of_int n) (n_of_int 65538)) in
    let r = M3.encode_shape body in
    Printf.sprintf "len=%s;enc=%s" (sout sn r) (sout sn r)
  | "kf1" ->
    let n = inum t in
    let body = n_of_int (n * (5 + 2 * 65535)) in
    let r = M5.encode_shape (M5.ack_shape_len body) in
    Printf.sprintf "len=%s;enc=%s" (sout sn r) (sout sn r)
  | "cross" ->
    let fam = next t in
    let d = hex t in
    let go : 'p. 'p fam -> string = fun f ->
      let (a, au, _) = async_fields f d TEof in
      let (pr, _, _, _) = poll_fields f d (f.poll1 d TEof) in
      Printf.sprintf "block=%s;async=%s;aused=%s;poll=%s" (sbres f.show (f.dec_block d)) a au pr in
    let first = if fam = "v3" then go (fam3 prof) else go (fam5 prof) in
    let resume =
      match VarInt.decode_raw_header TEof d with
      | RErr e -> ("err " ^ serr e, "?") | RPanic _ -> ("PANIC", "?")
      | ROk ((b, rl), rest) ->
        (match Types.protocol_decode TEof rest with
         | RErr e -> ("err " ^ serr e, "?") | RPanic _ -> ("PANIC", "?")
         | ROk (pr, rest2) ->
           let used r = string_of_int (blen d - blen r) in
           (match pr with
            | V500 ->
              (match M5.header_new_with b rl with
               | Ok h -> (match M5.connect_decode_with_protocol h pr TEof rest2 with
                   | ROk (c, r) -> ("ok v5 " ^ show5 (M5.Connect c), used r)
                   | RErr e -> ("err " ^ serr e, "?") | RPanic _ -> ("PANIC", "?"))
               | Err e -> ("err " ^ serr e, "?") | Panic _ -> ("PANIC", "?"))
            | _ ->
              (match M3.connect_decode_with_protocol pr TEof rest2 with
               | ROk (c, r) -> ("ok v3 " ^ show3 (M3.Connect c), used r)
               | RErr e -> ("err " ^ serr e, "?") | RPanic _ -> ("PANIC", "?")))) in
    let wrong =
      match VarInt.decode_raw_header TEof d with
      | RErr e -> "err " ^ serr e | RPanic _ -> "PANIC"
      | ROk ((b, rl), rest) ->
        (match Types.protocol_decode TEof rest with
         | RErr e -> "err " ^ serr e | RPanic _ -> "PANIC"
         | ROk (pr, rest2) ->
           (match pr with
            | V500 ->
              (match M3.connect_decode_with_protocol pr TEof rest2 with
               | ROk (c, _) -> "ok v3 " ^ show3 (M3.Connect c)
               | RErr e -> "err " ^ serr e | RPanic _ -> "PANIC")
            | _ ->
              (match M5.header_new_with b rl with
               | Ok h -> (match M5.connect_decode_with_protocol h pr TEof rest2 with
                   | ROk (c, _) -> "ok v5 " ^ show5 (M5.Connect c)
                   | RErr e -> "err " ^ serr e | RPanic _ -> "PANIC")
               | Err e -> "err " ^ serr e | Panic _ -> "PANIC"))) in
    (* poll front-end of the family under test on the whole slice; when it refuses, continue on the body it retained *)
    let retained : 'p. 'p fam -> bytes option = fun f ->
      let r = f.poll1 d TEof in
      (match r.Poll.rr_res with
       | Some (Err _) ->
         (match r.Poll.rr_state with
          | Poll.SBody (h, _, idx, buf) when int_of_n idx = L.length buf && buf <> [] -> Some buf
          | _ -> None)
       | _ -> None) in
    let refused : 'p. 'p fam -> bool = fun f ->
      (match (f.poll1 d TEof).Poll.rr_res with Some (Err _) -> true | _ -> false) in
    let is_refused = if fam = "v3" then refused (fam3 prof) else refused (fam5 prof) in
    let body = if fam = "v3" then retained (fam3 prof) else retained (fam5 prof) in
    let presume =
      if not is_refused then "-" else
      match body with
      | None -> "lost"
      | Some buf ->
        (match VarInt.decode_raw_header TEof d with
         | RErr _ | RPanic _ -> "-"
         | ROk ((b, rl), _) ->
           (match Types.protocol_decode TEof buf with
            | RErr e -> "err " ^ serr e | RPanic _ -> "PANIC"
            | ROk (pr, rest2) ->
              (match pr with
               | V500 ->
                 (match M5.header_new_with b rl with
                  | Ok h -> (match M5.connect_decode_with_protocol h pr TEof rest2 with
                      | ROk (c, _) -> "ok v5 " ^ show5 (M5.Connect c)
                      | RErr e -> "err " ^ serr e | RPanic _ -> "PANIC")
                  | Err e -> "err " ^ serr e | Panic _ -> "PANIC")
               | _ ->
                 (match M3.connect_decode_with_protocol pr TEof rest2 with
                  | ROk (c, _) -> "ok v3 " ^ show3 (M3.Connect c)
                  | RErr e -> "err " ^ serr e | RPanic _ -> "PANIC")))) in
    Printf.sprintf "%s;resume=%s;rused=%s;wrong=%s;presume=%s" first (fst resume) (snd resume) wrong presume
  | "digest" ->
    let fam = next t in
    let d = hex t in
    let l = (match fam with "v3" -> Digest.digest3 prof d | "v5" -> Digest.digest5 prof d | s -> bad ("fam: " ^ s)) in
    String.concat "," (L.map n_to_string l)
  | _ ->
    (match next t with
     | "v3" -> fam_ops (fam3 prof) prof op t
     | "v5" -> fam_ops (fam5 prof) prof op t
     | s -> bad ("fam: " ^ s))

let () =
  let prof = match Sys.argv.(1) with "debug" -> Debug | "release" -> Release | _ -> failwith "profile" in
  let ic = open_in Sys.argv.(2) in
  let oc = open_out Sys.argv.(3) in
  (try
     while true do
       let line = input_line ic in
       let out = try run_case prof line with
         | Bad s -> "BADCASE " ^ s
         | Stack_overflow -> "BADCASE stackoverflow"
         | Invalid_argument s -> "BADCASE " ^ s
         | Failure s -> "BADCASE " ^ s
         | Not_found -> "BADCASE notfound" in
       output_string oc out; output_char oc '\n'
     done
   with End_of_file -> ());
  close_out oc
